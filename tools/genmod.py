#!/usr/bin/env python3
"""Generate /verif/harness/go.mod + go.sum from /repo/go.mod (offline, no fetch)."""
import re, shutil, sys, os
repo = os.environ.get("VERIF_REPO", "/repo")
src = open(f"{repo}/go.mod").read()
gover = re.search(r"^go\s+(\S+)", src, re.M).group(1)
reqs = re.findall(r"^require \((.*?)^\)", src, re.M | re.S)
out = ["module verifharness", "", f"go {gover}", ""]
out.append("require github.com/openGemini/openGemini v0.0.0")
for r in reqs:
    out.append("require (" + r + ")")
out.append("replace (")
out.append(f"\tgithub.com/openGemini/openGemini => {repo}")
out.append(f"\tgithub.com/VictoriaMetrics/VictoriaMetrics => {repo}/lib/util/lifted/VictoriaMetrics")
out.append(f"\tgithub.com/influxdata/influxdb => {repo}/lib/util/lifted/influxdb")
out.append(")")
hdir = os.environ.get("VERIF_HARNESS_DIR") or os.path.join(os.path.dirname(os.path.abspath(__file__)), "..", "harness")
open(os.path.join(hdir, "go.mod"), "w").write("\n".join(out) + "\n")
shutil.copy(f"{repo}/go.sum", os.path.join(hdir, "go.sum"))
print("go.mod generated for go", gover)
