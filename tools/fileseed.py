#!/usr/bin/env python3
"""tools/fileseed.py <src-dir> <seed-id> <status> <detected_by> [note]: files a confirmed seeded change under /verif/seeded/<seed-id>/
(patch.diff, demonstration, meta.json extended with what was run here and which check catches it)."""
import json, os, shutil, sys
ROOT = os.path.dirname(os.path.dirname(os.path.abspath(__file__)))
src, sid, status, by = sys.argv[1:5]
note = sys.argv[5] if len(sys.argv) > 5 else ""
dst = os.path.join(ROOT, "seeded", sid)
os.makedirs(dst, exist_ok=True)
for f in os.listdir(src):
    if f != "TASK.md":
        p = os.path.join(src, f)
        if os.path.isfile(p):
            shutil.copy(p, dst)
m = json.load(open(os.path.join(dst, "meta.json")))
m["breaks_property"] = m.get("property")
m["confirmed_here"] = ("tools/seedcheck.sh (scratch worktree of /repo HEAD: demonstration passes without the patch, the tree builds with it, "
                       "the demonstration fails with it)")
m["verif_status"] = status          # caught | missed | caught-after-strengthening
m["detected_by"] = by               # e.g. "./check C11 --tier quick (VERIF_REPO=<worktree with the patch>): exit 1"
if note:
    m["verif_note"] = note
json.dump(m, open(os.path.join(dst, "meta.json"), "w"), indent=1)
print("filed", dst)
