#!/usr/bin/env python3
"""Injects props/cNN.asbuilt.md into DESIGN.md between the markers <!-- asbuilt:CNN --> ... <!-- /asbuilt:CNN -->
and props/findings_table.md / seeded table between their markers."""
import os, re, json, glob
ROOT = os.path.dirname(os.path.dirname(os.path.abspath(__file__)))
p = os.path.join(ROOT, "DESIGN.md")
s = open(p).read()
for n in range(1, 21):
    pid = "C%02d" % n
    f = os.path.join(ROOT, "props", pid.lower() + ".asbuilt.md")
    body = open(f).read().strip() + "\n" if os.path.exists(f) else "*(not built yet)*\n"
    s, k = re.subn(r"<!-- asbuilt:%s -->\n.*?<!-- /asbuilt:%s -->" % (pid, pid),
                   lambda m: "<!-- asbuilt:%s -->\n%s<!-- /asbuilt:%s -->" % (pid, body, pid), s, flags=re.S)
    assert k == 1, pid
def inject(tag, body):
    global s
    s, k = re.subn(r"<!-- %s -->\n.*?<!-- /%s -->" % (tag, tag), lambda m: "<!-- %s -->\n%s<!-- /%s -->" % (tag, body, tag), s, flags=re.S)
    return k
# seeded changes table
rows = ["| seed | property | what it needs to manifest | status | detected by |", "|---|---|---|---|---|"]
for d in sorted(glob.glob(os.path.join(ROOT, "seeded", "*", "meta.json"))):
    m = json.load(open(d))
    sid = os.path.basename(os.path.dirname(d))
    rows.append("| %s | %s | %s | %s | %s |" % (sid, m.get("breaks_property", m.get("property")), (m.get("title", "") + ": " + m.get("needs", ""))[:260].replace("|", "/").replace("\n", " "),
                                             m.get("verif_status", ""), m.get("detected_by", "")[:120].replace("|", "/")))
inject("seeded-table", "\n".join(rows) + "\n")
kf = json.load(open(os.path.join(ROOT, "known_findings.json")))
def one(t):
    t = " ".join(str(t).split()).replace("|", "/")
    return t if len(t) <= 170 else t[:167] + "..."
frows = ["| id | property | status | what | deviation model(s) in the spec |", "|---|---|---|---|---|"]
for f in sorted(kf["findings"], key=lambda f: (f["property"], f["id"])):
    dev = f.get("spec_deviations") or f.get("deviation") or f.get("dev") or ""
    dev = ", ".join(dev) if isinstance(dev, list) else str(dev)
    frows.append("| %s | %s | open | %s | %s |" % (f["id"], f["property"], one(f.get("what", "")), one(dev)[:90]))
for t in sorted(kf["fixed"], key=lambda t: t.split()[1]):
    m = re.match(r"fixed: property=(\S+) (\S+) (F-\S+)? ?(.*)", t)
    if m:
        frows.append("| %s | %s | fixed %s | %s | |" % (m.group(3) or "-", m.group(1), m.group(2), one(m.group(4))))
inject("findings-table", "\n".join(frows) + "\n")
# every commit made in /repo since the pinned snapshot (hooks and fix: commits), with the finding it repairs
import subprocess
try:
    log = subprocess.check_output(["git", "-C", "/repo", "log", "--reverse", "--format=%h\t%s", "9e9b5aa..HEAD"], text=True).splitlines()
except Exception:
    log = []
byc = {}
for t in kf["fixed"]:
    m = re.match(r"fixed: property=(\S+) (\S+) (F-\S+)?", t)
    if m:
        byc.setdefault(m.group(2), []).append((m.group(1), m.group(3) or ""))
crow = ["| commit | kind | property / finding | subject |", "|---|---|---|---|"]
for l in log:
    h, subj = l.split("\t", 1)
    kind = "hook" if subj.startswith("verif hook") else ("fix" if subj.startswith("fix:") else "other")
    who = ", ".join(sorted({(f or p_) for p_, f in byc.get(h, [])}))
    crow.append("| %s | %s | %s | %s |" % (h, kind, who, subj.replace("|", "/")))
if log:
    inject("repo-commits", "\n".join(crow) + "\n")
open(p, "w").write(s)
print("DESIGN.md updated")
