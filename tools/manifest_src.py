HOOK_COMMITS = ["3019ee6"]
NOTES = ("Model-based verification with explicit TLA+ specifications (see DESIGN.md). Verdicts come only from real-code "
         "behaviour: a TLC counterexample of the design model alone is exit 2, never a VIOLATION. known_findings.json lists "
         "genuine defects; fix: commits in /repo are listed there as fixed entries.")
NOT_APPLICABLE = {}
CHECKS = {
 "C02": {
  "text": "TLC exhaustively checks Layout.tla (layers: memtable / out-of-order files / ordered files; actions write, flush with the "
          "sequencer split rule, level/full compaction per the planner's grouping rule, out-of-order merge, reopen) for ReadEqLWW, "
          "OrderedDisjoint, UnordBehind within the cfg bounds; every BFS path of a small export config plus seeded simulation "
          "behaviours are replayed into a real shard (exported engine API) and after every action full, descending, sub-range and "
          "sub-field reads are compared with the specification's last-write-wins contents.",
  "design_ref": "DESIGN.md section 5 C02",
  "note": "Bounds of the cfg files; one shard, tsstore engine, in-process cursors (not HTTP); field types drawn per case from the seed; "
          "series index made searchable after each new series (allowed by the statement); shape differences between spec and real file "
          "lists are recorded as drift, not judged.",
  "technique": "TLA+ spec (Layout.tla) model-checked by TLC; TLC-generated behaviours replayed into the real shard with state comparison after every action",
 },
 "C11": {
  "text": "TLC exhaustively checks Routing.tla (shard groups as sorted [start,end) spans incl. RANGE re-sharding, HASH/RANGE sharding, "
          "shard key as a subsequence of the tag keys (optionally altered between groups), an uninterpreted hash tried with several functions, WriteRoute and the sound "
          "Prune rule over condition trees mixing tag =, !=, regexes, field comparisons, time bounds, AND/OR/parentheses) for "
          "UniqueCoveringShard and PruneSound within the cfg bounds (all trees of depth <= 2 over the full leaf alphabet, all trees of "
          "depth 3 over a smaller one); TLC-exported cases (every depth-2 tree per setup plus seeded random depth-3 trees, each with the "
          "expected write route, truth value per row and the predictions of the deviation models) are replayed into the real "
          "coordinator: rows through PointsWriter.RetryWritePointRows on real meta.Data (CreateShardGroup / ReSharding / ShardFor / "
          "DestShard), conditions through ConditionExpr + RewriteRegexConditions + ClusterShardMapper.MapShards (ShardGroupsByTimeRange, "
          "TargetShards); a row satisfying a condition must lie in a consulted shard and every accepted row must reach exactly one "
          "shard, of the group covering its timestamp, at the position given by its shard key.",
  "design_ref": "DESIGN.md section 5 C11",
  "note": "Bounds of the cfg files (2 tag keys, 2-3 values, 1-8 shards per group, 2-4 groups, RANGE with 1-2 split points); in process "
          "(real metaclient.Client over real meta.Data, meta commands applied directly, recording store); tag/field/measurement names, group "
          "duration, extra tags and time literal syntax drawn per case from the seed; hint queries, column store, offline partitions and "
          "the black-box ptnum comparison of the design are not covered; open findings F-C11-1..5 are re-observed and attributed only "
          "when the consulted set equals a deviation model's prediction exactly.",
  "technique": "TLA+ spec (Routing.tla) model-checked by TLC; TLC-generated (setup, rows, condition) cases replayed into the real points writer and shard mapper",
 },
 "C17": {
  "text": "TLC exhaustively checks RaftStorage.tla: an implementation-level model of lib/raftlog (files of FileCap slots standing for "
          "30000, entryLog.slotGe, AddEntries with truncation inside the current file or into an earlier file and deletion of the later "
          "files, rotation, whole-file deleteBefore, Close/Init with the re-applied deleteBefore(snapshot index), hard state and "
          "snapshot in the meta file) against the reference it must agree with (etcd MemoryStorage: Append/Compact/CreateSnapshot) for "
          "ReadsConsistent (FirstIndex, LastIndex, Term(i), Entries(lo,hi,maxSize) for all arguments), Contiguous, TermMonotone, "
          "SnapshotSane within the cfg bounds; one path per distinct state of a small export config plus seeded simulation behaviours "
          "(up to 10 abstract entries = 4 real files, 3 reopens) are replayed into a real RaftDiskStorage on /dev/shm, one abstract entry "
          "being a block of concrete entries so that 3 abstract slots are exactly one real file of 30000 entries; after every action "
          "FirstIndex, LastIndex, Term at first-1/first/block and file edges +-1/middle/last/last+1, Entries for pairs of those points "
          "with several size limits plus a full scan (index, term, type, payload), Snapshot and InitialState are compared with the "
          "specification's expectation; etcd's MemoryStorage is fed the same operations as a cross-check of the specification.",
  "design_ref": "DESIGN.md section 5 C17",
  "note": "Bounds of the cfg files; block edges per file period drawn from a palette by the seed (10000/20000 +-1, 1/29999, 1/2, ...); tiny "
          "payloads, so rotation by the 32 MiB size limit is not exercised; clean Close/Init only (no crash points); domain: saves continue, "
          "overlap or conflict above the snapshot index without gaps, CreateSnapshot for stored indexes newer than the current snapshot; "
          "installing a snapshot beyond the end of the log (ApplySnapshot) is not explored (a probe shows the old entries stay readable); "
          "entry-file-rw-type 2 in ~80% and 1 in ~20% of the cases; open findings F-C17-1 (payload of a file's first entry lost after a "
          "truncation into that file + reopen) and F-C17-2 (Term classification outside the stored slots) are re-observed and attributed "
          "only when the real result equals the deviation model's prediction exactly.",
  "technique": "TLA+ spec (RaftStorage.tla) model-checked by TLC; TLC-generated behaviours replayed into the real RaftDiskStorage with comparison of all read operators after every action",
 },
 "C12": {
  "text": "TLC exhaustively checks ExprRoundTrip.tla: the expression grammar as a generator (18 binary operators with the precedence / "
          "associativity table of token.go, unary minus, ParenExpr as an explicit node, calls of arity 0..2, 23 literal classes and 6 "
          "identifier classes), Print (tree -> tokens, the printer adds no parentheses) and Parse (precedence climbing, the scanner's "
          "rule for '/'), for the invariants PlanIsTree, PlanProducible, WireIsText and RoundTrip (Parse(Print(e)) = e) over every "
          "producible tree of 3 node levels with all operators, of 4 levels with one operator per precedence level, and every "
          "literal/identifier class under every operator. The same trees plus seeded random trees of depth <= 5 are replayed into the "
          "real code: text -> ParseExpr and -> statement parser (sql.y) must give the specification's tree; String() -> ParseExpr must "
          "give the same tree with literal types and values; the expressions then travel through ProcessorOptions and RemoteQuery "
          "Marshal/Unmarshal, hybridqp.ExprOptions, MarshalQueryNode/UnmarshalQueryNode (schema fields + logical plan) and seeded "
          "Chunks (all column types, nulls, tags, dims) through the chunk codec; everything must come back equal.",
  "design_ref": "DESIGN.md section 5 C12",
  "note": "Bounds of the cfg files (depth 3/4 exhaustive, depth 5 sampled); literal and identifier classes get concrete texts per "
          "occurrence from the seed; trees outside the statement grammar go through ParseExpr only; unary minus is compared with the "
          "product (-1 * x) the parsers build for it; plan codec with a series/index-scan/exchange plan and only for expressions the "
          "planner accepts as a field. Eight open findings (F-C12-1..8: integral float printed as integer, unary minus loses grouping, "
          "AND/OR precedence of sql.y, integer saturation in yyParser.Lex, sub-microsecond durations, bitwise operators unknown to "
          "ParseExpr, unquoted sort field names, non-float fill value dropped) are re-observed and attributed only when the real result equals the prediction of "
          "the finding's deviation model exactly.",
  "technique": "TLA+ spec (ExprRoundTrip.tla) model-checked by TLC; TLC-generated expression trees and token texts replayed into the real parsers, printer and shipping codecs with structural comparison",
 },
 "C20": {
  "text": "TLC exhaustively checks SparseIndex.tla, a transcription of the key-condition algorithm engine/index/sparseindex ports "
          "(sorted key records over 1-3 key columns with values 0..2 and null = +infinity, fragments of 1-3 rows with a short last "
          "fragment, the index record = first key of every fragment + last row, RPN atoms InRange / NotInRange / InSet / AlwaysTrue / "
          "Unknown, integer open bounds closed, the (canBeTrue, canBeFalse) mask algebra, checkInAnyRange over key-prefix "
          "hyper-rectangles with its early exits, binary and exclusion search with coarse-index settings) for NeverSkipsMatch and "
          "MayCoversMatch (MayBeInRange holds for every run of fragments containing a fragment with a matching row) within the cfg "
          "bounds (all records up to 3 rows x all condition trees of depth 1 over = != < <= > >= and a non-key atom). TLC-exported "
          "cases (every path of a small BFS config + seeded simulation: up to 3 key columns, 8 rows, trees of depth 3 with IN, LIKE / "
          "MATCH / MATCHPHRASE, non-key atoms, time bounds, integer / other column kinds), each carrying the design's selection, the "
          "brute-force matching fragments and the predictions of the as-implemented deviation models, are replayed into the real "
          "PKIndexWriterImpl.Build -> NewKeyCondition (conditions built as influxql expressions, time bounds through "
          "GetTimeCondition) -> PKIndexReaderImpl.Scan with 3-4 column-type concretisations per case (integer, float, string, "
          "boolean) and 7 reader settings (binary search allowed / exclusion search forced, coarse index 2, 3, 8, seek merging); the "
          "index record and the RPN shape are compared with the specification and every Scan is judged for soundness: a fragment "
          "with a brute-force matching row that is not selected is a divergence. The set, bloom-filter and min-max skip-index "
          "readers are asked MayBeInFragment for the same cases (bloom filter on the file the real BloomFilterWriter writes) and "
          "judged by the same inclusion.",
  "design_ref": "DESIGN.md section 5 C20",
  "note": "Bounds of the cfg files; pure in-process API (no column-store measurement end to end: design option (i) plus the reader-level "
          "variant of (ii)); records are handed over sorted with nulls last, the order the index reader assumes (the column-store write "
          "path rejects null primary keys; record.SortHelper would put them first); selecting more or fewer fragments than the "
          "specification while staying sound is recorded as drift; the min-max reader has no production ReadFunc and its writer writes "
          "nothing, it is given the sorted first key column and is not driven with null bounds (a null bound makes it overwrite the "
          "shared NEGATIVE_INFINITY sentinel); the set writer writes nothing. Open findings F-C20-1..6 are re-observed on the unchanged "
          "tree and attributed only when the case satisfies the finding's predicate and the real result equals the deviation model's "
          "prediction exactly (F-C20-2, F-C20-6: differential predictor, see known_findings.json); query failures (F-C20-3) are "
          "reported, not counted as wrong pruning.",
  "technique": "TLA+ spec (SparseIndex.tla) model-checked by TLC; TLC-generated (record, fragment size, column kinds, condition, time bounds) cases replayed into the real index writer, key condition, index reader and skip-index readers with an inclusion (soundness) comparison",
 },
 "C01": {
  "text": "TLC exhaustively checks Wal.tla (write path, memtable flush and recovery at the granularity of file-system steps, crash "
          "enabled in every state of run and recovery) for Durable / WalBeforeAck / RemoveAfterRename with Dev={} and confirms that "
          "the as-implemented deviations and mutation seeds are caught; TLC-generated client histories are run on a real engine under "
          "a file-system recorder (verif hook in lib/fileops), a crash image is frozen after file-system mutations (every one in the "
          "thorough tier; torn-tail variants of the last log record; images taken inside recovery), restored and re-opened through the "
          "production load path (Engine.Assign), and recovered contents are compared with the specification's acceptable outcomes; "
          "the recorded event order of every run is validated by TLC against TraceWal.tla.",
  "design_ref": "DESIGN.md section 5 C01",
  "note": "process-kill semantics; single sequential client; one shard, tsstore engine; divergences are attributed to the open findings "
          "F-C01-1/F-C01-2 only when the recovered contents equal the as-implemented model's prediction exactly AND replaying in "
          "acknowledgement order without already-committed records would repair them; the series index is copied until quiescent and "
          "images whose index cannot be opened are counted as inconclusive.",
  "technique": "TLA+ spec (Wal.tla) model-checked by TLC; TLC-generated histories replayed into the real engine with crash-image enumeration; recorded fs-event traces validated by TLC (TraceWal.tla)",
 },
 "C03": {
  "text": "TLC exhaustively checks Replace.tla (replacement protocol: new files as .init, compact log, renames, deletions, log removal, "
          "merge tail; recovery by roll-forward/roll-back; up to three crashes incl. inside recovery) for Stable / LogResolvable and the "
          "ordering action properties and confirms the mutation seeds are caught; Layout.tla behaviours are replayed into a real shard and "
          "for every real level/full compaction and out-of-order merge a crash image is frozen after each of its file-system mutations, "
          "restored, re-opened and fully read (plus images taken inside that recovery): contents must equal the contents before the "
          "reorganisation; reads are also compared after every completed reorganisation; every reorganisation's recorded mutation order "
          "is validated by TLC against TraceReplace.tla.",
  "design_ref": "DESIGN.md section 5 C03",
  "note": "plans are those the real planner picks on the prepared layouts (group size forced to 2) plus forced full compaction and merge; "
          "max-rows-per-segment in {default,2,3,5} to get multi-segment files; process-kill semantics.",
  "technique": "TLA+ spec (Replace.tla) model-checked by TLC; crash-image replay of real reorganisations; recorded fs-event traces validated by TLC (TraceReplace.tla)",
 },
 "C04": {
  "text": "TLC exhaustively checks View.tla (which layers a query captures under the snapshot lock, the per-measurement flushed flag, "
          "file-list swap and reference counts before physical removal) for ViewComplete / NoDupLayers / NoRemoveWhileRef and confirms the "
          "mutation seeds are caught; a randomised concurrent driver (1-3 writers, 1-3 readers, flusher, compaction/merge triggers, close at "
          "the end or in the middle, on a fresh or a just re-opened shard) records the client-visible history of a real shard and TLC "
          "validates every history against TraceView.tla: each returned cell value must be one the cell could hold during the query (so every "
          "write acknowledged before the query began is included, nothing invented, nothing already overwritten), no cell missing, reads of "
          "one client monotone. Deadlocks (watchdog + goroutine dump), process crashes and duplicate rows are reported directly.",
  "design_ref": "DESIGN.md section 5 C04",
  "note": "schedules are sampled on the code side; each cell has one writer; series created before the concurrent phase; queries overlapping "
          "the close are only required to terminate; the driver reads the shard object directly (in process). Symptoms of the open finding "
          "F-C04-1 are attributed only in runs that start on a re-opened shard (the reload window) or in the directed reproduction.",
  "technique": "TLA+ spec (View.tla) model-checked by TLC; client-visible histories recorded from a concurrent driver on the real shard validated by TLC (TraceView.tla)",
 },
 "C10": {
  "text": "TLC exhaustively checks SeriesIndex.tla: (a) the life cycle of the series index (Create = lookup-before-create over cache and "
          "item store, IndexFlush, ClearCache, Close, Reopen with the (logical clock, sequence) id generator) for KeyIdBijection, "
          "NamespacesConsistent (key->id, id->key and tag->ids item families), CacheSound, ClosedClean; (b) the predicate set algebra over "
          "the flushed tag->ids items (=, !=, =~, !~ with the rules for empty values and absent tags, AND/OR/parentheses) against brute-force "
          "evaluation with UNANCHORED regular expressions and absent-tag-as-empty-string (SearchExact, ListingsExact) for every set of up to "
          "2-3 series over the value alphabet, every leaf, every depth-2 tree over 12 core leaves and every parser-producible depth-3 tree "
          "over 4 leaves. Regular expressions are sequences of items (^ $ literal class [0-9] alternation .* .+ (s)? c*) with a matcher "
          "defined in the specification; the family has one member per fast path of tag_filters.go. Behaviours (every BFS path of a small "
          "configuration, three scripted rich series sets queried with all leaves and design trees, seeded simulation with random trees to "
          "depth 3) are replayed into a real tsi merge-set index of a shard opened through Engine.Open/Assign: series are created by "
          "writing points through the line-protocol parser and WriteRows (CreateIndexIfNotExists); after every action "
          "GetSeriesIdBySeriesKey of every known key must return its one id; every search is compared on six production entry points "
          "(searchTSIDs ids, SearchSeriesKeys, SearchSeriesWithOpts with RewriteRegexConditions applied as the compiler does, "
          "Engine.SeriesKeys, Engine.TagKeys, Engine.TagValues) with the specification's set.",
  "design_ref": "DESIGN.md section 5 C10",
  "note": "Bounds of the cfg files (2 measurements, 2 tag keys, <= 9 tag values incl. the empty one and values that are prefixes of each "
          "other, 23 regular expressions, <= 6 series, <= 5 per measurement so that the cost-based pruning of seriesByTagFilters is not "
          "taken); characters, tag keys and measurement names drawn per case from the seed (commas, equals signs, spaces, quotes, "
          "backslashes, regex metacharacters, unicode, the index's separator bytes \\x01/\\x02; \\x00 cannot be written in InfluxQL); the "
          "index is flushed before a search (allowed lag); tag arrays, column store, series deletion (C13) and concurrent writers (C04) "
          "are not covered. Seven open findings (F-C10-1 anchored matching of non-literal regexes, F-C10-2 anchors of ^lit$ dropped on the "
          "SHOW path, F-C10-3 empty-accepting regex treated as match-all, F-C10-4 nil operand under AND on the SHOW path, F-C10-5 matching "
          "on escaped bytes, F-C10-6 lookup-before-create misses unflushed items after a cache drop, F-C10-7 SHOW TAG KEYS splits the "
          "unescaped series key) are re-observed and attributed only when the real result equals the prediction of the specification's "
          "deviation model (computed per subset of deviation classes present in the predicate) exactly.",
  "technique": "TLA+ spec (SeriesIndex.tla) model-checked by TLC; TLC-generated behaviours replayed into the real tsi merge-set index with comparison of the id map after every action and of every search on all production entry points",
 },
}
