HOOK_COMMITS = ["3019ee6", "3215ccf", "d8d5a34"]
NOTES = ("Model-based verification with explicit TLA+ specifications (see DESIGN.md). Verdicts come only from real-code "
         "behaviour: a TLC counterexample of the design model alone is exit 2, never a VIOLATION. known_findings.json lists "
         "genuine defects; fix: commits in /repo are listed there as fixed entries.")
NOT_APPLICABLE = {}
FROM_FILES = ["C07", "C01", "C18", "C14", "C06", "C19", "C10", "C09", "C17", "C08", "C20", "C15", "C16", "C03", "C13", "C05"]   # ids whose entry is read from props/cNN.manifest.json
CHECKS = {
 "C02": {
  "text": "TLC exhaustively checks Layout.tla (layers: memtable / out-of-order files / ordered files; actions write, flush with the "
          "sequencer split rule, level/full compaction per the planner's grouping rule, out-of-order merge, reopen) for ReadEqLWW, "
          "OrderedDisjoint, UnordBehind within the cfg bounds; every BFS path of a small export config plus seeded simulation "
          "behaviours are replayed into a real shard (exported engine API) and after every action full, descending, sub-range and "
          "sub-field reads are compared with the specification's last-write-wins contents.",
  "design_ref": "DESIGN.md section 5 C02",
  "note": "Bounds of the cfg files; one shard, tsstore engine, in-process cursors (not HTTP); field types drawn per case from the seed; "
          "series index made searchable after each new series (allowed by the statement); shape differences between spec and real file "
          "lists are recorded as drift, not judged.",
  "technique": "TLA+ spec (Layout.tla) model-checked by TLC; TLC-generated behaviours replayed into the real shard with state comparison after every action",
 },
 "C08": {
  "text": "TLC exhaustively checks QuerySem.tla. Part 1 is the documented InfluxQL semantics as operators over the logical contents of a "
          "measurement (rows [series tags, time, fields], null = absent): Where (time range, tag =, !=, regex, field comparisons, AND/OR), "
          "plain selections with GROUP BY tags and LIMIT/OFFSET, count/sum/mean (exact rational)/min/max/first/last overall, per tag "
          "group and per epoch-aligned bucket Bucket(t,w) = t - (t % w) with the time stamp rules (epoch 0 / lower bound without interval, "
          "bucket start with interval, the point's time for a sole selector), FILL none/null/number/previous (count reports 0), "
          "descending = the ascending stream reversed (fill(previous) follows the iteration order as in InfluxDB 1.x); it is checked for "
          "the invariant Laws (count, bucket, descending, limit, group partition and fill laws, each stated without the operator it "
          "constrains) over every data set of a tiny universe x a query family. Part 2 is a state machine of the executor's operators "
          "consuming the row stream in chunks with carried state (pending group of the aggregate, current group / next window / previous "
          "values of fill, rows to skip / return of limit), checked for ChunkIndependence: for every sorted stream up to the bound and "
          "EVERY partition into chunks the emitted answer equals the direct evaluation with the operators of part 1. The same "
          "specification is the oracle: TLC simulates random data sets (4 series over 2 tag keys, 3 fields of kinds int/float/string/"
          "bool, gaps, nulls, equal time stamps across series) and random queries of the bounded grammar, enumerates a query family over "
          "two fixed data sets, EVALUATES the expected answers (ascending and descending; where the language leaves the answer open - "
          "order of rows with equal time stamps, pick among tied first/last/min/max points - the set of acceptable answers) plus the "
          "predictions of the deviation models of the open findings, and exports them. props/c08.py loads every data set into real "
          "single-node ts-server processes over HTTP (line protocol; a copy written in one batch and a copy whose rows and single fields "
          "are spread over two batches around a flush), waits once for index / meta visibility, and runs every query under the matrix "
          "{ascending, descending} x {not chunked, chunked=true&chunk_size=1|2} x {inner_chunk_size default, 1, 2, 3} x {memtable, one "
          "file, file + memtable, ordered + out-of-order file, (thorough) after the out-of-order merge} x /debug/ctrl "
          "chunk_reader_parallel {default, 1, 4} x two server configurations (default; ptnum-pernode=3, cpu-num=2, "
          "chunk-reader-parallel=1, max-rows-per-segment=3); every answer must be one the specification accepts (mean as rational vs "
          "float within 1e-9, everything else exact) and all answers of a query must be equal.",
  "design_ref": "DESIGN.md section 5 C08",
  "note": "Bounds of the cfg files (laws: 2 series x 3-4 times x values {0,1} with a null-carrying second field; chunk machine: streams of "
          "length <= 6 (quick: 3) over 2 groups x 3 windows x values {null,1,2}, 4 fill modes, 3 limit/offset pairs); quick tier: "
          "~110-170 (data set, query) pairs x 48 runs each (seeded sample of 6 of the 24 direction/chunking variants per layout phase), "
          "thorough: the full variant matrix. Single node only (no multi-node cluster); one database with 1h shard groups (data sets "
          "with a 600 s step span two shard groups); background compaction and out-of-order merge are switched off through /debug/ctrl "
          "and the memtable's cold flush through [data.memtable], so that layouts are the ones the check builds (level compaction is "
          "not forced: there is no control endpoint for it); GROUP BY time queries always carry both time bounds; fill(<number>) only for "
          "numeric results; nine open findings F-C08-1..9 are re-observed on the unchanged tree: F-C08-1, 2, 4, 5 are attributed "
          "only when the answer is one the finding's deviation model (evaluated by TLC) predicts, F-C08-3 (binary_tree_merge returns "
          "empty answers) by one sentinel query per server with the switch otherwise off, F-C08-9 (pick among tied points depends on "
          "the configuration) when two specification-accepted answers differ, and F-C08-6, 7, 8 by predicate (aggregate with a condition "
          "on a non-aggregated field; field condition on rows spread over two layers; aggregates over two layers descending or with tiny "
          "chunks) because their wrong answers depend on read order - query classes under these predicates are not judged.",
  "technique": "TLA+ spec (QuerySem.tla) model-checked by TLC (semantic laws + chunk-partition independence); TLC-evaluated (data set, query, expected answer) cases replayed into real ts-server processes over HTTP under a configuration matrix",
 },
 "C11": {
  "text": "TLC exhaustively checks Routing.tla (shard groups as sorted [start,end) spans incl. RANGE re-sharding, HASH/RANGE sharding, "
          "shard key as a subsequence of the tag keys (optionally altered between groups), an uninterpreted hash tried with several functions, WriteRoute and the sound "
          "Prune rule over condition trees mixing tag =, !=, regexes, field comparisons, time bounds, AND/OR/parentheses) for "
          "UniqueCoveringShard and PruneSound within the cfg bounds (all trees of depth <= 2 over the full leaf alphabet, all trees of "
          "depth 3 over a smaller one); TLC-exported cases (every depth-2 tree per setup plus seeded random depth-3 trees, each with the "
          "expected write route, truth value per row and the predictions of the deviation models) are replayed into the real "
          "coordinator: rows through PointsWriter.RetryWritePointRows on real meta.Data (CreateShardGroup / ReSharding / ShardFor / "
          "DestShard), conditions through ConditionExpr + RewriteRegexConditions + ClusterShardMapper.MapShards (ShardGroupsByTimeRange, "
          "TargetShards); a row satisfying a condition must lie in a consulted shard and every accepted row must reach exactly one "
          "shard, of the group covering its timestamp, at the position given by its shard key.",
  "design_ref": "DESIGN.md section 5 C11",
  "note": "Bounds of the cfg files (2 tag keys, 2-3 values, 1-8 shards per group, 2-4 groups, RANGE with 1-2 split points); in process "
          "(real metaclient.Client over real meta.Data, meta commands applied directly, recording store); tag/field/measurement names, group "
          "duration, extra tags and time literal syntax drawn per case from the seed; hint queries, column store, offline partitions and "
          "the black-box ptnum comparison of the design are not covered; F-C11-1, 2, 3, 5 were repaired by fix: commits in /repo (their "
          "deviation models stay as mutation seeds; a regression is a violation); the open finding F-C11-4 is re-observed and attributed "
          "only when the consulted set equals its deviation model's prediction exactly. Condition shapes: every depth-2 tree, random "
          "depth-3 trees, left-deep AND/OR chains of 3-6 operands and conjunctive normal forms of tag equalities.",
  "technique": "TLA+ spec (Routing.tla) model-checked by TLC; TLC-generated (setup, rows, condition) cases replayed into the real points writer and shard mapper",
 },
 "C17": {
  "text": "TLC exhaustively checks RaftStorage.tla: an implementation-level model of lib/raftlog (files of FileCap slots standing for "
          "30000, entryLog.slotGe, AddEntries with truncation inside the current file or into an earlier file and deletion of the later "
          "files, rotation, whole-file deleteBefore, Close/Init with the re-applied deleteBefore(snapshot index), hard state and "
          "snapshot in the meta file) against the reference it must agree with (etcd MemoryStorage: Append/Compact/CreateSnapshot) for "
          "ReadsConsistent (FirstIndex, LastIndex, Term(i), Entries(lo,hi,maxSize) for all arguments), Contiguous, TermMonotone, "
          "SnapshotSane within the cfg bounds; one path per distinct state of a small export config plus seeded simulation behaviours "
          "(up to 10 abstract entries = 4 real files, 3 reopens) are replayed into a real RaftDiskStorage on /dev/shm, one abstract entry "
          "being a block of concrete entries so that 3 abstract slots are exactly one real file of 30000 entries; after every action "
          "FirstIndex, LastIndex, Term at first-1/first/block and file edges +-1/middle/last/last+1, Entries for pairs of those points "
          "with several size limits plus a full scan (index, term, type, payload), Snapshot and InitialState are compared with the "
          "specification's expectation; etcd's MemoryStorage is fed the same operations as a cross-check of the specification.",
  "design_ref": "DESIGN.md section 5 C17",
  "note": "Bounds of the cfg files; block edges per file period drawn from a palette by the seed (10000/20000 +-1, 1/29999, 1/2, ...); tiny "
          "payloads, so rotation by the 32 MiB size limit is not exercised; clean Close/Init only (no crash points); domain: saves continue, "
          "overlap or conflict above the snapshot index without gaps, CreateSnapshot for stored indexes newer than the current snapshot; "
          "installing a snapshot beyond the end of the log (ApplySnapshot) is not explored (a probe shows the old entries stay readable); "
          "entry-file-rw-type 2 in ~80% and 1 in ~20% of the cases; F-C17-1 (payload of a file's first entry lost after a "
          "truncation into that file + reopen) was repaired by a fix: commit in /repo; the open finding F-C17-2 (Term classification outside "
          "the stored slots) is re-observed and attributed only when the real result equals the deviation model's prediction exactly.",
  "technique": "TLA+ spec (RaftStorage.tla) model-checked by TLC; TLC-generated behaviours replayed into the real RaftDiskStorage with comparison of all read operators after every action",
 },
 "C12": {
  "text": "TLC exhaustively checks ExprRoundTrip.tla: the expression grammar as a generator (18 binary operators with the precedence / "
          "associativity table of token.go, unary minus, ParenExpr as an explicit node, calls of arity 0..2, 23 literal classes and 6 "
          "identifier classes), Print (tree -> tokens, the printer adds no parentheses) and Parse (precedence climbing, the scanner's "
          "rule for '/'), for the invariants PlanIsTree, PlanProducible, WireIsText and RoundTrip (Parse(Print(e)) = e) over every "
          "producible tree of 3 node levels with all operators, of 4 levels with one operator per precedence level, and every "
          "literal/identifier class under every operator. The same trees plus seeded random trees of depth <= 5 are replayed into the "
          "real code: text -> ParseExpr and -> statement parser (sql.y) must give the specification's tree; String() -> ParseExpr must "
          "give the same tree with literal types and values; the expressions then travel through ProcessorOptions and RemoteQuery "
          "Marshal/Unmarshal, hybridqp.ExprOptions, MarshalQueryNode/UnmarshalQueryNode (schema fields + logical plan) and seeded "
          "Chunks (all column types, nulls, tags, dims) through the chunk codec; everything must come back equal.",
  "design_ref": "DESIGN.md section 5 C12",
  "note": "Bounds of the cfg files (depth 3/4 exhaustive, depth 5 sampled); literal and identifier classes get concrete texts per "
          "occurrence from the seed; trees outside the statement grammar go through ParseExpr only; unary minus is compared with the "
          "product (-1 * x) the parsers build for it; plan codec with a series/index-scan/exchange plan and only for expressions the "
          "planner accepts as a field. Findings F-C12-1..8 (integral float printed as integer, unary minus loses grouping, "
          "AND/OR precedence of sql.y, integer saturation in yyParser.Lex, sub-microsecond durations, bitwise operators unknown to "
          "ParseExpr, unquoted sort field names, non-float fill value dropped): all but F-C12-1 were repaired by fix: commits in /repo (F-C12-2 520d3aa, "
          "F-C12-3 107bb40, F-C12-4 5006606, F-C12-5 f0e838f, F-C12-6 d9352b7, F-C12-7 4010f80, F-C12-8 f089fa3; their deviation models stay as "
          "mutation seeds, a regression is a violation); the open F-C12-1 (existing tests pin the printed text) is re-observed and attributed "
          "only when the real result equals the prediction of its deviation model exactly. Fill values are compared as numbers (the wire "
          "field is a double). After every decode the receive buffer is overwritten and the decoded object compared again (it must own its data).",
  "technique": "TLA+ spec (ExprRoundTrip.tla) model-checked by TLC; TLC-generated expression trees and token texts replayed into the real parsers, printer and shipping codecs with structural comparison",
 },
 "C20": {
  "text": "TLC exhaustively checks SparseIndex.tla, a transcription of the key-condition algorithm engine/index/sparseindex ports "
          "(sorted key records over 1-3 key columns with values 0..2 and null = +infinity, fragments of 1-3 rows with a short last "
          "fragment, the index record = first key of every fragment + last row, RPN atoms InRange / NotInRange / InSet / AlwaysTrue / "
          "Unknown, integer open bounds closed, the (canBeTrue, canBeFalse) mask algebra, checkInAnyRange over key-prefix "
          "hyper-rectangles with its early exits, binary and exclusion search with coarse-index settings) for NeverSkipsMatch and "
          "MayCoversMatch (MayBeInRange holds for every run of fragments containing a fragment with a matching row) within the cfg "
          "bounds (all records up to 3 rows x all condition trees of depth 1 over = != < <= > >= and a non-key atom). TLC-exported "
          "cases (every path of a small BFS config + seeded simulation: up to 3 key columns, 8 rows, trees of depth 3 with IN, LIKE / "
          "MATCH / MATCHPHRASE, non-key atoms, time bounds, integer / other column kinds), each carrying the design's selection, the "
          "brute-force matching fragments and the predictions of the as-implemented deviation models, are replayed into the real "
          "PKIndexWriterImpl.Build -> NewKeyCondition (conditions built as influxql expressions, time bounds through "
          "GetTimeCondition) -> PKIndexReaderImpl.Scan with 3-4 column-type concretisations per case (integer, float, string, "
          "boolean) and 7 reader settings (binary search allowed / exclusion search forced, coarse index 2, 3, 8, seek merging); the "
          "index record and the RPN shape are compared with the specification and every Scan is judged for soundness: a fragment "
          "with a brute-force matching row that is not selected is a divergence. The set, bloom-filter and min-max skip-index "
          "readers are asked MayBeInFragment for the same cases (bloom filter on the file the real BloomFilterWriter writes) and "
          "judged by the same inclusion.",
  "design_ref": "DESIGN.md section 5 C20",
  "note": "Bounds of the cfg files; pure in-process API (no column-store measurement end to end: design option (i) plus the reader-level "
          "variant of (ii)); records are handed over sorted with nulls last, the order the index reader assumes (the column-store write "
          "path rejects null primary keys; record.SortHelper would put them first); selecting more or fewer fragments than the "
          "specification while staying sound is recorded as drift; the min-max reader has no production ReadFunc and its writer writes "
          "nothing, it is given the sorted first key column and is not driven with null bounds (a null bound makes it overwrite the "
          "shared NEGATIVE_INFINITY sentinel); the set writer writes nothing. F-C20-1 and F-C20-2 were repaired by fix: commits in /repo; the open findings F-C20-3..6 are re-observed on the unchanged "
          "tree and attributed only when the case satisfies the finding's predicate and the real result equals the deviation model's "
          "prediction exactly (F-C20-2, F-C20-6: differential predictor, see known_findings.json); query failures (F-C20-3) are "
          "reported, not counted as wrong pruning.",
  "technique": "TLA+ spec (SparseIndex.tla) model-checked by TLC; TLC-generated (record, fragment size, column kinds, condition, time bounds) cases replayed into the real index writer, key condition, index reader and skip-index readers with an inclusion (soundness) comparison",
 },
 "C01": {
  "text": "TLC exhaustively checks Wal.tla (write path, memtable flush and recovery at the granularity of file-system steps, crash "
          "enabled in every state of run and recovery) for Durable / WalBeforeAck / RemoveAfterRename with Dev={} and confirms that "
          "the as-implemented deviations and mutation seeds are caught; TLC-generated client histories are run on a real engine under "
          "a file-system recorder (verif hook in lib/fileops), a crash image is frozen after file-system mutations (every one in the "
          "thorough tier; torn-tail variants of the last log record; images taken inside recovery), restored and re-opened through the "
          "production load path (Engine.Assign), and recovered contents are compared with the specification's acceptable outcomes; "
          "the recorded event order of every run is validated by TLC against TraceWal.tla.",
  "design_ref": "DESIGN.md section 5 C01",
  "note": "process-kill semantics; single sequential client; one shard, tsstore engine; divergences are attributed to the open findings "
          "F-C01-1/F-C01-2 only when the recovered contents equal the as-implemented model's prediction exactly AND replaying in "
          "acknowledgement order without already-committed records would repair them; the series index is copied until quiescent and "
          "images whose index cannot be opened are counted as inconclusive.",
  "technique": "TLA+ spec (Wal.tla) model-checked by TLC; TLC-generated histories replayed into the real engine with crash-image enumeration; recorded fs-event traces validated by TLC (TraceWal.tla)",
 },
 "C03": {
  "text": "TLC exhaustively checks Replace.tla (replacement protocol: new files as .init, compact log, renames, deletions, log removal, "
          "merge tail; recovery by roll-forward/roll-back; up to three crashes incl. inside recovery) for Stable / LogResolvable and the "
          "ordering action properties and confirms the mutation seeds are caught; Layout.tla behaviours are replayed into a real shard and "
          "for every real level/full compaction and out-of-order merge a crash image is frozen after each of its file-system mutations, "
          "restored, re-opened and fully read (plus images taken inside that recovery): contents must equal the contents before the "
          "reorganisation; reads are also compared after every completed reorganisation; every reorganisation's recorded mutation order "
          "is validated by TLC against TraceReplace.tla.",
  "design_ref": "DESIGN.md section 5 C03",
  "note": "plans are those the real planner picks on the prepared layouts (group size forced to 2) plus forced full compaction and merge; "
          "max-rows-per-segment in {default,2,3,5} to get multi-segment files; process-kill semantics.",
  "technique": "TLA+ spec (Replace.tla) model-checked by TLC; crash-image replay of real reorganisations; recorded fs-event traces validated by TLC (TraceReplace.tla)",
 },
 "C04": {
  "text": "TLC exhaustively checks View.tla (which layers a query captures under the snapshot lock, the per-measurement flushed flag, "
          "file-list swap and reference counts before physical removal) for ViewComplete / NoDupLayers / NoRemoveWhileRef and confirms the "
          "mutation seeds are caught; a randomised concurrent driver (1-3 writers, 1-3 readers, flusher, compaction/merge triggers, close at "
          "the end or in the middle, on a fresh or a just re-opened shard) records the client-visible history of a real shard and TLC "
          "validates every history against TraceView.tla: each returned cell value must be one the cell could hold during the query (so every "
          "write acknowledged before the query began is included, nothing invented, nothing already overwritten), no cell missing, reads of "
          "one client monotone. Deadlocks (watchdog + goroutine dump), process crashes and duplicate rows are reported directly.",
  "design_ref": "DESIGN.md section 5 C04",
  "note": "schedules are sampled on the code side; each cell has one writer; series created before the concurrent phase; queries overlapping "
          "the close are only required to terminate; the driver reads the shard object directly (in process); half of the queries carry "
          "time bounds inside the shard and half span the whole time line (the store takes its file view through a different path when no "
          "bound falls inside the shard); in half of the runs that close in the middle a planner keeps calling LevelCompact while the shard "
          "closes, as the store's compaction worker does (Close must still return: watchdog). Symptoms of the open finding "
          "F-C04-1 are attributed only in runs that start on a re-opened shard (the reload window) or in the directed reproduction.",
  "technique": "TLA+ spec (View.tla) model-checked by TLC; client-visible histories recorded from a concurrent driver on the real shard validated by TLC (TraceView.tla)",
 },
 "C10": {
  "text": "TLC exhaustively checks SeriesIndex.tla: (a) the life cycle of the series index (Create = lookup-before-create over cache and "
          "item store, IndexFlush, ClearCache, Close, Reopen with the (logical clock, sequence) id generator) for KeyIdBijection, "
          "NamespacesConsistent (key->id, id->key and tag->ids item families), CacheSound, ClosedClean; (b) the predicate set algebra over "
          "the flushed tag->ids items (=, !=, =~, !~ with the rules for empty values and absent tags, AND/OR/parentheses) against brute-force "
          "evaluation with UNANCHORED regular expressions and absent-tag-as-empty-string (SearchExact, ListingsExact) for every set of up to "
          "2-3 series over the value alphabet, every leaf, every depth-2 tree over 12 core leaves and every parser-producible depth-3 tree "
          "over 4 leaves. Regular expressions are sequences of items (^ $ literal class [0-9] alternation .* .+ (s)? c*) with a matcher "
          "defined in the specification; the family has one member per fast path of tag_filters.go. Behaviours (every BFS path of a small "
          "configuration, three scripted rich series sets queried with all leaves and design trees, seeded simulation with random trees to "
          "depth 3) are replayed into a real tsi merge-set index of a shard opened through Engine.Open/Assign: series are created by "
          "writing points through the line-protocol parser and WriteRows (CreateIndexIfNotExists); after every action "
          "GetSeriesIdBySeriesKey of every known key must return its one id; every search is compared on six production entry points "
          "(searchTSIDs ids, SearchSeriesKeys, SearchSeriesWithOpts with RewriteRegexConditions applied as the compiler does, "
          "Engine.SeriesKeys, Engine.TagKeys, Engine.TagValues) with the specification's set.",
  "design_ref": "DESIGN.md section 5 C10",
  "note": "Bounds of the cfg files (2 measurements, 2 tag keys, <= 9 tag values incl. the empty one and values that are prefixes of each "
          "other, 23 regular expressions, <= 6 series, <= 5 per measurement so that the cost-based pruning of seriesByTagFilters is not "
          "taken); characters, tag keys and measurement names drawn per case from the seed (commas, equals signs, spaces, quotes, "
          "backslashes, regex metacharacters, unicode, the index's separator bytes \\x01/\\x02; \\x00 cannot be written in InfluxQL); the "
          "index is flushed before a search (allowed lag); tag arrays, column store, series deletion (C13) and concurrent writers (C04) "
          "are not covered. The SELECT path is evaluated with emptied caches and once more in batch order (tag-filter cache). Eight open findings (F-C10-1 anchored matching of non-literal regexes, F-C10-2 anchors of ^lit$ dropped on the "
          "SHOW path, F-C10-3 empty-accepting regex treated as match-all, F-C10-4 nil operand under AND on the SHOW path, F-C10-5 matching "
          "on escaped bytes, F-C10-6 lookup-before-create misses unflushed items after a cache drop, F-C10-7 SHOW TAG KEYS splits the "
          "unescaped series key, F-C10-8 tag-filter cache entries shared by /a\\\\.b/ and /a.b/) are re-observed and attributed only when the real result equals the prediction of the specification's "
          "deviation model (computed per subset of deviation classes present in the predicate) exactly.",
  "technique": "TLA+ spec (SeriesIndex.tla) model-checked by TLC; TLC-generated behaviours replayed into the real tsi merge-set index with comparison of the id map after every action and of every search on all production entry points",
 },
 "C06": {
  "text": "TLC exhaustively checks LineProtocol.tla, a character-CLASS automaton of the line protocol (states Mst, TagKey, TagVal, "
          "FieldKey, FieldVal / FieldValStr / FieldValEnd, Timestamp; classes plain, non-ASCII, comma, space, equals, quote, backslash; 39 "
          "value tokens: integers small / negative / 2^53 / 2^53+1 / big / max / min / overflow, floats simple / exponent / -0 / leading "
          "and trailing dot / integral / 17+ digit mantissa / extreme / '+' sign / f suffix / overflow / NaN-Inf, the ten boolean "
          "spellings and wrong ones, u suffix, junk; 8 timestamp tokens x 9 precisions; one action per consumed class; the state is "
          "the decoded point as sequences of input positions, or Reject) for AcceptHasField, NoUnescapedSeparator, Conservation (every "
          "position is structure or appears once, in order, in one decoded string), QuotesOnlyDelimitStrings, TagsComplete, "
          "ValueFaithful, RejectAbsorbing, BatchOK within the cfg bounds. TLC then ENUMERATES every class sequence of the export configs "
          "(structure: all classes to 7 positions; values: every value token in one- and two-field lines; timestamps: every token x "
          "precision; tags: up to two tags) plus seeded simulation of lines up to 40 classes; each sequence carries the expected "
          "decoding or Reject and the decodings of the as-implemented deviation automata. Every sequence is concretised (texts per class "
          "drawn from the seed, the case id embedded in plain / non-ASCII texts so that each line has its own fresh measurement), posted "
          "to /write of ONE real ts-server, and read back with select * group by * (epoch=ns), show field keys, show measurements: "
          "accepted lines must return exactly the decoded measurement, tag set, timestamp, field set, field types and values (integers "
          "as the decimal text of the JSON token, floats bit-exact, strings and tags byte-exact, missing timestamp inside the request "
          "window); rejected lines must be answered >= 400 and store nothing; no other measurement may appear. Batches mixing valid "
          "lines and parse-level invalid lines (9 shapes, LF / CRLF / blank lines) must be answered 4xx, store nothing for the invalid "
          "line, and store every valid line when acknowledged.",
  "design_ref": "DESIGN.md section 5 C06",
  "note": "Per character class, not per code point; bounds of the cfg files, the quick tier replays a seeded sample (half of it lines that "
          "some automaton accepts); replay side is Python over HTTP (props/c06.py), not the Go harness; single-node ts-server; new series "
          "are judged after the series-index flush (sentinel polled once, acknowledged-but-invisible points re-read); in key positions "
          "a backslash escapes , space = and \\ (VictoriaMetrics/openGemini rule; InfluxDB 1.x keeps \\\\ and \\= in measurements), "
          "measurement names may not contain , or \\ (validator.go), negative timestamps and the u suffix are rejected, the f suffix is "
          "a float; a quote inside a field key may be rejected; which value wins for a repeated field key is not judged; measurement "
          "names made only of quote / equals characters are replayed in at most 3 lane databases; whether a 4xx batch stores its valid "
          "lines is recorded, not judged (the server drops the block); 5xx instead of 4xx for a rejected line is reported as a note. Open "
          "findings F-C06-1..7 (integers through float64, fastfloat rounding / '+' / '-12.', timestamp scaling overflow, unvalidated f "
          "suffix, quote-parity field scanning storing empty strings, last line of a block decides the batch status, lenient tags) are "
          "re-observed and attributed only when the real result equals the prediction of the finding's deviation model exactly.",
  "technique": "TLA+ spec (LineProtocol.tla) model-checked by TLC; TLC-enumerated class sequences with expected decoding replayed as concrete text through the real server's /write and /query with exact comparison",
 },
 "C13": {
  "text": "TLC exhaustively checks DropSem.tla (one database as catalogue: retention policies -> measurements with a generation counter and "
          "version suffix; per measurement instance the live series and the rows over the layers memory / flushed / out-of-order / compacted; "
          "actions Write, Flush, Compact, Restart(clean|kill), DropSeries with tag predicates =, !=, regex, !~, AND/OR selecting none, some or "
          "all series, DROP SERIES without FROM, DropMeasurement, DropRP/CreateRP, DropDatabase/CreateDatabase, re-creation by writing again) "
          "for DroppedStaysGone, OthersUntouched (action property), FreshAfterRecreate, AllShapesAgree within the cfg bounds; six mutation "
          "seeds each give a TLC counterexample. Seeded TLC simulations produce behaviours that share a skeleton of global actions (flush / "
          "compaction / clean or kill restart); every behaviour is replayed over HTTP into its own database (two retention policies, "
          "measurements m and n) of one real single-node ts-server per skeleton, the behaviours running concurrently and meeting at a "
          "barrier for each global action. After EVERY action the read-shape matrix (select * without filter, tag =, !=, =~ alternation, "
          "!~, OR, AND, field filter, GROUP BY tag, count GROUP BY time, count/sum with and without GROUP BY, count with a regex filter; "
          "SHOW SERIES, SHOW TAG KEYS, SHOW TAG VALUES for both keys; for each of the three measurement instances, plus the listings and a "
          "count of an untouched witness database) is compared with the specification's expected answer of every shape.",
  "design_ref": "DESIGN.md section 5 C13",
  "note": "Bounds of the cfg files (3 hosts x 2 regions, 4 time stamps, <= 3 rows per write, 10 (quick) / 14 (thorough) actions per behaviour, "
          "3 / 5 skeletons); black box over HTTP, timestamps in one shard group, integer or float field by seed; statements always name the "
          "retention policy (an unqualified DROP MEASUREMENT / DROP SERIES addresses the whole database); after an acknowledged statement the "
          "matrix is polled at most 30 s for the asynchronous convergence the statement allows (series index flush, tag-filter cache "
          "invalidation every 10 s, two-phase drops) and judged on its last answer; after actions that change nothing an answer holding data "
          "the expectation does not is judged at once; memtable flushed only where the behaviour flushes; of the reorganisations only the "
          "out-of-order merge is reachable within seconds (level compaction needs 8 files, full compaction a 2-minute cold shard), so Compact "
          "is that merge when out-of-order files exist; overwriting a live row is left to C02. Findings F-C13-1..8: F-C13-1, 2, 3 (name-scan and or-suffix index "
          "paths skipped the deleted set, pooled index searches kept another index's deleted set) and F-C13-7 (rows still in the WAL came back "
          "after a restart) were repaired by fix: commits in /repo (777f763, 5e2a4f5, a7aa822 and the DROP SERIES flush; a regression is a "
          "violation); the open ones - F-C13-4 and F-C13-6 (DROP SERIES and the listings ignore the retention policy: the policy does not reach "
          "the store, protocol change), F-C13-5 (tag keys come from the schema), F-C13-8 (index entries of a dropped measurement stay listed "
          "through F-C13-6) - are re-observed and attributed only when the real answer equals the prediction of "
          "the as-implemented world of DropSem.tla exactly.",
  "technique": "TLA+ spec (DropSem.tla) model-checked by TLC; TLC-simulated behaviours replayed over HTTP into a real single-node server with comparison of every read shape after every action",
 },
 "C15": {
  "text": "TLC exhaustively checks MetaCatalog.tla: the catalogue of ts-meta as abstract state (data and sql nodes, partition view, replica "
          "groups, databases -> retention policies (duration, shard-group and index-group duration, default, replica number) -> measurements "
          "with versions and ids -> shard groups [start,end,deleted] -> shards (id, owner partition, index id); index groups; users and "
          "privileges; the Max*ID counters) with one pure operator per modelled raft command (CreateDataNode, CreateSqlNode, CreateDbPtView, "
          "UpdateReplication, Create/MarkDelete/Drop Database, Create/Update/MarkDelete/Drop/SetDefault RetentionPolicy, "
          "Create/MarkDelete/Drop Measurement, Create/Delete ShardGroup, PruneGroups, CreateUser, DropUser, SetPrivilege; valid and invalid "
          "arguments) and the actions Snapshot (Data.Clone), Persist (Marshal, later, with applies in between) and Restore (Unmarshal, then the "
          "commands after the snapshot index again), for SnapshotPointInTime and SnapshotComplete within the cfg bounds. TLC-exported behaviours "
          "(every BFS path of a tiny universe, two seeded simulation profiles of 30 steps) are replayed into real meta.Data instances fed the "
          "same protobuf-marshalled log through the functions the FSM's apply handlers call: a reference; a replica that goes through "
          "Data.Clone -> MarshalBinary -> UnmarshalBinary at the specification's Snapshot / Persist / Restore positions and re-applies the "
          "commands after the snapshot; a replica whose maps are re-created in shuffled insertion order before every command (and the real "
          "storeFSM through raft.FSM.Apply/Snapshot/Persist/Restore when the tree carries the verif accessor). After every step the returns "
          "(text) and the canonical dumps (reflection over every field; deletion stamps as set/unset) must be equal, the restored image must "
          "equal the reference's dump at Snapshot time, and the reference must equal the specification's return class and state.",
  "design_ref": "DESIGN.md section 5 C15",
  "note": "Bounds of the cfg files; 21 of the 67 registered command types are modelled, the others (streams, continuous queries, "
          "subscriptions, down-sampling, migration events, schema updates, re-sharding, node status ...) are not replayed (the design's "
          "opaque commands are not built); level 1 drives meta.Data through the exported apply functions of apply_func_base.go and mirrors "
          "the three handlers that live in store_fsm.go (CreateDatabase, DropDatabase, CreateSqlNode); level 2 drives the real storeFSM "
          "(raft.FSM Apply / Snapshot / Persist / Restore) through the verif accessor (*Store).VerifFSM with a stub for the store's network "
          "side; one snapshot per behaviour; one "
          "partition per node, HASH sharding, one sql node; Go's map iteration order is varied by re-creating maps in shuffled order and by "
          "the runtime's own randomisation. The defects found by this check (F-C15-1 measurement ids lost by MeasurementInfo.clone, F-C15-2 "
          "Clone shares ReplicaGroups / SqlNodes with the live catalogue, F-C15-3 group start before MinNanoTime wraps around in the "
          "snapshot) are repaired by fix: commits in /repo and listed as fixed in known_findings.json; the deviation models stay in the "
          "specification as mutation seeds and a reverted fix is reported as a violation.",
  "technique": "TLA+ spec (MetaCatalog.tla) model-checked by TLC; TLC-generated command logs replayed into three real meta.Data instances (apply-all, snapshot/restore, shuffled maps) with dump comparison after every step",
 },
 "C16": {
  "text": "TLC exhaustively checks MetaCatalog.tla (same specification as C15; the design clips a new shard group's window to its live "
          "neighbours, cuts it at MinNanoTime/MaxNanoTime, clears a dropped default policy) for GroupsDisjointAlignedSorted (per policy and "
          "engine kind: live groups pairwise disjoint, each inside one window of the duration it was created with, slice sorted by end/start), "
          "IdsUnique, IdsNeverReused (history variable of identifiers ever handed out), RefsValid (shard -> index of its policy, owner "
          "partitions and their nodes exist), DefaultPolicyExists, FailedCommandIsNoop and NoPanic over two bounded command alphabets "
          "(policies / shard groups with timestamps on and around boundaries; databases / measurements / users) ; nine mutation seeds each give "
          "a TLC counterexample. The behaviours shared with C15 (timestamps on, one nanosecond before/after and inside hour, two- and "
          "three-hour windows, models.MinNanoTime and MaxNanoTime; duration changes between creations; deletes and prunes; unknown names, "
          "duplicates, deletes of absent objects) are replayed into real meta.Data; after EVERY command the return class and the projection of "
          "the real catalogue must equal the specification's expectation, the same invariants are evaluated on the real structure by a Go "
          "projection (walk of Databases / RetentionPolicies / ShardGroups / IndexGroups / PtView / nodes), and a command that returned an error "
          "must leave the reflection dump of the whole catalogue unchanged.",
  "design_ref": "DESIGN.md section 5 C16",
  "note": "Bounds of the cfg files; commands as in C15 (node leave, partition moves, shard-key changes, re-sharding, index-group pruning and "
          "CancelDelete are not modelled); CreateDatabase is offered only after CreateDbPtView with the same replica number (the protocol of "
          "handlers_process.createDatabase); schema-clean-enable explored with both values (schemas themselves are not modelled: always empty); "
          "4 ticks of the specification = 1 hour, tick 0 a seed-drawn multiple of 12 hours (also before 1970). The defects found by this "
          "check (F-C16-1 overlapping live groups after a shard-duration change, F-C16-2 dropping the default policy leaves the default "
          "dangling, F-C16-3 CreateDataNode panics while a partition view exists for a database without entry) are repaired by fix: commits "
          "in /repo and listed as fixed in known_findings.json; their deviation models stay in the specification as mutation seeds and a "
          "reverted fix is reported as a violation.",
  "technique": "TLA+ spec (MetaCatalog.tla) model-checked by TLC; TLC-generated command logs replayed into real meta.Data with return, state and invariant comparison after every command",
 },
}

CHECKS["C05"] = {
  "text": "TLC exhaustively checks Replication.tla (openGemini's layer around etcd/raft for one replica group of three stores: propose, "
          "persist, replicate, commit, apply into the shard, acknowledge only after the proposer's own apply, memtable flush -> snapshot "
          "index, leader-only ClearEntryLog truncation, SIGKILL of any store, restart with replay from the snapshot index, election, client "
          "retries) for AckedOnQuorum, TruncationSafe, ReplayIdempotent and ReadAnyReplica within the cfg bounds and confirms that four "
          "mutation seeds / as-implemented deviations each break the invariant they are meant to break. The same specification in "
          "simulation mode is the fault-schedule generator (Write / Kill leader|follower, also while a write is in flight / Restart / Flush "
          "/ Query); every schedule is driven into a REAL 3 ts-meta / 3 ts-store / 1 ts-sql cluster on loopback built from the tree under "
          "verification (database with REPLICAS 3, ha-policy replication): writes and queries over HTTP through ts-sql, SIGKILL and restart "
          "of ts-store processes, forced flushes, a background reader, and at the end the same query directed at every replica in turn "
          "(/modifyRepDBMasterPt). The client-visible history (one global sequence counter) is validated by TLC against "
          "TraceReplication.tla: every write acknowledged while a majority is up must be returned by every later query served by a "
          "caught-up replica, nothing invented, nothing reverted, writes and queries served within their retry budget while a majority is "
          "up. A directed schedule keeps one store down across a leader-side entry-log truncation.",
  "design_ref": "DESIGN.md section 5 C05",
  "note": "Bounds of the cfg files (3 nodes, <=3 terms/entries, 2 crashes, 1 truncation); etcd/raft, memberlist and serf are trusted; "
          "schedules are enumerated on the specification side and run with ONE timing each on the cluster side (quick: 8 generated + 1 "
          "directed schedule on 4 clusters); one sequential writer; meta and sql nodes are never killed, no network partitions; a "
          "restarted store counts as caught up 5 s after meta reports it alive with its partition online; trace validation uses client "
          "events only (no hooks inside raftconn), internal steps are left to TLC; open finding F-C05-1 (entry-log truncation ignores a "
          "member that has been down longer than clear-entryLog-tolerate-time; the rejoining member never receives the truncated writes) "
          "is re-observed by the directed schedule and attributed only when the stale replica returns exactly the writes acknowledged "
          "before its kill and after the truncation point.",
  "technique": "TLA+ spec (Replication.tla) model-checked by TLC; TLC-generated fault schedules driven into a real 3-store loopback cluster; recorded client histories validated by TLC against TraceReplication.tla",
}
