HOOK_COMMITS = []
NOTES = ("Model-based verification with explicit TLA+ specifications (see DESIGN.md). Verdicts come only from real-code "
         "behaviour: a TLC counterexample of the design model alone is exit 2, never a VIOLATION. known_findings.json lists "
         "genuine defects; fix: commits in /repo are listed there as fixed entries.")
NOT_APPLICABLE = {}
CHECKS = {
 "C02": {
  "text": "TLC exhaustively checks Layout.tla (layers: memtable / out-of-order files / ordered files; actions write, flush with the "
          "sequencer split rule, level/full compaction per the planner's grouping rule, out-of-order merge, reopen) for ReadEqLWW, "
          "OrderedDisjoint, UnordBehind within the cfg bounds; every BFS path of a small export config plus seeded simulation "
          "behaviours are replayed into a real shard (exported engine API) and after every action full, descending, sub-range and "
          "sub-field reads are compared with the specification's last-write-wins contents.",
  "design_ref": "DESIGN.md section 5 C02",
  "note": "Bounds of the cfg files; one shard, tsstore engine, in-process cursors (not HTTP); field types drawn per case from the seed; "
          "series index made searchable after each new series (allowed by the statement); shape differences between spec and real file "
          "lists are recorded as drift, not judged.",
  "technique": "TLA+ spec (Layout.tla) model-checked by TLC; TLC-generated behaviours replayed into the real shard with state comparison after every action",
 },
}
