#!/bin/sh
# tools/seedcheck.sh <seed-out-dir> <package-dir relative to repo> <go test -run pattern>
# confirms a seeded change in a scratch worktree: the demonstration passes without the patch and fails with it.
set -u
SD=$(realpath "$1"); PKG=$2; PAT=$3
WT=/tmp/verif-seedchk-$$
git -C /repo worktree add -q --detach "$WT" HEAD || exit 2
export GOFLAGS=-mod=mod GOPROXY=off
cp "$SD/demo_test.go" "$WT/$PKG/zz_seed_demo_test.go"
( cd "$WT" && go test -vet=off -count=1 -run "$PAT" "./$PKG/" > /tmp/seedchk-clean-$$.log 2>&1 ); rc_clean=$?
( cd "$WT" && git apply "$SD/patch.diff" ) || { echo "PATCH DOES NOT APPLY"; git -C /repo worktree remove --force "$WT"; exit 2; }
( cd "$WT" && go build ./... > /tmp/seedchk-build-$$.log 2>&1 ); rc_build=$?
( cd "$WT" && go test -vet=off -count=1 -run "$PAT" "./$PKG/" > /tmp/seedchk-mut-$$.log 2>&1 ); rc_mut=$?
echo "SEEDCHECK $(basename "$SD"): demo without patch rc=$rc_clean (want 0), build with patch rc=$rc_build (want 0), demo with patch rc=$rc_mut (want !=0)"
tail -3 /tmp/seedchk-mut-$$.log
git -C /repo worktree remove --force "$WT"
rm -f /tmp/seedchk-*-$$.log
