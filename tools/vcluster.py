#!/usr/bin/env python3
"""3-meta / 3-store / 1-sql openGemini cluster on loopback, built from the repository under verification
(VERIF_REPO, default /repo) and configured from <repo>/config/openGemini.conf the way scripts/install_cluster.sh
fills the template. Used by the C05 check (replication).

    import vcluster
    c = vcluster.Cluster()            # builds ts-meta / ts-store / ts-sql if needed, no process started yet
    c.start()                         # metas, then stores, then sql; waits until DDL goes through
    c.query("CREATE DATABASE db0 REPLICAS 3", method="POST")
    c.write("db0", "m,host=a v=1i 1000000000"); c.query("select * from m", db="db0", epoch="ns")
    c.kill_store(2); c.store_alive(2); c.start_store(2)      # SIGKILL / restart on the same directories (i in 1..3)
    c.stop()                          # kills everything this object started and removes the scratch directory

ISOLATION. All of 127.0.0.0/8 is loopback on Linux: every cluster instance draws its own 127.<a>.<b>.{1,2,3}, so
the stock ports of the template are kept and several clusters run side by side. Every directory (data, wal, meta,
logs, HOME) lives under one scratch directory from vlib.scratch(). Only the PIDs started here are ever signalled."""
import hashlib, json, os, random, re, shutil, signal, socket, subprocess, sys, time, urllib.parse, urllib.request, urllib.error

sys.path.insert(0, os.path.dirname(os.path.abspath(__file__)))
import vlib

_built = {}
APPS = ("ts-meta", "ts-store", "ts-sql")


def bin_suffix():
    repo = os.path.realpath(vlib.REPO)
    return "" if repo == "/repo" else "-" + hashlib.sha1(repo.encode()).hexdigest()[:8]


def build_cluster():
    """go build ./app/ts-meta ./app/ts-store ./app/ts-sql from VERIF_REPO with the verif tag; returns {app: path}."""
    repo = os.path.realpath(vlib.REPO)
    if repo in _built:
        return _built[repo]
    os.makedirs(vlib.BIN, exist_ok=True)
    suffix = bin_suffix()
    outs = {a: os.path.join(vlib.BIN, a + suffix) for a in APPS}
    t0 = time.time()
    procs = []
    for a in APPS:          # the three links run side by side, the compile cache is shared
        procs.append((a, subprocess.Popen(["go", "build", "-tags", "verif", "-o", outs[a], "./app/" + a], cwd=repo, env=vlib.goenv(),
                                          stdout=subprocess.PIPE, stderr=subprocess.STDOUT, text=True)))
    for a, p in procs:
        out, _ = p.communicate()
        if p.returncode != 0:
            raise vlib.Infra(f"{a} build failed:\n{out}")
    vlib.log(f"[build] ts-meta/ts-store/ts-sql{suffix} built against {repo} in {time.time()-t0:.1f}s")
    _built[repo] = outs
    return outs


def remove_private_binaries():
    """binaries built from a scratch worktree (mutation testing) are removed by the check when it is done"""
    s = bin_suffix()
    if s:
        for a in APPS:
            try:
                os.remove(os.path.join(vlib.BIN, a + s))
            except OSError:
                pass


STOCK_PORTS = (8086, 8087, 8088, 8091, 8092, 8400, 8401, 8010, 8011, 8012)


def _draw_block(rnd):
    """127.<a>.<b>.1..3 with every stock port free on all three addresses"""
    for _ in range(400):
        a, b = rnd.randrange(1, 250), rnd.randrange(1, 250)
        ok = True
        for i in (1, 2, 3):
            for port in STOCK_PORTS:
                s = socket.socket()
                try:
                    s.bind((f"127.{a}.{b}.{i}", port))
                except OSError:
                    ok = False
                finally:
                    s.close()
                if not ok:
                    break
            if not ok:
                break
        if ok:
            return a, b
    raise vlib.Infra("no free loopback address block")


def _set_key(text, section, key, value):
    """set `key = value` inside [section] of a toml text (replace an uncommented assignment or insert after the header)"""
    lines = text.split("\n")
    hdr = None
    for i, ln in enumerate(lines):
        if ln.strip() == f"[{section}]":
            hdr = i
            break
    if hdr is None:
        return text + f"\n[{section}]\n  {key} = {value}\n"
    j = hdr + 1
    while j < len(lines) and not re.match(r"^\s*\[[^\]]+\]\s*$", lines[j]):
        if re.match(r"^\s*" + re.escape(key) + r"\s*=", lines[j]):
            lines[j] = f"  {key} = {value}"
            return "\n".join(lines)
        j += 1
    lines.insert(hdr + 1, f"  {key} = {value}")
    return "\n".join(lines)


class Cluster:
    def __init__(self, name="clu", seed=None, extra_conf=None):
        self.bins = build_cluster()
        self.dir = vlib.scratch(name)
        rnd = random.Random((seed if seed is not None else 0) * 1000003 + os.getpid() * 7919 + int(time.time() * 1000) % 1000003)
        self.a, self.b = _draw_block(rnd)
        self.addr = {i: f"127.{self.a}.{self.b}.{i}" for i in (1, 2, 3)}
        self.url = f"http://{self.addr[1]}:8086"
        self.extra = extra_conf or {}
        self.meta = {}      # i -> Popen
        self.store = {}
        self.sql = None
        self.conf = {}
        self._logs = []
        self.boot_s = None
        for i in (1, 2, 3):
            self._write_conf(i)

    # ---- configuration --------------------------------------------------------------------------
    def _write_conf(self, i):
        tpl = open(os.path.join(os.path.realpath(vlib.REPO), "config", "openGemini.conf")).read()
        for k in (1, 2, 3):
            tpl = tpl.replace("{{meta_addr_%d}}" % k, self.addr[k])
        tpl = tpl.replace("{{addr}}", self.addr[i]).replace("{{id}}", str(i))
        nd = os.path.join(self.dir, f"n{i}")
        tpl = tpl.replace("/tmp/openGemini/", nd + "/")
        sets = [("common", "ha-policy", '"replication"'), ("common", "pprof-enabled", "false"),
                ("logging", "level", '"error"'),
                ("record-write", "enabled", "false"),
                ("data.consume", "consume-enabled", "false")]
        for sect, kv in self.extra.items():
            for k, v in kv.items():
                sets.append((sect, k, v))
        for sect, k, v in sets:
            tpl = _set_key(tpl, sect, k, v)
        os.makedirs(nd, exist_ok=True)
        os.makedirs(os.path.join(nd, "logs", str(i)), exist_ok=True)
        self.conf[i] = os.path.join(nd, "openGemini.conf")
        open(self.conf[i], "w").write(tpl)

    def _spawn(self, app, i):
        env = dict(os.environ)
        env["HOME"] = os.path.join(self.dir, f"n{i}")        # the default logger writes to $HOME/.openGemini
        lg = open(os.path.join(self.dir, f"n{i}", f"{app}.out"), "ab")
        self._logs.append(lg)
        return subprocess.Popen([self.bins[app], "-config", self.conf[i]], stdout=lg, stderr=subprocess.STDOUT, env=env,
                                cwd=os.path.join(self.dir, f"n{i}"), start_new_session=True)

    # ---- life cycle -----------------------------------------------------------------------------
    def start(self, wait=240):
        t0 = time.time()
        for i in (1, 2, 3):
            self.meta[i] = self._spawn("ts-meta", i)
        self._wait_meta(wait)
        for i in (1, 2, 3):
            self.store[i] = self._spawn("ts-store", i)
            time.sleep(0.1)
        self.sql = self._spawn("ts-sql", 1)
        self.wait_ready(wait)
        self.boot_s = time.time() - t0
        return self

    def _wait_meta(self, wait):
        """a meta leader exists when one node answers /getdata or reports a leader; fall back on a fixed 5 s (as the script)"""
        t0 = time.time()
        while time.time() - t0 < wait:
            for i, p in self.meta.items():
                if p.poll() is not None:
                    raise vlib.Infra(f"ts-meta {i} exited at start:\n" + self.tail_log("ts-meta", i))
            up = 0
            for i in (1, 2, 3):
                s = socket.socket()
                s.settimeout(0.5)
                try:
                    s.connect((self.addr[i], 8092))
                    up += 1
                except OSError:
                    pass
                finally:
                    s.close()
            if up == 3:
                time.sleep(3.0)        # raft election among the metas
                return
            time.sleep(0.2)
        raise vlib.Infra("ts-meta nodes did not open their rpc port:\n" + self.tail_log("ts-meta", 1))

    def wait_ready(self, wait=240):
        """sql answers /ping, a DDL goes through and the three data nodes are registered and alive"""
        t0 = time.time()
        while time.time() - t0 < wait:
            self._check_procs()
            try:
                with urllib.request.urlopen(self.url + "/ping", timeout=2) as r:
                    if r.status in (200, 204):
                        break
            except Exception:
                time.sleep(0.3)
        else:
            raise vlib.Infra("ts-sql did not answer /ping:\n" + self.tail_log("ts-sql", 1))
        while time.time() - t0 < wait:
            self._check_procs()
            try:
                st, body = self.query("show cluster")
                if st == 200 and self._alive_data_nodes(body) >= 3:
                    return
            except Exception:
                pass
            time.sleep(0.5)
        raise vlib.Infra("cluster not ready (show cluster does not list 3 alive data nodes):\n" + self.tail_log("ts-sql", 1)
                         + "\n" + self.tail_log("ts-store", 1))

    @staticmethod
    def _alive_data_nodes(body):
        n = 0
        for res in body.get("results", []):
            for s in res.get("series", []) or []:
                cols = s.get("columns", [])
                for v in s.get("values", []):
                    row = dict(zip(cols, v))
                    if str(row.get("nodeType", "")).lower() == "data" and str(row.get("status", "")).lower() == "alive":
                        n += 1
        return n

    def cluster_view(self):
        st, body = self.query("show cluster")
        rows = []
        for res in body.get("results", []):
            for s in res.get("series", []) or []:
                for v in s.get("values", []):
                    rows.append(dict(zip(s.get("columns", []), v)))
        return rows

    def _check_procs(self):
        for i, p in self.meta.items():
            if p is not None and p.poll() is not None:
                raise vlib.Infra(f"ts-meta {i} died:\n" + self.tail_log("ts-meta", i))
        if self.sql is not None and self.sql.poll() is not None:
            raise vlib.Infra("ts-sql died:\n" + self.tail_log("ts-sql", 1))

    def tail_log(self, app, i, n=3000):
        out = ""
        try:
            out = open(os.path.join(self.dir, f"n{i}", f"{app}.out"), "rb").read()[-n:].decode(errors="replace")
        except Exception:
            pass
        return out

    def error_log(self, i, kind="store", n=6000):
        """tail of the error-level log file of a node (logs/<id>/<kind>.log...)"""
        d = os.path.join(self.dir, f"n{i}", "logs", str(i))
        out = ""
        try:
            for f in sorted(os.listdir(d)):
                if kind in f:
                    out += f"--- {f}\n" + open(os.path.join(d, f), "rb").read()[-n:].decode(errors="replace")
        except Exception:
            pass
        return out

    # ---- the leader's entry-log clean (lib/raftconn/node.go deleteEntryLogPeriodically), read from logs/<i>/store.log ----
    # needs [logging] level = "info". One RaftNode per store and database partition: with one replicated database every
    # store runs one ticker (period TICK_S, started with the raft node, not configurable).
    TICK_S = 60.0

    @staticmethod
    def _log_time(s):
        """RFC3339Nano UTC -> epoch seconds"""
        m = re.match(r"(\d+)-(\d+)-(\d+)T(\d+):(\d+):(\d+)(\.\d+)?Z", s)
        if not m:
            return None
        import calendar
        return calendar.timegm(tuple(int(m.group(k)) for k in range(1, 7)) + (0, 0, 0)) + float(m.group(7) or 0)

    def clean_ticks(self, i):
        """(ticker starts, ticks) of store i. A tick is {"t", "obs", "active", "min_index"} with obs =
        "follower" (not the raft leader: deleteEntryLog returns at once), "nosnap" (leader without a snapshot: the members are not
        looked at), "healthy" (everybody alive: ordinary ClearEntryLog proposed), "away" (a member is not alive, outage timer
        running), "forced" (a member is not alive and the timer has expired: ClearEntryLog computed from the active members)."""
        d = os.path.join(self.dir, f"n{i}", "logs", str(i))
        starts, ticks = [], []
        try:
            names = sorted(f for f in os.listdir(d) if f.startswith("store") and "error" not in f and "raft" not in f)
        except OSError:
            return starts, ticks
        lines = []
        for f in names:
            try:
                for ln in open(os.path.join(d, f), "rb"):
                    if b"raftconn/node.go" in ln:
                        try:
                            lines.append(json.loads(ln.decode(errors="replace")))
                        except Exception:
                            pass
            except OSError:
                pass
        lines.sort(key=lambda x: x.get("time", ""))
        cur = None
        for x in lines:
            msg, t = x.get("msg", ""), self._log_time(x.get("time", ""))
            if t is None:
                continue
            if msg == "delete entry log periodically":
                starts.append(t)
                cur = None
            elif msg == "delete entry log start":
                cur = {"t": t, "obs": "follower", "active": None, "min_index": None}
                ticks.append(cur)
            elif cur is not None and t - cur["t"] < 5.0:
                if msg.startswith("dont have a snapshot yet"):
                    cur["obs"] = "nosnap"
                elif msg.startswith("rg member is not all active"):
                    cur["obs"] = "away"
                    cur["active"] = x.get("activePtSlice")
                elif msg.startswith("genProposeData marshal index is"):
                    cur["obs"] = "forced" if cur["obs"] == "away" else "healthy"
                    cur["min_index"] = x.get("minIndex")
        return starts, ticks

    def entry_files(self, i, db, pt):
        """raft entry files of partition pt on store i (the ClearEntryLog command deletes whole files from the front)"""
        ed = os.path.join(self.dir, f"n{i}", "data", "wal", db, str(pt), "__raft_entries__")
        try:
            return sorted(f for f in os.listdir(ed) if f.endswith(".entry"))
        except OSError:
            return []

    @staticmethod
    def _kill(p, sig=signal.SIGKILL):
        if p is not None and p.poll() is None:
            try:
                os.kill(p.pid, sig)
            except ProcessLookupError:
                pass
            try:
                p.wait(timeout=30)
            except subprocess.TimeoutExpired:
                os.kill(p.pid, signal.SIGKILL)
                p.wait(timeout=30)

    def kill_store(self, i):
        self._kill(self.store.get(i), signal.SIGKILL)
        self.store[i] = None

    def pause_store(self, i):
        p = self.store.get(i)
        if p is not None and p.poll() is None:
            os.kill(p.pid, signal.SIGSTOP)

    def resume_store(self, i):
        p = self.store.get(i)
        if p is not None and p.poll() is None:
            os.kill(p.pid, signal.SIGCONT)

    def start_store(self, i):
        if self.store_alive(i):
            return
        self.store[i] = self._spawn("ts-store", i)

    def store_alive(self, i):
        p = self.store.get(i)
        return p is not None and p.poll() is None

    def stop(self, keep=False):
        for p in [self.sql] + list(self.store.values()) + list(self.meta.values()):
            self._kill(p)
        self.sql = None
        self.store = {}
        self.meta = {}
        for lg in self._logs:
            try:
                lg.close()
            except Exception:
                pass
        if not keep:
            shutil.rmtree(self.dir, ignore_errors=True)

    # ---- HTTP helpers (through the sql node) -----------------------------------------------------------
    def http(self, method, path, params=None, body=None, headers=None, timeout=30):
        url = self.url + path
        if params:
            url += "?" + urllib.parse.urlencode(params)
        data = body.encode() if isinstance(body, str) else body
        req = urllib.request.Request(url, data=data, method=method)
        for k, v in (headers or {}).items():
            req.add_header(k, v)
        try:
            with urllib.request.urlopen(req, timeout=timeout) as r:
                return r.status, r.read().decode(errors="replace")
        except urllib.error.HTTPError as e:
            return e.code, e.read().decode(errors="replace")

    def query(self, q, db=None, epoch=None, method="GET", timeout=30, **params):
        p = {"q": q}
        if db:
            p["db"] = db
        if epoch:
            p["epoch"] = epoch
        p.update(params)
        st, body = self.http(method, "/query", p, timeout=timeout)
        try:
            return st, json.loads(body)
        except Exception:
            return st, {"raw": body}

    def write(self, db, lines, precision=None, rp=None, timeout=30):
        p = {"db": db}
        if precision:
            p["precision"] = precision
        if rp:
            p["rp"] = rp
        return self.http("POST", "/write", p, body=lines if isinstance(lines, (str, bytes)) else "\n".join(lines), timeout=timeout)

    def flush(self):
        """force a memtable flush on the stores (debug control, broadcast by the sql node)"""
        return self.http("POST", "/debug/ctrl", {"mod": "flush"})

    def series_of(self, result):
        out = []
        for res in result.get("results", []):
            for s in res.get("series", []) or []:
                out.append(s)
        return out


if __name__ == "__main__":
    c = Cluster()
    try:
        t0 = time.time()
        c.start()
        print("boot", round(time.time() - t0, 1), "s", c.addr)
        print(c.query("CREATE DATABASE db0 REPLICAS 3", method="POST"))
        print(c.cluster_view())
        for k in range(40):
            st, b = c.write("db0", "m,host=a v=1i 1000000000")
            print("write", st, b[:200])
            if st == 204:
                break
            time.sleep(1)
        time.sleep(2)
        print(c.query("select * from m", db="db0", epoch="ns"))
    finally:
        if os.environ.get("KEEP"):
            print("kept", c.dir)
            c.stop(keep=True)
        else:
            c.stop()
