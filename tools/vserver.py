#!/usr/bin/env python3
"""Single-node openGemini server (ts-server) built from the repository under verification, for the
HTTP-level (black box) checks. Usage:

    import vserver
    srv = vserver.Server(extra_conf={"http": {"auth-enabled": "true"}})   # builds if needed, starts, waits for /ping
    srv.query("create database db0"); srv.write("db0", "m,host=a v=1i 1000"); srv.query("select * from m", db="db0", epoch="ns")
    srv.restart(kill=True)   # SIGKILL + start again on the same directories
    srv.stop()               # stops and removes the scratch directory

Every server gets its own scratch directory and its own block of loopback ports, so several can run
concurrently. Nothing is kept under /tmp."""
import json, os, random, shutil, signal, socket, subprocess, sys, time, urllib.parse, urllib.request, urllib.error, hashlib, base64

sys.path.insert(0, os.path.dirname(os.path.abspath(__file__)))
import vlib

_built = {}


def build_server():
    """go build ./app/ts-server from VERIF_REPO (default /repo) with the verif tag."""
    repo = os.path.realpath(vlib.REPO)
    if repo in _built:
        return _built[repo]
    os.makedirs(vlib.BIN, exist_ok=True)
    suffix = "" if repo == "/repo" else "-" + hashlib.sha1(repo.encode()).hexdigest()[:8]
    out = os.path.join(vlib.BIN, "ts-server" + suffix)
    t0 = time.time()
    r = subprocess.run(["go", "build", "-tags", "verif", "-o", out, "./app/ts-server"], cwd=repo, env=vlib.goenv(),
                       capture_output=True, text=True)
    if r.returncode != 0:
        raise vlib.Infra("ts-server build failed:\n" + r.stdout + r.stderr)
    vlib.log(f"[build] {os.path.basename(out)} built against {repo} in {time.time()-t0:.1f}s")
    _built[repo] = out
    return out


def _free_port_block(n=12):
    """find n consecutive free loopback ports"""
    rnd = random.Random(os.getpid() * 7919 + int(time.time() * 1000) % 100000)
    for _ in range(200):
        base = rnd.randrange(10000, 32000 - n)   # below the kernel's ephemeral range (32768..60999): no outgoing connection takes them
        ok = True
        socks = []
        try:
            for p in range(base, base + n):
                s = socket.socket()
                s.setsockopt(socket.SOL_SOCKET, socket.SO_REUSEADDR, 1)
                s.bind(("127.0.0.1", p))
                socks.append(s)
        except OSError:
            ok = False
        for s in socks:
            s.close()
        if ok:
            return base
    raise vlib.Infra("no free port block")


CONF = """[common]
  meta-join = ["127.0.0.1:{p2}"]
  ha-policy = "write-available-first"
  ignore-empty-tag = true
{common_extra}
[meta]
  bind-address = "127.0.0.1:{p0}"
  http-bind-address = "127.0.0.1:{p1}"
  rpc-bind-address = "127.0.0.1:{p2}"
  dir = "{dir}/meta"
{meta_extra}
[http]
  bind-address = "127.0.0.1:{p3}"
  flight-address = "127.0.0.1:{p4}"
  flight-enabled = false
  flight-auth-enabled = false
{http_extra}
[data]
  store-ingest-addr = "127.0.0.1:{p5}"
  store-select-addr = "127.0.0.1:{p6}"
  store-data-dir = "{dir}/data"
  store-wal-dir = "{dir}/data"
  store-meta-dir = "{dir}/meta"
  enable-mmap-read = false
{data_extra}
[coordinator]
  query-timeout = "0s"
{coordinator_extra}
[index]
  cache-compress-enable = false
[retention]
{retention_extra}
[logging]
  path = "{dir}/logs/"
  level = "error"
[gossip]
  enabled = false
[spec-limit]
  enable-query-when-exceed = true
  query-series-limit = 100000
  query-schema-limit = 1000000
[monitor]
  store-enabled = false
[runtime-config]
  enabled = false
[limits]
  prom-limit-enabled = false
[record-write]
  enabled = false
  rpc-address = "127.0.0.1:{p7}"
[hierarchical_storage]
  enabled = false
  index-enabled = false
{tail_extra}
"""


class Server:
    def __init__(self, extra_conf=None, start=True, name="srv"):
        self.bin = build_server()
        self.dir = vlib.scratch(name)
        self.extra = extra_conf or {}
        self.proc = None
        self.base = _free_port_block()
        self.port = self.base + 3
        self.url = f"http://127.0.0.1:{self.port}"
        self._write_conf()
        if start:
            self.start()

    def _sect(self, name):
        kv = self.extra.get(name, {})
        return "\n".join(f"  {k} = {v}" for k, v in kv.items())

    def _write_conf(self):
        ports = {f"p{i}": self.base + i for i in range(8)}
        tail = ""
        for sect, kv in self.extra.items():
            if sect not in ("common", "meta", "http", "data", "coordinator", "retention"):
                tail += f"[{sect}]\n" + "\n".join(f"  {k} = {v}" for k, v in kv.items()) + "\n"
        txt = CONF.format(dir=self.dir, common_extra=self._sect("common"), meta_extra=self._sect("meta"),
                          http_extra=self._sect("http"), data_extra=self._sect("data"),
                          coordinator_extra=self._sect("coordinator"), retention_extra=self._sect("retention"),
                          tail_extra=tail, **ports)
        self.conf = os.path.join(self.dir, "server.conf")
        open(self.conf, "w").write(txt)

    def start(self, wait=60):
        env = dict(os.environ)
        env["HOME"] = self.dir           # the default logger writes to $HOME/.openGemini
        self.log = open(os.path.join(self.dir, "stdout.log"), "ab")
        self.proc = subprocess.Popen([self.bin, "-config", self.conf], stdout=self.log, stderr=subprocess.STDOUT, env=env,
                                     cwd=self.dir, start_new_session=True)
        t0 = time.time()
        while time.time() - t0 < wait:
            if self.proc.poll() is not None:
                # most often a port of the block was taken between probing and binding: a server that has never run
                # gets a new block (a restarted one keeps its ports and is simply started again)
                tries = getattr(self, "_start_tries", 0)
                if tries < 2:
                    self._start_tries = tries + 1
                    if not getattr(self, "_has_run", False):
                        self.base = _free_port_block()
                        self.port = self.base + 3
                        self.url = f"http://127.0.0.1:{self.port}"
                        self._write_conf()
                    time.sleep(1.0)
                    return self.start(wait)
                raise vlib.Infra("ts-server exited at start:\n" + self.tail_log())
            try:
                with urllib.request.urlopen(self.url + "/ping", timeout=1) as r:
                    if r.status in (200, 204):
                        break
            except Exception:
                time.sleep(0.2)
        else:
            raise vlib.Infra("ts-server did not answer /ping:\n" + self.tail_log())
        # the store registers asynchronously: wait until a DDL goes through
        t0 = time.time()
        while time.time() - t0 < wait:
            try:
                st, body = self.http("GET", "/query", {"q": "show databases"}, auth=self.extra.get("_admin"))
                if st == 200 and "error" not in body[:200]:
                    self._has_run = True
                    return
            except Exception:
                pass
            time.sleep(0.3)
        raise vlib.Infra("ts-server not ready for queries:\n" + self.tail_log())

    def tail_log(self, n=3000):
        try:
            return open(os.path.join(self.dir, "stdout.log"), "rb").read()[-n:].decode(errors="replace")
        except Exception:
            return ""

    def alive(self):
        return self.proc is not None and self.proc.poll() is None

    def kill(self, sig=signal.SIGKILL):
        if self.proc and self.proc.poll() is None:
            try:
                os.killpg(self.proc.pid, sig)
            except ProcessLookupError:
                pass
            try:
                self.proc.wait(timeout=30)
            except subprocess.TimeoutExpired:
                os.killpg(self.proc.pid, signal.SIGKILL)
                self.proc.wait(timeout=30)
        self.proc = None

    def restart(self, kill=True, wait=60):
        self.kill(signal.SIGKILL if kill else signal.SIGTERM)
        self.start(wait=wait)

    def stop(self):
        self.kill(signal.SIGKILL)
        shutil.rmtree(self.dir, ignore_errors=True)

    # ---- HTTP helpers ---------------------------------------------------------------------------
    def http(self, method, path, params=None, body=None, headers=None, auth=None, timeout=30):
        """returns (status, body text). auth = (user, password) for basic auth."""
        url = self.url + path
        if params:
            url += "?" + urllib.parse.urlencode(params)
        data = body.encode() if isinstance(body, str) else body
        req = urllib.request.Request(url, data=data, method=method)
        for k, v in (headers or {}).items():
            req.add_header(k, v)
        if auth:
            req.add_header("Authorization", "Basic " + base64.b64encode(f"{auth[0]}:{auth[1]}".encode()).decode())
        try:
            with urllib.request.urlopen(req, timeout=timeout) as r:
                return r.status, r.read().decode(errors="replace")
        except urllib.error.HTTPError as e:
            return e.code, e.read().decode(errors="replace")

    def query(self, q, db=None, epoch=None, method="GET", auth=None, **params):
        p = {"q": q}
        if db:
            p["db"] = db
        if epoch:
            p["epoch"] = epoch
        p.update(params)
        if method == "POST":
            st, body = self.http("POST", "/query", p, auth=auth)
        else:
            st, body = self.http("GET", "/query", p, auth=auth)
        try:
            return st, json.loads(body, parse_float=str, parse_int=str) if params.get("_raw_numbers") else json.loads(body)
        except Exception:
            return st, {"raw": body}

    def write(self, db, lines, precision=None, rp=None, auth=None):
        p = {"db": db}
        if precision:
            p["precision"] = precision
        if rp:
            p["rp"] = rp
        return self.http("POST", "/write", p, body=lines if isinstance(lines, (str, bytes)) else "\n".join(lines), auth=auth)

    def series_of(self, result):
        """flatten a /query JSON answer into a list of (statement_id, series dict)"""
        out = []
        for res in result.get("results", []):
            for s in res.get("series", []) or []:
                out.append(s)
        return out

    def flush(self):
        """force a memtable flush on the store (debug control)"""
        return self.http("POST", "/debug/ctrl", {"mod": "flush"})


if __name__ == "__main__":
    s = Server()
    try:
        print(s.query("create database db0"))
        print(s.write("db0", "m,host=a v=1i 1000000000"))
        time.sleep(1.5)
        print(s.query("select * from m", db="db0", epoch="ns"))
        t0 = time.time()
        s.restart(kill=True)
        print("restart", round(time.time() - t0, 1), "s")
        print(s.query("select * from m", db="db0", epoch="ns"))
    finally:
        s.stop()
