#!/usr/bin/env python3
"""tools/mkredteam.py <Cxx> [n]: creates a scratch worktree of /repo under /tmp and prints the prompt for an independent
sub-agent asked to seed property-breaking changes (the agent sees only the property text)."""
import json, os, subprocess, sys
ROOT = os.path.dirname(os.path.dirname(os.path.abspath(__file__)))
pid = sys.argv[1]; n = sys.argv[2] if len(sys.argv) > 2 else "2"
tag = sys.argv[3] if len(sys.argv) > 3 else "a"
wt = f"/tmp/seed-{pid}-{tag}"
if not os.path.isdir(wt):
    subprocess.check_call(["git", "-C", "/repo", "worktree", "add", "-q", "--detach", wt, "HEAD"])
prop = [json.loads(l) for l in open(os.path.join(ROOT, "properties.jsonl")) if json.loads(l)["id"] == pid][0]
txt = json.dumps({k: prop[k] for k in ("title", "statement", "quantifier", "why_tests_cant", "anchors")}, indent=1)
t = open(os.path.join(ROOT, "tools/redteam_prompt.md")).read()
t = t.replace("{WT}", wt).replace("{PID}", pid).replace("{N}", n).replace("{PROPTEXT}", txt)
out = os.path.join(ROOT, f".work/prompts/redteam_{pid}_{tag}.md")
open(out, "w").write(t)
os.makedirs(wt + "/_seed", exist_ok=True)
open(wt + "/_seed/TASK.md", "w").write(t)
print(wt + "/_seed/TASK.md")
