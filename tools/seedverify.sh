#!/bin/bash
# tools/seedverify.sh <seed-dir (patch.diff, demo_test.go, meta.json)> <Cxx> [tier ...]
# 1. confirms the seeded change in a scratch worktree (demo passes clean, builds with patch, demo fails with patch)
# 2. runs ./check <Cxx> against a scratch worktree carrying the patch, for each tier given (default: quick)
# prints one summary line per step; leaves no worktree behind.
set -u
SD=$(realpath "$1"); PROP=$2; shift 2; TIERS=${*:-quick}
cd "$(dirname "$0")/.."
PKG=$(python3 -c "import json,sys;print(json.load(open(sys.argv[1]+'/meta.json')).get('demo_pkg',''))" "$SD")
PAT=$(python3 -c "import json,sys;print(json.load(open(sys.argv[1]+'/meta.json')).get('demo_run',''))" "$SD")
if [ -n "$PKG" ] && [ -f "$SD/demo_test.go" ]; then
  tools/seedcheck.sh "$SD" "$PKG" "$PAT" 2>&1 | grep -E "SEEDCHECK|FAIL|ok " | head -5
else
  echo "SEEDCHECK: no go-test demonstration (see meta.json demo_cmd)"
fi
for T in $TIERS; do
  out=$(tools/mutant.sh "$SD/patch.diff" "$PROP" "$T" 2>&1)
  echo "$out" | grep -E "^KNOWN-FINDING" | cut -c1-160 | head -3
  echo "$out" | grep -E "^VIOLATION" | head -3
  echo "$out" | grep -E "INFRA|Traceback" -A3 | cut -c1-600 | head -8
  echo "$out" | grep -E "^MUTANT"
done
