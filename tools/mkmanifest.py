#!/usr/bin/env python3
"""Regenerates MANIFEST.json from tools/manifest_src.py (single source of truth for claimed checks)."""
import json, os, sys
ROOT = os.path.dirname(os.path.dirname(os.path.abspath(__file__)))
sys.path.insert(0, os.path.join(ROOT, "tools"))
import manifest_src as src

props = [json.loads(l)["id"] for l in open(os.path.join(ROOT, "properties.jsonl"))]
# entries delivered as props/cNN.manifest.json (text, note, technique, design_ref) are merged for the ids listed in
# manifest_src.FROM_FILES (a check is listed there once it has been accepted)
for pid in getattr(src, "FROM_FILES", []):
    f = os.path.join(ROOT, "props", pid.lower() + ".manifest.json")
    e = json.load(open(f))
    src.CHECKS[pid] = {"text": e["text"], "note": e["note"], "technique": e["technique"],
                       "design_ref": e.get("design_ref", "DESIGN.md section 5 " + pid)}
checks = []
for pid in props:
    c = src.CHECKS.get(pid)
    if not c:
        continue
    checks.append({
        "property_id": pid,
        "quick_cmd": f"./check {pid} --tier quick",
        "thorough_cmd": f"./check {pid} --tier thorough",
        "evidence_file": f"/verif/evidence/{pid}.json",
        "replay_cmd_template": f"./check {pid} --replay {{path}}",
        "engine": c.get("engine", "tlc+vh"),
        "level_claimed": {"category": c.get("category", "model_checking"), "text": c["text"], "design_ref": c["design_ref"]},
        "level_note": c["note"],
        "technique": c["technique"],
    })
na = [{"property_id": p, "reason": src.NOT_APPLICABLE.get(p, "check not built yet in this round (model-based design in DESIGN.md section 5); not claimed")}
      for p in props if p not in src.CHECKS]
m = {
    "version": 1,
    "setup_cmd": "./setup.sh",
    "hooks": {
        "guard": "verif",
        "enable": "go build -tags verif (the harness module /verif/harness replaces github.com/openGemini/openGemini => /repo)",
        "baseline_off_cmd": "for m in $(cat /w/out/gomods.txt); do MF=$(cd /repo/$m && . /w/out/goenv.sh && gomodflag); (cd /repo/$m && go test $MF -json -vet=off -count=1 -timeout 25m ./...); done",
        "source_commits": src.HOOK_COMMITS,
        "add_only": True,
    },
    "engines": [
        {"name": "tlc+vh", "path": "/verif/check", "serves_properties": [c["property_id"] for c in checks],
         "kind_free_text": "TLA+ specs in /verif/specs checked by TLC; TLC-generated behaviours replayed into the real code / recorded traces validated by TLC through the Go harness /verif/harness (binary .bin/vh)"}
    ],
    "checks": checks,
    "not_applicable": na,
    "notes": src.NOTES,
}
json.dump(m, open(os.path.join(ROOT, "MANIFEST.json"), "w"), indent=1)
print("MANIFEST.json:", len(checks), "checks,", len(na), "not claimed")
