#!/usr/bin/env python3
"""Shared machinery of the /verif checks: TLC runner, harness build, evidence, known findings."""
import json, os, re, shutil, subprocess, sys, tempfile, time, hashlib

ROOT = os.path.dirname(os.path.dirname(os.path.abspath(__file__)))
REPO = os.environ.get("VERIF_REPO", "/repo")
SPECS = os.path.join(ROOT, "specs")
WORK = os.path.join(ROOT, ".work")
BIN = os.path.join(ROOT, ".bin")
NCPU = os.cpu_count() or 4


class Infra(Exception):
    """Infrastructure failure (exit 2): never a verdict about the property."""


def log(*a):
    print(*a, file=sys.stderr, flush=True)


def goenv():
    e = dict(os.environ)
    e["GOFLAGS"] = "-mod=mod"
    e["GOPROXY"] = "off"
    e.pop("GOSUMDB", None)
    e.setdefault("GOCACHE", os.path.expanduser("~/.cache/go-build"))
    return e


def scratch(prefix):
    base = "/dev/shm" if os.path.isdir("/dev/shm") else WORK
    os.makedirs(WORK, exist_ok=True)
    d = tempfile.mkdtemp(prefix=f"verif-{prefix}-", dir=base)
    return d


_built = {}


def build_vh(tags="verif", race=False):
    """Build the Go harness against the repository's current working tree (VERIF_REPO, default /repo).
    For any other tree (mutation testing in a scratch worktree) the harness sources are copied to a
    private directory so that the shared harness/go.mod keeps pointing at /repo."""
    key = (tags, race)
    if key in _built:
        return _built[key]
    os.makedirs(BIN, exist_ok=True)
    hdir = os.path.join(ROOT, "harness")
    suffix = ""
    if os.path.realpath(REPO) != "/repo":
        suffix = "-" + hashlib.sha1(os.path.realpath(REPO).encode()).hexdigest()[:8]
        hcopy = os.path.join(WORK, "harness" + suffix)
        shutil.rmtree(hcopy, ignore_errors=True)
        shutil.copytree(hdir, hcopy, ignore=shutil.ignore_patterns("go.mod", "go.sum"))
        hdir = hcopy
    r = subprocess.run([sys.executable, os.path.join(ROOT, "tools", "genmod.py")], capture_output=True, text=True,
                       env=dict(os.environ, VERIF_REPO=REPO, VERIF_HARNESS_DIR=hdir))
    if r.returncode != 0:
        raise Infra("genmod failed: " + r.stderr)
    out = os.path.join(BIN, "vh" + suffix + ("-race" if race else ""))
    cmd = ["go", "build", "-tags", tags, "-o", out]
    if race:
        cmd.append("-race")
    cmd.append("./cmd/vh")
    t0 = time.time()
    r = subprocess.run(cmd, cwd=hdir, env=goenv(), capture_output=True, text=True)
    if r.returncode != 0:
        raise Infra("harness build failed:\n" + r.stdout + r.stderr)
    log(f"[build] {os.path.basename(out)} built against {REPO} in {time.time()-t0:.1f}s")
    _built[key] = out
    return out


def parse_tlc(out):
    res = {"generated": 0, "distinct": 0, "depth": 0, "violated": None, "error": None, "traces": [], "sim_traces": 0}
    m = re.findall(r"(\d[\d,]*) states generated, (\d[\d,]*) distinct states found", out)
    if m:
        res["generated"] = int(m[-1][0].replace(",", ""))
        res["distinct"] = int(m[-1][1].replace(",", ""))
    m = re.search(r"The number of states generated: (\d+)", out)
    if m:
        res["generated"] = int(m.group(1))
        res["distinct"] = res["distinct"] or int(m.group(1))
    m = re.search(r"depth of the complete state graph search is (\d+)", out)
    if m:
        res["depth"] = int(m.group(1))
    m = re.findall(r"(\d+) traces generated", out)
    if m:
        res["sim_traces"] = int(m[-1])
    m = re.search(r"Invariant (\S+) is violated", out)
    if m:
        res["violated"] = m.group(1)
    m = re.search(r"Action property (\S+) is violated|Temporal properties were violated|Deadlock reached", out)
    if m and not res["violated"]:
        res["violated"] = m.group(1) or m.group(0)
    if re.search(r"Postcondition .* is false|violated the postcondition", out, re.I):
        res["violated"] = res["violated"] or "POSTCONDITION"
    for line in out.splitlines():
        if line.startswith('<<"TRACE", "'):
            body = line[len('<<"TRACE", "'):]
            if body.endswith('">>'):
                body = body[:-3]
            try:
                res["traces"].append(json.loads(json.loads('"' + body + '"')))
            except Exception as ex:  # noqa
                res["error"] = f"unparsable TRACE line: {ex}"
    if "Error:" in out and not res["violated"]:
        m = re.search(r"Error: (.*)", out)
        # TLC prints 'Error:' for evaluation errors, parse errors etc.
        if m and "Invariant" not in m.group(1):
            res["error"] = res["error"] or m.group(1)
    ok_end = ("Model checking completed. No error has been found." in out) or ("Finished in" in out)
    res["finished"] = ok_end
    return res


def run_tlc(module, cfg, workers=None, simulate=None, depth=None, seed=None, timeout=600, extra=None,
            copy_files=(), coverage=False, depth_first=False, keep=False):
    """Run TLC in a private scratch copy of the specs. Returns parsed result + raw output."""
    wd = scratch("tlc")
    try:
        for f in os.listdir(SPECS):
            if f.endswith(".tla"):
                shutil.copy(os.path.join(SPECS, f), wd)
        for f in copy_files:
            shutil.copy(f, wd)
        cfgp = cfg if os.path.isabs(cfg) else os.path.join(SPECS, "cfg", cfg)
        cmd = ["timeout", str(timeout), "tlc", "-metadir", os.path.join(wd, "md"), "-config", cfgp]
        if simulate is not None:
            cmd += ["-workers", "1", "-simulate", f"num={simulate}"]
            if depth:
                cmd += ["-depth", str(depth)]
            if seed is not None:
                cmd += ["-seed", str(seed)]
        else:
            cmd += ["-workers", str(workers or NCPU)]
        if coverage:
            cmd += ["-coverage", "1"]
        if extra:
            cmd += list(extra)
        cmd.append(module + ".tla")
        env = dict(os.environ)
        # TLC unpacks its class files into a fresh directory under java.io.tmpdir on every start: keep that inside the scratch copy
        env["JAVA_TOOL_OPTIONS"] = (env.get("JAVA_TOOL_OPTIONS", "") + " -Djava.io.tmpdir=" + wd).strip()
        if depth_first:
            env["JAVA_TOOL_OPTIONS"] = (env.get("JAVA_TOOL_OPTIONS", "") + " -Dtlc2.tool.queue.IStateQueue=StateDeque").strip()
        t0 = time.time()
        p = subprocess.run(cmd, cwd=wd, capture_output=True, text=True, env=env)
        out = p.stdout + p.stderr
        res = parse_tlc(out)
        res["wall_s"] = time.time() - t0
        res["rc"] = p.returncode
        res["out"] = out
        res["cmd"] = " ".join(cmd)
        if p.returncode == 124:
            res["timeout"] = True
        return res
    finally:
        if not keep:
            shutil.rmtree(wd, ignore_errors=True)


def tlc_must_pass(res, what):
    """Mode A: the design model must satisfy its invariants; anything else is infrastructure (exit 2)."""
    if res.get("timeout"):
        raise Infra(f"TLC timed out on {what}")
    if res["violated"]:
        raise Infra(f"TLC reports {res['violated']} violated on {what} (the *specification* is wrong; fix the spec)\n" + res["out"][-3000:])
    if res["error"] or not res["finished"]:
        raise Infra(f"TLC error on {what}: {res['error']}\n" + res["out"][-3000:])


# ---------------------------------------------------------------------------------------------------

def load_known(prop):
    p = os.path.join(ROOT, "known_findings.json")
    if not os.path.exists(p):
        return []
    data = json.load(open(p))
    return [f for f in data.get("findings", []) if f.get("property") == prop and f.get("status") == "open"]


def write_evidence(prop, tier, seed, level, coverage, wall, violations, assumptions):
    edir = os.path.join(ROOT, "evidence")
    if os.path.realpath(REPO) != "/repo":
        # a run against a scratch worktree (mutation testing, seeded changes) must not replace the evidence of /repo
        edir = os.path.join(WORK, "evidence-" + hashlib.sha1(os.path.realpath(REPO).encode()).hexdigest()[:8])
    os.makedirs(edir, exist_ok=True)
    ev = {
        "property_id": prop, "tier": tier, "seed": int(seed), "level": level,
        "coverage": coverage, "assumptions": assumptions, "wall_s": round(wall, 2),
        "violations": int(violations),
    }
    ev["tree"] = os.path.realpath(REPO)
    p = os.path.join(edir, f"{prop}.json")
    tmp = p + ".tmp"
    json.dump(ev, open(tmp, "w"), indent=1, sort_keys=True)
    os.replace(tmp, p)
    return p


def save_replay(prop, obj):
    d = os.path.join(ROOT, "replays")
    os.makedirs(d, exist_ok=True)
    h = hashlib.sha1(json.dumps(obj, sort_keys=True).encode()).hexdigest()[:12]
    p = os.path.join(d, f"{prop}-{h}.json")
    json.dump(obj, open(p, "w"), indent=1)
    return p


def run_vh(vh, args, stdin_lines=None, timeout=1200, env=None):
    e = dict(os.environ)
    e.update(env or {})
    inp = None
    if stdin_lines is not None:
        inp = "\n".join(json.dumps(x) for x in stdin_lines) + "\n"
    p = subprocess.run([vh] + args, input=inp, capture_output=True, text=True, timeout=timeout, env=e)
    return p


def run_vh_parallel(vh, args, items, nproc=None, timeout=1800, env=None, tolerate=None):
    """Split items over nproc harness processes (the engine has process-global settings).
    Each process reads NDJSON cases on stdin and writes one NDJSON result per case on stdout.
    tolerate(stderr) -> finding id or None: when a harness process dies (exit status other than 0/1) with a
    signature of a listed known finding, the case that was running is recorded under that finding and the rest of
    the chunk is re-run in a fresh process. Returns (results, errs) or (results, errs, tolerated) when tolerate is given."""
    import concurrent.futures as cf
    nproc = max(1, min(nproc or NCPU, len(items)))
    chunks = [items[i::nproc] for i in range(nproc)]
    results, errs, tolerated = [], [], []

    def run_once(chunk):
        p = run_vh(vh, args, chunk, timeout=timeout, env=env)
        out = []
        for line in p.stdout.splitlines():
            if line.startswith("{"):
                try:
                    out.append(json.loads(line))
                except Exception:
                    pass
        return p.returncode, out, p.stderr[-200000:]

    def work(chunk):
        out_all, tol = [], []
        while chunk:
            rc, out, err = run_once(chunk)
            out = [r for r in out if not r.get("hang")]
            out_all += out
            if rc in (0, 1):
                return 0, out_all, "", tol
            fid = tolerate(err) if tolerate else None
            if fid is None or len(out) >= len(chunk):
                os.makedirs(WORK, exist_ok=True)
                fp = os.path.join(WORK, "failed-chunk-%d-%d.ndjson" % (os.getpid(), id(chunk) % 100000))
                with open(fp, "w") as f:
                    for c in chunk:
                        f.write(json.dumps(c) + "\n")
                return rc, out_all, f"[input of the failed harness process saved to {fp}; {len(out)} results before it died]\n" + err, tol
            tol.append({"finding": fid, "case": chunk[len(out)], "stderr_tail": err[-1500:]})
            chunk = chunk[len(out) + 1:]
        return 0, out_all, "", tol

    with cf.ThreadPoolExecutor(nproc) as ex:
        for rc, out, err, tol in ex.map(work, chunks):
            results += out
            tolerated += tol
            if rc not in (0, 1):
                errs.append((rc, err))
    if tolerate is not None:
        return results, errs, tolerated
    return results, errs


def f_c04_1_death(err):
    """stderr signatures of the open finding F-C04-1 (c): unbalanced tsspFile reference count at close"""
    if "F-C04-1" not in {f["id"] for f in load_known("C04")}:
        return None
    if "WATCHDOG" in err and "tsspFile).Close" in err and "WaitGroup).Wait" in err:
        return "F-C04-1"
    if "negative WaitGroup counter" in err and "tsspFile).Unref" in err:
        return "F-C04-1"
    return None
