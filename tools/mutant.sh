#!/bin/sh
# tools/mutant.sh <patch.diff> <Cxx> [tier]: applies a source mutation to a scratch worktree of /repo,
# runs the check against it (VERIF_REPO), prints the exit code, removes the worktree.
set -u
PATCH=$(realpath "$1"); PROP=$2; TIER=${3:-quick}
WT=/tmp/verif-mut-$$
git -C /repo worktree add -q --detach "$WT" HEAD || exit 2
( cd "$WT" && git apply "$PATCH" ) || { git -C /repo worktree remove --force "$WT"; echo "patch does not apply"; exit 2; }
cd "$(dirname "$0")/.."
H=$(python3 -c "import hashlib,os,sys;print(hashlib.sha1(os.path.realpath(sys.argv[1]).encode()).hexdigest()[:8])" "$WT")
VERIF_REPO="$WT" ./check "$PROP" --tier "$TIER"; rc=$?
echo "MUTANT $(basename "$PATCH") $PROP exit=$rc"
git -C /repo worktree remove --force "$WT"
rm -rf ".work/harness-$H" ".work/evidence-$H"; rm -f .bin/*-"$H" .bin/*-"$H"-race
exit $rc
