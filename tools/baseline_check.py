#!/usr/bin/env python3
"""tools/baseline_check.py [repo-dir]: runs the repository's baseline test command (guard OFF, no verif tag) on a scratch
worktree of /repo HEAD (or on the given directory) and reports every test of BASELINE.json's stable_pass list that does
not pass. Exit 0 = every stable test passes."""
import json, os, subprocess, sys, tempfile
base = json.load(open("/root/.vp/BASELINE.json"))
stable = set(base["stable_pass"])
mods = [l.strip() for l in open("/w/out/gomods.txt") if l.strip()]
own = len(sys.argv) < 2
wt = sys.argv[1] if not own else tempfile.mkdtemp(prefix="verif-baseline-", dir="/tmp")
env = dict(os.environ, GOFLAGS="-mod=mod", GOPROXY="off")
env.pop("GOSUMDB", None)
if own:
    os.rmdir(wt)
    subprocess.check_call(["git", "-C", "/repo", "worktree", "add", "-q", "--detach", wt, "HEAD"])
res = {}
try:
    for m in mods:
        p = subprocess.run(["go", "test", "-json", "-vet=off", "-count=1", "-timeout", "25m", "./..."], cwd=os.path.join(wt, m),
                           env=env, capture_output=True, text=True)
        for line in p.stdout.splitlines():
            try:
                e = json.loads(line)
            except Exception:
                continue
            if e.get("Test") and e.get("Action") in ("pass", "fail", "skip"):
                res[e["Package"] + "::" + e["Test"]] = e["Action"]
    lost = sorted(t for t in stable if res.get(t) != "pass")
    print(f"ran {len(res)} tests; stable {len(stable)}; stable tests not passing: {len(lost)}")
    for t in lost:
        print("  LOST", t, res.get(t))
    sys.exit(1 if lost else 0)
finally:
    if own:
        subprocess.call(["git", "-C", "/repo", "worktree", "remove", "--force", wt])
