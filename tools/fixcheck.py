#!/usr/bin/env python3
"""tools/fixcheck.py <patch.diff|-> <go package pattern>...: applies a candidate fix to a scratch worktree of /repo
(HEAD), runs `go test -json -vet=off -count=1` on the given packages WITHOUT the verif tag and reports every test of
BASELINE.json's stable_pass list that fails or no longer runs. Exit 0 = no stable test lost."""
import json, os, subprocess, sys, tempfile
patch, pkgs = sys.argv[1], sys.argv[2:]
base = json.load(open("/root/.vp/BASELINE.json"))
stable = set(base["stable_pass"])
wt = tempfile.mkdtemp(prefix="verif-fixchk-", dir="/tmp")
os.rmdir(wt)
env = dict(os.environ, GOFLAGS="-mod=mod", GOPROXY="off")
env.pop("GOSUMDB", None)
subprocess.check_call(["git", "-C", "/repo", "worktree", "add", "-q", "--detach", wt, "HEAD"])
try:
    if patch != "-":
        subprocess.check_call(["git", "apply", os.path.realpath(patch)], cwd=wt)
    p = subprocess.run(["go", "test", "-json", "-vet=off", "-count=1", "-timeout", "25m"] + pkgs, cwd=wt, env=env,
                       capture_output=True, text=True)
    res = {}
    for line in p.stdout.splitlines():
        try:
            e = json.loads(line)
        except Exception:
            continue
        if e.get("Test") and e.get("Action") in ("pass", "fail", "skip"):
            res[e["Package"] + "::" + e["Test"]] = e["Action"]
    pk = {k.split("::")[0] for k in res}
    lost = sorted(t for t in stable if t.split("::")[0] in pk and res.get(t) != "pass")
    print(f"ran {len(res)} tests in {len(pk)} packages; stable tests of these packages: {sum(1 for t in stable if t.split('::')[0] in pk)}; lost: {len(lost)}")
    for t in lost[:40]:
        print("  LOST", t, res.get(t))
    failed = sorted(k for k, v in res.items() if v == "fail" and k not in stable)
    print("non-stable failures:", failed[:20])
    if not res:
        print(p.stdout[-3000:], p.stderr[-3000:])
    sys.exit(1 if lost or not res else 0)
finally:
    subprocess.call(["git", "-C", "/repo", "worktree", "remove", "--force", wt])
