// Package engx drives a real openGemini storage engine (one db / one pt / one shard) on a scratch
// directory through exported API only: write rows, flush, compact, merge, dump, close, reopen.
package engx

import (
	"context"
	"flag"
	"fmt"
	"os"
	"path/filepath"
	"sort"
	"sync"
	"time"

	"github.com/openGemini/openGemini/engine"
	"github.com/openGemini/openGemini/engine/executor"
	"github.com/openGemini/openGemini/engine/immutable"
	"github.com/openGemini/openGemini/engine/index/tsi"
	"github.com/openGemini/openGemini/lib/config"
	"github.com/openGemini/openGemini/lib/cpu"
	"github.com/openGemini/openGemini/lib/logger"
	"github.com/openGemini/openGemini/lib/metaclient"
	"github.com/openGemini/openGemini/lib/record"
	"github.com/openGemini/openGemini/lib/resourceallocator"
	"github.com/openGemini/openGemini/lib/util"
	"github.com/openGemini/openGemini/lib/util/lifted/influx/influxql"
	meta2 "github.com/openGemini/openGemini/lib/util/lifted/influx/meta"
	"github.com/openGemini/openGemini/lib/util/lifted/influx/query"
	"github.com/openGemini/openGemini/lib/util/lifted/vm/protoparser/influx"
)

const (
	DB      = "db0"
	RP      = "rp0"
	PT      = uint32(0)
	ShardID = uint64(1)
)

var initOnce sync.Once

// GlobalInit must run once per process before any engine is opened.
func GlobalInit(logDir string) {
	initOnce.Do(func() {
		_ = flag.CommandLine.Set("loggerLevel", "ERROR")
		if !flag.Parsed() {
			_ = flag.CommandLine.Parse(nil)
		}
		lc := config.NewLogger(config.AppStore)
		lc.Path = logDir
		if d := os.Getenv("VH_LOGDIR"); d != "" {
			lc.Path = d
		}
		lc.Level = 2 // error
		logger.InitLogger(lc)
		_ = resourceallocator.InitResAllocator(1000000, 1, 1, resourceallocator.GradientDesc, resourceallocator.ChunkReaderRes, 0, 1)
		_ = resourceallocator.InitResAllocator(1000000, 0, 1, 0, resourceallocator.ShardsParallelismRes, time.Second, 1)
		_ = resourceallocator.InitResAllocator(1000000, 0, 1, 0, resourceallocator.SeriesParallelismRes, time.Second, 1)
		executor.InitNagtPool(64)
	})
}

type Env struct {
	sh       engine.Shard
	NoSettle bool // concurrent drivers (C04) do not wait for background loads
	Dir      string
	Eng      engine.Engine
	client   *metaclient.Client
	loadCtx  *metaclient.LoadCtx
	stop     chan struct{}
}

type Options struct {
	WalParts          int  // number of WAL partitions (>0)
	MaxRowsPerSegment int  // 0 = default
	Background        bool // keep background compaction/merge enabled
	MemDataRead       bool
	CompactionMethod  int // 0 auto, 1 streaming, 2 non-streaming (data.compact.compaction-method)
}

func shardTime() (time.Time, time.Time) {
	return time.Unix(0, 0).UTC(), time.Unix(0, 0).UTC().Add(365 * 24 * time.Hour * 200)
}

func durationInfo() *meta2.ShardDurationInfo {
	return &meta2.ShardDurationInfo{
		Ident:        meta2.ShardIdentifier{ShardID: ShardID, ShardGroupID: 1, Policy: RP, OwnerDb: DB, OwnerPt: PT},
		DurationInfo: meta2.DurationDescriptor{Tier: util.Hot, TierDuration: 0, Duration: 0},
	}
}

func rpInfo() *meta2.RetentionPolicyInfo {
	rpi := meta2.NewRetentionPolicyInfo(RP)
	rpi.Duration = 0
	rpi.ShardGroupDuration = 365 * 24 * time.Hour * 200
	return rpi
}

func timeRangeInfo() *meta2.ShardTimeRangeInfo {
	s, e := shardTime()
	tr := meta2.TimeRangeInfo{StartTime: s, EndTime: e}
	return &meta2.ShardTimeRangeInfo{
		TimeRange:     tr,
		OwnerIndex:    meta2.IndexDescriptor{IndexID: 1, IndexGroupID: 1, TimeRange: tr},
		ShardDuration: durationInfo(),
	}
}

// Open opens (creating if needed) the engine rooted at dir. If the directory already holds the
// shard, it is loaded exactly as ts-store does at start-up (WAL replay included).
func Open(dir string, o Options) (*Env, error) {
	GlobalInit(filepath.Join(dir, "logs"))
	if o.WalParts > 0 {
		cpu.SetCpuNum(o.WalParts, 1)
	}
	opt := engine.NewEngineOptions()
	opt.WalEnabled = true
	opt.WalSyncInterval = 0
	opt.WalReplayParallel = false
	opt.WalReplayAsync = false
	opt.WalReplayBatchSize = 1024 * 1024
	opt.ShardMutableSizeLimit = 1 << 30
	opt.NodeMutableSizeLimit = 4 << 30
	opt.MaxWriteHangTime = time.Second
	opt.WriteColdDuration = 24 * time.Hour
	opt.ForceSnapShotDuration = 24 * time.Hour
	opt.MemDataReadEnabled = true
	opt.OpenShardLimit = 8
	opt.MaxConcurrentCompactions = 4
	opt.MaxFullCompactions = 1
	opt.FullCompactColdDuration = 24 * time.Hour
	opt.CompactThroughput = 1 << 30
	opt.CompactThroughputBurst = 1 << 30
	opt.SnapshotThroughput = 1 << 30
	opt.SnapshotThroughputBurst = 1 << 30
	opt.BackgroundReadThroughput = 1 << 30
	opt.SnapshotTblNum = 1
	opt.FragmentsNumPerFlush = 1
	opt.ReadPageSize = "32kb"
	opt.CompactRecovery = true
	opt.CompactionMethod = o.CompactionMethod
	opt.MaxRowsPerSegment = o.MaxRowsPerSegment
	if opt.MaxRowsPerSegment == 0 {
		opt.MaxRowsPerSegment = util.DefaultMaxRowsPerSegment4TsStore
	}

	// ts-store gets a logical clock from ts-meta that grows with every process start; series ids are
	// (clock, per-process counter), so a restart must bump it or ids of new series would collide.
	if err := bumpClock(dir); err != nil {
		return nil, err
	}

	loadCtx := &metaclient.LoadCtx{LoadCh: make(chan *metaclient.DBPTCtx, 16)}
	stop := make(chan struct{})
	go func() {
		for {
			select {
			case <-stop:
				return
			case ctx := <-loadCtx.LoadCh:
				_ = ctx
			}
		}
	}()

	eng, err := engine.NewEngine(filepath.Join(dir, "data"), filepath.Join(dir, "wal"), opt, loadCtx)
	if err != nil {
		return nil, err
	}
	client := metaclient.NewClient("", false, 0)
	data := &meta2.Data{PtNumPerNode: 1, ClusterPtNum: 1}
	if _, err := data.CreateDataNode("127.0.0.1:1", "127.0.0.1:2", "", ""); err != nil {
		return nil, fmt.Errorf("CreateDataNode: %w", err)
	}
	if err := data.CreateDatabase(DB, rpInfo(), nil, false, 1, nil); err != nil {
		return nil, fmt.Errorf("CreateDatabase: %w", err)
	}
	client.SetCacheData(data)

	e := &Env{Dir: dir, Eng: eng, client: client, loadCtx: loadCtx, stop: stop}
	durs := map[uint64]*meta2.ShardDurationInfo{ShardID: durationInfo()}
	briefs := map[string]*meta2.DatabaseBriefInfo{DB: {Name: DB, EnableTagArray: false}}
	// ts-store never loads partitions through Engine.Open: ts-meta assigns each (db, pt) to the
	// store, which loads it with Engine.Assign (shards are opened, their WAL replayed, and the
	// partition takes the node's logical clock for series-id generation). Same path here.
	if err := eng.Open(nil, briefs, client); err != nil {
		return nil, fmt.Errorf("engine open: %w", err)
	}
	if err := eng.Assign(1, 1, DB, PT, 0, durs, briefs[DB], client, nil); err != nil {
		return nil, fmt.Errorf("engine assign: %w", err)
	}
	if e.Shard() == nil {
		if err := eng.CreateShard(DB, RP, PT, ShardID, timeRangeInfo(), &meta2.MeasurementInfo{EngineType: config.TSSTORE}); err != nil {
			return nil, fmt.Errorf("create shard: %w", err)
		}
	}
	sh := e.Shard()
	if sh == nil {
		return nil, fmt.Errorf("shard not found after open")
	}
	if !o.Background {
		sh.DisableCompAndMerge()
	}
	e.IndexFlush()
	e.sh = sh
	return e, nil
}

func bumpClock(dir string) error {
	if err := os.MkdirAll(dir, 0750); err != nil {
		return err
	}
	p := filepath.Join(dir, "vclock")
	n := uint64(1)
	if b, err := os.ReadFile(p); err == nil {
		fmt.Sscanf(string(b), "%d", &n)
	}
	metaclient.LogicClock = n
	return os.WriteFile(p, []byte(fmt.Sprintf("%d", n+1)), 0640)
}

func (e *Env) Shard() engine.Shard {
	if e.sh != nil {
		return e.sh // captured at open: concurrent drivers keep using it while the engine closes
	}
	impl, ok := e.Eng.(*engine.EngineImpl)
	if !ok {
		return nil
	}
	pts := impl.DBPartitions[DB]
	if pts == nil || pts[PT] == nil {
		return nil
	}
	return pts[PT].Shard(ShardID)
}

func (e *Env) Close() error {
	err := e.Eng.Close()
	close(e.stop)
	return err
}

// Abandon drops the engine without a clean close (used after a crash image has been frozen):
// best-effort close so goroutines and fds do not pile up in a long-running harness.
func (e *Env) Abandon() { _ = e.Close() }

// ---- rows ------------------------------------------------------------------------------------

type FV struct {
	Key string
	Typ int32 // influx.Field_Type_*
	Num float64
	Str string
}

type Pt struct {
	Mst    string
	Tags   [][2]string
	Time   int64
	Fields []FV
}

func MakeRows(pts []Pt) []influx.Row {
	rows := make([]influx.Row, len(pts))
	for i, p := range pts {
		r := &rows[i]
		r.Name = p.Mst + "_0000"
		r.Timestamp = p.Time
		for _, t := range p.Tags {
			r.Tags = append(r.Tags, influx.Tag{Key: t[0], Value: t[1]})
		}
		sort.Sort(&r.Tags)
		for _, f := range p.Fields {
			r.Fields = append(r.Fields, influx.Field{Key: f.Key, Type: f.Typ, NumValue: f.Num, StrValue: f.Str})
		}
		sort.Sort(&r.Fields)
		r.UnmarshalIndexKeys(nil)
		_ = r.UnmarshalShardKeyByTag(nil)
	}
	return rows
}

func (e *Env) Write(pts []Pt) error {
	// same shape as the store's write handler: the coordinator marshals the rows, the store
	// unmarshals them and hands both forms to the engine (the binary form becomes the WAL record).
	bin, err := influx.FastMarshalMultiRows(nil, MakeRows(pts))
	if err != nil {
		return err
	}
	rows, _, _, _, _, err := influx.FastUnmarshalMultiRows(bin, nil, nil, nil, nil, nil)
	if err != nil {
		return err
	}
	err = e.Eng.WriteRows(DB, RP, PT, ShardID, rows, bin, nil)
	if !e.NoSettle {
		e.Settle()
	}
	return err
}

// Settle waits until the asynchronous reload of the Sequencer (per-series last flush times, started
// by the first write after an open) has finished. The sequential-history checks (C01-C03) explore
// histories, not schedules: they let this background load finish before the next action, exactly as
// they make the series index searchable. The race itself belongs to C04 (known finding F-C04-1).
func (e *Env) Settle() {
	st := e.Shard().GetTableStore()
	for i := 0; i < 5000; i++ {
		sq := st.Sequencer()
		l := sq.IsLoading()
		sq.UnRef()
		if !l {
			return
		}
		time.Sleep(200 * time.Microsecond)
	}
}

func (e *Env) Flush() { e.Shard().ForceFlush() }

// IndexFlush makes freshly created series searchable (C04 allows the lag; harnesses remove it).
func (e *Env) IndexFlush() {
	ib := e.Shard().GetIndexBuilder()
	if ib == nil {
		return
	}
	if idx, ok := ib.GetPrimaryIndex().(*tsi.MergeSetIndex); ok {
		idx.DebugFlush()
	}
}

func (e *Env) Store() immutable.TablesStore { return e.Shard().GetTableStore() }

// ---- reading -----------------------------------------------------------------------------------

type Cell struct {
	Null bool
	I    int64
	F    float64
	S    string
	B    bool
}

type OutRow struct {
	Series string // canonical tag string "k=v,k=v"
	Time   int64
	Vals   []Cell // parallel to requested fields
}

type FieldReq struct {
	Name string
	Typ  influxql.DataType
}

// Read returns every row of measurement mst in [tmin,tmax] for the requested fields, grouped by all
// tags in dims, in the order the cursors deliver them.
func (e *Env) Read(mst string, fields []FieldReq, dims []string, tmin, tmax int64, asc bool) ([]OutRow, error) {
	sh := e.Shard()
	var opt query.ProcessorOptions
	opt.Name = mst + "_0000"
	opt.Dimensions = dims
	opt.Ascending = asc
	opt.MaxParallel = 1
	opt.ChunkSize = 1024
	opt.StartTime = tmin
	opt.EndTime = tmax
	opt.Sources = influxql.Sources{&influxql.Measurement{Database: DB, RetentionPolicy: RP, Name: mst + "_0000", EngineType: config.TSSTORE}}
	var qf influxql.Fields
	var names []string
	for i := range fields {
		vr := influxql.VarRef{Val: fields[i].Name, Type: fields[i].Typ}
		opt.FieldAux = append(opt.FieldAux, vr)
		qf = append(qf, &influxql.Field{Expr: &opt.FieldAux[i]})
		names = append(names, fields[i].Name)
	}
	schema := executor.NewQuerySchema(qf, names, &opt, nil)
	info, err := sh.CreateCursor(context.Background(), schema)
	if err != nil {
		return nil, err
	}
	if info == nil {
		return nil, nil
	}
	defer info.Unref()
	var out []OutRow
	for _, cur := range info.GetCursors() {
		cur.SinkPlan(executor.NewLogicalTagSubset(executor.NewLogicalSeries(schema), schema))
		for {
			rec, _, err := cur.Next()
			if err != nil {
				cur.Close()
				return nil, err
			}
			if rec == nil {
				break
			}
			if os.Getenv("VH_DEBUG_REC") != "" {
				fmt.Println("REC", rec.Schema.String(), rec.String())
			}
			out = appendRec(out, rec, fields)
		}
		cur.Close()
	}
	return out, nil
}

func appendRec(out []OutRow, rec *record.Record, fields []FieldReq) []OutRow {
	keys, idx := rec.GetTagIndexAndKey()
	n := rec.RowNums()
	times := rec.Times()
	colOf := make([]int, len(fields))
	for i := range fields {
		colOf[i] = rec.FieldIndexs(fmt.Sprintf("val%d", i))
	}
	seriesOf := func(row int) string {
		s := ""
		for k := range idx {
			if idx[k] <= row {
				s = canonTags(*keys[k])
			}
		}
		return s
	}
	for r := 0; r < n; r++ {
		o := OutRow{Series: seriesOf(r), Time: times[r], Vals: make([]Cell, len(fields))}
		for i := range fields {
			c := colOf[i]
			if c < 0 {
				o.Vals[i] = Cell{Null: true}
				continue
			}
			cv := &rec.ColVals[c]
			if cv.IsNil(r) {
				o.Vals[i] = Cell{Null: true}
				continue
			}
			switch rec.Schema[c].Type {
			case influx.Field_Type_Int:
				v, _ := cv.IntegerValue(r)
				o.Vals[i] = Cell{I: v}
			case influx.Field_Type_Float:
				v, _ := cv.FloatValue(r)
				o.Vals[i] = Cell{F: v}
			case influx.Field_Type_Boolean:
				v, _ := cv.BooleanValue(r)
				o.Vals[i] = Cell{B: v}
			case influx.Field_Type_String:
				v, _ := cv.StringValueSafe(r)
				o.Vals[i] = Cell{S: v}
			}
		}
		out = append(out, o)
	}
	return out
}

func canonTags(b []byte) string {
	if len(b) == 0 {
		return ""
	}
	ks, vs := executor.NewChunkTagsV2(b).GetChunkTagAndValues()
	s := ""
	for i := range ks {
		if i > 0 {
			s += ","
		}
		s += ks[i] + "=" + vs[i]
	}
	return s
}

// RestoreImage replaces dir by the crash image img (index transactions hold absolute paths, so an
// image must be re-opened under the path it was taken from).
func RestoreImage(img, dir string) error {
	if err := os.RemoveAll(dir); err != nil {
		return err
	}
	return os.Rename(img, dir)
}

// CopyTree copies a directory tree (crash image). The series index (lifted VictoriaMetrics
// mergeset) performs part of its file operations outside lib/fileops, so the recorder cannot hold
// it still while an image is taken; to obtain a state that a real crash could leave, the copy is
// repeated until the source listing (names, sizes, mtimes) is identical before and after the copy.
func CopyTree(src, dst string) error {
	var err error
	for try := 0; try < 200; try++ {
		l1 := listTree(src)
		_ = os.RemoveAll(dst)
		err = copyTreeOnce(src, dst)
		if err == nil && l1 == listTree(src) {
			return nil
		}
		time.Sleep(2 * time.Millisecond)
	}
	if err == nil {
		err = fmt.Errorf("CopyTree: %s did not become quiescent", src)
	}
	return err
}

func listTree(root string) string {
	var sb []byte
	_ = filepath.Walk(root, func(p string, fi os.FileInfo, err error) error {
		if err != nil {
			sb = append(sb, "!"+p+"\n"...)
			return nil
		}
		if fi.IsDir() && fi.Name() == "logs" {
			return filepath.SkipDir
		}
		sb = append(sb, fmt.Sprintf("%s %d %d %v\n", p, fi.Size(), fi.ModTime().UnixNano(), fi.IsDir())...)
		return nil
	})
	return string(sb)
}

func copyTreeOnce(src, dst string) error {
	return filepath.Walk(src, func(p string, fi os.FileInfo, err error) error {
		if err != nil {
			if os.IsNotExist(err) {
				return nil
			}
			return err
		}
		rel, _ := filepath.Rel(src, p)
		if rel == "logs" && fi.IsDir() {
			return filepath.SkipDir
		}
		t := filepath.Join(dst, rel)
		if fi.IsDir() {
			return os.MkdirAll(t, 0750)
		}
		if !fi.Mode().IsRegular() {
			return nil
		}
		b, err := os.ReadFile(p)
		if err != nil {
			if os.IsNotExist(err) {
				return nil
			}
			return err
		}
		return os.WriteFile(t, b, 0640)
	})
}
