//go:build verif

// Package crashfs wraps openGemini's local VFS (through the verif hook fileops.SetLocalFSForVerif)
// with a recorder that numbers and classifies every file-system mutation and can call back before
// and after each of them, so that a harness can freeze a crash image "between any two mutations".
package crashfs

import (
	"os"
	"regexp"
	"strings"
	"sync"

	"github.com/openGemini/openGemini/lib/fileops"
)

// Event is one file-system mutation.
type Event struct {
	N     int    `json:"n"`    // sequence number (1-based) over the data events (everything but the series index)
	X     int    `json:"x"`    // sequence number over all events, index included
	Op    string `json:"op"`   // create | write | sync | rename | remove | truncate | close
	Path  string `json:"path"` // path (relative to Root when below it)
	To    string `json:"to,omitempty"`
	Class string `json:"class"` // wal | init | tssp | clog | index | other
	Size  int    `json:"size,omitempty"`
}

type Recorder struct {
	fileops.VFS
	mu    sync.Mutex
	world sync.Mutex // held across hook + mutation + hook: mutations are serialised, so a copy of
	// the tree taken inside a hook is an atomic snapshot with respect to every mutation that
	// goes through fileops (data files, WAL, compaction logs and the series index alike)
	Root   string
	n, x   int
	on     bool
	Events []Event
	// Before/After are called (with the recorder unlocked) around every mutation when set.
	Before func(ev Event)
	After  func(ev Event)
}

var (
	reWal  = regexp.MustCompile(`/wal/.*\.wal$`)
	reInit = regexp.MustCompile(`\.init$`)
	reTssp = regexp.MustCompile(`\.tssp$`)
	reClog = regexp.MustCompile(`compact_log|/compact\.log|merge_log|\.log$`)
)

func Classify(p string) string {
	switch {
	case reWal.MatchString(p):
		return "wal"
	case strings.Contains(p, "/index/"):
		return "index"
	case reInit.MatchString(p):
		return "init"
	case reTssp.MatchString(p):
		return "tssp"
	case reClog.MatchString(p):
		return "clog"
	}
	return "other"
}

var installOnce sync.Once
var global *Recorder

// Install wraps the local VFS once per process and returns the recorder (initially off).
func Install() *Recorder {
	installOnce.Do(func() {
		global = &Recorder{}
		global.VFS = fileops.SetLocalFSForVerif(global)
	})
	return global
}

func (r *Recorder) Start(root string) {
	r.mu.Lock()
	r.Root, r.n, r.x, r.on, r.Events = root, 0, 0, true, nil
	r.mu.Unlock()
}

func (r *Recorder) Stop() []Event {
	r.mu.Lock()
	r.on = false
	ev := r.Events
	r.Before, r.After = nil, nil
	r.mu.Unlock()
	return ev
}

// LastN returns the number of the last data event recorded so far.
func (r *Recorder) LastN() int {
	r.mu.Lock()
	defer r.mu.Unlock()
	return r.n
}

func (r *Recorder) rel(p string) string {
	if r.Root != "" && strings.HasPrefix(p, r.Root) {
		return strings.TrimPrefix(p, r.Root)
	}
	return p
}

// do runs one mutation f, recording it and calling the hooks around it.
func (r *Recorder) do(op, path, to string, size int, f func() error) error {
	r.mu.Lock()
	if !r.on || (r.Root != "" && !strings.HasPrefix(path, r.Root)) {
		r.mu.Unlock()
		return f()
	}
	r.mu.Unlock()
	r.world.Lock()
	defer r.world.Unlock()
	r.mu.Lock()
	if !r.on {
		r.mu.Unlock()
		return f()
	}
	cls := Classify(path)
	r.x++
	ev := Event{X: r.x, Op: op, Path: r.rel(path), Class: cls, Size: size}
	if cls != "index" {
		r.n++
		ev.N = r.n
	}
	if to != "" {
		ev.To = r.rel(to)
	}
	before, after := r.Before, r.After
	r.mu.Unlock()
	if before != nil {
		before(ev)
	}
	err := f()
	r.mu.Lock()
	if r.on {
		r.Events = append(r.Events, ev)
	}
	r.mu.Unlock()
	if after != nil {
		after(ev)
	}
	return err
}

// ---- VFS mutations -----------------------------------------------------------------------------

func (r *Recorder) wrap(f fileops.File, err error, path string, writable bool) (fileops.File, error) {
	if err != nil || f == nil || !writable {
		return f, err
	}
	return &recFile{File: f, r: r, path: path}, nil
}

func (r *Recorder) Create(name string, opt ...fileops.FSOption) (fileops.File, error) {
	var f fileops.File
	err := r.do("create", name, "", 0, func() error {
		var e error
		f, e = r.VFS.Create(name, opt...)
		return e
	})
	return r.wrap(f, err, name, true)
}

// CreateV1/CreateV2 of the local VFS call the package-level Create, i.e. come back through the
// recorder's Create: they are passed through here (not recorded twice, no re-entrant locking).

func (r *Recorder) OpenFile(name string, flag int, perm os.FileMode, opt ...fileops.FSOption) (fileops.File, error) {
	writable := flag&(os.O_WRONLY|os.O_RDWR|os.O_APPEND|os.O_CREATE|os.O_TRUNC) != 0
	if !writable {
		return r.VFS.OpenFile(name, flag, perm, opt...)
	}
	creates := false
	if flag&os.O_CREATE != 0 {
		if _, e := os.Stat(name); e != nil {
			creates = true
		}
	}
	var f fileops.File
	var err error
	if creates || flag&os.O_TRUNC != 0 {
		err = r.do("create", name, "", 0, func() error {
			var e error
			f, e = r.VFS.OpenFile(name, flag, perm, opt...)
			return e
		})
	} else {
		f, err = r.VFS.OpenFile(name, flag, perm, opt...)
	}
	return r.wrap(f, err, name, true)
}

func (r *Recorder) Remove(name string, opt ...fileops.FSOption) error {
	return r.do("remove", name, "", 0, func() error { return r.VFS.Remove(name, opt...) })
}

func (r *Recorder) RemoveLocal(name string, opt ...fileops.FSOption) error {
	return r.do("remove", name, "", 0, func() error { return r.VFS.RemoveLocal(name, opt...) })
}

func (r *Recorder) RemoveAll(path string, opt ...fileops.FSOption) error {
	return r.do("remove", path, "", 0, func() error { return r.VFS.RemoveAll(path, opt...) })
}

func (r *Recorder) RemoveAllWithOutDir(path string, opt ...fileops.FSOption) error {
	return r.do("remove", path, "", 0, func() error { return r.VFS.RemoveAllWithOutDir(path, opt...) })
}

func (r *Recorder) RenameFile(oldPath, newPath string, opt ...fileops.FSOption) error {
	return r.do("rename", oldPath, newPath, 0, func() error { return r.VFS.RenameFile(oldPath, newPath, opt...) })
}

func (r *Recorder) WriteFile(filename string, data []byte, perm os.FileMode, opt ...fileops.FSOption) error {
	return r.do("write", filename, "", len(data), func() error { return r.VFS.WriteFile(filename, data, perm, opt...) })
}

func (r *Recorder) Truncate(name string, size int64, opt ...fileops.FSOption) error {
	return r.do("truncate", name, "", int(size), func() error { return r.VFS.Truncate(name, size, opt...) })
}

// ---- File mutations ----------------------------------------------------------------------------

type recFile struct {
	fileops.File
	r    *Recorder
	path string
}

func (f *recFile) Write(b []byte) (int, error) {
	var n int
	err := f.r.do("write", f.path, "", len(b), func() error {
		var e error
		n, e = f.File.Write(b)
		return e
	})
	return n, err
}

func (f *recFile) Sync() error {
	return f.r.do("sync", f.path, "", 0, func() error { return f.File.Sync() })
}

func (f *recFile) Truncate(size int64) error {
	return f.r.do("truncate", f.path, "", int(size), func() error { return f.File.Truncate(size) })
}
