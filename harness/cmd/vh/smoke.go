package main

import (
	"fmt"
	"os"
	"path/filepath"

	"github.com/openGemini/openGemini/lib/util/lifted/influx/influxql"
	"github.com/openGemini/openGemini/lib/util/lifted/vm/protoparser/influx"
	"verifharness/internal/engx"
)

func init() { cmds["smoke"] = smoke }

func smoke(args []string) int {
	dir, _ := os.MkdirTemp("/dev/shm", "vh-smoke-")
	defer os.RemoveAll(dir)
	e, err := engx.Open(dir+"/a", engx.Options{WalParts: 2})
	if err != nil {
		fmt.Println("open:", err)
		return 2
	}
	p := func(s string, t int64, v float64) engx.Pt {
		return engx.Pt{Mst: "m", Tags: [][2]string{{"s", s}}, Time: t, Fields: []engx.FV{{Key: "f", Typ: influx.Field_Type_Int, Num: v}}}
	}
	must := func(err error) {
		if err != nil {
			panic(err)
		}
	}
	must(e.Write([]engx.Pt{p("a", 10, 1)}))
	e.IndexFlush()
	fr := []engx.FieldReq{{Name: "f", Typ: influxql.Integer}}
	rows, err := e.Read("m", fr, []string{"s"}, 0, 1000, true)
	fmt.Println("mem:", rows, err)
	e.Flush()
	must(e.Write([]engx.Pt{p("b", 20, 1)}))
	must(e.Write([]engx.Pt{p("b", 20, 2)}))
	e.IndexFlush()
	rows, err = e.Read("m", fr, []string{"s"}, 0, 1000, true)
	fmt.Println("pre-crash:", rows, err)
	must(engx.CopyTree(dir+"/a", dir+"/b"))
	e.Abandon()
	must(engx.RestoreImage(dir+"/b", dir+"/a"))
	if os.Getenv("VH_LS") != "" {
		filepath.Walk(dir+"/a", func(p string, fi os.FileInfo, err error) error { fmt.Println("IMG", p, fi.Size()); return nil })
	}
	e2, err := engx.Open(dir+"/a", engx.Options{WalParts: 2})
	if err != nil {
		fmt.Println("reopen:", err)
		return 2
	}
	rows, err = e2.Read("m", fr, []string{"s"}, 0, 1000, true)
	fmt.Println("post-crash:", rows, err)
	e2.Close()
	return 0
}
