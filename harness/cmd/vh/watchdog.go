package main

import (
	"fmt"
	"os"
	"runtime/pprof"
	"time"
)

// withWatchdog runs one case; if it does not finish within sec seconds the goroutine dump goes to
// stderr, a result line marking the hang is printed and the process exits with status 3.
func withWatchdog(id int, sec int, f func() caseResult) caseResult {
	if v := os.Getenv("VH_WATCHDOG"); v != "" {
		fmt.Sscanf(v, "%d", &sec)
	}
	done := make(chan caseResult, 1)
	go func() { done <- f() }()
	select {
	case r := <-done:
		return r
	case <-time.After(time.Duration(sec) * time.Second):
		fmt.Fprintf(os.Stderr, "WATCHDOG: case %d did not finish within %ds\n", id, sec)
		_ = pprof.Lookup("goroutine").WriteTo(os.Stderr, 1)
		fmt.Printf("{\"id\":%d,\"ok\":false,\"hang\":true,\"detail\":\"case did not finish within %ds (goroutine dump on stderr)\"}\n", id, sec)
		os.Exit(3)
	}
	return caseResult{}
}
