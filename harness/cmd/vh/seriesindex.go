//go:build verif

package main

// replay-index: steps TLC-generated behaviours of specs/SeriesIndex.tla through a real tsi merge-set
// index (opened through the engine's production load path) and compares ids / search results with
// the specification's expectation after every action (C10).

import (
	"bufio"
	"encoding/json"
	"errors"
	"fmt"
	"math/rand"
	"os"
	"regexp"
	"regexp/syntax"
	"sort"
	"strconv"
	"strings"
	"time"

	"github.com/openGemini/openGemini/engine/index/tsi"
	"github.com/openGemini/openGemini/lib/util/lifted/influx/influxql"
	"github.com/openGemini/openGemini/lib/util/lifted/influx/query"
	"github.com/openGemini/openGemini/lib/util/lifted/vm/protoparser/influx"
	"verifharness/internal/engx"
)

func init() {
	cmds["probe-index"] = probeIndex
	cmds["replay-index"] = replayIndex
}

// ---- real index access ---------------------------------------------------------------------------

type ixEnv struct {
	dir string
	e   *engx.Env
	t   int64
}

func openIx(dir string) (*ixEnv, error) {
	e, err := engx.Open(dir, engx.Options{WalParts: 1})
	if err != nil {
		return nil, err
	}
	return &ixEnv{dir: dir, e: e, t: 1600000000 * 1e9}, nil
}

func (x *ixEnv) idx() *tsi.MergeSetIndex {
	return x.e.Shard().GetIndexBuilder().GetPrimaryIndex().(*tsi.MergeSetIndex)
}

func (x *ixEnv) reopen() error {
	if err := x.e.Close(); err != nil {
		return err
	}
	e, err := engx.Open(x.dir, engx.Options{WalParts: 1})
	if err != nil {
		return err
	}
	x.e = e
	return nil
}

var lpEscaper = strings.NewReplacer(`\`, `\\`, `,`, `\,`, `=`, `\=`, ` `, `\ `)

type ctag struct{ K, V string }

// lineFor renders one point in line protocol (the text a client sends).
func lineFor(mst string, tags []ctag, t int64) string {
	var sb strings.Builder
	sb.WriteString(lpEscaper.Replace(mst))
	for _, tg := range tags {
		sb.WriteByte(',')
		sb.WriteString(lpEscaper.Replace(tg.K))
		sb.WriteByte('=')
		sb.WriteString(lpEscaper.Replace(tg.V))
	}
	fmt.Fprintf(&sb, " f=1i %d", t)
	return sb.String()
}

// createSeries sends the point through the production line-protocol parser and the engine's write
// path (shard.WriteRows -> IndexBuilder.CreateIndexIfNotExists). Returns the tags the parser kept.
func (x *ixEnv) createSeries(mst string, tags []ctag) ([]ctag, error) {
	kept, err := x.createMany(mst, [][]ctag{tags})
	if err != nil {
		return nil, err
	}
	return kept[0], nil
}

// createMany writes one point per tag set in ONE request (one line-protocol body, one WriteRows batch),
// the way a client creates many series of a measurement at once.
func (x *ixEnv) createMany(mst string, tagSets [][]ctag) ([][]ctag, error) {
	var body strings.Builder
	for _, tags := range tagSets {
		x.t += 1e9
		body.WriteString(lineFor(mst, tags, x.t))
		body.WriteByte('\n')
	}
	var prs influx.PointRows
	if err := prs.Unmarshal(body.String(), false); err != nil {
		return nil, fmt.Errorf("line protocol %q: %w", clip(body.String(), 300), err)
	}
	if len(prs.Rows) != len(tagSets) {
		return nil, fmt.Errorf("line protocol %q: %d rows, %d lines sent", clip(body.String(), 300), len(prs.Rows), len(tagSets))
	}
	pts := make([]engx.Pt, 0, len(prs.Rows))
	kept := make([][]ctag, len(prs.Rows))
	for i := range prs.Rows {
		r := &prs.Rows[i]
		if r.Name != mst {
			return nil, fmt.Errorf("line protocol %q: measurement parsed as %q", clip(body.String(), 300), r.Name)
		}
		pt := engx.Pt{Mst: r.Name, Time: r.Timestamp}
		for _, tg := range r.Tags {
			pt.Tags = append(pt.Tags, [2]string{tg.Key, tg.Value})
			kept[i] = append(kept[i], ctag{tg.Key, tg.Value})
		}
		for _, f := range r.Fields {
			pt.Fields = append(pt.Fields, engx.FV{Key: f.Key, Typ: f.Type, Num: f.NumValue, Str: f.StrValue})
		}
		pts = append(pts, pt)
	}
	return kept, x.e.Write(pts)
}

func clip(s string, n int) string {
	if len(s) <= n {
		return s
	}
	return s[:n] + fmt.Sprintf("... (%d bytes)", len(s))
}

func indexKeyOf(mst string, tags []ctag) []byte {
	pts := make(influx.PointTags, 0, len(tags))
	for _, tg := range tags {
		pts = append(pts, influx.Tag{Key: tg.K, Value: tg.V})
	}
	sort.Sort(&pts)
	return influx.MakeIndexKey(mst+"_0000", pts, nil)
}

func renderKey(mst string, tags []ctag) string {
	pts := make([]ctag, len(tags))
	copy(pts, tags)
	sort.Slice(pts, func(i, j int) bool { return pts[i].K < pts[j].K })
	s := mst
	for _, tg := range pts {
		s += "," + tg.K + "=" + tg.V
	}
	return s
}

// condition as the store receives it for SHOW SERIES / SHOW TAG VALUES / SHOW TAG KEYS:
// app/ts-store/transport/handler/functions.go:parseTagKeyCondition (ParseExpr, ConditionExpr, every
// VarRef typed Tag).
func showCond(text string) (influxql.Expr, error) {
	if text == "" {
		return nil, nil
	}
	p := influxql.NewParser(strings.NewReader(text))
	expr, err := p.ParseExpr()
	p.Release()
	if err != nil {
		return nil, err
	}
	valuer := influxql.NowValuer{Now: time.Now()}
	e, _, err := influxql.ConditionExpr(expr, &valuer)
	if err != nil {
		return nil, err
	}
	influxql.WalkFunc(e, func(n influxql.Node) {
		if ref, ok := n.(*influxql.VarRef); ok {
			ref.Type = influxql.Tag
		}
	})
	return e, nil
}

// condition as a SELECT hands it to the index: the compiler rewrites regex conditions
// (query/compile.go: stmt.RewriteRegexConditions) and the field mapper types tag references.
func selectCond(text string) (influxql.Expr, error) {
	if text == "" {
		return nil, nil
	}
	expr, err := influxql.ParseExpr(text)
	if err != nil {
		return nil, err
	}
	valuer := influxql.NowValuer{Now: time.Now()}
	e, _, err := influxql.ConditionExpr(expr, &valuer)
	if err != nil {
		return nil, err
	}
	st := &influxql.SelectStatement{Condition: e}
	st.RewriteRegexConditions(nil)
	e = st.Condition
	influxql.WalkFunc(e, func(n influxql.Node) {
		if ref, ok := n.(*influxql.VarRef); ok {
			ref.Type = influxql.Tag
		}
	})
	return e, nil
}

func (x *ixEnv) showIDs(mst, cond string) ([]uint64, error) {
	e, err := showCond(cond)
	if err != nil {
		return nil, err
	}
	ids, err := x.idx().SearchSeriesByTableAndCond([]byte(mst+"_0000"), e, tsi.DefaultTR)
	sort.Slice(ids, func(i, j int) bool { return ids[i] < ids[j] })
	return ids, err
}

func (x *ixEnv) showKeys(mst, cond string) ([]string, error) {
	e, err := showCond(cond)
	if err != nil {
		return nil, err
	}
	ks, err := x.idx().SearchSeriesKeys(nil, []byte(mst+"_0000"), e)
	if err != nil {
		return nil, err
	}
	var out []string
	for _, k := range ks {
		out = append(out, strings.Replace(string(k), mst+"_0000", mst, 1))
	}
	sort.Strings(out)
	return out, nil
}

// a panic of the index code while it serves a search (the store turns it into a failed query)
type ixPanic struct{ msg string }

func (p *ixPanic) Error() string { return "the search PANICKED: " + p.msg }

func (x *ixEnv) selectIDs(mst, cond string) (ids []uint64, err error) {
	defer func() {
		if p := recover(); p != nil {
			ids, err = nil, &ixPanic{fmt.Sprint(p)}
		}
	}()
	e, err := selectCond(cond)
	if err != nil {
		return nil, err
	}
	opt := &query.ProcessorOptions{StartTime: tsi.DefaultTR.Min, EndTime: tsi.DefaultTR.Max, Condition: e, Ascending: true}
	gs, _, err := x.idx().SearchSeriesWithOpts(nil, []byte(mst+"_0000"), opt, func(int64) error { return nil }, nil)
	if err != nil {
		return nil, err
	}
	for _, g := range gs {
		for _, it := range g.TagSetItems() {
			ids = append(ids, it.ID)
		}
	}
	sort.Slice(ids, func(i, j int) bool { return ids[i] < ids[j] })
	return ids, nil
}

// ---- probe ---------------------------------------------------------------------------------------

type probeIn struct {
	Series []struct {
		M    string            `json:"m"`
		Tags map[string]string `json:"tags"`
	} `json:"series"`
	Conds  []string `json:"conds"`
	Reopen bool     `json:"reopen"`
}

// brute-force evaluation of a parsed tag predicate (unanchored regex, absent tag = "")
func bruteEval(e influxql.Expr, tags map[string]string) bool {
	switch n := e.(type) {
	case *influxql.ParenExpr:
		return bruteEval(n.Expr, tags)
	case *influxql.BinaryExpr:
		switch n.Op {
		case influxql.AND:
			return bruteEval(n.LHS, tags) && bruteEval(n.RHS, tags)
		case influxql.OR:
			return bruteEval(n.LHS, tags) || bruteEval(n.RHS, tags)
		}
		ref := n.LHS.(*influxql.VarRef)
		v := tags[ref.Val]
		switch r := n.RHS.(type) {
		case *influxql.StringLiteral:
			if n.Op == influxql.EQ {
				return v == r.Val
			}
			return v != r.Val
		case *influxql.RegexLiteral:
			m := r.Val.MatchString(v)
			if n.Op == influxql.EQREGEX {
				return m
			}
			return !m
		}
	}
	panic("bruteEval: unsupported " + e.String())
}

func probeIndex(args []string) int {
	var in probeIn
	if err := json.NewDecoder(bufio.NewReader(os.Stdin)).Decode(&in); err != nil {
		fmt.Println("bad input:", err)
		return 2
	}
	dir, _ := os.MkdirTemp("/dev/shm", "vh-ixprobe-")
	defer os.RemoveAll(dir)
	x, err := openIx(dir + "/a")
	if err != nil {
		fmt.Println("open:", err)
		return 2
	}
	defer func() { x.e.Close() }()
	if os.Getenv("VH_RACE") != "" {
		tg := []ctag{{"a", "x"}}
		x.createSeries("m1", tg)
		id1, _ := x.idx().GetSeriesIdBySeriesKey(indexKeyOf("m1", tg))
		fmt.Println("clear:", x.idx().ClearCache())
		id1b, _ := x.idx().GetSeriesIdBySeriesKey(indexKeyOf("m1", tg))
		x.createSeries("m1", tg)
		id2, _ := x.idx().GetSeriesIdBySeriesKey(indexKeyOf("m1", tg))
		x.e.IndexFlush()
		id3, _ := x.idx().GetSeriesIdBySeriesKey(indexKeyOf("m1", tg))
		ks, _ := x.showKeys("m1", "")
		ids, _ := x.showIDs("m1", "")
		fmt.Printf("id1=%x after-clear=%x id2=%x id3=%x keys=%q ids=%x\n", id1, id1b, id2, id3, ks, ids)
		return 0
	}
	type ser struct {
		m    string
		tags map[string]string
		id   uint64
		key  string
	}
	var sers []*ser
	for _, s := range in.Series {
		var tags []ctag
		for k, v := range s.Tags {
			tags = append(tags, ctag{k, v})
		}
		kept, err := x.createSeries(s.M, tags)
		if err != nil {
			fmt.Println("create:", err)
			continue
		}
		x.e.IndexFlush()
		id, err := x.idx().GetSeriesIdBySeriesKey(indexKeyOf(s.M, kept))
		km := map[string]string{}
		for _, t := range kept {
			km[t.K] = t.V
		}
		sers = append(sers, &ser{m: s.M, tags: km, id: id, key: renderKey(s.M, kept)})
		fmt.Printf("series %-30q id=%x err=%v\n", renderKey(s.M, kept), id, err)
	}
	if in.Reopen {
		if err := x.reopen(); err != nil {
			fmt.Println("reopen:", err)
			return 2
		}
	}
	keyOf := func(ids []uint64) []string {
		var out []string
		for _, id := range ids {
			k := fmt.Sprintf("?%x", id)
			for _, s := range sers {
				if s.id == id {
					k = s.key
				}
			}
			out = append(out, k)
		}
		sort.Strings(out)
		return out
	}
	msts := map[string]bool{}
	for _, s := range sers {
		msts[s.m] = true
	}
	for _, c := range in.Conds {
		for m := range msts {
			pe, err := influxql.ParseExpr(c)
			if err != nil {
				fmt.Printf("cond %s: parse: %v\n", c, err)
				continue
			}
			var want []string
			for _, s := range sers {
				if s.m == m && bruteEval(pe, s.tags) {
					want = append(want, s.key)
				}
			}
			sort.Strings(want)
			sh, err1 := x.showIDs(m, c)
			se, err2 := x.selectIDs(m, c)
			flag := func(a []string) string {
				if strings.Join(a, "|") == strings.Join(want, "|") {
					return "ok  "
				}
				return "DIFF"
			}
			fmt.Printf("cond %-28s mst=%s want=%q\n   show   %s %q err=%v\n   select %s %q err=%v\n", c, m, want, flag(keyOf(sh)), keyOf(sh), err1, flag(keyOf(se)), keyOf(se), err2)
		}
	}
	return 0
}

// ==== replay-index ================================================================================

type ixKey struct {
	M string              `json:"m"`
	T map[string][]string `json:"t"`
}

type ixIDEntry struct {
	K  ixKey `json:"k"`
	ID int   `json:"id"`
	N  int   `json:"n"` // multiplicity: number of concrete series (members) the series stands for
}

// a set of members in the specification's encoding: IDs = series selected with all their members,
// Part = the others that are touched: all members but JS (All = 1) or only JS (All = 0)
type ixPart struct {
	ID  int   `json:"id"`
	All int   `json:"all"`
	JS  []int `json:"js"`
}

type ixPrediction struct {
	D    string   `json:"d"`
	R    string   `json:"r"` // regression entries: the classes of d that belong to repaired findings
	IDs  []int    `json:"ids"`
	Part []ixPart `json:"part"`
}

// expectation of one leaf of a predicate tree searched on its own (SELECT path)
type ixLeaf struct {
	P    json.RawMessage `json:"p"`
	IDs  []int           `json:"ids"`
	Part []ixPart        `json:"part"`
	DSel []ixPrediction  `json:"dsel"`
	RSel []ixPrediction  `json:"rsel"` // what the code would answer if the repair of a deviation class were lost
}

type ixQuery struct {
	M     string                `json:"m"`
	P     json.RawMessage       `json:"p"`
	IDs   []int                 `json:"ids"`
	Part  []ixPart              `json:"part"`
	TK    []string              `json:"tk"`
	TV    map[string][][]string `json:"tv"`
	TVN   []int                 `json:"tvn"`
	DShow []ixPrediction        `json:"dshow"` // predictions of the deviation classes of the OPEN findings
	DSel  []ixPrediction        `json:"dsel"`
	RShow []ixPrediction        `json:"rshow"` // predictions of class sets holding a REPAIRED class (regressions)
	RSel  []ixPrediction        `json:"rsel"`
	LV    []ixLeaf              `json:"lv"`
}

type ixStep struct {
	A    string          `json:"a"`
	Args json.RawMessage `json:"args"`
	Exp  struct {
		IDs []ixIDEntry     `json:"ids"`
		Vis []int           `json:"vis"`
		X   json.RawMessage `json:"x"`
	} `json:"exp"`
}

type ixCase struct {
	ID   int      `json:"id"`
	Seed int64    `json:"seed"`
	Hist []ixStep `json:"hist"`
}

type ixResult struct {
	ID       int               `json:"id"`
	OK       bool              `json:"ok"`
	Step     int               `json:"step"`
	Action   string            `json:"action,omitempty"`
	Detail   string            `json:"detail,omitempty"`
	Infra    string            `json:"infra,omitempty"`
	Known    string            `json:"known,omitempty"` // comma separated finding ids re-observed in this case
	KnownN   map[string]int    `json:"known_n,omitempty"`
	KnownEx  map[string]string `json:"known_ex,omitempty"`
	Regress  []string          `json:"regress,omitempty"` // repaired findings whose deviation model the violating result equals
	Lookups  int               `json:"lookups"`
	Searches int               `json:"searches"` // predicates evaluated (each on all entry points)
	Compared int               `json:"compared"` // entry-point results compared
	HistDep  int               `json:"histdep"`  // searches whose (explained) answer changed with the history of the process
	Conc     string            `json:"conc,omitempty"`
}

// finding ids of the deviation classes of SeriesIndex.tla. Which of them are still open is decided by the
// specification's constant OpenClasses (props/c10.py, from known_findings.json): the classes of open findings arrive
// as dshow/dsel (a match is a re-observation), sets holding a repaired class as rshow/rsel (a match is a regression).
var classFinding = map[byte]string{'S': "F-C10-1", 'L': "F-C10-2", 'E': "F-C10-3", 'N': "F-C10-4", 'C': "F-C10-5"}

// The other predictors (F-C10-6-ClearCache, F-C10-7, F-C10-8, F-C10-9) record a match under the finding's id; props/c10.py
// tolerates it only while the id is an open entry of known_findings.json and reports it as a REGRESSION once the
// entry is listed as fixed.
const (
	// lookup_misses_pending as the specification models it: the key->id cache is dropped by ClearCache while the
	// items of the series are not flushed. The finding's other window (LRU eviction of the cache entry, which stays
	// open as F-C10-6) has no action in the specification: nothing is attributed to it.
	findLookup  = "F-C10-6-ClearCache"
	findTagKeys = "F-C10-7"
	findAlias   = "F-C10-8"
	findPrune   = "F-C10-9"
)

// ---- concretisation of the abstract alphabets ------------------------------------------------------

type ixConc struct {
	ch   map[string]string // abstract character -> concrete text (one rune)
	key  map[string]string // abstract tag key -> concrete
	mst  map[string]string
	desc string
}

// characters that are awkward for the line protocol, for InfluxQL, for regular expressions or for the
// index's own item encoding (\x01 \x02 are its separator bytes; \x00, its escape byte, cannot be
// written in an InfluxQL literal at all)
var nastyRunes = []string{",", "=", " ", `\`, `"`, `'`, "/", ".", "*", "[", "]", "(", ")", "|", "$", "^", "+", "?", "{", "-", ":", ";", "#", "é", "世", "ß", "\t", "w", "e", "B", "_", "~", "%", "\x7f", " ", "😀"}
var nastyKeys = []string{"host", "a,b", "a b", "a=b", "ü", "k\x01", "k\x02v", `q"k`, `k\`, "k'", "a.b", "k/", "tag", "_field", "名", "k-1", "A", "a"}
var nastyMsts = []string{"cpu", "cpu load", "m=1", "世界", "cpu.total", `m"q`, "m'", "a-b", "m1", "M", "mst_0000"}

func newIxConc(rng *rand.Rand) *ixConc {
	c := &ixConc{ch: map[string]string{}, key: map[string]string{}, mst: map[string]string{}}
	perm := rng.Perm(len(nastyRunes))
	for i, a := range []string{"x", "y", "z"} {
		c.ch[a] = nastyRunes[perm[i]]
	}
	if rng.Intn(4) == 0 { // plain letters now and then
		c.ch["x"], c.ch["y"], c.ch["z"] = "w", "e", "d"
	}
	if rng.Intn(6) == 0 { // a literal whose last character is a regex operator: /xy/ is written x\| or x\*
		c.ch["y"] = []string{"|", "*"}[rng.Intn(2)]
		for _, o := range []string{"x", "z"} {
			if c.ch[o] == c.ch["y"] {
				c.ch[o] = "w"
			}
		}
		if c.ch["x"] == c.ch["z"] {
			c.ch["z"] = "d"
		}
	}
	sep := 1 + rng.Intn(2)
	c.ch["s"] = string([]byte{byte(sep)})
	c.ch["1"] = string([]byte{byte('0' + sep)}) // the digit the index writes after its escape byte for this separator
	c.ch["2"] = "7"
	kp := rng.Perm(len(nastyKeys))
	c.key["a"] = nastyKeys[kp[0]]
	c.key["b"] = nastyKeys[kp[1]]
	if rng.Intn(4) == 0 {
		c.key["b"] = c.key["a"] + nastyKeys[kp[1]] // one key a prefix of the other
	}
	// the extra tag that tells the members of a series with multiplicity > 1 apart
	c.key["n"] = nastyKeys[kp[2]]
	if c.key["n"] == c.key["a"] || c.key["n"] == c.key["b"] {
		c.key["n"] = "member"
	}
	mp := rng.Perm(len(nastyMsts))
	c.mst["m1"] = nastyMsts[mp[0]]
	c.mst["m2"] = nastyMsts[mp[1]]
	switch rng.Intn(4) {
	case 0:
		c.mst["m2"] = c.mst["m1"] + "_0000"
	case 1:
		c.mst["m2"] = c.mst["m1"] + "x"
	}
	c.desc = fmt.Sprintf("x=%q y=%q z=%q s=%q 1=%q a=%q b=%q n=%q m1=%q m2=%q", c.ch["x"], c.ch["y"], c.ch["z"], c.ch["s"], c.ch["1"], c.key["a"], c.key["b"], c.key["n"], c.mst["m1"], c.mst["m2"])
	return c
}

func (c *ixConc) str(abs []string) string {
	var sb strings.Builder
	for _, a := range abs {
		v, ok := c.ch[a]
		if !ok {
			panic("unknown abstract character " + a)
		}
		sb.WriteString(v)
	}
	return sb.String()
}

func isNoTag(v []string) bool { return len(v) == 1 && v[0] == "_" }

// tags of an abstract key as written by the client (empty values included)
func (c *ixConc) rawTags(k ixKey) []ctag {
	var out []ctag
	for _, ak := range []string{"a", "b"} {
		v, ok := k.T[ak]
		if !ok || isNoTag(v) {
			continue
		}
		out = append(out, ctag{c.key[ak], c.str(v)})
	}
	return out
}

// tags of a stored series (normalised key: no empty values)
func (c *ixConc) normTags(k ixKey) []ctag {
	var out []ctag
	for _, t := range c.rawTags(k) {
		if t.V != "" {
			out = append(out, t)
		}
	}
	return out
}

// member j of a series with multiplicity n: the extra tag tells the members apart (none when n = 1)
func (c *ixConc) memberTags(tags []ctag, j, n int) []ctag {
	if n <= 1 {
		return tags
	}
	out := append([]ctag{}, tags...)
	return append(out, ctag{c.key["n"], strconv.Itoa(j)})
}

func reQuoteRune(s string) string {
	// escape every ASCII punctuation character (valid inside and outside a character class)
	var sb strings.Builder
	for _, r := range s {
		if r == '\\' {
			sb.WriteString(`\x5c`) // InfluxQL's regex scanner cannot hold a pattern that ends in an escaped backslash
			continue
		}
		if r < 0x80 && !(r >= '0' && r <= '9') && !(r >= 'a' && r <= 'z') && !(r >= 'A' && r <= 'Z') && r > ' ' && r != 0x7f && r != '_' {
			sb.WriteByte('\\')
		}
		sb.WriteRune(r)
	}
	return sb.String()
}

// regex source text of an abstract regex (sequence of items)
func (c *ixConc) regex(items []json.RawMessage) (string, error) {
	var sb strings.Builder
	for _, raw := range items {
		var it []json.RawMessage
		if err := json.Unmarshal(raw, &it); err != nil {
			return "", err
		}
		var kind string
		_ = json.Unmarshal(it[0], &kind)
		seq := func(r json.RawMessage) string {
			var a []string
			_ = json.Unmarshal(r, &a)
			return c.str(a)
		}
		switch kind {
		case "bol":
			sb.WriteString("^")
		case "eol":
			sb.WriteString("$")
		case "lit":
			sb.WriteString(reQuoteRune(seq(it[1])))
		case "cls":
			var a []string
			_ = json.Unmarshal(it[1], &a)
			sb.WriteString("[")
			for _, x := range a {
				sb.WriteString(reQuoteRune(c.ch[x]))
			}
			sb.WriteString("]")
		case "dig":
			sb.WriteString("[0-9]")
		case "alt":
			var alts [][]string
			_ = json.Unmarshal(it[1], &alts)
			var parts []string
			for _, a := range alts {
				parts = append(parts, reQuoteRune(c.str(a)))
			}
			sort.Sort(sort.Reverse(sort.StringSlice(parts)))
			if len(items) == 1 {
				sb.WriteString(strings.Join(parts, "|"))
			} else {
				sb.WriteString("(" + strings.Join(parts, "|") + ")")
			}
		case "any*":
			sb.WriteString(".*")
		case "any+":
			sb.WriteString(".+")
		case "opt":
			sb.WriteString("(" + reQuoteRune(seq(it[1])) + ")?")
		case "star":
			var a string
			_ = json.Unmarshal(it[1], &a)
			sb.WriteString(reQuoteRune(c.ch[a]) + "*")
		default:
			return "", fmt.Errorf("unknown regex item %s", kind)
		}
	}
	return sb.String(), nil
}

// InfluxQL text of an abstract predicate
func (c *ixConc) cond(raw json.RawMessage) (string, error) {
	var p []json.RawMessage
	if err := json.Unmarshal(raw, &p); err != nil {
		return "", err
	}
	var op string
	_ = json.Unmarshal(p[0], &op)
	switch op {
	case "TRUE":
		return "", nil
	case "P":
		in, err := c.cond(p[1])
		return "(" + in + ")", err
	case "AND", "OR":
		l, err := c.cond(p[1])
		if err != nil {
			return "", err
		}
		r, err := c.cond(p[2])
		return l + " " + op + " " + r, err
	}
	quoteKey := func(k string) string {
		key := influxql.QuoteIdent(k)
		if !strings.HasPrefix(key, `"`) {
			key = `"` + key + `"`
		}
		return key
	}
	if op == "n=" || op == "n!=" { // the extra tag of the members; -1 = the empty string
		var j int
		if err := json.Unmarshal(p[1], &j); err != nil {
			return "", err
		}
		v := ""
		if j >= 0 {
			v = strconv.Itoa(j)
		}
		return quoteKey(c.key["n"]) + " " + op[1:] + " " + influxql.QuoteString(v), nil
	}
	var ak string
	_ = json.Unmarshal(p[1], &ak)
	key := quoteKey(c.key[ak])
	switch op {
	case "=", "!=":
		var v []string
		_ = json.Unmarshal(p[2], &v)
		return key + " " + op + " " + influxql.QuoteString(c.str(v)), nil
	case "=~", "!~":
		var items []json.RawMessage
		_ = json.Unmarshal(p[2], &items)
		re, err := c.regex(items)
		if err != nil {
			return "", err
		}
		return key + " " + op + " /" + strings.ReplaceAll(re, "/", `\/`) + "/", nil
	}
	return "", fmt.Errorf("unknown predicate op %s", op)
}

// ---- replay ---------------------------------------------------------------------------------------

// one concrete series: member j of the specification's series abs
type ixSeries struct {
	abs    int
	j      int
	real   uint64
	mst    string // concrete
	tags   []ctag // concrete, normalised (with the member tag)
	render string
}

type ixReplay struct {
	x      *ixEnv
	c      *ixConc
	byAbs  map[int][]*ixSeries // specification id -> its members, by member number
	byReal map[uint64]*ixSeries
	res    *ixResult
	closed bool
}

func (r *ixReplay) known(id, example string) {
	if r.res.KnownN == nil {
		r.res.KnownN = map[string]int{}
		r.res.KnownEx = map[string]string{}
	}
	r.res.KnownN[id]++
	if _, ok := r.res.KnownEx[id]; !ok {
		r.res.KnownEx[id] = example + " [concretisation: " + r.c.desc + "]"
	}
}

func classFindings(d string) []string {
	var out []string
	for i := 0; i < len(d); i++ {
		out = append(out, classFinding[d[i]])
	}
	return out
}

// realSet decodes a set of members of the specification into real series ids
func (r *ixReplay) realSet(abs []int, part []ixPart) ([]uint64, error) {
	out := make([]uint64, 0, len(abs))
	for _, a := range abs {
		ms := r.byAbs[a]
		if ms == nil {
			return nil, fmt.Errorf("specification id %d was never created", a)
		}
		for _, s := range ms {
			out = append(out, s.real)
		}
	}
	for _, p := range part {
		ms := r.byAbs[p.ID]
		if ms == nil {
			return nil, fmt.Errorf("specification id %d was never created", p.ID)
		}
		in := map[int]bool{}
		for _, j := range p.JS {
			if j < 0 || j >= len(ms) {
				return nil, fmt.Errorf("specification names member %d of series %d which has %d members", j, p.ID, len(ms))
			}
			in[j] = true
		}
		for j, s := range ms {
			if in[j] == (p.All == 0) {
				out = append(out, s.real)
			}
		}
	}
	sort.Slice(out, func(i, j int) bool { return out[i] < out[j] })
	return out, nil
}

func eqU64(a, b []uint64) bool {
	if len(a) != len(b) {
		return false
	}
	for i := range a {
		if a[i] != b[i] {
			return false
		}
	}
	return true
}

func eqStr(a, b []string) bool {
	if len(a) != len(b) {
		return false
	}
	for i := range a {
		if a[i] != b[i] {
			return false
		}
	}
	return true
}

func (r *ixReplay) namesAll(ids []uint64) []string {
	var out []string
	for _, id := range ids {
		if s := r.byReal[id]; s != nil {
			out = append(out, s.render)
		} else {
			out = append(out, fmt.Sprintf("?unknown-id-%x", id))
		}
	}
	sort.Strings(out)
	return out
}

// names for messages: large sets are abbreviated
func (r *ixReplay) names(ids []uint64) []string {
	out := r.namesAll(ids)
	if len(out) > 12 {
		n := len(out)
		out = append(out[:10:10], fmt.Sprintf("... (%d series in all)", n))
	}
	return out
}

// diffNames describes got against want: both sets when small, else what is missing / unexpected
func (r *ixReplay) diffNames(got, want []uint64) string {
	if len(got) <= 12 && len(want) <= 12 {
		return fmt.Sprintf("got %q, want %q", r.names(got), r.names(want))
	}
	inW, inG := map[uint64]bool{}, map[uint64]bool{}
	for _, id := range want {
		inW[id] = true
	}
	for _, id := range got {
		inG[id] = true
	}
	var missing, extra []uint64
	for _, id := range want {
		if !inG[id] {
			missing = append(missing, id)
		}
	}
	for _, id := range got {
		if !inW[id] {
			extra = append(extra, id)
		}
	}
	return fmt.Sprintf("got %d series, want %d: missing %q, unexpected %q", len(got), len(want), r.names(missing), r.names(extra))
}

// checkIDs: after every action every known series key must resolve to its one id
func (r *ixReplay) checkIDs(st *ixStep) string {
	vis := map[int]bool{}
	for _, v := range st.Exp.Vis {
		vis[v] = true
	}
	seen := map[int]bool{}
	for _, e := range st.Exp.IDs {
		ms := r.byAbs[e.ID]
		if ms == nil {
			return fmt.Sprintf("specification lists id %d that the replay never created", e.ID)
		}
		if seen[e.ID] {
			return fmt.Sprintf("specification id table lists id %d twice", e.ID)
		}
		seen[e.ID] = true
		if e.N != 0 && e.N != len(ms) {
			return fmt.Sprintf("specification gives series %d multiplicity %d, the replay created %d members", e.ID, e.N, len(ms))
		}
		for _, s := range ms {
			got, err := r.x.idx().GetSeriesIdBySeriesKey(indexKeyOf(s.mst, s.tags))
			r.res.Lookups++
			if err != nil {
				return fmt.Sprintf("GetSeriesIdBySeriesKey(%q): %v", s.render, err)
			}
			if got == s.real {
				continue
			}
			if got == 0 && !vis[e.ID] {
				// deviation model lookup_misses_pending: neither cached nor flushed -> not found
				r.known(findLookup, fmt.Sprintf("GetSeriesIdBySeriesKey(%q) = 0 although the series was created (id %x): items not flushed yet and the cache was dropped", s.render, s.real))
				continue
			}
			return fmt.Sprintf("GetSeriesIdBySeriesKey(%q) = %x, want %x (the id this series got when it was created)", s.render, got, s.real)
		}
	}
	return ""
}

type listing struct {
	keys []string            // rendered series keys (sorted, with duplicates)
	tk   []string            // tag keys
	tv   map[string][]string // tag key -> values
}

func (r *ixReplay) listingOf(ids []uint64) listing {
	l := listing{tv: map[string][]string{}}
	tk := map[string]bool{}
	tv := map[string]map[string]bool{}
	for _, id := range ids {
		s := r.byReal[id]
		l.keys = append(l.keys, s.render)
		for _, t := range s.tags {
			tk[t.K] = true
			if tv[t.K] == nil {
				tv[t.K] = map[string]bool{}
			}
			tv[t.K][t.V] = true
		}
	}
	sort.Strings(l.keys)
	for k := range tk {
		l.tk = append(l.tk, k)
	}
	sort.Strings(l.tk)
	for k, m := range tv {
		for v := range m {
			l.tv[k] = append(l.tv[k], v)
		}
		sort.Strings(l.tv[k])
	}
	return l
}

// as-implemented model of engine.handleTagKeys (known finding F-C10-7): the tag keys are recovered by
// splitting the unescaped rendering "mst,k=v,k=v" at ',' and '='
func splitModelTagKeys(rendered []string) []string {
	m := map[string]bool{}
	for _, k := range rendered {
		arr := strings.Split(k, ",")
		for _, item := range arr[1:] {
			m[strings.Split(item, "=")[0]] = true
		}
	}
	var out []string
	for k := range m {
		out = append(out, k)
	}
	sort.Strings(out)
	return out
}

func dedup(a []string) []string {
	var out []string
	for i, s := range a {
		if i == 0 || s != a[i-1] {
			out = append(out, s)
		}
	}
	return out
}

// explain picks the model that explains a real result:
//
//	(true, "", nil, "")   the specification's set
//	(true, d, nil, "")    exactly the prediction of the deviation classes d of OPEN findings (the smallest such set)
//	(false, "", p, why)   neither, but exactly what the code would answer without the repair of the classes p.R
//	                      (entry p of regr): a regression of the repaired findings of p.R
//	(false, "", nil, why) neither
//
// The open predictions are tried first: a result an open finding explains is never blamed on a repaired one.
func (r *ixReplay) explain(got, want []uint64, preds, regr []ixPrediction) (bool, string, *ixPrediction, string) {
	if eqU64(got, want) {
		return true, "", nil, ""
	}
	pick := func(preds []ixPrediction) *ixPrediction {
		var best *ixPrediction
		for i := range preds {
			p := &preds[i]
			ps, err := r.realSet(p.IDs, p.Part)
			if err != nil {
				continue
			}
			if eqU64(got, ps) && (best == nil || len(p.D) < len(best.D)) {
				best = p
			}
		}
		return best
	}
	if best := pick(preds); best != nil {
		return true, best.D, nil, ""
	}
	return false, "", pick(regr), r.diffNames(got, want)
}

// regression renders the violation for a result that equals the prediction p of a class set holding repaired
// deviation classes (p.R), and records their findings for the summary of props/c10.py
func (r *ixReplay) regression(p *ixPrediction, why string) string {
	rep := p.R
	if rep == "" {
		rep = p.D
	}
	fs := classFindings(rep)
	for _, f := range fs {
		seen := false
		for _, o := range r.res.Regress {
			seen = seen || o == f
		}
		if !seen {
			r.res.Regress = append(r.res.Regress, f)
		}
	}
	return fmt.Sprintf("%s -- REGRESSION: exactly the answer of the code before the repair of %s (prediction of the deviation classes %s of SeriesIndex.tla; %s belong to repaired findings and are no longer tolerated)", why, strings.Join(fs, ", "), p.D, rep)
}

func (r *ixReplay) search(st *ixStep) string {
	var qs []ixQuery
	if err := json.Unmarshal(st.Exp.X, &qs); err != nil {
		r.res.Infra = "bad Search step: " + err.Error()
		return "infra"
	}
	eng := r.x.e.Eng
	full := influxql.TimeRange{Min: time.Unix(0, influxql.MinTime).UTC(), Max: time.Unix(0, influxql.MaxTime).UTC()}
	var hist []histQuery
	leafIso := map[string][]uint64{}
	// A Search step is a SEQUENCE of searches served one after the other by this process, i.e. by the same
	// pooled searcher objects. Every single result below is compared with the specification's set for
	// (index contents, predicate) -- whatever ran before it.
	for qi, q := range qs {
		text, err := r.c.cond(q.P)
		if err != nil {
			r.res.Infra = "cannot render predicate: " + err.Error()
			return "infra"
		}
		mst := r.c.mst[q.M]
		name := mst + "_0000"
		where := fmt.Sprintf("query %d: measurement %q WHERE %s", qi, mst, strings.Trim(fmt.Sprintf("%q", text), `"`))
		want, err := r.realSet(q.IDs, q.Part)
		if err != nil {
			r.res.Infra = err.Error()
			return "infra"
		}
		r.res.Searches++

		// (1) SHOW path, ids: MergeSetIndex.searchTSIDs
		gotShow, err := r.x.showIDs(mst, text)
		if err != nil {
			return where + ": SearchSeriesByTableAndCond: " + err.Error()
		}
		r.res.Compared++
		ok, dshow, rshow, why := r.explain(gotShow, want, q.DShow, q.RShow)
		if !ok {
			if rshow != nil {
				why = r.regression(rshow, why)
			}
			return where + ": SHOW path (searchTSIDs) " + why
		}
		if dshow != "" {
			for _, f := range classFindings(dshow) {
				r.known(f, fmt.Sprintf("%s: SHOW path selects %q, unanchored/absent-as-empty evaluation selects %q (deviation classes %s)", where, r.names(gotShow), r.names(want), dshow))
			}
		}
		// every id returned must be a known series; listings are judged against the explained set
		for _, id := range gotShow {
			if r.byReal[id] == nil {
				return fmt.Sprintf("%s: SHOW path returned id %x that no series owns", where, id)
			}
		}
		lst := r.listingOf(gotShow)

		// (2) SHOW SERIES keys: MergeSetIndex.SearchSeriesKeys
		keys, err := r.x.showKeys(mst, text)
		if err != nil {
			return where + ": SearchSeriesKeys: " + err.Error()
		}
		r.res.Compared++
		if !eqStr(keys, lst.keys) {
			return fmt.Sprintf("%s: SearchSeriesKeys lists %s, the ids selected are %s", where, clipList(keys), clipList(lst.keys))
		}

		// (3) SELECT path: MergeSetIndex.SearchSeriesWithOpts, first with an empty tag-filter cache (nothing is
		// pending, so dropping the caches is invisible to the specification); the pass in sequence order with the
		// cache kept follows the batch
		// (3a) every leaf of the tree is a search of its own with its own expectation
		hq := histQuery{mst: mst, text: text, where: where, want: want, dsel: q.DSel, rsel: q.RSel}
		for li := range q.LV {
			lf := &q.LV[li]
			ltext, err := r.c.cond(lf.P)
			if err != nil {
				r.res.Infra = "cannot render leaf: " + err.Error()
				return "infra"
			}
			lwant, err := r.realSet(lf.IDs, lf.Part)
			if err != nil {
				r.res.Infra = err.Error()
				return "infra"
			}
			lgot, err := r.isoSelect(mst, ltext)
			if err != nil {
				return where + ": SearchSeriesWithOpts (its leaf " + ltext + " searched on its own): " + err.Error()
			}
			r.res.Compared++
			ok, dl, rl, why := r.explain(lgot, lwant, lf.DSel, lf.RSel)
			if !ok {
				if rl != nil {
					why = r.regression(rl, why)
				}
				return fmt.Sprintf("%s: its leaf %s searched on its own (SELECT path) %s", where, strings.Trim(fmt.Sprintf("%q", ltext), `"`), why)
			}
			if dl != "" {
				for _, f := range classFindings(dl) {
					r.known(f, fmt.Sprintf("%s: leaf %s: SELECT path selects %q, unanchored/absent-as-empty evaluation selects %q (deviation classes %s)", where, ltext, r.names(lgot), r.names(lwant), dl))
					hq.leafFindings = append(hq.leafFindings, f)
				}
			}
		}
		// (3b) the leaves as the SELECT path sees them (after RewriteRegexConditions), for the predictors of the
		// history pass and of the prune path
		if err := r.isoLeaves(mst, text, leafIso); err != nil {
			return where + ": SearchSeriesWithOpts (single leaf): " + err.Error()
		}
		// (3c) the tree itself
		gotSel, err := r.isoSelect(mst, text)
		if err != nil {
			var pn *ixPanic
			if errors.As(err, &pn) {
				return r.judgePanic(&hq, pn, "")
			}
			return where + ": SearchSeriesWithOpts: " + err.Error()
		}
		r.res.Compared++
		if why := r.judgeSelect(&hq, gotSel, leafIso, ""); why != "" {
			return why
		}
		hq.iso = gotSel
		hist = append(hist, hq)

		// (4) engine level listings (what SHOW SERIES / SHOW TAG KEYS / SHOW TAG VALUES return)
		cond, err := showCond(text)
		if err != nil {
			return where + ": " + err.Error()
		}
		sk, err := eng.SeriesKeys(engx.DB, []uint32{engx.PT}, [][]byte{[]byte(name)}, cond, full)
		if err != nil {
			return where + ": Engine.SeriesKeys: " + err.Error()
		}
		r.res.Compared++
		if !eqStr(sk, dedup(lst.keys)) {
			return fmt.Sprintf("%s: Engine.SeriesKeys lists %s, the ids selected are %s", where, clipList(sk), clipList(lst.keys))
		}
		cond, _ = showCond(text)
		tks, err := eng.TagKeys(engx.DB, []uint32{engx.PT}, [][]byte{[]byte(name)}, cond, full)
		if err != nil {
			return where + ": Engine.TagKeys: " + err.Error()
		}
		r.res.Compared++
		if why := r.judgeTagKeys(mst, tks, lst); why != "" {
			if why == "known" {
				r.known(findTagKeys, fmt.Sprintf("%s: Engine.TagKeys returns %q for series %s (keys recovered by splitting the unescaped series key at ',' and '=')", where, tks, clipList(lst.keys)))
			} else {
				return where + ": Engine.TagKeys " + why
			}
		}
		// tag-value listing under the condition, for both tag keys and the member tag: exactly the values the
		// selected series carry, however many series share a value (rows of 64 ids per value in the index)
		cond, _ = showCond(text)
		ka, kb, kn := r.c.key["a"], r.c.key["b"], r.c.key["n"]
		tvs, err := eng.TagValues(engx.DB, []uint32{engx.PT}, map[string][][]byte{name: {[]byte(ka), []byte(kb), []byte(kn)}}, cond, full)
		if err != nil {
			return where + ": Engine.TagValues: " + err.Error()
		}
		r.res.Compared++
		gotTV := map[string][]string{}
		for _, t := range tvs {
			if t.Name != mst {
				return fmt.Sprintf("%s: Engine.TagValues reports measurement %q", where, t.Name)
			}
			for _, v := range t.Values {
				gotTV[v.Key] = append(gotTV[v.Key], v.Value)
			}
		}
		for _, k := range []string{ka, kb, kn} {
			g := gotTV[k]
			sort.Strings(g)
			if !eqStr(g, lst.tv[k]) {
				return fmt.Sprintf("%s: Engine.TagValues(%q) = %s, the series selected carry %s", where, k, clipList(g), clipList(lst.tv[k]))
			}
			delete(gotTV, k)
		}
		if len(gotTV) != 0 {
			return fmt.Sprintf("%s: Engine.TagValues reports values for keys that were not asked for: %v", where, gotTV)
		}

		// cross-check of the specification's own listings against the ones derived here (design result only)
		if dshow == "" {
			var wantTK []string
			for _, k := range q.TK {
				wantTK = append(wantTK, r.c.key[k])
			}
			sort.Strings(wantTK)
			if !eqStr(wantTK, lst.tk) {
				r.res.Infra = fmt.Sprintf("%s: specification tag keys %q, derived %q", where, wantTK, lst.tk)
				return "infra"
			}
			for ak, vals := range q.TV {
				var w []string
				for _, v := range vals {
					w = append(w, r.c.str(v))
				}
				sort.Strings(w)
				if !eqStr(w, lst.tv[r.c.key[ak]]) {
					r.res.Infra = fmt.Sprintf("%s: specification tag values of %s %q, derived %q", where, ak, w, lst.tv[r.c.key[ak]])
					return "infra"
				}
			}
			var wn []string
			for _, j := range q.TVN {
				wn = append(wn, strconv.Itoa(j))
			}
			sort.Strings(wn)
			if !eqStr(wn, lst.tv[kn]) {
				r.res.Infra = fmt.Sprintf("%s: specification member-tag values %s, derived %s", where, clipList(wn), clipList(lst.tv[kn]))
				return "infra"
			}
		}
	}
	return r.historyPass(hist, leafIso)
}

func clipList(a []string) string {
	if len(a) <= 12 {
		return fmt.Sprintf("%q", a)
	}
	return fmt.Sprintf("%q ... (%d in all)", a[:10], len(a))
}

// ---- the tag-filter result cache of the SELECT path (finding F-C10-8) ---------------------------------
// (The model below is the code BEFORE the repair of F-C10-8 - tf.value is now left as written, so the cache key tells
// /a\|/ and /a|/ apart. It stays as the regression detector: a result that equals its prediction is recorded under
// F-C10-8, which props/c10.py turns into a violation as long as the entry is listed as fixed.)
// Model: leaf results are cached under (measurement, tag key, VALUE AS REWRITTEN BY tagFilter.Init, negative,
// regexp); InfluxRegrep replaces the text of a pure-literal expression by the unescaped literal, so /a\|/ and
// /a|/ share an entry. Only non-empty results are served from the cache. The prediction of a query in
// its batch is the set algebra over the isolated results of its leaves, with leaves served from the model
// cache when an earlier leaf stored the same key.

type histQuery struct {
	mst, text, where string
	iso              []uint64       // result with an empty tag-filter cache (already judged)
	want             []uint64       // the specification's set
	dsel             []ixPrediction // predictions of the deviation models of the open findings
	rsel             []ixPrediction // predictions of class sets holding the class of a repaired finding
	leafFindings     []string       // findings the isolated results of its leaves were attributed to
}

// judgeSelect: one result of the SELECT path for the tree of h (phase "" = with emptied caches, else a description
// of the position in the sequence). "" = the specification's set, or exactly the prediction of an open finding's
// deviation model (recorded); otherwise the violation text.
func (r *ixReplay) judgeSelect(h *histQuery, got []uint64, leafIso map[string][]uint64, phase string) string {
	ok, d, regr, why := r.explain(got, h.want, h.dsel, h.rsel)
	if ok {
		for _, f := range classFindings(d) {
			r.known(f, fmt.Sprintf("%s: SELECT path%s selects %q, unanchored/absent-as-empty evaluation selects %q (deviation classes %s)", h.where, phase, r.names(got), r.names(h.want), d))
		}
		return ""
	}
	// the prune path of seriesByTagFilters (see mixCandidates)
	if e, err := selectCond(h.text); err == nil && e != nil {
		for _, c := range r.mixCandidates(h.mst, e, leafIso) {
			if !eqU64(got, c.set) {
				continue
			}
			if c.lit != "" {
				r.known(findPrune, fmt.Sprintf("%s: SELECT path%s: %s; exactly the set obtained when the filter applied by doPrune matches the tag values against the regular expression `%s` (the UNESCAPED literal tagFilter.Init left in tf.value, compiled as an expression)", h.where, phase, why, c.lit))
				return ""
			}
			if len(h.leafFindings) > 0 {
				for _, f := range h.leafFindings {
					r.known(f, fmt.Sprintf("%s: SELECT path%s: %s; exactly the intersection of its leaves where some are evaluated by the index scan (as-implemented matching, attributed above) and the others by doPrune (true matching)", h.where, phase, why))
				}
				return ""
			}
		}
	}
	// nothing an open finding predicts: is it what the code answered before a repair?
	if regr != nil {
		why = r.regression(regr, why)
	}
	return h.where + ": SELECT path (SearchSeriesWithOpts)" + phase + " " + why
}

// judgePanic: the SELECT path panicked. Known only as F-C10-9: a conjunction with a pure-literal regular expression
// whose unescaped literal does not compile, the message being exactly regexp.MustCompile's for that literal.
func (r *ixReplay) judgePanic(h *histQuery, pn *ixPanic, phase string) string {
	if e, err := selectCond(h.text); err == nil && e != nil {
		for _, v := range pruneLiterals(e) {
			if _, cerr := regexp.Compile(v); cerr != nil && strings.Contains(pn.msg, "regexp: Compile(") && strings.Contains(pn.msg, cerr.Error()) {
				r.known(findPrune, fmt.Sprintf("%s: SELECT path%s panics: %s (doPrune compiles the UNESCAPED literal %q, which tagFilter.Init left in tf.value, as a regular expression)", h.where, phase, pn.msg, v))
				return "stop" // the panic left the searcher's table search open; the case ends here
			}
		}
	}
	return h.where + ": SELECT path (SearchSeriesWithOpts)" + phase + ": " + pn.Error()
}

// ---- the prune path of the SELECT path (finding F-C10-9, repaired; kept as the regression detector) ------------
// seriesByExprIterator hands every maximal conjunction of tag comparisons to seriesByTagFilters. With the tag-filter
// COST cache filled by earlier searches, a filter whose cost is more than 10x the size of the running result is
// not looked up in the index but applied to the candidate series by doPrune -> matchSeriesKeyTagFilter: the tag
// value (absent = "") against regexp.MustCompile(tf.value) for =~ / !~, equality otherwise. That is the TRUE
// matching -- except that tagFilter.Init has replaced tf.value of a pure-literal expression by the unescaped
// literal (see F-C10-8): the literal is then compiled as an expression (`$x` never matches, `a.b` matches axb,
// `a|` matches everything, `(` `*x` `[` panic). Which filters are pruned depends on the cost cache, i.e. on the
// history; the model therefore offers one candidate per choice of pruned leaves per conjunction: the intersection
// of the ISOLATED REAL results of the scanned leaves and of the doPrune evaluation of the others.

type mixCand struct {
	set []uint64
	lit string // non-empty: a pruned leaf matched with this unescaped literal compiled as an expression
}

func isCmpLeaf(e influxql.Expr) (*influxql.BinaryExpr, bool) {
	for {
		p, ok := e.(*influxql.ParenExpr)
		if !ok {
			break
		}
		e = p.Expr
	}
	b, ok := e.(*influxql.BinaryExpr)
	if !ok || b.Op == influxql.AND || b.Op == influxql.OR {
		return nil, false
	}
	return b, true
}

// leaves of e if e is a conjunction of comparisons only (isAllAndExpr), else nil
func allAndLeaves(e influxql.Expr) []*influxql.BinaryExpr {
	switch n := e.(type) {
	case *influxql.ParenExpr:
		return allAndLeaves(n.Expr)
	case *influxql.BinaryExpr:
		if n.Op == influxql.AND {
			l, r := allAndLeaves(n.LHS), allAndLeaves(n.RHS)
			if l == nil || r == nil {
				return nil
			}
			return append(append([]*influxql.BinaryExpr{}, l...), r...)
		}
		if n.Op == influxql.OR {
			return nil
		}
		return []*influxql.BinaryExpr{n}
	}
	return nil
}

// the unescaped literals tf.value holds for the pure-literal regex leaves of conjunctions of e
func pruneLiterals(e influxql.Expr) []string {
	var out []string
	var walk func(e influxql.Expr)
	walk = func(e influxql.Expr) {
		switch n := e.(type) {
		case *influxql.ParenExpr:
			walk(n.Expr)
		case *influxql.BinaryExpr:
			if n.Op == influxql.AND {
				if ls := allAndLeaves(n); len(ls) >= 2 {
					for _, l := range ls {
						if v, ok := rewrittenLiteral(l); ok {
							out = append(out, v)
						}
					}
					return
				}
			}
			if n.Op == influxql.AND || n.Op == influxql.OR {
				walk(n.LHS)
				walk(n.RHS)
			}
		}
	}
	walk(e)
	return out
}

// a regex leaf whose expression is a pure literal: tagFilter.Init leaves the unescaped literal in tf.value
func rewrittenLiteral(l *influxql.BinaryExpr) (string, bool) {
	re, ok := l.RHS.(*influxql.RegexLiteral)
	if !ok {
		return "", false
	}
	text := re.Val.String()
	v := effectiveRegexValue(text)
	if v == text || regexp.QuoteMeta(v) == v {
		return "", false // not rewritten, or the literal means itself as an expression
	}
	return v, true
}

func tagsMap(s *ixSeries) map[string]string {
	m := map[string]string{}
	for _, t := range s.tags {
		m[t.K] = t.V
	}
	return m
}

func (r *ixReplay) mixCandidates(mst string, e influxql.Expr, leafIso map[string][]uint64) []mixCand {
	var members []*ixSeries
	for _, s := range r.byReal {
		if s.mst == mst {
			members = append(members, s)
		}
	}
	sort.Slice(members, func(i, j int) bool { return members[i].real < members[j].real })
	var eval func(e influxql.Expr) []mixCand
	eval = func(e influxql.Expr) []mixCand {
		switch n := e.(type) {
		case *influxql.ParenExpr:
			return eval(n.Expr)
		case *influxql.BinaryExpr:
			if n.Op == influxql.AND {
				if ls := allAndLeaves(n); len(ls) >= 2 && len(ls) <= 6 {
					return r.conjCandidates(mst, ls, leafIso, members)
				}
			}
			if n.Op == influxql.AND || n.Op == influxql.OR {
				var out []mixCand
				for _, a := range eval(n.LHS) {
					for _, b := range eval(n.RHS) {
						c := mixCand{lit: a.lit}
						if c.lit == "" {
							c.lit = b.lit
						}
						if n.Op == influxql.AND {
							c.set = setAnd(a.set, b.set)
						} else {
							c.set = setOr(a.set, b.set)
						}
						out = append(out, c)
					}
				}
				return out
			}
			if s, ok := leafIso[mst+"\x00"+n.String()]; ok {
				return []mixCand{{set: s}}
			}
		}
		return nil
	}
	return eval(e)
}

// candidates of one conjunction: every proper subset of its leaves applied by doPrune, the others by the index
func (r *ixReplay) conjCandidates(mst string, ls []*influxql.BinaryExpr, leafIso map[string][]uint64, members []*ixSeries) []mixCand {
	n := len(ls)
	iso := make([][]uint64, n)
	for i, l := range ls {
		s, ok := leafIso[mst+"\x00"+l.String()]
		if !ok {
			return nil
		}
		iso[i] = s
	}
	// doPrune evaluation of each leaf per series: with the expression as written, and with the rewritten literal
	type pe struct {
		plain map[uint64]bool
		lit   map[uint64]bool
		litV  string
	}
	pes := make([]pe, n)
	for i, l := range ls {
		pes[i].plain = map[uint64]bool{}
		var litRe *regexp.Regexp
		if v, ok := rewrittenLiteral(l); ok {
			if re, err := regexp.Compile(v); err == nil {
				litRe, pes[i].litV, pes[i].lit = re, v, map[uint64]bool{}
			}
		}
		ref, _ := l.LHS.(*influxql.VarRef)
		for _, s := range members {
			tm := tagsMap(s)
			pes[i].plain[s.real] = bruteEval(l, tm)
			if litRe != nil && ref != nil {
				m := litRe.MatchString(tm[ref.Val])
				pes[i].lit[s.real] = m == (l.Op == influxql.EQREGEX)
			}
		}
	}
	var out []mixCand
	for mask := 0; mask < (1<<n)-1; mask++ { // bit set = pruned; at least one leaf is looked up in the index
		// variants: each pruned leaf with a rewritten literal may be matched either way only by the literal
		var cur []uint64
		first := true
		for i := 0; i < n; i++ {
			if mask&(1<<i) == 0 {
				if first {
					cur, first = append([]uint64{}, iso[i]...), false
				} else {
					cur = setAnd(cur, iso[i])
				}
			}
		}
		sort.Slice(cur, func(a, b int) bool { return cur[a] < cur[b] })
		lit := ""
		set, plain := []uint64{}, []uint64{}
		for _, id := range cur {
			keepLit, keepPlain := true, true
			for i := 0; i < n; i++ {
				if mask&(1<<i) == 0 {
					continue
				}
				keepPlain = keepPlain && pes[i].plain[id]
				if pes[i].lit != nil {
					keepLit = keepLit && pes[i].lit[id]
				} else {
					keepLit = keepLit && pes[i].plain[id]
				}
			}
			if keepLit {
				set = append(set, id)
			}
			if keepPlain {
				plain = append(plain, id)
			}
		}
		for i := 0; i < n; i++ {
			if mask&(1<<i) != 0 && pes[i].lit != nil {
				lit = pes[i].litV
			}
		}
		// doPrune with the expression as written is the true matching; with the rewritten literal it is F-C10-9
		// (the candidate counts as such only where the literal changes the outcome)
		if lit != "" && !eqU64(set, plain) {
			out = append(out, mixCand{set: set, lit: lit})
		} else {
			out = append(out, mixCand{set: plain})
		}
	}
	return out
}

func (r *ixReplay) isoSelect(mst, text string) ([]uint64, error) {
	if err := r.x.e.Shard().GetIndexBuilder().ClearCache(); err != nil {
		return nil, err
	}
	return r.x.selectIDs(mst, text)
}

func condLeaves(e influxql.Expr, out *[]*influxql.BinaryExpr) {
	switch n := e.(type) {
	case *influxql.ParenExpr:
		condLeaves(n.Expr, out)
	case *influxql.BinaryExpr:
		if n.Op == influxql.AND || n.Op == influxql.OR {
			condLeaves(n.LHS, out)
			condLeaves(n.RHS, out)
			return
		}
		*out = append(*out, n)
	}
}

func (r *ixReplay) isoLeaves(mst, text string, leafIso map[string][]uint64) error {
	e, err := selectCond(text)
	if err != nil || e == nil {
		return err
	}
	var leaves []*influxql.BinaryExpr
	condLeaves(e, &leaves)
	for _, l := range leaves {
		k := mst + "\x00" + l.String()
		if _, ok := leafIso[k]; ok {
			continue
		}
		ids, err := r.isoSelect(mst, l.String())
		if err != nil {
			return err
		}
		leafIso[k] = ids
	}
	return nil
}

// the value a regexp filter is cached under: tagFilter.Init -> InfluxRegrep -> getRegexpPrefix
func effectiveRegexValue(text string) string {
	sre, err := syntax.Parse(text, syntax.Perl)
	if err != nil {
		return text
	}
	sre = sre.Simplify()
	lit := func(l *syntax.Regexp) (string, bool) {
		for l.Op == syntax.OpCapture {
			l = l.Sub[0]
		}
		if l.Op == syntax.OpLiteral && l.Flags&syntax.FoldCase == 0 {
			return string(l.Rune), true
		}
		return "", false
	}
	switch sre.Op {
	case syntax.OpEmptyMatch, syntax.OpBeginText, syntax.OpEndText:
		return ""
	case syntax.OpConcat:
		// simplifyRegexpExt: only an expression anchored at BOTH ends keeps a bare literal body
		// (otherwise ".*" is appended / prepended and the text is left alone)
		subs := sre.Sub
		bo := subs[0].Op == syntax.OpBeginText
		eo := subs[len(subs)-1].Op == syntax.OpEndText
		for len(subs) > 0 && subs[0].Op == syntax.OpBeginText {
			subs = subs[1:]
		}
		for len(subs) > 0 && subs[len(subs)-1].Op == syntax.OpEndText {
			subs = subs[:len(subs)-1]
		}
		if len(subs) == 0 {
			return ""
		}
		if bo && eo && len(subs) == 1 {
			if v, ok := lit(subs[0]); ok {
				return v
			}
		}
		return text
	}
	if v, ok := lit(sre); ok {
		return v
	}
	return text
}

func leafCacheKey(mst string, l *influxql.BinaryExpr) string {
	ref, _ := l.LHS.(*influxql.VarRef)
	k := ""
	if ref != nil {
		k = ref.Val
	}
	switch v := l.RHS.(type) {
	case *influxql.StringLiteral:
		return fmt.Sprintf("%s\x00%s\x00%s\x00%v\x000", mst, k, v.Val, l.Op != influxql.EQ)
	case *influxql.RegexLiteral:
		return fmt.Sprintf("%s\x00%s\x00%s\x00%v\x001", mst, k, effectiveRegexValue(v.Val.String()), l.Op != influxql.EQREGEX)
	}
	return mst + "\x00?" + l.String()
}

func setAnd(a, b []uint64) []uint64 {
	m := map[uint64]bool{}
	for _, x := range b {
		m[x] = true
	}
	out := []uint64{}
	for _, x := range a {
		if m[x] {
			out = append(out, x)
		}
	}
	return out
}

func setOr(a, b []uint64) []uint64 {
	m := map[uint64]bool{}
	out := []uint64{}
	for _, x := range append(append([]uint64{}, a...), b...) {
		if !m[x] {
			m[x] = true
			out = append(out, x)
		}
	}
	sort.Slice(out, func(i, j int) bool { return out[i] < out[j] })
	return out
}

func modelEval(mst string, e influxql.Expr, leafIso, cache map[string][]uint64) ([]uint64, bool) {
	switch n := e.(type) {
	case *influxql.ParenExpr:
		return modelEval(mst, n.Expr, leafIso, cache)
	case *influxql.BinaryExpr:
		if n.Op == influxql.AND || n.Op == influxql.OR {
			a, ok1 := modelEval(mst, n.LHS, leafIso, cache)
			b, ok2 := modelEval(mst, n.RHS, leafIso, cache)
			if !ok1 || !ok2 {
				return nil, false
			}
			if n.Op == influxql.AND {
				return setAnd(a, b), true
			}
			return setOr(a, b), true
		}
		ck := leafCacheKey(mst, n)
		if c, ok := cache[ck]; ok && len(c) > 0 {
			return c, true
		}
		s, ok := leafIso[mst+"\x00"+n.String()]
		if !ok {
			return nil, false
		}
		if cache != nil && len(s) > 0 {
			cache[ck] = s
		}
		return s, true
	}
	return nil, false
}

// historyPass runs the searches of the sequence once more, in order, keeping the tag-filter cache (and the
// tag-filter cost cache) between them. A search is a function of (index contents, predicate): every result must
// again be the specification's set, or exactly what the deviation model of an open finding predicts:
//   - the class models of SeriesIndex.tla (dsel: classes of open findings only), as for every other search; the real code may switch
//     between the design result and such a prediction from one execution to the next (once the cost of a filter is
//     known, seriesByTagFilters applies it by doPrune = true regexp matching instead of the as-implemented index scan);
//   - F-C10-8: the set algebra over the isolated leaf results with leaves served from the model cache. This predictor
//     is usable only if, with an empty cache, it reproduces the isolated result of the tree; if the real leaf results
//     are themselves inconsistent, the specification's set (and the class models) decide alone.
//
// Anything else is a violation.
func (r *ixReplay) historyPass(hist []histQuery, leafIso map[string][]uint64) string {
	if len(hist) == 0 {
		return ""
	}
	if err := r.x.e.Shard().GetIndexBuilder().ClearCache(); err != nil {
		return "ClearCache: " + err.Error()
	}
	cache := map[string][]uint64{}
	const phase = " (repeated after the other searches of its sequence)"
	for hi := range hist {
		h := &hist[hi]
		got, err := r.x.selectIDs(h.mst, h.text)
		if err != nil {
			var pn *ixPanic
			if errors.As(err, &pn) {
				return r.judgePanic(h, pn, phase)
			}
			return h.where + ": SearchSeriesWithOpts: " + err.Error()
		}
		r.res.Compared++
		e, err := selectCond(h.text)
		if err != nil {
			return h.where + ": " + err.Error()
		}
		if e == nil {
			if !eqU64(got, h.want) {
				return fmt.Sprintf("%s: SELECT path without condition, repeated after the other searches of its sequence: %s", h.where, r.diffNames(got, h.want))
			}
			continue
		}
		alone, okAlone := modelEval(h.mst, e, leafIso, map[string][]uint64{})
		consistent := okAlone && eqU64(alone, h.iso)
		var alias []uint64
		if consistent {
			alias, _ = modelEval(h.mst, e, leafIso, cache) // also keeps the model cache in step
		}
		if !eqU64(got, h.iso) {
			r.res.HistDep++
		}
		if eqU64(got, h.want) {
			continue
		}
		if consistent && eqU64(got, alias) {
			if !eqU64(got, h.iso) {
				r.known(findAlias, fmt.Sprintf("%s: SELECT path selects %q when it follows the other queries of its batch and %q on its own (a leaf is served from the tag-filter cache entry of a different expression with the same rewritten text)", h.where, r.names(got), r.names(h.iso)))
			}
			continue
		}
		why := r.judgeSelect(h, got, leafIso, phase)
		if why == "" {
			continue
		}
		if consistent {
			return fmt.Sprintf("%s; on its own it selected %q; cache-alias model of F-C10-8: %q", why, r.names(h.iso), r.names(alias))
		}
		return fmt.Sprintf("%s; on its own it selected %q (a search must be a function of index contents and predicate) [the leaves searched on their own compose to %q, not to the result of the tree, so the cache-alias model of F-C10-8 cannot be evaluated: judged against the specification's set]", why, r.names(h.iso), r.names(alone))
	}
	return ""
}

// Engine.TagKeys returns one string "measurement,key,key" per measurement with at least one key
func (r *ixReplay) judgeTagKeys(mst string, got []string, lst listing) string {
	match := func(keys []string) bool {
		if len(keys) == 0 {
			return len(got) == 0
		}
		if len(got) != 1 {
			return false
		}
		// any order of the keys
		var perm func(rest []string, acc string) bool
		perm = func(rest []string, acc string) bool {
			if len(rest) == 0 {
				return acc == got[0]
			}
			for i := range rest {
				nr := append(append([]string{}, rest[:i]...), rest[i+1:]...)
				if perm(nr, acc+","+rest[i]) {
					return true
				}
			}
			return false
		}
		return perm(keys, mst)
	}
	if match(lst.tk) {
		return ""
	}
	if model := splitModelTagKeys(lst.keys); !eqStr(model, lst.tk) && match(model) {
		return "known"
	}
	return fmt.Sprintf("= %q, the series selected carry the tag keys %q", got, lst.tk)
}

func (r *ixReplay) create(st *ixStep) string {
	var raw ixKey
	if err := json.Unmarshal(st.Args, &raw); err != nil {
		r.res.Infra = "bad Create args: " + err.Error()
		return "infra"
	}
	var x struct {
		ID  int `json:"id"`
		New int `json:"new"`
		Dup int `json:"dup"`
		N   int `json:"n"`
	}
	if err := json.Unmarshal(st.Exp.X, &x); err != nil {
		r.res.Infra = "bad Create exp: " + err.Error()
		return "infra"
	}
	if x.N <= 0 {
		x.N = 1 // behaviours recorded before the multiplicity attribute existed
	}
	mst := r.c.mst[raw.M]
	// the series of the specification stands for x.N concrete series (members), written in one request
	rawTags, norm := r.c.rawTags(raw), r.c.normTags(raw)
	sets := make([][]ctag, x.N)
	for j := range sets {
		sets[j] = r.c.memberTags(rawTags, j, x.N)
	}
	keptAll, err := r.x.createMany(mst, sets)
	if err != nil {
		return fmt.Sprintf("write of %q (%d members) rejected: %v", renderKey(mst, rawTags), x.N, err)
	}
	if x.New == 0 {
		if ms := r.byAbs[x.ID]; ms == nil {
			r.res.Infra = fmt.Sprintf("Create of existing id %d unknown to the replay", x.ID)
			return "infra"
		} else if len(ms) != x.N {
			r.res.Infra = fmt.Sprintf("Create of existing id %d with multiplicity %d, created with %d", x.ID, x.N, len(ms))
			return "infra"
		}
	}
	members := make([]*ixSeries, x.N)
	stop := false
	for j := 0; j < x.N; j++ {
		tags := r.c.memberTags(norm, j, x.N)
		if renderKey(mst, keptAll[j]) != renderKey(mst, tags) {
			return fmt.Sprintf("the write path kept tags %q, the specification's normalisation (empty values dropped) gives %q", renderKey(mst, keptAll[j]), renderKey(mst, tags))
		}
		got, err := r.x.idx().GetSeriesIdBySeriesKey(indexKeyOf(mst, tags))
		r.res.Lookups++
		if err != nil {
			return "GetSeriesIdBySeriesKey after create: " + err.Error()
		}
		if got == 0 {
			return fmt.Sprintf("series %q has no id right after it was written", renderKey(mst, tags))
		}
		if x.New == 1 {
			if o := r.byReal[got]; o != nil {
				return fmt.Sprintf("new series %q got id %x which already belongs to series %q", renderKey(mst, tags), got, o.render)
			}
			s := &ixSeries{abs: x.ID, j: j, real: got, mst: mst, tags: tags, render: renderKey(mst, tags)}
			members[j] = s
			r.byReal[got] = s
			continue
		}
		s := r.byAbs[x.ID][j]
		if got == s.real {
			continue
		}
		if x.Dup == 1 && r.byReal[got] == nil {
			// deviation model lookup_misses_pending predicts exactly this: a second, fresh id for the series
			r.known(findLookup, fmt.Sprintf("series %q written again after ClearCache and before the index flush got a second id %x (first id %x)", s.render, got, s.real))
			stop = true
			continue
		}
		return fmt.Sprintf("existing series %q resolved to id %x on its second write, it was created with id %x", s.render, got, s.real)
	}
	if x.New == 1 {
		r.byAbs[x.ID] = members
	}
	if stop {
		return "stop"
	}
	return ""
}

func replayIxCase(c *ixCase) (res ixResult) {
	res = ixResult{ID: c.ID, OK: true, Step: -1}
	rng := rand.New(rand.NewSource(c.Seed*1000003 + int64(c.ID)))
	conc := newIxConc(rng)
	res.Conc = conc.desc
	dir, err := os.MkdirTemp("/dev/shm", "vh-ix-")
	if err != nil {
		res.Infra = err.Error()
		return
	}
	defer os.RemoveAll(dir)
	x, err := openIx(dir + "/a")
	if err != nil {
		res.Infra = "open: " + err.Error()
		return
	}
	r := &ixReplay{x: x, c: conc, byAbs: map[int][]*ixSeries{}, byReal: map[uint64]*ixSeries{}, res: &res}
	defer func() {
		if !r.closed {
			_ = x.e.Close()
		}
		if len(res.KnownN) > 0 {
			var ids []string
			for k := range res.KnownN {
				ids = append(ids, k)
			}
			sort.Strings(ids)
			res.Known = strings.Join(ids, ",")
		}
	}()
	fail := func(i int, a, why string) {
		res.OK = false
		res.Step = i
		res.Action = a
		res.Detail = fmt.Sprintf("step %d %s: %s [concretisation: %s]", i, a, why, conc.desc)
	}
	for i := range c.Hist {
		st := &c.Hist[i]
		why := ""
		switch st.A {
		case "Create":
			why = r.create(st)
		case "IndexFlush":
			x.e.IndexFlush()
		case "ClearCache":
			if err := x.e.Shard().GetIndexBuilder().ClearCache(); err != nil {
				why = "ClearCache: " + err.Error()
			}
		case "Close":
			if err := x.e.Close(); err != nil {
				why = "Close: " + err.Error()
			}
			r.closed = true
		case "Reopen":
			e, err := engx.Open(x.dir, engx.Options{WalParts: 1})
			if err != nil {
				res.Infra = "reopen: " + err.Error()
				return
			}
			x.e = e
			r.closed = false
		case "Search":
			x.e.IndexFlush() // the specification only searches when nothing is pending; make it so
			why = r.search(st)
		default:
			res.Infra = "unknown action " + st.A
			return
		}
		if why == "infra" {
			return
		}
		if why == "stop" {
			return
		}
		if why == "" && !r.closed {
			why = r.checkIDs(st)
		}
		if why != "" {
			fail(i, st.A, why)
			return
		}
	}
	return
}

func replayIndex(args []string) int {
	sc := bufio.NewScanner(os.Stdin)
	sc.Buffer(make([]byte, 1<<20), 1<<28)
	out := bufio.NewWriter(os.Stdout)
	defer out.Flush()
	rc := 0
	for sc.Scan() {
		line := sc.Bytes()
		if len(line) == 0 {
			continue
		}
		var c ixCase
		if err := json.Unmarshal(line, &c); err != nil {
			fmt.Fprintln(os.Stderr, "bad case:", err)
			return 2
		}
		res := replayIxCase(&c)
		if !res.OK {
			rc = 1
		}
		b, _ := json.Marshal(res)
		out.Write(b)
		out.WriteByte('\n')
		out.Flush()
	}
	return rc
}
