//go:build verif

package main

// replay-index: steps TLC-generated behaviours of specs/SeriesIndex.tla through a real tsi merge-set
// index (opened through the engine's production load path) and compares ids / search results with
// the specification's expectation after every action (C10).

import (
	"bufio"
	"encoding/json"
	"fmt"
	"os"
	"regexp"
	"sort"
	"strings"
	"time"

	"github.com/openGemini/openGemini/engine/index/tsi"
	"github.com/openGemini/openGemini/lib/util/lifted/influx/influxql"
	"github.com/openGemini/openGemini/lib/util/lifted/influx/query"
	"github.com/openGemini/openGemini/lib/util/lifted/vm/protoparser/influx"
	"verifharness/internal/engx"
)

func init() {
	cmds["probe-index"] = probeIndex
}

// ---- real index access ---------------------------------------------------------------------------

type ixEnv struct {
	dir string
	e   *engx.Env
	t   int64
}

func openIx(dir string) (*ixEnv, error) {
	e, err := engx.Open(dir, engx.Options{WalParts: 1})
	if err != nil {
		return nil, err
	}
	return &ixEnv{dir: dir, e: e, t: 1600000000 * 1e9}, nil
}

func (x *ixEnv) idx() *tsi.MergeSetIndex {
	return x.e.Shard().GetIndexBuilder().GetPrimaryIndex().(*tsi.MergeSetIndex)
}

func (x *ixEnv) reopen() error {
	if err := x.e.Close(); err != nil {
		return err
	}
	e, err := engx.Open(x.dir, engx.Options{WalParts: 1})
	if err != nil {
		return err
	}
	x.e = e
	return nil
}

var lpEscaper = strings.NewReplacer(`\`, `\\`, `,`, `\,`, `=`, `\=`, ` `, `\ `)

type ctag struct{ K, V string }

// lineFor renders one point in line protocol (the text a client sends).
func lineFor(mst string, tags []ctag, t int64) string {
	var sb strings.Builder
	sb.WriteString(lpEscaper.Replace(mst))
	for _, tg := range tags {
		sb.WriteByte(',')
		sb.WriteString(lpEscaper.Replace(tg.K))
		sb.WriteByte('=')
		sb.WriteString(lpEscaper.Replace(tg.V))
	}
	fmt.Fprintf(&sb, " f=1i %d", t)
	return sb.String()
}

// createSeries sends the point through the production line-protocol parser and the engine's write
// path (shard.WriteRows -> IndexBuilder.CreateIndexIfNotExists). Returns the tags the parser kept.
func (x *ixEnv) createSeries(mst string, tags []ctag) ([]ctag, error) {
	x.t += 1e9
	line := lineFor(mst, tags, x.t)
	var prs influx.PointRows
	if err := prs.Unmarshal(line, false); err != nil {
		return nil, fmt.Errorf("line protocol %q: %w", line, err)
	}
	if len(prs.Rows) != 1 {
		return nil, fmt.Errorf("line protocol %q: %d rows", line, len(prs.Rows))
	}
	r := &prs.Rows[0]
	if r.Name != mst {
		return nil, fmt.Errorf("line protocol %q: measurement parsed as %q", line, r.Name)
	}
	pt := engx.Pt{Mst: r.Name, Time: r.Timestamp}
	var kept []ctag
	for _, tg := range r.Tags {
		pt.Tags = append(pt.Tags, [2]string{tg.Key, tg.Value})
		kept = append(kept, ctag{tg.Key, tg.Value})
	}
	for _, f := range r.Fields {
		pt.Fields = append(pt.Fields, engx.FV{Key: f.Key, Typ: f.Type, Num: f.NumValue, Str: f.StrValue})
	}
	return kept, x.e.Write([]engx.Pt{pt})
}

func indexKeyOf(mst string, tags []ctag) []byte {
	pts := make(influx.PointTags, 0, len(tags))
	for _, tg := range tags {
		pts = append(pts, influx.Tag{Key: tg.K, Value: tg.V})
	}
	sort.Sort(&pts)
	return influx.MakeIndexKey(mst+"_0000", pts, nil)
}

func renderKey(mst string, tags []ctag) string {
	pts := make([]ctag, len(tags))
	copy(pts, tags)
	sort.Slice(pts, func(i, j int) bool { return pts[i].K < pts[j].K })
	s := mst
	for _, tg := range pts {
		s += "," + tg.K + "=" + tg.V
	}
	return s
}

// condition as the store receives it for SHOW SERIES / SHOW TAG VALUES / SHOW TAG KEYS:
// app/ts-store/transport/handler/functions.go:parseTagKeyCondition (ParseExpr, ConditionExpr, every
// VarRef typed Tag).
func showCond(text string) (influxql.Expr, error) {
	if text == "" {
		return nil, nil
	}
	p := influxql.NewParser(strings.NewReader(text))
	expr, err := p.ParseExpr()
	p.Release()
	if err != nil {
		return nil, err
	}
	valuer := influxql.NowValuer{Now: time.Now()}
	e, _, err := influxql.ConditionExpr(expr, &valuer)
	if err != nil {
		return nil, err
	}
	influxql.WalkFunc(e, func(n influxql.Node) {
		if ref, ok := n.(*influxql.VarRef); ok {
			ref.Type = influxql.Tag
		}
	})
	return e, nil
}

// condition as a SELECT hands it to the index: the compiler rewrites regex conditions
// (query/compile.go: stmt.RewriteRegexConditions) and the field mapper types tag references.
func selectCond(text string) (influxql.Expr, error) {
	if text == "" {
		return nil, nil
	}
	expr, err := influxql.ParseExpr(text)
	if err != nil {
		return nil, err
	}
	valuer := influxql.NowValuer{Now: time.Now()}
	e, _, err := influxql.ConditionExpr(expr, &valuer)
	if err != nil {
		return nil, err
	}
	st := &influxql.SelectStatement{Condition: e}
	st.RewriteRegexConditions(nil)
	e = st.Condition
	influxql.WalkFunc(e, func(n influxql.Node) {
		if ref, ok := n.(*influxql.VarRef); ok {
			ref.Type = influxql.Tag
		}
	})
	return e, nil
}

func (x *ixEnv) showIDs(mst, cond string) ([]uint64, error) {
	e, err := showCond(cond)
	if err != nil {
		return nil, err
	}
	ids, err := x.idx().SearchSeriesByTableAndCond([]byte(mst+"_0000"), e, tsi.DefaultTR)
	sort.Slice(ids, func(i, j int) bool { return ids[i] < ids[j] })
	return ids, err
}

func (x *ixEnv) showKeys(mst, cond string) ([]string, error) {
	e, err := showCond(cond)
	if err != nil {
		return nil, err
	}
	ks, err := x.idx().SearchSeriesKeys(nil, []byte(mst+"_0000"), e)
	if err != nil {
		return nil, err
	}
	var out []string
	for _, k := range ks {
		out = append(out, strings.Replace(string(k), mst+"_0000", mst, 1))
	}
	sort.Strings(out)
	return out, nil
}

func (x *ixEnv) selectIDs(mst, cond string) ([]uint64, error) {
	e, err := selectCond(cond)
	if err != nil {
		return nil, err
	}
	opt := &query.ProcessorOptions{StartTime: tsi.DefaultTR.Min, EndTime: tsi.DefaultTR.Max, Condition: e, Ascending: true}
	gs, _, err := x.idx().SearchSeriesWithOpts(nil, []byte(mst+"_0000"), opt, func(int64) error { return nil }, nil)
	if err != nil {
		return nil, err
	}
	var ids []uint64
	for _, g := range gs {
		for _, it := range g.TagSetItems() {
			ids = append(ids, it.ID)
		}
	}
	sort.Slice(ids, func(i, j int) bool { return ids[i] < ids[j] })
	return ids, nil
}

// ---- probe ---------------------------------------------------------------------------------------

type probeIn struct {
	Series []struct {
		M    string            `json:"m"`
		Tags map[string]string `json:"tags"`
	} `json:"series"`
	Conds  []string `json:"conds"`
	Reopen bool     `json:"reopen"`
}

// brute-force evaluation of a parsed tag predicate (unanchored regex, absent tag = "")
func bruteEval(e influxql.Expr, tags map[string]string) bool {
	switch n := e.(type) {
	case *influxql.ParenExpr:
		return bruteEval(n.Expr, tags)
	case *influxql.BinaryExpr:
		switch n.Op {
		case influxql.AND:
			return bruteEval(n.LHS, tags) && bruteEval(n.RHS, tags)
		case influxql.OR:
			return bruteEval(n.LHS, tags) || bruteEval(n.RHS, tags)
		}
		ref := n.LHS.(*influxql.VarRef)
		v := tags[ref.Val]
		switch r := n.RHS.(type) {
		case *influxql.StringLiteral:
			if n.Op == influxql.EQ {
				return v == r.Val
			}
			return v != r.Val
		case *influxql.RegexLiteral:
			m := r.Val.MatchString(v)
			if n.Op == influxql.EQREGEX {
				return m
			}
			return !m
		}
	}
	panic("bruteEval: unsupported " + e.String())
}

func probeIndex(args []string) int {
	var in probeIn
	if err := json.NewDecoder(bufio.NewReader(os.Stdin)).Decode(&in); err != nil {
		fmt.Println("bad input:", err)
		return 2
	}
	dir, _ := os.MkdirTemp("/dev/shm", "vh-ixprobe-")
	defer os.RemoveAll(dir)
	x, err := openIx(dir + "/a")
	if err != nil {
		fmt.Println("open:", err)
		return 2
	}
	defer func() { x.e.Close() }()
	if os.Getenv("VH_RACE") != "" {
		tg := []ctag{{"a", "x"}}
		x.createSeries("m1", tg)
		id1, _ := x.idx().GetSeriesIdBySeriesKey(indexKeyOf("m1", tg))
		fmt.Println("clear:", x.idx().ClearCache())
		id1b, _ := x.idx().GetSeriesIdBySeriesKey(indexKeyOf("m1", tg))
		x.createSeries("m1", tg)
		id2, _ := x.idx().GetSeriesIdBySeriesKey(indexKeyOf("m1", tg))
		x.e.IndexFlush()
		id3, _ := x.idx().GetSeriesIdBySeriesKey(indexKeyOf("m1", tg))
		ks, _ := x.showKeys("m1", "")
		ids, _ := x.showIDs("m1", "")
		fmt.Printf("id1=%x after-clear=%x id2=%x id3=%x keys=%q ids=%x\n", id1, id1b, id2, id3, ks, ids)
		return 0
	}
	type ser struct {
		m    string
		tags map[string]string
		id   uint64
		key  string
	}
	var sers []*ser
	for _, s := range in.Series {
		var tags []ctag
		for k, v := range s.Tags {
			tags = append(tags, ctag{k, v})
		}
		kept, err := x.createSeries(s.M, tags)
		if err != nil {
			fmt.Println("create:", err)
			continue
		}
		x.e.IndexFlush()
		id, err := x.idx().GetSeriesIdBySeriesKey(indexKeyOf(s.M, kept))
		km := map[string]string{}
		for _, t := range kept {
			km[t.K] = t.V
		}
		sers = append(sers, &ser{m: s.M, tags: km, id: id, key: renderKey(s.M, kept)})
		fmt.Printf("series %-30q id=%x err=%v\n", renderKey(s.M, kept), id, err)
	}
	if in.Reopen {
		if err := x.reopen(); err != nil {
			fmt.Println("reopen:", err)
			return 2
		}
	}
	keyOf := func(ids []uint64) []string {
		var out []string
		for _, id := range ids {
			k := fmt.Sprintf("?%x", id)
			for _, s := range sers {
				if s.id == id {
					k = s.key
				}
			}
			out = append(out, k)
		}
		sort.Strings(out)
		return out
	}
	msts := map[string]bool{}
	for _, s := range sers {
		msts[s.m] = true
	}
	for _, c := range in.Conds {
		for m := range msts {
			pe, err := influxql.ParseExpr(c)
			if err != nil {
				fmt.Printf("cond %s: parse: %v\n", c, err)
				continue
			}
			var want []string
			for _, s := range sers {
				if s.m == m && bruteEval(pe, s.tags) {
					want = append(want, s.key)
				}
			}
			sort.Strings(want)
			sh, err1 := x.showIDs(m, c)
			se, err2 := x.selectIDs(m, c)
			flag := func(a []string) string {
				if strings.Join(a, "|") == strings.Join(want, "|") {
					return "ok  "
				}
				return "DIFF"
			}
			fmt.Printf("cond %-28s mst=%s want=%q\n   show   %s %q err=%v\n   select %s %q err=%v\n", c, m, want, flag(keyOf(sh)), keyOf(sh), err1, flag(keyOf(se)), keyOf(se), err2)
		}
	}
	_ = regexp.QuoteMeta
	return 0
}
