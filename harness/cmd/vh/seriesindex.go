//go:build verif

package main

// replay-index: steps TLC-generated behaviours of specs/SeriesIndex.tla through a real tsi merge-set
// index (opened through the engine's production load path) and compares ids / search results with
// the specification's expectation after every action (C10).

import (
	"bufio"
	"encoding/json"
	"fmt"
	"math/rand"
	"os"
	"regexp/syntax"
	"sort"
	"strings"
	"time"

	"github.com/openGemini/openGemini/engine/index/tsi"
	"github.com/openGemini/openGemini/lib/util/lifted/influx/influxql"
	"github.com/openGemini/openGemini/lib/util/lifted/influx/query"
	"github.com/openGemini/openGemini/lib/util/lifted/vm/protoparser/influx"
	"verifharness/internal/engx"
)

func init() {
	cmds["probe-index"] = probeIndex
	cmds["replay-index"] = replayIndex
}

// ---- real index access ---------------------------------------------------------------------------

type ixEnv struct {
	dir string
	e   *engx.Env
	t   int64
}

func openIx(dir string) (*ixEnv, error) {
	e, err := engx.Open(dir, engx.Options{WalParts: 1})
	if err != nil {
		return nil, err
	}
	return &ixEnv{dir: dir, e: e, t: 1600000000 * 1e9}, nil
}

func (x *ixEnv) idx() *tsi.MergeSetIndex {
	return x.e.Shard().GetIndexBuilder().GetPrimaryIndex().(*tsi.MergeSetIndex)
}

func (x *ixEnv) reopen() error {
	if err := x.e.Close(); err != nil {
		return err
	}
	e, err := engx.Open(x.dir, engx.Options{WalParts: 1})
	if err != nil {
		return err
	}
	x.e = e
	return nil
}

var lpEscaper = strings.NewReplacer(`\`, `\\`, `,`, `\,`, `=`, `\=`, ` `, `\ `)

type ctag struct{ K, V string }

// lineFor renders one point in line protocol (the text a client sends).
func lineFor(mst string, tags []ctag, t int64) string {
	var sb strings.Builder
	sb.WriteString(lpEscaper.Replace(mst))
	for _, tg := range tags {
		sb.WriteByte(',')
		sb.WriteString(lpEscaper.Replace(tg.K))
		sb.WriteByte('=')
		sb.WriteString(lpEscaper.Replace(tg.V))
	}
	fmt.Fprintf(&sb, " f=1i %d", t)
	return sb.String()
}

// createSeries sends the point through the production line-protocol parser and the engine's write
// path (shard.WriteRows -> IndexBuilder.CreateIndexIfNotExists). Returns the tags the parser kept.
func (x *ixEnv) createSeries(mst string, tags []ctag) ([]ctag, error) {
	x.t += 1e9
	line := lineFor(mst, tags, x.t)
	var prs influx.PointRows
	if err := prs.Unmarshal(line, false); err != nil {
		return nil, fmt.Errorf("line protocol %q: %w", line, err)
	}
	if len(prs.Rows) != 1 {
		return nil, fmt.Errorf("line protocol %q: %d rows", line, len(prs.Rows))
	}
	r := &prs.Rows[0]
	if r.Name != mst {
		return nil, fmt.Errorf("line protocol %q: measurement parsed as %q", line, r.Name)
	}
	pt := engx.Pt{Mst: r.Name, Time: r.Timestamp}
	var kept []ctag
	for _, tg := range r.Tags {
		pt.Tags = append(pt.Tags, [2]string{tg.Key, tg.Value})
		kept = append(kept, ctag{tg.Key, tg.Value})
	}
	for _, f := range r.Fields {
		pt.Fields = append(pt.Fields, engx.FV{Key: f.Key, Typ: f.Type, Num: f.NumValue, Str: f.StrValue})
	}
	return kept, x.e.Write([]engx.Pt{pt})
}

func indexKeyOf(mst string, tags []ctag) []byte {
	pts := make(influx.PointTags, 0, len(tags))
	for _, tg := range tags {
		pts = append(pts, influx.Tag{Key: tg.K, Value: tg.V})
	}
	sort.Sort(&pts)
	return influx.MakeIndexKey(mst+"_0000", pts, nil)
}

func renderKey(mst string, tags []ctag) string {
	pts := make([]ctag, len(tags))
	copy(pts, tags)
	sort.Slice(pts, func(i, j int) bool { return pts[i].K < pts[j].K })
	s := mst
	for _, tg := range pts {
		s += "," + tg.K + "=" + tg.V
	}
	return s
}

// condition as the store receives it for SHOW SERIES / SHOW TAG VALUES / SHOW TAG KEYS:
// app/ts-store/transport/handler/functions.go:parseTagKeyCondition (ParseExpr, ConditionExpr, every
// VarRef typed Tag).
func showCond(text string) (influxql.Expr, error) {
	if text == "" {
		return nil, nil
	}
	p := influxql.NewParser(strings.NewReader(text))
	expr, err := p.ParseExpr()
	p.Release()
	if err != nil {
		return nil, err
	}
	valuer := influxql.NowValuer{Now: time.Now()}
	e, _, err := influxql.ConditionExpr(expr, &valuer)
	if err != nil {
		return nil, err
	}
	influxql.WalkFunc(e, func(n influxql.Node) {
		if ref, ok := n.(*influxql.VarRef); ok {
			ref.Type = influxql.Tag
		}
	})
	return e, nil
}

// condition as a SELECT hands it to the index: the compiler rewrites regex conditions
// (query/compile.go: stmt.RewriteRegexConditions) and the field mapper types tag references.
func selectCond(text string) (influxql.Expr, error) {
	if text == "" {
		return nil, nil
	}
	expr, err := influxql.ParseExpr(text)
	if err != nil {
		return nil, err
	}
	valuer := influxql.NowValuer{Now: time.Now()}
	e, _, err := influxql.ConditionExpr(expr, &valuer)
	if err != nil {
		return nil, err
	}
	st := &influxql.SelectStatement{Condition: e}
	st.RewriteRegexConditions(nil)
	e = st.Condition
	influxql.WalkFunc(e, func(n influxql.Node) {
		if ref, ok := n.(*influxql.VarRef); ok {
			ref.Type = influxql.Tag
		}
	})
	return e, nil
}

func (x *ixEnv) showIDs(mst, cond string) ([]uint64, error) {
	e, err := showCond(cond)
	if err != nil {
		return nil, err
	}
	ids, err := x.idx().SearchSeriesByTableAndCond([]byte(mst+"_0000"), e, tsi.DefaultTR)
	sort.Slice(ids, func(i, j int) bool { return ids[i] < ids[j] })
	return ids, err
}

func (x *ixEnv) showKeys(mst, cond string) ([]string, error) {
	e, err := showCond(cond)
	if err != nil {
		return nil, err
	}
	ks, err := x.idx().SearchSeriesKeys(nil, []byte(mst+"_0000"), e)
	if err != nil {
		return nil, err
	}
	var out []string
	for _, k := range ks {
		out = append(out, strings.Replace(string(k), mst+"_0000", mst, 1))
	}
	sort.Strings(out)
	return out, nil
}

func (x *ixEnv) selectIDs(mst, cond string) ([]uint64, error) {
	e, err := selectCond(cond)
	if err != nil {
		return nil, err
	}
	opt := &query.ProcessorOptions{StartTime: tsi.DefaultTR.Min, EndTime: tsi.DefaultTR.Max, Condition: e, Ascending: true}
	gs, _, err := x.idx().SearchSeriesWithOpts(nil, []byte(mst+"_0000"), opt, func(int64) error { return nil }, nil)
	if err != nil {
		return nil, err
	}
	var ids []uint64
	for _, g := range gs {
		for _, it := range g.TagSetItems() {
			ids = append(ids, it.ID)
		}
	}
	sort.Slice(ids, func(i, j int) bool { return ids[i] < ids[j] })
	return ids, nil
}

// ---- probe ---------------------------------------------------------------------------------------

type probeIn struct {
	Series []struct {
		M    string            `json:"m"`
		Tags map[string]string `json:"tags"`
	} `json:"series"`
	Conds  []string `json:"conds"`
	Reopen bool     `json:"reopen"`
}

// brute-force evaluation of a parsed tag predicate (unanchored regex, absent tag = "")
func bruteEval(e influxql.Expr, tags map[string]string) bool {
	switch n := e.(type) {
	case *influxql.ParenExpr:
		return bruteEval(n.Expr, tags)
	case *influxql.BinaryExpr:
		switch n.Op {
		case influxql.AND:
			return bruteEval(n.LHS, tags) && bruteEval(n.RHS, tags)
		case influxql.OR:
			return bruteEval(n.LHS, tags) || bruteEval(n.RHS, tags)
		}
		ref := n.LHS.(*influxql.VarRef)
		v := tags[ref.Val]
		switch r := n.RHS.(type) {
		case *influxql.StringLiteral:
			if n.Op == influxql.EQ {
				return v == r.Val
			}
			return v != r.Val
		case *influxql.RegexLiteral:
			m := r.Val.MatchString(v)
			if n.Op == influxql.EQREGEX {
				return m
			}
			return !m
		}
	}
	panic("bruteEval: unsupported " + e.String())
}

func probeIndex(args []string) int {
	var in probeIn
	if err := json.NewDecoder(bufio.NewReader(os.Stdin)).Decode(&in); err != nil {
		fmt.Println("bad input:", err)
		return 2
	}
	dir, _ := os.MkdirTemp("/dev/shm", "vh-ixprobe-")
	defer os.RemoveAll(dir)
	x, err := openIx(dir + "/a")
	if err != nil {
		fmt.Println("open:", err)
		return 2
	}
	defer func() { x.e.Close() }()
	if os.Getenv("VH_RACE") != "" {
		tg := []ctag{{"a", "x"}}
		x.createSeries("m1", tg)
		id1, _ := x.idx().GetSeriesIdBySeriesKey(indexKeyOf("m1", tg))
		fmt.Println("clear:", x.idx().ClearCache())
		id1b, _ := x.idx().GetSeriesIdBySeriesKey(indexKeyOf("m1", tg))
		x.createSeries("m1", tg)
		id2, _ := x.idx().GetSeriesIdBySeriesKey(indexKeyOf("m1", tg))
		x.e.IndexFlush()
		id3, _ := x.idx().GetSeriesIdBySeriesKey(indexKeyOf("m1", tg))
		ks, _ := x.showKeys("m1", "")
		ids, _ := x.showIDs("m1", "")
		fmt.Printf("id1=%x after-clear=%x id2=%x id3=%x keys=%q ids=%x\n", id1, id1b, id2, id3, ks, ids)
		return 0
	}
	type ser struct {
		m    string
		tags map[string]string
		id   uint64
		key  string
	}
	var sers []*ser
	for _, s := range in.Series {
		var tags []ctag
		for k, v := range s.Tags {
			tags = append(tags, ctag{k, v})
		}
		kept, err := x.createSeries(s.M, tags)
		if err != nil {
			fmt.Println("create:", err)
			continue
		}
		x.e.IndexFlush()
		id, err := x.idx().GetSeriesIdBySeriesKey(indexKeyOf(s.M, kept))
		km := map[string]string{}
		for _, t := range kept {
			km[t.K] = t.V
		}
		sers = append(sers, &ser{m: s.M, tags: km, id: id, key: renderKey(s.M, kept)})
		fmt.Printf("series %-30q id=%x err=%v\n", renderKey(s.M, kept), id, err)
	}
	if in.Reopen {
		if err := x.reopen(); err != nil {
			fmt.Println("reopen:", err)
			return 2
		}
	}
	keyOf := func(ids []uint64) []string {
		var out []string
		for _, id := range ids {
			k := fmt.Sprintf("?%x", id)
			for _, s := range sers {
				if s.id == id {
					k = s.key
				}
			}
			out = append(out, k)
		}
		sort.Strings(out)
		return out
	}
	msts := map[string]bool{}
	for _, s := range sers {
		msts[s.m] = true
	}
	for _, c := range in.Conds {
		for m := range msts {
			pe, err := influxql.ParseExpr(c)
			if err != nil {
				fmt.Printf("cond %s: parse: %v\n", c, err)
				continue
			}
			var want []string
			for _, s := range sers {
				if s.m == m && bruteEval(pe, s.tags) {
					want = append(want, s.key)
				}
			}
			sort.Strings(want)
			sh, err1 := x.showIDs(m, c)
			se, err2 := x.selectIDs(m, c)
			flag := func(a []string) string {
				if strings.Join(a, "|") == strings.Join(want, "|") {
					return "ok  "
				}
				return "DIFF"
			}
			fmt.Printf("cond %-28s mst=%s want=%q\n   show   %s %q err=%v\n   select %s %q err=%v\n", c, m, want, flag(keyOf(sh)), keyOf(sh), err1, flag(keyOf(se)), keyOf(se), err2)
		}
	}
	return 0
}

// ==== replay-index ================================================================================

type ixKey struct {
	M string              `json:"m"`
	T map[string][]string `json:"t"`
}

type ixIDEntry struct {
	K  ixKey `json:"k"`
	ID int   `json:"id"`
}

type ixPrediction struct {
	D   string `json:"d"`
	IDs []int  `json:"ids"`
}

type ixQuery struct {
	M     string                `json:"m"`
	P     json.RawMessage       `json:"p"`
	IDs   []int                 `json:"ids"`
	Keys  []ixKey               `json:"keys"`
	TK    []string              `json:"tk"`
	TV    map[string][][]string `json:"tv"`
	DShow []ixPrediction        `json:"dshow"`
	DSel  []ixPrediction        `json:"dsel"`
}

type ixStep struct {
	A    string          `json:"a"`
	Args json.RawMessage `json:"args"`
	Exp  struct {
		IDs []ixIDEntry     `json:"ids"`
		Vis []int           `json:"vis"`
		X   json.RawMessage `json:"x"`
	} `json:"exp"`
}

type ixCase struct {
	ID   int      `json:"id"`
	Seed int64    `json:"seed"`
	Hist []ixStep `json:"hist"`
}

type ixResult struct {
	ID       int               `json:"id"`
	OK       bool              `json:"ok"`
	Step     int               `json:"step"`
	Action   string            `json:"action,omitempty"`
	Detail   string            `json:"detail,omitempty"`
	Infra    string            `json:"infra,omitempty"`
	Known    string            `json:"known,omitempty"` // comma separated finding ids re-observed in this case
	KnownN   map[string]int    `json:"known_n,omitempty"`
	KnownEx  map[string]string `json:"known_ex,omitempty"`
	Lookups  int               `json:"lookups"`
	Searches int               `json:"searches"` // predicates evaluated (each on all entry points)
	Compared int               `json:"compared"` // entry-point results compared
	Conc     string            `json:"conc,omitempty"`
}

// finding ids of the deviation classes of SeriesIndex.tla
var classFinding = map[byte]string{'S': "F-C10-1", 'L': "F-C10-2", 'E': "F-C10-3", 'N': "F-C10-4", 'C': "F-C10-5"}

const (
	findLookup  = "F-C10-6"
	findTagKeys = "F-C10-7"
	findAlias   = "F-C10-8"
)

// ---- concretisation of the abstract alphabets ------------------------------------------------------

type ixConc struct {
	ch   map[string]string // abstract character -> concrete text (one rune)
	key  map[string]string // abstract tag key -> concrete
	mst  map[string]string
	desc string
}

// characters that are awkward for the line protocol, for InfluxQL, for regular expressions or for the
// index's own item encoding (\x01 \x02 are its separator bytes; \x00, its escape byte, cannot be
// written in an InfluxQL literal at all)
var nastyRunes = []string{",", "=", " ", `\`, `"`, `'`, "/", ".", "*", "[", "]", "(", ")", "|", "$", "^", "+", "?", "{", "-", ":", ";", "#", "é", "世", "ß", "\t", "w", "e", "B", "_", "~", "%", "\x7f", " ", "😀"}
var nastyKeys = []string{"host", "a,b", "a b", "a=b", "ü", "k\x01", "k\x02v", `q"k`, `k\`, "k'", "a.b", "k/", "tag", "_field", "名", "k-1", "A", "a"}
var nastyMsts = []string{"cpu", "cpu load", "m=1", "世界", "cpu.total", `m"q`, "m'", "a-b", "m1", "M", "mst_0000"}

func newIxConc(rng *rand.Rand) *ixConc {
	c := &ixConc{ch: map[string]string{}, key: map[string]string{}, mst: map[string]string{}}
	perm := rng.Perm(len(nastyRunes))
	for i, a := range []string{"x", "y", "z"} {
		c.ch[a] = nastyRunes[perm[i]]
	}
	if rng.Intn(4) == 0 { // plain letters now and then
		c.ch["x"], c.ch["y"], c.ch["z"] = "w", "e", "d"
	}
	if rng.Intn(6) == 0 { // a literal whose last character is a regex operator: /xy/ is written x\| or x\*
		c.ch["y"] = []string{"|", "*"}[rng.Intn(2)]
		for _, o := range []string{"x", "z"} {
			if c.ch[o] == c.ch["y"] {
				c.ch[o] = "w"
			}
		}
		if c.ch["x"] == c.ch["z"] {
			c.ch["z"] = "d"
		}
	}
	sep := 1 + rng.Intn(2)
	c.ch["s"] = string([]byte{byte(sep)})
	c.ch["1"] = string([]byte{byte('0' + sep)}) // the digit the index writes after its escape byte for this separator
	c.ch["2"] = "7"
	kp := rng.Perm(len(nastyKeys))
	c.key["a"] = nastyKeys[kp[0]]
	c.key["b"] = nastyKeys[kp[1]]
	if rng.Intn(4) == 0 {
		c.key["b"] = c.key["a"] + nastyKeys[kp[1]] // one key a prefix of the other
	}
	mp := rng.Perm(len(nastyMsts))
	c.mst["m1"] = nastyMsts[mp[0]]
	c.mst["m2"] = nastyMsts[mp[1]]
	switch rng.Intn(4) {
	case 0:
		c.mst["m2"] = c.mst["m1"] + "_0000"
	case 1:
		c.mst["m2"] = c.mst["m1"] + "x"
	}
	c.desc = fmt.Sprintf("x=%q y=%q z=%q s=%q 1=%q a=%q b=%q m1=%q m2=%q", c.ch["x"], c.ch["y"], c.ch["z"], c.ch["s"], c.ch["1"], c.key["a"], c.key["b"], c.mst["m1"], c.mst["m2"])
	return c
}

func (c *ixConc) str(abs []string) string {
	var sb strings.Builder
	for _, a := range abs {
		v, ok := c.ch[a]
		if !ok {
			panic("unknown abstract character " + a)
		}
		sb.WriteString(v)
	}
	return sb.String()
}

func isNoTag(v []string) bool { return len(v) == 1 && v[0] == "_" }

// tags of an abstract key as written by the client (empty values included)
func (c *ixConc) rawTags(k ixKey) []ctag {
	var out []ctag
	for _, ak := range []string{"a", "b"} {
		v, ok := k.T[ak]
		if !ok || isNoTag(v) {
			continue
		}
		out = append(out, ctag{c.key[ak], c.str(v)})
	}
	return out
}

// tags of a stored series (normalised key: no empty values)
func (c *ixConc) normTags(k ixKey) []ctag {
	var out []ctag
	for _, t := range c.rawTags(k) {
		if t.V != "" {
			out = append(out, t)
		}
	}
	return out
}

func reQuoteRune(s string) string {
	// escape every ASCII punctuation character (valid inside and outside a character class)
	var sb strings.Builder
	for _, r := range s {
		if r == '\\' {
			sb.WriteString(`\x5c`) // InfluxQL's regex scanner cannot hold a pattern that ends in an escaped backslash
			continue
		}
		if r < 0x80 && !(r >= '0' && r <= '9') && !(r >= 'a' && r <= 'z') && !(r >= 'A' && r <= 'Z') && r > ' ' && r != 0x7f && r != '_' {
			sb.WriteByte('\\')
		}
		sb.WriteRune(r)
	}
	return sb.String()
}

// regex source text of an abstract regex (sequence of items)
func (c *ixConc) regex(items []json.RawMessage) (string, error) {
	var sb strings.Builder
	for _, raw := range items {
		var it []json.RawMessage
		if err := json.Unmarshal(raw, &it); err != nil {
			return "", err
		}
		var kind string
		_ = json.Unmarshal(it[0], &kind)
		seq := func(r json.RawMessage) string {
			var a []string
			_ = json.Unmarshal(r, &a)
			return c.str(a)
		}
		switch kind {
		case "bol":
			sb.WriteString("^")
		case "eol":
			sb.WriteString("$")
		case "lit":
			sb.WriteString(reQuoteRune(seq(it[1])))
		case "cls":
			var a []string
			_ = json.Unmarshal(it[1], &a)
			sb.WriteString("[")
			for _, x := range a {
				sb.WriteString(reQuoteRune(c.ch[x]))
			}
			sb.WriteString("]")
		case "dig":
			sb.WriteString("[0-9]")
		case "alt":
			var alts [][]string
			_ = json.Unmarshal(it[1], &alts)
			var parts []string
			for _, a := range alts {
				parts = append(parts, reQuoteRune(c.str(a)))
			}
			sort.Sort(sort.Reverse(sort.StringSlice(parts)))
			if len(items) == 1 {
				sb.WriteString(strings.Join(parts, "|"))
			} else {
				sb.WriteString("(" + strings.Join(parts, "|") + ")")
			}
		case "any*":
			sb.WriteString(".*")
		case "any+":
			sb.WriteString(".+")
		case "opt":
			sb.WriteString("(" + reQuoteRune(seq(it[1])) + ")?")
		case "star":
			var a string
			_ = json.Unmarshal(it[1], &a)
			sb.WriteString(reQuoteRune(c.ch[a]) + "*")
		default:
			return "", fmt.Errorf("unknown regex item %s", kind)
		}
	}
	return sb.String(), nil
}

// InfluxQL text of an abstract predicate
func (c *ixConc) cond(raw json.RawMessage) (string, error) {
	var p []json.RawMessage
	if err := json.Unmarshal(raw, &p); err != nil {
		return "", err
	}
	var op string
	_ = json.Unmarshal(p[0], &op)
	switch op {
	case "TRUE":
		return "", nil
	case "P":
		in, err := c.cond(p[1])
		return "(" + in + ")", err
	case "AND", "OR":
		l, err := c.cond(p[1])
		if err != nil {
			return "", err
		}
		r, err := c.cond(p[2])
		return l + " " + op + " " + r, err
	}
	var ak string
	_ = json.Unmarshal(p[1], &ak)
	key := influxql.QuoteIdent(c.key[ak])
	if !strings.HasPrefix(key, `"`) {
		key = `"` + key + `"`
	}
	switch op {
	case "=", "!=":
		var v []string
		_ = json.Unmarshal(p[2], &v)
		return key + " " + op + " " + influxql.QuoteString(c.str(v)), nil
	case "=~", "!~":
		var items []json.RawMessage
		_ = json.Unmarshal(p[2], &items)
		re, err := c.regex(items)
		if err != nil {
			return "", err
		}
		return key + " " + op + " /" + strings.ReplaceAll(re, "/", `\/`) + "/", nil
	}
	return "", fmt.Errorf("unknown predicate op %s", op)
}

// ---- replay ---------------------------------------------------------------------------------------

type ixSeries struct {
	abs    int
	real   uint64
	mst    string // concrete
	tags   []ctag // concrete, normalised
	render string
}

type ixReplay struct {
	x      *ixEnv
	c      *ixConc
	byAbs  map[int]*ixSeries
	byReal map[uint64]*ixSeries
	res    *ixResult
	closed bool
}

func (r *ixReplay) known(id, example string) {
	if r.res.KnownN == nil {
		r.res.KnownN = map[string]int{}
		r.res.KnownEx = map[string]string{}
	}
	r.res.KnownN[id]++
	if _, ok := r.res.KnownEx[id]; !ok {
		r.res.KnownEx[id] = example + " [concretisation: " + r.c.desc + "]"
	}
}

func classFindings(d string) []string {
	var out []string
	for i := 0; i < len(d); i++ {
		out = append(out, classFinding[d[i]])
	}
	return out
}

func (r *ixReplay) realSet(abs []int) ([]uint64, error) {
	out := make([]uint64, 0, len(abs))
	for _, a := range abs {
		s := r.byAbs[a]
		if s == nil {
			return nil, fmt.Errorf("specification id %d was never created", a)
		}
		out = append(out, s.real)
	}
	sort.Slice(out, func(i, j int) bool { return out[i] < out[j] })
	return out, nil
}

func eqU64(a, b []uint64) bool {
	if len(a) != len(b) {
		return false
	}
	for i := range a {
		if a[i] != b[i] {
			return false
		}
	}
	return true
}

func eqStr(a, b []string) bool {
	if len(a) != len(b) {
		return false
	}
	for i := range a {
		if a[i] != b[i] {
			return false
		}
	}
	return true
}

func (r *ixReplay) names(ids []uint64) []string {
	var out []string
	for _, id := range ids {
		if s := r.byReal[id]; s != nil {
			out = append(out, s.render)
		} else {
			out = append(out, fmt.Sprintf("?unknown-id-%x", id))
		}
	}
	sort.Strings(out)
	return out
}

// checkIDs: after every action every known series key must resolve to its one id
func (r *ixReplay) checkIDs(st *ixStep) string {
	vis := map[int]bool{}
	for _, v := range st.Exp.Vis {
		vis[v] = true
	}
	seen := map[int]bool{}
	for _, e := range st.Exp.IDs {
		s := r.byAbs[e.ID]
		if s == nil {
			return fmt.Sprintf("specification lists id %d that the replay never created", e.ID)
		}
		if seen[e.ID] {
			return fmt.Sprintf("specification id table lists id %d twice", e.ID)
		}
		seen[e.ID] = true
		got, err := r.x.idx().GetSeriesIdBySeriesKey(indexKeyOf(s.mst, s.tags))
		r.res.Lookups++
		if err != nil {
			return fmt.Sprintf("GetSeriesIdBySeriesKey(%q): %v", s.render, err)
		}
		if got == s.real {
			continue
		}
		if got == 0 && !vis[e.ID] {
			// deviation model lookup_misses_pending: neither cached nor flushed -> not found
			r.known(findLookup, fmt.Sprintf("GetSeriesIdBySeriesKey(%q) = 0 although the series was created (id %x): items not flushed yet and the cache was dropped", s.render, s.real))
			continue
		}
		return fmt.Sprintf("GetSeriesIdBySeriesKey(%q) = %x, want %x (the id this series got when it was created)", s.render, got, s.real)
	}
	return ""
}

type listing struct {
	keys []string            // rendered series keys (sorted, with duplicates)
	tk   []string            // tag keys
	tv   map[string][]string // tag key -> values
}

func (r *ixReplay) listingOf(ids []uint64) listing {
	l := listing{tv: map[string][]string{}}
	tk := map[string]bool{}
	tv := map[string]map[string]bool{}
	for _, id := range ids {
		s := r.byReal[id]
		l.keys = append(l.keys, s.render)
		for _, t := range s.tags {
			tk[t.K] = true
			if tv[t.K] == nil {
				tv[t.K] = map[string]bool{}
			}
			tv[t.K][t.V] = true
		}
	}
	sort.Strings(l.keys)
	for k := range tk {
		l.tk = append(l.tk, k)
	}
	sort.Strings(l.tk)
	for k, m := range tv {
		for v := range m {
			l.tv[k] = append(l.tv[k], v)
		}
		sort.Strings(l.tv[k])
	}
	return l
}

// as-implemented model of engine.handleTagKeys (known finding F-C10-7): the tag keys are recovered by
// splitting the unescaped rendering "mst,k=v,k=v" at ',' and '='
func splitModelTagKeys(rendered []string) []string {
	m := map[string]bool{}
	for _, k := range rendered {
		arr := strings.Split(k, ",")
		for _, item := range arr[1:] {
			m[strings.Split(item, "=")[0]] = true
		}
	}
	var out []string
	for k := range m {
		out = append(out, k)
	}
	sort.Strings(out)
	return out
}

func dedup(a []string) []string {
	var out []string
	for i, s := range a {
		if i == 0 || s != a[i-1] {
			out = append(out, s)
		}
	}
	return out
}

func (r *ixReplay) search(st *ixStep) string {
	var qs []ixQuery
	if err := json.Unmarshal(st.Exp.X, &qs); err != nil {
		r.res.Infra = "bad Search step: " + err.Error()
		return "infra"
	}
	eng := r.x.e.Eng
	full := influxql.TimeRange{Min: time.Unix(0, influxql.MinTime).UTC(), Max: time.Unix(0, influxql.MaxTime).UTC()}
	var hist []histQuery
	leafIso := map[string][]uint64{}
	for qi, q := range qs {
		text, err := r.c.cond(q.P)
		if err != nil {
			r.res.Infra = "cannot render predicate: " + err.Error()
			return "infra"
		}
		mst := r.c.mst[q.M]
		name := mst + "_0000"
		where := fmt.Sprintf("query %d: measurement %q WHERE %s", qi, mst, strings.Trim(fmt.Sprintf("%q", text), `"`))
		want, err := r.realSet(q.IDs)
		if err != nil {
			r.res.Infra = err.Error()
			return "infra"
		}
		r.res.Searches++

		// pick the model (design, or the smallest set of deviation classes) that explains a result
		explain := func(got []uint64, preds []ixPrediction) (bool, string, string) {
			if eqU64(got, want) {
				return true, "", ""
			}
			best := ""
			for _, p := range preds {
				ps, err := r.realSet(p.IDs)
				if err != nil {
					continue
				}
				if eqU64(got, ps) && (best == "" || len(p.D) < len(best)) {
					best = p.D
				}
			}
			if best != "" {
				return true, best, ""
			}
			return false, "", fmt.Sprintf("got %q, want %q", r.names(got), r.names(want))
		}

		// (1) SHOW path, ids: MergeSetIndex.searchTSIDs
		gotShow, err := r.x.showIDs(mst, text)
		if err != nil {
			return where + ": SearchSeriesByTableAndCond: " + err.Error()
		}
		r.res.Compared++
		ok, dshow, why := explain(gotShow, q.DShow)
		if !ok {
			return where + ": SHOW path (searchTSIDs) " + why
		}
		if dshow != "" {
			for _, f := range classFindings(dshow) {
				r.known(f, fmt.Sprintf("%s: SHOW path selects %q, unanchored/absent-as-empty evaluation selects %q (deviation classes %s)", where, r.names(gotShow), r.names(want), dshow))
			}
		}
		// every id returned must be a known series; listings are judged against the explained set
		for _, id := range gotShow {
			if r.byReal[id] == nil {
				return fmt.Sprintf("%s: SHOW path returned id %x that no series owns", where, id)
			}
		}
		lst := r.listingOf(gotShow)

		// (2) SHOW SERIES keys: MergeSetIndex.SearchSeriesKeys
		keys, err := r.x.showKeys(mst, text)
		if err != nil {
			return where + ": SearchSeriesKeys: " + err.Error()
		}
		r.res.Compared++
		if !eqStr(keys, lst.keys) {
			return fmt.Sprintf("%s: SearchSeriesKeys lists %q, the ids selected are %q", where, keys, lst.keys)
		}

		// (3) SELECT path: MergeSetIndex.SearchSeriesWithOpts, first with empty caches (nothing is pending, so
		// dropping them is invisible to the specification); the history-dependent pass follows the batch
		gotSel, err := r.isoSelect(mst, text)
		if err != nil {
			return where + ": SearchSeriesWithOpts: " + err.Error()
		}
		hist = append(hist, histQuery{mst: mst, text: text, where: where, iso: gotSel})
		if err := r.isoLeaves(mst, text, leafIso); err != nil {
			return where + ": SearchSeriesWithOpts (single leaf): " + err.Error()
		}
		r.res.Compared++
		ok, dsel, why := explain(gotSel, q.DSel)
		if !ok {
			return where + ": SELECT path (SearchSeriesWithOpts) " + why
		}
		if dsel != "" {
			for _, f := range classFindings(dsel) {
				r.known(f, fmt.Sprintf("%s: SELECT path selects %q, unanchored/absent-as-empty evaluation selects %q (deviation classes %s)", where, r.names(gotSel), r.names(want), dsel))
			}
		}

		// (4) engine level listings (what SHOW SERIES / SHOW TAG KEYS / SHOW TAG VALUES return)
		cond, err := showCond(text)
		if err != nil {
			return where + ": " + err.Error()
		}
		sk, err := eng.SeriesKeys(engx.DB, []uint32{engx.PT}, [][]byte{[]byte(name)}, cond, full)
		if err != nil {
			return where + ": Engine.SeriesKeys: " + err.Error()
		}
		r.res.Compared++
		if !eqStr(sk, dedup(lst.keys)) {
			return fmt.Sprintf("%s: Engine.SeriesKeys lists %q, the ids selected are %q", where, sk, lst.keys)
		}
		cond, _ = showCond(text)
		tks, err := eng.TagKeys(engx.DB, []uint32{engx.PT}, [][]byte{[]byte(name)}, cond, full)
		if err != nil {
			return where + ": Engine.TagKeys: " + err.Error()
		}
		r.res.Compared++
		if why := r.judgeTagKeys(mst, tks, lst); why != "" {
			if why == "known" {
				r.known(findTagKeys, fmt.Sprintf("%s: Engine.TagKeys returns %q for series %q (keys recovered by splitting the unescaped series key at ',' and '=')", where, tks, lst.keys))
			} else {
				return where + ": Engine.TagKeys " + why
			}
		}
		cond, _ = showCond(text)
		ka, kb := r.c.key["a"], r.c.key["b"]
		tvs, err := eng.TagValues(engx.DB, []uint32{engx.PT}, map[string][][]byte{name: {[]byte(ka), []byte(kb)}}, cond, full)
		if err != nil {
			return where + ": Engine.TagValues: " + err.Error()
		}
		r.res.Compared++
		gotTV := map[string][]string{}
		for _, t := range tvs {
			if t.Name != mst {
				return fmt.Sprintf("%s: Engine.TagValues reports measurement %q", where, t.Name)
			}
			for _, v := range t.Values {
				gotTV[v.Key] = append(gotTV[v.Key], v.Value)
			}
		}
		for _, k := range []string{ka, kb} {
			g := gotTV[k]
			sort.Strings(g)
			if !eqStr(g, lst.tv[k]) {
				return fmt.Sprintf("%s: Engine.TagValues(%q) = %q, the series selected carry %q", where, k, g, lst.tv[k])
			}
			delete(gotTV, k)
		}
		if len(gotTV) != 0 {
			return fmt.Sprintf("%s: Engine.TagValues reports values for keys that were not asked for: %v", where, gotTV)
		}

		// cross-check of the specification's own listings against the ones derived here (design result only)
		if dshow == "" {
			var wantTK []string
			for _, k := range q.TK {
				wantTK = append(wantTK, r.c.key[k])
			}
			sort.Strings(wantTK)
			if !eqStr(wantTK, lst.tk) {
				r.res.Infra = fmt.Sprintf("%s: specification tag keys %q, derived %q", where, wantTK, lst.tk)
				return "infra"
			}
			for ak, vals := range q.TV {
				var w []string
				for _, v := range vals {
					w = append(w, r.c.str(v))
				}
				sort.Strings(w)
				if !eqStr(w, lst.tv[r.c.key[ak]]) {
					r.res.Infra = fmt.Sprintf("%s: specification tag values of %s %q, derived %q", where, ak, w, lst.tv[r.c.key[ak]])
					return "infra"
				}
			}
		}
	}
	return r.historyPass(hist, leafIso)
}

// ---- the tag-filter result cache of the SELECT path (known finding F-C10-8) ---------------------------
// Model: leaf results are cached under (measurement, tag key, VALUE AS REWRITTEN BY tagFilter.Init, negative,
// regexp); InfluxRegrep replaces the text of a pure-literal expression by the unescaped literal, so /a\|/ and
// /a|/ share an entry. Only non-empty results are served from the cache. The prediction of a query in
// its batch is the set algebra over the isolated results of its leaves, with leaves served from the model
// cache when an earlier leaf stored the same key.

type histQuery struct {
	mst, text, where string
	iso              []uint64
}

func (r *ixReplay) isoSelect(mst, text string) ([]uint64, error) {
	if err := r.x.e.Shard().GetIndexBuilder().ClearCache(); err != nil {
		return nil, err
	}
	return r.x.selectIDs(mst, text)
}

func condLeaves(e influxql.Expr, out *[]*influxql.BinaryExpr) {
	switch n := e.(type) {
	case *influxql.ParenExpr:
		condLeaves(n.Expr, out)
	case *influxql.BinaryExpr:
		if n.Op == influxql.AND || n.Op == influxql.OR {
			condLeaves(n.LHS, out)
			condLeaves(n.RHS, out)
			return
		}
		*out = append(*out, n)
	}
}

func (r *ixReplay) isoLeaves(mst, text string, leafIso map[string][]uint64) error {
	e, err := selectCond(text)
	if err != nil || e == nil {
		return err
	}
	var leaves []*influxql.BinaryExpr
	condLeaves(e, &leaves)
	for _, l := range leaves {
		k := mst + "\x00" + l.String()
		if _, ok := leafIso[k]; ok {
			continue
		}
		ids, err := r.isoSelect(mst, l.String())
		if err != nil {
			return err
		}
		leafIso[k] = ids
	}
	return nil
}

// the value a regexp filter is cached under: tagFilter.Init -> InfluxRegrep -> getRegexpPrefix
func effectiveRegexValue(text string) string {
	sre, err := syntax.Parse(text, syntax.Perl)
	if err != nil {
		return text
	}
	sre = sre.Simplify()
	lit := func(l *syntax.Regexp) (string, bool) {
		for l.Op == syntax.OpCapture {
			l = l.Sub[0]
		}
		if l.Op == syntax.OpLiteral && l.Flags&syntax.FoldCase == 0 {
			return string(l.Rune), true
		}
		return "", false
	}
	switch sre.Op {
	case syntax.OpEmptyMatch, syntax.OpBeginText, syntax.OpEndText:
		return ""
	case syntax.OpConcat:
		// simplifyRegexpExt: only an expression anchored at BOTH ends keeps a bare literal body
		// (otherwise ".*" is appended / prepended and the text is left alone)
		subs := sre.Sub
		bo := subs[0].Op == syntax.OpBeginText
		eo := subs[len(subs)-1].Op == syntax.OpEndText
		for len(subs) > 0 && subs[0].Op == syntax.OpBeginText {
			subs = subs[1:]
		}
		for len(subs) > 0 && subs[len(subs)-1].Op == syntax.OpEndText {
			subs = subs[:len(subs)-1]
		}
		if len(subs) == 0 {
			return ""
		}
		if bo && eo && len(subs) == 1 {
			if v, ok := lit(subs[0]); ok {
				return v
			}
		}
		return text
	}
	if v, ok := lit(sre); ok {
		return v
	}
	return text
}

func leafCacheKey(mst string, l *influxql.BinaryExpr) string {
	ref, _ := l.LHS.(*influxql.VarRef)
	k := ""
	if ref != nil {
		k = ref.Val
	}
	switch v := l.RHS.(type) {
	case *influxql.StringLiteral:
		return fmt.Sprintf("%s\x00%s\x00%s\x00%v\x000", mst, k, v.Val, l.Op != influxql.EQ)
	case *influxql.RegexLiteral:
		return fmt.Sprintf("%s\x00%s\x00%s\x00%v\x001", mst, k, effectiveRegexValue(v.Val.String()), l.Op != influxql.EQREGEX)
	}
	return mst + "\x00?" + l.String()
}

func setAnd(a, b []uint64) []uint64 {
	m := map[uint64]bool{}
	for _, x := range b {
		m[x] = true
	}
	out := []uint64{}
	for _, x := range a {
		if m[x] {
			out = append(out, x)
		}
	}
	return out
}

func setOr(a, b []uint64) []uint64 {
	m := map[uint64]bool{}
	out := []uint64{}
	for _, x := range append(append([]uint64{}, a...), b...) {
		if !m[x] {
			m[x] = true
			out = append(out, x)
		}
	}
	sort.Slice(out, func(i, j int) bool { return out[i] < out[j] })
	return out
}

func modelEval(mst string, e influxql.Expr, leafIso, cache map[string][]uint64) ([]uint64, bool) {
	switch n := e.(type) {
	case *influxql.ParenExpr:
		return modelEval(mst, n.Expr, leafIso, cache)
	case *influxql.BinaryExpr:
		if n.Op == influxql.AND || n.Op == influxql.OR {
			a, ok1 := modelEval(mst, n.LHS, leafIso, cache)
			b, ok2 := modelEval(mst, n.RHS, leafIso, cache)
			if !ok1 || !ok2 {
				return nil, false
			}
			if n.Op == influxql.AND {
				return setAnd(a, b), true
			}
			return setOr(a, b), true
		}
		ck := leafCacheKey(mst, n)
		if c, ok := cache[ck]; ok && len(c) > 0 {
			return c, true
		}
		s, ok := leafIso[mst+"\x00"+n.String()]
		if !ok {
			return nil, false
		}
		if cache != nil && len(s) > 0 {
			cache[ck] = s
		}
		return s, true
	}
	return nil, false
}

func (r *ixReplay) historyPass(hist []histQuery, leafIso map[string][]uint64) string {
	if len(hist) == 0 {
		return ""
	}
	if err := r.x.e.Shard().GetIndexBuilder().ClearCache(); err != nil {
		return "ClearCache: " + err.Error()
	}
	cache := map[string][]uint64{}
	for _, h := range hist {
		got, err := r.x.selectIDs(h.mst, h.text)
		if err != nil {
			return h.where + ": SearchSeriesWithOpts: " + err.Error()
		}
		r.res.Compared++
		e, err := selectCond(h.text)
		if err != nil {
			return h.where + ": " + err.Error()
		}
		if e == nil {
			if !eqU64(got, h.iso) {
				return fmt.Sprintf("%s: SELECT path without condition returns %q after other queries, %q before", h.where, r.names(got), r.names(h.iso))
			}
			continue
		}
		// sanity of the decomposition: with an empty cache the algebra over the leaves is the isolated result
		if alone, ok := modelEval(h.mst, e, leafIso, map[string][]uint64{}); !ok || !eqU64(alone, h.iso) {
			r.res.Infra = fmt.Sprintf("%s: leaf algebra %q differs from the isolated SELECT result %q", h.where, r.names(alone), r.names(h.iso))
			return "infra"
		}
		want, _ := modelEval(h.mst, e, leafIso, cache)
		if eqU64(got, want) {
			if !eqU64(got, h.iso) {
				r.known(findAlias, fmt.Sprintf("%s: SELECT path selects %q when it follows the other queries of its batch and %q on its own (a leaf is served from the tag-filter cache entry of a different expression with the same rewritten text)", h.where, r.names(got), r.names(h.iso)))
			}
			continue
		}
		return fmt.Sprintf("%s: SELECT path selects %q when it follows the other queries of its batch; on its own %q, cache-alias model %q", h.where, r.names(got), r.names(h.iso), r.names(want))
	}
	return ""
}

// Engine.TagKeys returns one string "measurement,key,key" per measurement with at least one key
func (r *ixReplay) judgeTagKeys(mst string, got []string, lst listing) string {
	match := func(keys []string) bool {
		if len(keys) == 0 {
			return len(got) == 0
		}
		if len(got) != 1 {
			return false
		}
		// any order of the keys
		var perm func(rest []string, acc string) bool
		perm = func(rest []string, acc string) bool {
			if len(rest) == 0 {
				return acc == got[0]
			}
			for i := range rest {
				nr := append(append([]string{}, rest[:i]...), rest[i+1:]...)
				if perm(nr, acc+","+rest[i]) {
					return true
				}
			}
			return false
		}
		return perm(keys, mst)
	}
	if match(lst.tk) {
		return ""
	}
	if model := splitModelTagKeys(lst.keys); !eqStr(model, lst.tk) && match(model) {
		return "known"
	}
	return fmt.Sprintf("= %q, the series selected carry the tag keys %q", got, lst.tk)
}

func (r *ixReplay) create(st *ixStep) string {
	var raw ixKey
	if err := json.Unmarshal(st.Args, &raw); err != nil {
		r.res.Infra = "bad Create args: " + err.Error()
		return "infra"
	}
	var x struct {
		ID  int `json:"id"`
		New int `json:"new"`
		Dup int `json:"dup"`
	}
	if err := json.Unmarshal(st.Exp.X, &x); err != nil {
		r.res.Infra = "bad Create exp: " + err.Error()
		return "infra"
	}
	mst := r.c.mst[raw.M]
	kept, err := r.x.createSeries(mst, r.c.rawTags(raw))
	if err != nil {
		return fmt.Sprintf("write of %q rejected: %v", renderKey(mst, r.c.rawTags(raw)), err)
	}
	norm := r.c.normTags(raw)
	if renderKey(mst, kept) != renderKey(mst, norm) {
		return fmt.Sprintf("the write path kept tags %q, the specification's normalisation (empty values dropped) gives %q", renderKey(mst, kept), renderKey(mst, norm))
	}
	got, err := r.x.idx().GetSeriesIdBySeriesKey(indexKeyOf(mst, norm))
	r.res.Lookups++
	if err != nil {
		return "GetSeriesIdBySeriesKey after create: " + err.Error()
	}
	if got == 0 {
		return fmt.Sprintf("series %q has no id right after it was written", renderKey(mst, norm))
	}
	if x.New == 1 {
		if o := r.byReal[got]; o != nil {
			return fmt.Sprintf("new series %q got id %x which already belongs to series %q", renderKey(mst, norm), got, o.render)
		}
		s := &ixSeries{abs: x.ID, real: got, mst: mst, tags: norm, render: renderKey(mst, norm)}
		r.byAbs[x.ID] = s
		r.byReal[got] = s
		return ""
	}
	s := r.byAbs[x.ID]
	if s == nil {
		r.res.Infra = fmt.Sprintf("Create of existing id %d unknown to the replay", x.ID)
		return "infra"
	}
	if got == s.real {
		return ""
	}
	if x.Dup == 1 && r.byReal[got] == nil {
		// deviation model lookup_misses_pending predicts exactly this: a second, fresh id for the series
		r.known(findLookup, fmt.Sprintf("series %q written again after ClearCache and before the index flush got a second id %x (first id %x)", s.render, got, s.real))
		return "stop"
	}
	return fmt.Sprintf("existing series %q resolved to id %x on its second write, it was created with id %x", s.render, got, s.real)
}

func replayIxCase(c *ixCase) (res ixResult) {
	res = ixResult{ID: c.ID, OK: true, Step: -1}
	rng := rand.New(rand.NewSource(c.Seed*1000003 + int64(c.ID)))
	conc := newIxConc(rng)
	res.Conc = conc.desc
	dir, err := os.MkdirTemp("/dev/shm", "vh-ix-")
	if err != nil {
		res.Infra = err.Error()
		return
	}
	defer os.RemoveAll(dir)
	x, err := openIx(dir + "/a")
	if err != nil {
		res.Infra = "open: " + err.Error()
		return
	}
	r := &ixReplay{x: x, c: conc, byAbs: map[int]*ixSeries{}, byReal: map[uint64]*ixSeries{}, res: &res}
	defer func() {
		if !r.closed {
			_ = x.e.Close()
		}
		if len(res.KnownN) > 0 {
			var ids []string
			for k := range res.KnownN {
				ids = append(ids, k)
			}
			sort.Strings(ids)
			res.Known = strings.Join(ids, ",")
		}
	}()
	fail := func(i int, a, why string) {
		res.OK = false
		res.Step = i
		res.Action = a
		res.Detail = fmt.Sprintf("step %d %s: %s [concretisation: %s]", i, a, why, conc.desc)
	}
	for i := range c.Hist {
		st := &c.Hist[i]
		why := ""
		switch st.A {
		case "Create":
			why = r.create(st)
		case "IndexFlush":
			x.e.IndexFlush()
		case "ClearCache":
			if err := x.e.Shard().GetIndexBuilder().ClearCache(); err != nil {
				why = "ClearCache: " + err.Error()
			}
		case "Close":
			if err := x.e.Close(); err != nil {
				why = "Close: " + err.Error()
			}
			r.closed = true
		case "Reopen":
			e, err := engx.Open(x.dir, engx.Options{WalParts: 1})
			if err != nil {
				res.Infra = "reopen: " + err.Error()
				return
			}
			x.e = e
			r.closed = false
		case "Search":
			x.e.IndexFlush() // the specification only searches when nothing is pending; make it so
			why = r.search(st)
		default:
			res.Infra = "unknown action " + st.A
			return
		}
		if why == "infra" {
			return
		}
		if why == "stop" {
			return
		}
		if why == "" && !r.closed {
			why = r.checkIDs(st)
		}
		if why != "" {
			fail(i, st.A, why)
			return
		}
	}
	return
}

func replayIndex(args []string) int {
	sc := bufio.NewScanner(os.Stdin)
	sc.Buffer(make([]byte, 1<<20), 1<<28)
	out := bufio.NewWriter(os.Stdout)
	defer out.Flush()
	rc := 0
	for sc.Scan() {
		line := sc.Bytes()
		if len(line) == 0 {
			continue
		}
		var c ixCase
		if err := json.Unmarshal(line, &c); err != nil {
			fmt.Fprintln(os.Stderr, "bad case:", err)
			return 2
		}
		res := replayIxCase(&c)
		if !res.OK {
			rc = 1
		}
		b, _ := json.Marshal(res)
		out.Write(b)
		out.WriteByte('\n')
		out.Flush()
	}
	return rc
}
