//go:build verif

package main

// replay-wal (C01): runs TLC-generated client histories of specs/Wal.tla (Write / Flush) on a real
// engine with the file-system recorder on, freezes a crash image after file-system mutations
// (every one in the thorough tier), restores and re-opens each image exactly as a restarted store
// does, and compares what queries read with the specification's expectation: the last acknowledged
// value of every cell (a write in flight at the crash instant may or may not be there).

import (
	"bufio"
	"encoding/json"
	"fmt"
	"math/rand"
	"os"
	"path/filepath"
	"sort"
	"strconv"
	"strings"
	"sync"
	"time"

	"github.com/openGemini/openGemini/lib/util/lifted/influx/influxql"
	"github.com/openGemini/openGemini/lib/util/lifted/vm/protoparser/influx"
	"verifharness/internal/crashfs"
	"verifharness/internal/engx"
)

func init() { cmds["replay-wal"] = replayWal }

type walStep struct {
	A    string `json:"a"` // Write | Flush | Drop
	W    int64  `json:"w"`
	K    string `json:"k"`
	S    string `json:"s"`    // Write: the series of cell k (cells with the same s share one series)
	Kind string `json:"kind"` // Flush: "forced" (ForceFlush) | "auto" (started by the shard's snapshot ticker)
	At   string `json:"at"`   // Write: where the flush in progress stood when the write started ("idle" = none)
}

type walCase struct {
	ID       int       `json:"id"`
	Seed     int64     `json:"seed"`
	Hist     []walStep `json:"hist"`
	Thorough bool      `json:"thorough"`
	Parts    int       `json:"parts"`   // WAL partitions (0 = from seed)
	OnlyAt   []int     `json:"only_at"` // replay: restrict crash points to these event numbers
	Pre      int       `json:"pre"`     // number of leading steps (warm-up) during which no image is taken
}

type walResult struct {
	ID                int                      `json:"id"`
	OK                bool                     `json:"ok"`
	Detail            string                   `json:"detail,omitempty"`
	Infra             string                   `json:"infra,omitempty"`
	Images            int                      `json:"images"`
	Nested            int                      `json:"nested"`
	Torn              int                      `json:"torn"`
	Events            int                      `json:"events"`
	Known             map[string]int           `json:"known,omitempty"`
	KnownEx           string                   `json:"known_example,omitempty"`
	KnownExs          map[string]string        `json:"known_examples,omitempty"` // first example per finding
	Trace             []crashfs.Event          `json:"trace,omitempty"`
	At                int                      `json:"at,omitempty"`
	Hang              bool                     `json:"hang,omitempty"`
	IndexInconclusive int                      `json:"index_inconclusive"`
	Parts             int                      `json:"parts"`
	Tev               []map[string]interface{} `json:"tev,omitempty"` // spec-level event trace of the run (Mode C)
	Ser               map[string]string        `json:"ser,omitempty"` // cell -> series of the run (Mode C)
	AutoFlushes       int                      `json:"auto_flushes"`   // flushes performed by the shard's snapshot ticker
	ForcedFlushes     int                      `json:"forced_flushes"`
	AutoImages        int                      `json:"auto_images"`    // images taken inside automatic flushes
	InsideWrites      int                      `json:"inside_writes"`  // writes executed while a flush was held at one of its steps
	IndexFlushes      int                      `json:"index_flushes"`  // index flushes (raw items -> part) observed
	IndexImages       int                      `json:"index_images"`   // images taken after file operations of the series index
	TwoFileImages     int                      `json:"two_file_images"` // images in which one log partition holds two or more files
}

// a cell of the specification = (measurement, series, timestamp, field) of the real store
type cellConc struct {
	mst, host string
	t         int64
	field     string
}

var cellMaps = [][]cellConc{
	{{"m", "a", 1, "f1"}, {"m", "a", 2, "f1"}, {"m", "b", 1, "f1"}},  // same series, two times; other series
	{{"m", "a", 1, "f1"}, {"m", "a", 1, "f2"}, {"m", "a", 2, "f1"}},  // same row, two fields
	{{"m", "a", 5, "f1"}, {"m", "a", 1, "f1"}, {"m", "b", 3, "f1"}},  // out-of-order times
	{{"m", "a", 1, "f1"}, {"m2", "a", 1, "f1"}, {"m", "b", 1, "f1"}}, // two measurements
}

type walImage struct {
	at       int // event number after which the image was taken (0 = before any event)
	step     int // index of the history step in progress (-1 = none / between steps)
	inflight bool
	dir      string
	tornFile string // relative path of the WAL file just written (candidate for torn variants)
	tornLen  int
	auto     bool   // taken while an automatic (ticker-started) flush was in progress
	idx      string // taken after a file operation of the series index (not a data event): its description
}

type cellTable map[string]int64

func (t cellTable) clone() cellTable {
	c := cellTable{}
	for k, v := range t {
		c[k] = v
	}
	return c
}

func (t cellTable) String() string {
	var ks []string
	for k := range t {
		ks = append(ks, k)
	}
	sort.Strings(ks)
	var sb strings.Builder
	for _, k := range ks {
		fmt.Fprintf(&sb, "%s=%d ", k, t[k])
	}
	return sb.String()
}

func equalTables(a, b cellTable) bool {
	if len(a) != len(b) {
		return false
	}
	for k, v := range a {
		if b[k] != v {
			return false
		}
	}
	return true
}

type walRunner struct {
	c        *walCase
	rng      *rand.Rand
	cells    map[string]cellConc
	parts    int
	root     string
	dir      string
	rec      *crashfs.Recorder
	gate     *walGate
	ser      map[string]string // cell -> series name of the specification
	res      *walResult
	images   []walImage
	nimg     int
	dropKeys map[string]bool
	stepDone map[int]int // history step -> number of the last data event it produced
	dropWal  map[int]int // Drop step -> number of the first log removal of its flush (from there on its snapshot is committed / discarded)
}

func (r *walRunner) point(k string, w int64) engx.Pt {
	c := r.cells[k]
	return engx.Pt{Mst: c.mst, Tags: [][2]string{{"host", c.host}}, Time: timeBase + c.t*timeStep,
		Fields: []engx.FV{{Key: c.field, Typ: influx.Field_Type_Int, Num: float64(w)}}}
}

// readAll returns the value of every cell (absent/null cells are omitted)
func (r *walRunner) readAll(e *engx.Env) (cellTable, error) {
	out := cellTable{}
	type mf struct{ mst, field string }
	seen := map[mf]bool{}
	for _, c := range r.cells {
		seen[mf{c.mst, c.field}] = true
	}
	for x := range seen {
		rows, err := e.Read(x.mst, []engx.FieldReq{{Name: x.field, Typ: influxql.Integer}}, []string{"host"}, timeBase-timeStep, timeBase+100*timeStep, true)
		if err != nil {
			return nil, err
		}
		for _, row := range rows {
			if row.Vals[0].Null {
				continue
			}
			key := ""
			for k, c := range r.cells {
				if c.mst == x.mst && c.field == x.field && "host="+c.host == row.Series && timeBase+c.t*timeStep == row.Time {
					key = k
				}
			}
			if key == "" {
				key = fmt.Sprintf("?%s/%s/%d/%s", x.mst, row.Series, row.Time, x.field)
			}
			if _, dup := out[key]; dup {
				return nil, fmt.Errorf("cell %s returned twice", key)
			}
			out[key] = row.Vals[0].I
		}
	}
	return out, nil
}

// expectation after step i (i = -1: empty)
func (r *walRunner) expAfter(i int) cellTable {
	t := cellTable{}
	for j := 0; j <= i && j < len(r.c.Hist); j++ {
		switch r.c.Hist[j].A {
		case "Write":
			t[r.c.Hist[j].K] = r.c.Hist[j].W
		case "Drop":
			for k := range r.dropKeys {
				delete(t, k)
			}
		}
	}
	return t
}

// proj removes the cells of the droppable measurement (used while a DROP MEASUREMENT is in flight:
// those cells may be present with their last value or absent; everything else is judged as usual)
func (r *walRunner) proj(t cellTable) cellTable {
	o := cellTable{}
	for k, v := range t {
		if !r.dropKeys[k] {
			o[k] = v
		}
	}
	return o
}

// ---- as-implemented recovery model (known findings F-C01-1 / F-C01-2) ---------------------------
// Reconstructs from the recorded events, up to event n, which WAL records and which committed
// flushes a crash image holds, and predicts what the pinned code recovers: the records of all log
// files present are replayed one per partition in turn starting at partition 0 and land on top of
// the committed data files.
type walFileModel struct {
	part int
	name string
	recs []int // history step indexes of the records
}

func walPartOf(p string) (int, string, bool) {
	// .../wal/<db>/<pt>/<rp>/<shard>/<partition>/<n>.wal
	d, f := filepath.Split(p)
	part, err := strconv.Atoi(filepath.Base(filepath.Clean(d)))
	if err != nil {
		return 0, "", false
	}
	return part, f, true
}

// walFilesAt reconstructs the WAL files (and the history steps of their records) present after data
// event n.
func (r *walRunner) walFilesAt(events []crashfs.Event, stepOfWalWrite map[int]int, n int, dropLastRecOf string) (map[string]*walFileModel, []string) {
	files := map[string]*walFileModel{}
	var order []string
	for _, ev := range events {
		if ev.N > n {
			break
		}
		if ev.Class != "wal" {
			continue
		}
		switch ev.Op {
		case "create":
			part, name, ok := walPartOf(ev.Path)
			if ok {
				files[ev.Path] = &walFileModel{part: part, name: name}
				order = append(order, ev.Path)
			}
		case "write":
			if f := files[ev.Path]; f != nil {
				if st, ok := stepOfWalWrite[ev.N]; ok {
					f.recs = append(f.recs, st)
				}
			}
		case "remove":
			delete(files, ev.Path)
		}
	}
	if dropLastRecOf != "" {
		if f := files[dropLastRecOf]; f != nil && len(f.recs) > 0 {
			f.recs = f.recs[:len(f.recs)-1]
		}
	}
	return files, order
}

// committedUpTo: last flush step all of whose data-file renames happened by data event n
func (r *walRunner) committedUpTo(flushRenames map[int][]int, n int) int {
	c := -1
	for st := range r.c.Hist {
		if r.c.Hist[st].A == "Drop" {
			// a finished DROP MEASUREMENT has flushed everything before it; one in flight has done so from the
			// first log removal of its flush on (the log goes only after the data files are in place)
			if end, ok := r.stepDone[st]; ok && end <= n && st > c {
				c = st
			}
			if first := r.dropWal[st]; first > 0 && first <= n && st > c {
				c = st
			}
			continue
		}
		if r.c.Hist[st].A != "Flush" {
			continue
		}
		rn, ok := flushRenames[st]
		if !ok || len(rn) == 0 {
			continue
		}
		all := true
		for _, x := range rn {
			if x > n {
				all = false
			}
		}
		if all && st > c {
			c = st
		}
	}
	return c
}

// rrReplay applies the records of the given files, one per partition in turn from partition 0, on
// top of base. stale reports whether a record of an already committed flush was replayed.
func (r *walRunner) rrReplay(files map[string]*walFileModel, order []string, base cellTable, committed int) (cellTable, bool) {
	pred := base.clone()
	stale := false
	byPart := map[int][]*walFileModel{}
	for _, p := range order {
		if f := files[p]; f != nil {
			byPart[f.part] = append(byPart[f.part], f)
		}
	}
	queues := make([][]int, r.parts)
	for p := 0; p < r.parts; p++ {
		fs := byPart[p]
		sort.Slice(fs, func(i, j int) bool {
			if len(fs[i].name) != len(fs[j].name) {
				return len(fs[i].name) < len(fs[j].name)
			}
			return fs[i].name < fs[j].name
		})
		for _, f := range fs {
			queues[p] = append(queues[p], f.recs...)
		}
	}
	for {
		progressed := false
		for p := 0; p < r.parts; p++ {
			if len(queues[p]) > 0 {
				st := queues[p][0]
				queues[p] = queues[p][1:]
				if st <= committed {
					stale = true
				}
				pred[r.c.Hist[st].K] = r.c.Hist[st].W
				progressed = true
			}
		}
		if !progressed {
			break
		}
	}
	return pred, stale
}

// idealReplay: what recovery would give on the same image if (a) records of already committed
// flushes were not replayed and (b) the remaining records were replayed in acknowledgement order.
// A divergence is attributed to F-C01-1/F-C01-2 only if this repairs it (so data lost for any other
// reason - a log removed too early, a record never written - stays a violation).
func (r *walRunner) idealReplay(files map[string]*walFileModel, base cellTable, committed int) cellTable {
	var steps []int
	for _, f := range files {
		for _, st := range f.recs {
			if st > committed {
				steps = append(steps, st)
			}
		}
	}
	sort.Ints(steps)
	t := base.clone()
	for _, st := range steps {
		t[r.c.Hist[st].K] = r.c.Hist[st].W
	}
	return t
}

func inTables(t cellTable, set []cellTable) bool {
	for _, a := range set {
		if equalTables(t, a) {
			return true
		}
	}
	return false
}

func (r *walRunner) predictAsImplemented(events []crashfs.Event, stepOfWalWrite map[int]int, flushRenames map[int][]int, n int, dropLastRecOf string) (pred cellTable, stale bool) {
	files, order := r.walFilesAt(events, stepOfWalWrite, n, dropLastRecOf)
	c := r.committedUpTo(flushRenames, n)
	return r.rrReplay(files, order, r.expAfter(c), c)
}

func (r *walRunner) fail(format string, a ...interface{}) {
	if r.res.OK {
		r.res.OK = false
		r.res.Detail = fmt.Sprintf(format, a...)
	}
}

func (r *walRunner) known(id, example string) {
	if r.res.Known == nil {
		r.res.Known = map[string]int{}
	}
	r.res.Known[id]++
	if r.res.KnownEx == "" {
		r.res.KnownEx = example
	}
	if r.res.KnownExs == nil {
		r.res.KnownExs = map[string]string{}
	}
	if r.res.KnownExs[id] == "" {
		r.res.KnownExs[id] = example
	}
}

func runWalCase(c *walCase, root string) (res walResult) {
	res = walResult{ID: c.ID, OK: true}
	defer func() { res.Parts = c.Parts }()
	defer func() {
		if x := recover(); x != nil {
			res.OK = false
			res.Detail = fmt.Sprintf("panic: %v", x)
		}
	}()
	rng := rand.New(rand.NewSource(c.Seed*7919 + int64(c.ID)))
	rec, gate := installWalGate()
	r := &walRunner{c: c, rng: rng, root: root, res: &res, rec: rec, gate: gate}
	r.parts = c.Parts
	if r.parts == 0 {
		r.parts = 1 + rng.Intn(3)
	}
	c.Parts = r.parts
	// Concretisation. The specification says which cells share a series (field s of a Write); the harness
	// picks measurement / host per series and (time, field) per cell of a series from the seed.
	r.cells = map[string]cellConc{}
	serOfKey := map[string]string{}
	for _, st := range c.Hist {
		if st.A == "Write" {
			sname := st.S
			if sname == "" || sname == "-" {
				sname = st.K // histories without series information: every cell its own series
			}
			if old, ok := serOfKey[st.K]; ok && old != sname {
				res.Infra = fmt.Sprintf("cell %s has two series in the history (%s, %s)", st.K, old, sname)
				return
			}
			serOfKey[st.K] = sname
		}
	}
	var ks, sers []string
	seenSer := map[string]bool{}
	for k := range serOfKey {
		ks = append(ks, k)
	}
	sort.Strings(ks)
	for _, k := range ks {
		if !seenSer[serOfKey[k]] {
			seenSer[serOfKey[k]] = true
			sers = append(sers, serOfKey[k])
		}
	}
	r.dropKeys = map[string]bool{}
	r.stepDone = map[int]int{}
	r.dropWal = map[int]int{}
	hasDrop := false
	for _, st := range c.Hist {
		if st.A == "Drop" {
			hasDrop = true
		}
	}
	seriesVariants := [][][2]string{ // (measurement, host) of the 1st, 2nd, 3rd series
		{{"m", "a"}, {"m", "b"}, {"m", "c"}},
		{{"m", "a"}, {"m2", "a"}, {"m", "b"}}, // two measurements
		{{"m", "b"}, {"m", "a"}, {"m2", "b"}},
	}
	cellVariants := [][]struct {
		t int64
		f string
	}{
		{{1, "f1"}, {2, "f1"}, {3, "f1"}}, // one field, increasing times
		{{1, "f1"}, {1, "f2"}, {2, "f1"}}, // same row, two fields
		{{5, "f1"}, {1, "f1"}, {3, "f1"}}, // out-of-order times
	}
	sv := seriesVariants[rng.Intn(len(seriesVariants))]
	cv := cellVariants[rng.Intn(len(cellVariants))]
	if hasDrop {
		// the specification's DropKeys = {"k3"}: the series of k3 is the only one in measurement m2
		sv = [][2]string{{"m", "a"}, {"m", "b"}, {"m", "c"}}
	}
	nInSer := map[string]int{}
	serIdx := map[string]int{}
	for i, sname := range sers {
		serIdx[sname] = i
	}
	if hasDrop {
		if s3, ok := serOfKey["k3"]; ok {
			for k, sname := range serOfKey {
				if sname == s3 && k != "k3" {
					res.Infra = "history with DROP MEASUREMENT puts " + k + " into the series of k3"
					return
				}
			}
		}
	}
	r.ser = map[string]string{}
	for _, k := range ks {
		sname := serOfKey[k]
		mh := sv[serIdx[sname]%len(sv)]
		j := nInSer[sname]
		nInSer[sname]++
		cc := cellConc{mh[0], mh[1], cv[j%len(cv)].t, cv[j%len(cv)].f}
		if hasDrop && k == "k3" {
			cc = cellConc{"m2", "a", 1, "f1"}
			r.dropKeys[k] = true
		}
		r.cells[k] = cc
		r.ser[k] = sname
	}
	res.Ser = r.ser
	r.dir = filepath.Join(root, fmt.Sprintf("w%d", c.ID))
	imgRoot := filepath.Join(root, fmt.Sprintf("w%d-img", c.ID))
	defer os.RemoveAll(r.dir)
	defer os.RemoveAll(imgRoot)

	opts := engx.Options{WalParts: r.parts}
	e, err := engx.Open(r.dir, opts)
	if err != nil {
		res.Infra = "open: " + err.Error()
		return
	}
	// phase 1: run the history with the recorder on, freezing images. The harness never makes the
	// series index durable (or searchable) itself here: what an image holds of the index is what the
	// engine's own flushes - the synchronous one in writeSnapshot, the index's background flusher -
	// had put on disk at that instant.
	only := map[int]bool{}
	for _, n := range c.OnlyAt {
		only[n] = true
	}
	var hk sync.Mutex // guards the variables shared between the hooks (engine goroutines) and the driver
	curStep, inflight := -1, false
	flushKey := -1       // history step of the Flush / Drop whose file operations are going on
	autoNow := false     // an automatic flush is in progress
	var auto *walAuto    // set while an automatic flush is requested
	lastN := 0           // number of the last data event
	stepOfWalWrite := map[int]int{}
	flushRenames := map[int][]int{}
	tev := func(m map[string]interface{}) {
		hk.Lock()
		res.Tev = append(res.Tev, m)
		hk.Unlock()
	}
	take := func(ev crashfs.Event) bool {
		if curStep < c.Pre {
			return false // warm-up prefix of the history: executed and checked like the rest, but no images
		}
		if len(only) > 0 {
			if ev.N == 0 {
				return only[lastN]
			}
			return only[ev.N]
		}
		if ev.Class == "index" {
			// the durable point of an index flush / merge; thorough: every rename and remove of the index
			commit, _ := walIndexTxnCommit(r.dir, ev)
			return commit || (c.Thorough && (ev.Op == "rename" || ev.Op == "remove"))
		}
		if c.Thorough {
			return true
		}
		switch {
		case ev.Class == "wal" && (ev.Op == "write" || ev.Op == "remove"):
			return true
		case ev.Op == "rename":
			return true
		case ev.Class == "init" && ev.Op == "create":
			return true
		}
		return rng.Intn(4) == 0
	}
	r.rec.Start(r.dir)
	r.rec.After = func(ev crashfs.Event) {
		if ev.Class == "other" && strings.Contains(ev.Path, "/logs/") {
			return
		}
		hk.Lock()
		defer hk.Unlock()
		if ev.Class == "index" {
			if _, raw := walIndexTxnCommit(r.dir, ev); raw {
				// Mode C: in-memory items of the series index reached the disk
				res.Tev = append(res.Tev, map[string]interface{}{"ev": "IndexFlush"})
				res.IndexFlushes++
			}
		} else {
			if ev.N == 0 {
				return
			}
			lastN = ev.N
			if auto != nil {
				auto.begun()
			}
			if ev.Class == "wal" && ev.Op == "write" && curStep >= 0 && curStep < len(c.Hist) && c.Hist[curStep].A == "Write" && inflight {
				stepOfWalWrite[ev.N] = curStep
			}
			// Mode C: classify the mutation as a specification action
			switch {
			case ev.Class == "wal" && ev.Op == "write":
				if part, _, ok := walPartOf(ev.Path); ok {
					res.Tev = append(res.Tev, map[string]interface{}{"ev": "WriteWal", "p": part + 1})
				}
			case ev.Class == "wal" && ev.Op == "remove":
				if part, _, ok := walPartOf(ev.Path); ok {
					res.Tev = append(res.Tev, map[string]interface{}{"ev": "FlushRemoveWal", "p": part + 1})
				}
			case ev.Class == "init" && ev.Op == "create":
				res.Tev = append(res.Tev, map[string]interface{}{"ev": "FlushInit"})
			case ev.Op == "rename" && (ev.Class == "init" || ev.Class == "tssp"):
				res.Tev = append(res.Tev, map[string]interface{}{"ev": "FlushRename"})
			}
			if ev.Op == "rename" && flushKey >= 0 {
				flushRenames[flushKey] = append(flushRenames[flushKey], ev.N)
			}
			if ev.Class == "wal" && ev.Op == "remove" && flushKey >= 0 && c.Hist[flushKey].A == "Drop" && r.dropWal[flushKey] == 0 {
				r.dropWal[flushKey] = ev.N
			}
		}
		if !take(ev) {
			return
		}
		name := fmt.Sprintf("i%d", ev.N)
		if ev.N == 0 {
			name = fmt.Sprintf("i%d-x%d", lastN, ev.X)
		}
		img := filepath.Join(imgRoot, name)
		if err := engx.CopyTree(r.dir, img); err != nil {
			res.Infra = "copy: " + err.Error()
			return
		}
		wi := walImage{at: lastN, step: curStep, inflight: inflight, dir: img, auto: autoNow}
		if ev.N == 0 {
			wi.idx = fmt.Sprintf("index event %d (%s %s)", ev.X, ev.Op, filepath.Base(ev.Path))
		}
		if ev.Class == "wal" && ev.Op == "write" {
			wi.tornFile, wi.tornLen = ev.Path, ev.Size
		}
		if autoNow {
			res.AutoImages++
		}
		r.images = append(r.images, wi)
	}
	set := func(f func()) {
		hk.Lock()
		f()
		hk.Unlock()
	}
	doWrite := func(i int) bool {
		st := c.Hist[i]
		set(func() { curStep, inflight = i, true })
		tev(map[string]interface{}{"ev": "WriteMem", "k": st.K})
		if err := e.Write([]engx.Pt{r.point(st.K, st.W)}); err != nil {
			res.Infra = "write: " + err.Error()
			return false
		}
		set(func() { inflight = false })
		tev(map[string]interface{}{"ev": "Ack"})
		r.stepDone[i] = r.rec.LastN()
		return true
	}
	atRank := map[string]int{"switched": 1, "indexed": 2, "committing": 3, "renamed": 4}
	for i := 0; i < len(c.Hist); i++ {
		st := c.Hist[i]
		switch st.A {
		case "Write":
			// a write that the specification started inside a flush the harness is not inside of (the
			// exported history is a projection) is an ordinary write
			if !doWrite(i) {
				return
			}
		case "Flush":
			// the writes the specification started while this flush was going on
			var inside []int
			for j := i + 1; j < len(c.Hist) && c.Hist[j].A == "Write" && atRank[c.Hist[j].At] > 0; j++ {
				if len(inside) > 0 && atRank[c.Hist[j].At] < atRank[c.Hist[inside[len(inside)-1]].At] {
					break
				}
				inside = append(inside, j)
			}
			isAuto := st.Kind == "auto"
			set(func() { curStep, inflight, flushKey, autoNow = i, false, i, isAuto })
			hk.Lock()
			mark := len(res.Tev)
			kind := "forced"
			if isAuto {
				kind = "auto"
			}
			res.Tev = append(res.Tev, map[string]interface{}{"ev": "FlushSwitch", "kind": kind})
			hk.Unlock()
			var reached <-chan struct{}
			if len(inside) > 0 {
				reached = r.gate.arm(c.Hist[inside[0]].At)
			}
			done := make(chan error, 1)
			if isAuto {
				a, err := walAutoStart(e)
				if err != nil {
					res.Infra = "auto flush: " + err.Error()
					return
				}
				set(func() { auto = a })
				go func() { done <- a.wait(20 * time.Second) }()
			} else {
				go func() { e.Flush(); done <- nil }()
			}
			finished := false
			for n, j := range inside {
				if !finished {
					select {
					case <-reached:
					case err := <-done:
						// the flush ended without reaching the point (nothing to flush): plain writes from here on
						finished = true
						done <- err
					case <-time.After(30 * time.Second):
						res.Infra = fmt.Sprintf("flush did not reach %q", c.Hist[j].At)
						r.gate.open()
						return
					}
				}
				if !doWrite(j) {
					r.gate.open()
					return
				}
				res.InsideWrites++
				if finished {
					continue
				}
				if n+1 < len(inside) && c.Hist[inside[n+1]].At != c.Hist[j].At {
					// next write at a later point of the same flush
					rel := r.gate.release
					reached = r.gate.arm(c.Hist[inside[n+1]].At)
					close(rel)
				} else if n+1 == len(inside) {
					r.gate.open()
				}
			}
			if err := <-done; err != nil {
				res.Infra = "flush: " + err.Error()
				return
			}
			r.gate.open()
			set(func() { auto = nil })
			hk.Lock()
			if len(res.Tev) == mark+1 {
				res.Tev = res.Tev[:mark] // nothing to flush (empty memtable): ForceFlush was a no-op, not a spec action
			} else {
				res.Tev = append(res.Tev, map[string]interface{}{"ev": "FlushEnd"})
				if isAuto {
					res.AutoFlushes++
				} else {
					res.ForcedFlushes++
				}
			}
			flushKey, autoNow = -1, false
			hk.Unlock()
			r.stepDone[i] = r.rec.LastN()
			if len(inside) > 0 {
				i = inside[len(inside)-1]
			}
		case "Drop":
			set(func() { curStep, inflight, flushKey = i, true, i })
			if err := e.Eng.DropMeasurement(engx.DB, engx.RP, "m2_0000", []uint64{engx.ShardID}); err != nil {
				res.Infra = "drop measurement: " + err.Error()
				return
			}
			set(func() { inflight, flushKey = false, -1 })
			r.stepDone[i] = r.rec.LastN()
		}
	}
	if hasDrop {
		res.Tev = nil // the trace specification does not model DROP MEASUREMENT: no Mode C for these runs
	}
	set(func() { curStep = len(c.Hist) }) // everything acknowledged
	allEvents := r.rec.Stop()
	var events []crashfs.Event // data events only; events[i].N == i+1
	for _, ev := range allEvents {
		if ev.N > 0 {
			events = append(events, ev)
		}
	}
	res.Events = len(events)
	// final image: crash right after the last acknowledgement
	finalImg := filepath.Join(imgRoot, "final")
	if err := engx.CopyTree(r.dir, finalImg); err == nil {
		last := 0
		if len(events) > 0 {
			last = events[len(events)-1].N
		}
		r.images = append(r.images, walImage{at: last, step: len(c.Hist), dir: finalImg})
	}
	e.Abandon()
	if res.Infra != "" {
		return
	}

	// phase 2: restart on every image
	check := func(img walImage, label string, tornDrop string, nestedOK bool) {
		if !res.OK {
			return
		}
		if err := engx.RestoreImage(img.dir, r.dir); err != nil {
			res.Infra = "restore: " + err.Error()
			return
		}
		type nestedImg struct {
			dir string
			x   int // recovery event (all-event numbering) after which it was taken
		}
		var nestedImgs []nestedImg
		if nestedOK && rng.Intn(3) == 0 {
			// crash during recovery: freeze images while the restarted store replays and flushes
			r.rec.Start(r.dir)
			r.rec.After = func(ev crashfs.Event) {
				if ev.Class == "index" || (ev.Class != "wal" && ev.Op != "rename" && rng.Intn(3) != 0) {
					return
				}
				d := filepath.Join(imgRoot, fmt.Sprintf("n%d-%d", img.at, ev.N))
				if engx.CopyTree(r.dir, d) == nil {
					nestedImgs = append(nestedImgs, nestedImg{d, ev.X})
				}
			}
		}
		e2, err := engx.Open(r.dir, opts)
		recEvents := r.rec.Stop()
		if err != nil {
			if strings.Contains(err.Error(), "cannot open index") {
				// the series index does part of its file operations outside lib/fileops, so the image may
				// not be a state a real crash can leave: counted, not judged
				res.IndexInconclusive++
				return
			}
			r.fail("%s: restart failed: %v", label, err)
			res.At = img.at
			return
		}
		got, err := r.readAll(e2)
		e2.Abandon()
		if err != nil {
			r.fail("%s: read after restart failed: %v", label, err)
			res.At = img.at
			return
		}
		// acceptable outcomes
		var accept []cellTable
		st := img.step
		switch {
		case st < 0:
			accept = []cellTable{r.expAfter(-1)}
		case st >= len(c.Hist):
			accept = []cellTable{r.expAfter(len(c.Hist) - 1)}
		case c.Hist[st].A == "Write" && img.inflight && tornDrop == "":
			accept = []cellTable{r.expAfter(st - 1), r.expAfter(st)}
		case c.Hist[st].A == "Write" && img.inflight:
			accept = []cellTable{r.expAfter(st - 1)}
		default:
			accept = []cellTable{r.expAfter(st)}
		}
		inDrop := st >= 0 && st < len(c.Hist) && c.Hist[st].A == "Drop" && img.inflight
		// dropCells judges the cells of the measurement being dropped in what a restart on this image read: they
		// may still be there with their last acknowledged value or be gone. The pinned code has a third outcome
		// (open finding F-C01-3): DROP MEASUREMENT first discards the measurement's unflushed rows together with
		// their log records and only then removes its data files, so a crash in between shows the value of the
		// last FLUSHED write - an acknowledged overwrite reverted. Attributed only when the value read is exactly
		// that one. Returns the table without those cells.
		dropCells := func(t cellTable, what string, predOverride cellTable, staleOverride bool, refer cellTable) (cellTable, bool) {
			before := r.expAfter(st - 1)
			// what the flushes before this drop had committed
			cPrev := -1
			for x := 0; x < st; x++ {
				if c.Hist[x].A != "Flush" {
					continue
				}
				all := len(flushRenames[x]) > 0
				for _, rn := range flushRenames[x] {
					if rn > img.at {
						all = false
					}
				}
				if all {
					cPrev = x
				}
			}
			flushed := r.expAfter(cPrev)
			// as-implemented prediction for these cells: the log records still present, replayed over the flushed values
			files, order := r.walFilesAt(events, stepOfWalWrite, img.at, tornDrop)
			pred, _ := r.rrReplay(files, order, flushed, cPrev)
			logged := map[string]bool{}
			for _, f := range files {
				for _, x := range f.recs {
					logged[c.Hist[x].K] = true
				}
			}
			if predOverride != nil {
				pred = predOverride // crash inside recovery: the prediction of the nested as-implemented model
			}
			for k := range r.dropKeys {
				v, ok := t[k]
				if !ok || v == before[k] {
					continue
				}
				if rv, same := refer[k]; refer != nil && same && rv == v {
					continue // what the first recovery gave (judged there)
				}
				pv, has := pred[k]
				switch {
				case predOverride != nil && has && pv == v && (staleOverride || r.parts >= 2):
					id := "F-C01-1"
					if staleOverride {
						id = "F-C01-2"
					}
					r.known(id, fmt.Sprintf("%s%s parts=%d: cell %s of the measurement being dropped reads %d as the as-implemented replay model predicts; last acknowledged %d", label, what, r.parts, k, v, before[k]))
				case predOverride != nil:
					r.fail("%s%s: cell %s of the measurement being dropped recovered as %d, last acknowledged %d, first recovery gave %v, as-implemented model predicts %v", label, what, k, v, before[k], refer[k], pred[k])
					res.At = img.at
					return nil, false
				case has && pv == v && !logged[k]:
					r.known("F-C01-3", fmt.Sprintf("%s%s: cell %s of the measurement being dropped reads %d, the last flushed value; last acknowledged %d", label, what, k, v, before[k]))
				case has && pv == v && r.dropWal[st] > 0 && r.dropWal[st] <= img.at:
					// the log files of the drop's flush are removed one by one: the record of the newer write is gone, an older one is left
					r.known("F-C01-2", fmt.Sprintf("%s%s: cell %s of the measurement being dropped reads %d from a log record that outlived the record of the last acknowledged write (%d)", label, what, k, v, before[k]))
				case has && pv == v && r.parts >= 2:
					r.known("F-C01-1", fmt.Sprintf("%s%s parts=%d: cell %s of the measurement being dropped reads %d; acknowledged order gives %d", label, what, r.parts, k, v, before[k]))
				default:
					r.fail("%s%s: cell %s of the measurement being dropped recovered as %d, last acknowledged %d, last flushed %v, as-implemented model predicts %v", label, what, k, v, before[k], flushed[k], pred[k])
					res.At = img.at
					return nil, false
				}
			}
			return r.proj(t), true
		}
		fullGot := got
		if inDrop {
			var ok bool
			if got, ok = dropCells(got, "", nil, false, nil); !ok {
				return
			}
			accept = []cellTable{r.proj(r.expAfter(st - 1))}
		}
		ok := false
		for _, a := range accept {
			if equalTables(got, a) {
				ok = true
			}
		}
		if !ok {
			files, order := r.walFilesAt(events, stepOfWalWrite, img.at, tornDrop)
			cm := r.committedUpTo(flushRenames, img.at)
			pred, stale := r.rrReplay(files, order, r.expAfter(cm), cm)
			ideal := r.idealReplay(files, r.expAfter(cm), cm)
			if inDrop {
				pred, ideal = r.proj(pred), r.proj(ideal)
			}
			if equalTables(got, pred) && inTables(ideal, accept) && (stale || r.parts >= 2) {
				id := "F-C01-1"
				if stale {
					id = "F-C01-2"
				}
				r.known(id, fmt.Sprintf("%s parts=%d: recovered {%v}; acknowledged order gives {%v}", label, r.parts, got, accept[len(accept)-1]))
			} else {
				r.fail("%s parts=%d cells=%v: recovered {%v}, acceptable %v, as-implemented model predicts {%v}, order/staleness-repaired model {%v}", label, r.parts, r.cells, got, accept, pred, ideal)
				res.At = img.at
				return
			}
		}
		for _, ni := range nestedImgs {
			res.Nested++
			if err := engx.RestoreImage(ni.dir, r.dir); err != nil {
				continue
			}
			e3, err := engx.Open(r.dir, opts)
			if err != nil {
				if strings.Contains(err.Error(), "cannot open index") {
					res.IndexInconclusive++
					continue
				}
				r.fail("%s: restart after a crash during recovery failed: %v", label, err)
				res.At = img.at
				return
			}
			got3, err := r.readAll(e3)
			e3.Abandon()
			if err != nil {
				r.fail("%s: read after nested restart failed: %v", label, err)
				return
			}
			// as-implemented model of a crash inside recovery: the log files not yet removed are
			// replayed again (one per partition in turn) on top of what is committed by then
			files, order := r.walFilesAt(events, stepOfWalWrite, img.at, tornDrop)
			renamed := false
			for _, ev := range recEvents {
				if ev.X > ni.x {
					break
				}
				if ev.Class == "wal" && ev.Op == "remove" {
					delete(files, ev.Path)
				}
				if ev.Op == "rename" && (ev.Class == "init" || ev.Class == "tssp") {
					renamed = true
				}
			}
			c := r.committedUpTo(flushRenames, img.at)
			base := r.expAfter(c)
			if renamed {
				base = fullGot // what the first recovery read (all cells) is what it has committed
				c = len(r.c.Hist)
			}
			pred3, stale3 := r.rrReplay(files, order, base, c)
			idealBase := base
			if renamed {
				// the repaired model starts from what a correct first recovery would have committed
				idealBase = accept[len(accept)-1]
			}
			ideal3 := r.idealReplay(files, idealBase, c)
			if inDrop {
				var ok bool
				if got3, ok = dropCells(got3, fmt.Sprintf(", then a crash inside recovery (after recovery fs event %d)", ni.x), pred3, stale3, fullGot); !ok {
					return
				}
				pred3, ideal3 = r.proj(pred3), r.proj(ideal3)
			}
			ok3 := false
			for _, a := range accept {
				if equalTables(got3, a) {
					ok3 = true
				}
			}
			if ok3 || equalTables(got3, got) {
				continue // acceptable, or identical to what the first recovery gave (judged above)
			}
			if equalTables(got3, pred3) && inTables(ideal3, accept) && (stale3 || r.parts >= 2) {
				id := "F-C01-1"
				if stale3 {
					id = "F-C01-2"
				}
				r.known(id, fmt.Sprintf("%s, then a crash inside recovery (after recovery fs event %d), parts=%d: recovered {%v}; acknowledged order gives {%v}", label, ni.x, r.parts, got3, accept[len(accept)-1]))
				continue
			}
			r.fail("%s: crash during recovery (after recovery fs event %d) then restart recovered {%v}; first recovery gave {%v}, acceptable %v, as-implemented model predicts {%v}", label, ni.x, got3, got, accept, pred3)
			res.At = img.at
			return
		}
	}

	for _, img := range r.images {
		if !res.OK || res.Infra != "" {
			break
		}
		res.Images++
		// torn-tail variants of the record just appended
		if img.tornFile != "" && img.inflight {
			full := filepath.Join(img.dir, img.tornFile)
			if fi, err := os.Stat(full); err == nil && img.tornLen > 2 {
				for _, cut := range []int{1, img.tornLen - 1, img.tornLen - 4} {
					if cut <= 0 || int64(cut) > fi.Size() {
						continue
					}
					tdir := img.dir + "-torn"
					if engx.CopyTree(img.dir, tdir) == nil {
						tf := filepath.Join(tdir, img.tornFile)
						if os.Truncate(tf, fi.Size()-int64(cut)) == nil {
							res.Torn++
							check(walImage{at: img.at, step: img.step, inflight: true, dir: tdir}, fmt.Sprintf("crash after event %d with the last log record torn by %d bytes", img.at, cut), img.tornFile, false)
						}
						os.RemoveAll(tdir)
					}
				}
			}
		}
		label := fmt.Sprintf("crash after fs event %d", img.at)
		if img.at > 0 && img.at <= len(events) {
			ev := events[img.at-1]
			label = fmt.Sprintf("crash after fs event %d (%s %s %s) during step %d", img.at, ev.Op, ev.Class, filepath.Base(ev.Path), img.step)
		}
		if img.idx != "" {
			res.IndexImages++
			label = fmt.Sprintf("crash after %s, which followed fs event %d, during step %d", img.idx, img.at, img.step)
		}
		if img.auto {
			label += " (inside an automatic flush)"
		}
		{
			files, _ := r.walFilesAt(events, stepOfWalWrite, img.at, "")
			perPart := map[int]int{}
			for _, f := range files {
				perPart[f.part]++
			}
			for _, n := range perPart {
				if n >= 2 {
					res.TwoFileImages++
					break
				}
			}
		}
		check(img, label, "", true)
	}
	if !res.OK {
		res.Trace = events
	}
	return
}

func replayWal(args []string) int {
	root, err := os.MkdirTemp("/dev/shm", "vh-wal-")
	if err != nil {
		fmt.Fprintln(os.Stderr, err)
		return 2
	}
	defer os.RemoveAll(root)
	sc := bufio.NewScanner(os.Stdin)
	sc.Buffer(make([]byte, 1<<20), 1<<28)
	out := bufio.NewWriter(os.Stdout)
	defer out.Flush()
	bad := 0
	for sc.Scan() {
		line := sc.Bytes()
		if len(line) == 0 {
			continue
		}
		var c walCase
		if err := json.Unmarshal(line, &c); err != nil {
			fmt.Fprintln(os.Stderr, "bad case:", err)
			return 2
		}
		done := make(chan walResult, 1)
		go func() { done <- runWalCase(&c, root) }()
		r := <-done
		if !r.OK {
			bad++
		}
		b, _ := json.Marshal(r)
		out.Write(b)
		out.WriteByte('\n')
		out.Flush()
	}
	if bad > 0 {
		return 1
	}
	return 0
}
