//go:build verif

package main

// replay-meta: replays TLC-generated behaviours of specs/MetaCatalog.tla into the real catalogue code
// of ts-meta (C15, C16).
//
// Level 1 (always): real meta.Data (lib/util/lifted/influx/meta). Every command of the behaviour is built
// as the protobuf Command the meta client would send, marshalled, and every instance unmarshals its own copy
// and applies it through the functions the FSM's apply handlers call (meta.ApplyXxx of apply_func_base.go;
// the three handlers that live in store_fsm.go itself - CreateDatabase, DropDatabase, CreateSqlNode - are
// mirrored line by line in mcApply).
// Level 2 (when the tree under verification carries the verif hook (*Store).VerifFSM / VerifData): a real
// storeFSM is fed the same log through raft.FSM.Apply / Snapshot / Persist / Restore and compared too.
//
// Instances fed the same log:
//   A  applies everything;
//   B  replica; at the specification's Snapshot step it takes Data.Clone() (storeFSM.Snapshot), keeps
//      applying, at Persist marshals the clone (storeFSMSnapshot.Persist), at Restore is replaced by
//      UnmarshalBinary of those bytes (storeFSM.Restore) followed by the commands after the snapshot;
//   C  before every command all maps of the catalogue are re-created in shuffled insertion order;
//   D1..Dn  fresh instances that simply apply the same log (the Go runtime randomises the start of every
//      map iteration, so a decision taken from "the first entry" of a map differs between instances with
//      probability 1 - 1/entries per instance and command).
// A behaviour may hold several Snapshot / Persist / Restore rounds: B snapshots itself again after it was
// restored.
//
// After EVERY command:
//   * return of A vs the specification's expected class; returns of B, C (F) equal to A's (text);
//   * projection of A (databases -> policies -> measurements/versions, shard groups, shards, index groups,
//     nodes, partition view, replica groups, users, Max*ID) vs the specification's state;
//   * the C16 invariants evaluated on the REAL structure: GroupsDisjointAlignedSorted, IdsUnique,
//     IdsNeverReused, RefsValid, DefaultPolicyExists, FailedCommandIsNoop;
//   * canonical dumps (reflection over every field, deletion stamps as set/unset) of B, C (F) vs A.
//
// Known findings: the specification exports, next to the design's expectation, the prediction of the
// as-implemented deviations (ImplDev). The real code must follow the design or, exactly, the prediction;
// then the deviations that fired are reported in "devs". Anything else is a violation.

import (
	"bufio"
	"bytes"
	"encoding/json"
	"fmt"
	"io"
	"math/rand"
	"os"
	"reflect"
	"sort"
	"strings"
	"time"

	"github.com/hashicorp/raft"
	"github.com/influxdata/influxdb/models"
	originql "github.com/influxdata/influxql"
	metasrv "github.com/openGemini/openGemini/app/ts-meta/meta"
	"github.com/openGemini/openGemini/lib/config"
	"github.com/openGemini/openGemini/lib/errno"
	"github.com/openGemini/openGemini/lib/logger"
	"github.com/openGemini/openGemini/lib/spdy/transport"
	meta2 "github.com/openGemini/openGemini/lib/util/lifted/influx/meta"
	proto2 "github.com/openGemini/openGemini/lib/util/lifted/influx/meta/proto"
	"github.com/openGemini/openGemini/lib/util/lifted/protobuf/proto"
	"github.com/openGemini/openGemini/lib/util/lifted/vm/protoparser/influx"
	"go.uber.org/zap"
)

func init() { cmds["replay-meta"] = replayMeta }

// ---- case format (ToJson of MetaCatalog.tla's hist) -----------------------------------------------

type mcCmd struct {
	Op string  `json:"op"`
	Db string  `json:"db"`
	Rp string  `json:"rp"`
	N  string  `json:"n"`
	A  int64   `json:"a"`
	B  int64   `json:"b"`
	L  []int64 `json:"l"`
}

type mcAlt struct {
	Exp   string          `json:"exp"`
	St    json.RawMessage `json:"st"`
	Fired []string        `json:"fired"`
}

type mcX struct {
	Snap json.RawMessage   `json:"snap"`
	Img  json.RawMessage   `json:"img"`
	Imgi []json.RawMessage `json:"imgi"`
}

type mcStep struct {
	A    string            `json:"a"`
	Args mcCmd             `json:"args"`
	Exp  string            `json:"exp"`
	St   json.RawMessage   `json:"st"`
	Alt  []mcAlt           `json:"alt"`
	B    []json.RawMessage `json:"b"`
	Bi   []json.RawMessage `json:"bi"`
	X    []mcX             `json:"x"`
}

type mcCase struct {
	ID   int      `json:"id"`
	Seed int64    `json:"seed"`
	Hist []mcStep `json:"hist"`
}

type mcResult struct {
	ID       int               `json:"id"`
	OK       bool              `json:"ok"`
	Step     int               `json:"step"`
	Action   string            `json:"action,omitempty"`
	Detail   string            `json:"detail,omitempty"`
	Tag      string            `json:"tag,omitempty"` // property clause violated: C15, C16 or spec (conformance)
	Infra    string            `json:"infra,omitempty"`
	Devs     map[string]string `json:"devs,omitempty"` // deviation -> example (known findings re-observed)
	Lineage  string            `json:"lineage"`
	Steps    int               `json:"steps"`
	Cmds     int               `json:"cmds"`
	Failed   int               `json:"failed"` // commands that returned an error (FailedCommandIsNoop evaluated)
	Restored bool              `json:"restored"`
	Fsm      bool              `json:"fsm"`
	InvEvals int               `json:"inv_evals"`
	DumpCmps int               `json:"dump_cmps"`
	Stopped  bool              `json:"stopped,omitempty"` // the case ended at a predicted panic
}

// ---- concretisation ------------------------------------------------------------------------------

const mcTick = 15 * time.Minute // 4 ticks = 1 hour

type mcConc struct {
	rng      *rand.Rand
	name     map[string]string // abstract -> concrete (databases, policies, measurements, users)
	abs      map[string]string // concrete -> abstract
	baseHour int64             // unix hour of tick 0, a multiple of 12
	off      [4]time.Duration  // offset of tick%4 inside the hour
	rev      map[string]int64  // formatted time -> tick
	dbs      []string          // abstract universes, read from the specification's state
	rps      []string
	msts     []string
}

var mcNamePalette = map[byte][]string{
	'd': {"db%d", "telegraf_%d", "D.B-%d", "数据库%d"},
	'r': {"rp%d", "autogen%d", "one_week_%d", "r p%d"},
	'm': {"mst%d", "cpu_000%d", "m.x%d", "温度%d", "disk_%d_0001"},
	'u': {"user%d", "admin%d", "u@x%d"},
}

func mcFloorDiv(a, b int64) int64 {
	q := a / b
	if a%b != 0 && (a < 0) != (b < 0) {
		q--
	}
	return q
}

func newMcConc(seed int64, id int) *mcConc {
	c := &mcConc{rng: rand.New(rand.NewSource(seed*1000003 + int64(id))), name: map[string]string{}, abs: map[string]string{}, rev: map[string]int64{}}
	// tick 0 = a unix hour that is a multiple of 12 (Go's Truncate counts from year 1; the unix epoch is
	// 17259888 h = 0 mod 48 after it), sometimes before 1970
	k := int64(30000 + c.rng.Intn(8000))
	if c.rng.Intn(5) == 0 {
		k = -int64(1000 + c.rng.Intn(8000))
	}
	c.baseHour = 12 * k
	offs := [][3]time.Duration{{1, 30 * time.Minute, time.Hour - 1}, {time.Second, 20 * time.Minute, 59 * time.Minute}, {1, 2, 3}}
	o := offs[c.rng.Intn(len(offs))]
	c.off = [4]time.Duration{0, o[0], o[1], o[2]}
	for t := int64(-200); t <= 200; t++ {
		c.rev[mcFmtTime(c.tm(t))] = t
	}
	c.rev[mcFmtTime(c.tm(999))] = 999
	return c
}

func (c *mcConc) conc(abs string) string {
	if abs == "" {
		return ""
	}
	if v, ok := c.name[abs]; ok {
		return v
	}
	var v string
	if pal, ok := mcNamePalette[abs[0]]; ok {
		var n int
		fmt.Sscanf(abs[1:], "%d", &n)
		v = fmt.Sprintf(pal[c.rng.Intn(len(pal))], n)
	} else {
		v = abs
	}
	c.name[abs] = v
	c.abs[v] = abs
	return v
}

func (c *mcConc) abstract(conc string) string {
	if conc == "" {
		return ""
	}
	if v, ok := c.abs[conc]; ok {
		return v
	}
	return "?" + conc
}

// tm maps a tick to an instant: hours near 0 around baseHour; hours >= 40 count back from the hour of
// models.MaxNanoTime (abstract hour 47), hours <= -40 count up from the hour of models.MinNanoTime
// (abstract hour -48); ticks 189/190/-191 are MaxNanoTime, MaxNanoTime+1, MinNanoTime themselves.
func (c *mcConc) tm(t int64) time.Time {
	switch t {
	case 189:
		return time.Unix(0, models.MaxNanoTime).UTC()
	case 190:
		return time.Unix(0, models.MaxNanoTime).UTC().Add(1)
	case -191:
		return time.Unix(0, models.MinNanoTime).UTC()
	case 999: // WrapT: the start of the window holding MinNanoTime, written as int64 nanoseconds (wraps around)
		return time.Unix(0, c.tm(-192).UnixNano()).UTC()
	}
	h := mcFloorDiv(t, 4)
	k := t - 4*h
	var hour int64
	switch {
	case h >= 40:
		hour = 2562047 - (47 - h)
	case h <= -40:
		hour = -2562048 + (h + 48)
	default:
		hour = c.baseHour + h
	}
	return time.Unix(hour*3600, 0).UTC().Add(c.off[k])
}

func mcFmtTime(t time.Time) string {
	if t.IsZero() {
		return "0"
	}
	return t.UTC().Format(time.RFC3339Nano)
}

func (c *mcConc) tick(t time.Time) int64 {
	if v, ok := c.rev[mcFmtTime(t)]; ok {
		return v
	}
	return 99999
}

func (c *mcConc) host(abs string) (string, string) {
	var n int
	fmt.Sscanf(abs[1:], "%d", &n)
	if abs[0] == 'q' {
		return fmt.Sprintf("127.0.1.%d:8086", n), fmt.Sprintf("127.0.1.%d:8011", n)
	}
	return fmt.Sprintf("127.0.0.%d:8400", n), fmt.Sprintf("127.0.0.%d:8401", n)
}

func (c *mcConc) absHost(http string) string {
	var a, b int
	if _, err := fmt.Sscanf(http, "127.0.%d.%d:", &a, &b); err != nil {
		return "?" + http
	}
	if a == 1 {
		return fmt.Sprintf("q%d", b)
	}
	return fmt.Sprintf("h%d", b)
}

var mcShardKeys = [][]string{nil, {"tagA"}}

// sharding type of the specification's CreateMeasurement (b: 0 = HASH, 1 = RANGE)
func mcShardType(b int64) string {
	if b == 1 {
		return meta2.RANGE
	}
	return meta2.HASH
}

// ---- building the protobuf commands ---------------------------------------------------------------

func mcWrap(t proto2.Command_Type, ext *proto.ExtensionDesc, v interface{}) ([]byte, error) {
	cmd := &proto2.Command{Type: &t}
	if err := proto.SetExtension(cmd, ext, v); err != nil {
		return nil, err
	}
	return proto.Marshal(cmd)
}

func (c *mcConc) rpInfo(name string, sgd, dur int64, repn int64) *proto2.RetentionPolicyInfo {
	return &proto2.RetentionPolicyInfo{
		Name:               proto.String(name),
		ReplicaN:           proto.Uint32(uint32(repn)),
		Duration:           proto.Int64(int64(time.Duration(dur) * mcTick)),
		ShardGroupDuration: proto.Int64(int64(time.Duration(sgd) * mcTick)),
		HotDuration:        proto.Int64(0),
		WarmDuration:       proto.Int64(0),
		IndexGroupDuration: proto.Int64(0),
	}
}

func (c *mcConc) build(a mcCmd) ([]byte, error) {
	db, rp := c.conc(a.Db), c.conc(a.Rp)
	switch a.Op {
	case "CreateDataNode":
		h, t := c.host(a.N)
		return mcWrap(proto2.Command_CreateDataNodeCommand, proto2.E_CreateDataNodeCommand_Command,
			&proto2.CreateDataNodeCommand{HTTPAddr: proto.String(h), TCPAddr: proto.String(t), Role: proto.String(""), Az: proto.String("")})
	case "CreateSqlNode":
		h, g := c.host(a.N)
		return mcWrap(proto2.Command_CreateSqlNodeCommand, proto2.E_CreateSqlNodeCommand_Command,
			&proto2.CreateSqlNodeCommand{HTTPAddr: proto.String(h), GossipAddr: proto.String(g)})
	case "CreateDbPtView":
		return mcWrap(proto2.Command_CreateDbPtViewCommand, proto2.E_CreateDbPtViewCommand_Command,
			&proto2.CreateDbPtViewCommand{DbName: proto.String(db), ReplicaNum: proto.Uint32(uint32(a.A))})
	case "UpdateReplication":
		v := &proto2.UpdateReplicationCommand{Database: proto.String(db), RepGroupId: proto.Uint32(uint32(a.A)), MasterId: proto.Uint32(uint32(a.B))}
		for _, p := range a.L {
			v.Peers = append(v.Peers, &proto2.Peer{ID: proto.Uint32(uint32(p)), Role: proto.Uint32(uint32(meta2.Slave))})
		}
		return mcWrap(proto2.Command_UpdateReplicationCommand, proto2.E_UpdateReplicationCommand_Command, v)
	case "CreateDatabase":
		v := &proto2.CreateDatabaseCommand{Name: proto.String(db), ReplicaNum: proto.Uint32(uint32(a.L[0]))}
		if a.Rp != "" {
			v.RetentionPolicy = c.rpInfo(rp, a.A, a.B, a.L[0])
		}
		return mcWrap(proto2.Command_CreateDatabaseCommand, proto2.E_CreateDatabaseCommand_Command, v)
	case "MarkDatabaseDelete":
		return mcWrap(proto2.Command_MarkDatabaseDeleteCommand, proto2.E_MarkDatabaseDeleteCommand_Command,
			&proto2.MarkDatabaseDeleteCommand{Name: proto.String(db)})
	case "DropDatabase":
		return mcWrap(proto2.Command_DropDatabaseCommand, proto2.E_DropDatabaseCommand_Command,
			&proto2.DropDatabaseCommand{Name: proto.String(db)})
	case "CreateRetentionPolicy":
		return mcWrap(proto2.Command_CreateRetentionPolicyCommand, proto2.E_CreateRetentionPolicyCommand_Command,
			&proto2.CreateRetentionPolicyCommand{Database: proto.String(db), RetentionPolicy: c.rpInfo(rp, a.A, a.B, a.L[1]), DefaultRP: proto.Bool(a.L[0] == 1)})
	case "UpdateRetentionPolicy":
		v := &proto2.UpdateRetentionPolicyCommand{Database: proto.String(db), Name: proto.String(rp), MakeDefault: proto.Bool(a.L[0] == 1)}
		if a.A != 0 {
			v.ShardGroupDuration = proto.Int64(int64(time.Duration(a.A) * mcTick))
		}
		if a.B != -1 {
			v.Duration = proto.Int64(int64(time.Duration(a.B) * mcTick))
		}
		return mcWrap(proto2.Command_UpdateRetentionPolicyCommand, proto2.E_UpdateRetentionPolicyCommand_Command, v)
	case "MarkRetentionPolicyDelete":
		return mcWrap(proto2.Command_MarkRetentionPolicyDeleteCommand, proto2.E_MarkRetentionPolicyDeleteCommand_Command,
			&proto2.MarkRetentionPolicyDeleteCommand{Database: proto.String(db), Name: proto.String(rp)})
	case "DropRetentionPolicy":
		return mcWrap(proto2.Command_DropRetentionPolicyCommand, proto2.E_DropRetentionPolicyCommand_Command,
			&proto2.DropRetentionPolicyCommand{Database: proto.String(db), Name: proto.String(rp)})
	case "SetDefaultRetentionPolicy":
		return mcWrap(proto2.Command_SetDefaultRetentionPolicyCommand, proto2.E_SetDefaultRetentionPolicyCommand_Command,
			&proto2.SetDefaultRetentionPolicyCommand{Database: proto.String(db), Name: proto.String(rp)})
	case "CreateMeasurement":
		return mcWrap(proto2.Command_CreateMeasurementCommand, proto2.E_CreateMeasurementCommand_Command,
			&proto2.CreateMeasurementCommand{DBName: proto.String(db), RpName: proto.String(rp), Name: proto.String(c.conc(a.N)),
				Ski:        &proto2.ShardKeyInfo{ShardKey: mcShardKeys[a.A], Type: proto.String(mcShardType(a.B))},
				EngineType: proto.Uint32(uint32(config.TSSTORE)), InitNumOfShards: proto.Int32(0)})
	case "MarkMeasurementDelete":
		return mcWrap(proto2.Command_MarkMeasurementDeleteCommand, proto2.E_MarkMeasurementDeleteCommand_Command,
			&proto2.MarkMeasurementDeleteCommand{Database: proto.String(db), Policy: proto.String(rp), Measurement: proto.String(c.conc(a.N))})
	case "DropMeasurement":
		return mcWrap(proto2.Command_DropMeasurementCommand, proto2.E_DropMeasurementCommand_Command,
			&proto2.DropMeasurementCommand{Database: proto.String(db), Policy: proto.String(rp),
				Measurement: proto.String(influx.GetNameWithVersion(c.conc(a.N), uint32(a.A)))})
	case "CreateShardGroup":
		return mcWrap(proto2.Command_CreateShardGroupCommand, proto2.E_CreateShardGroupCommand_Command,
			&proto2.CreateShardGroupCommand{Database: proto.String(db), Policy: proto.String(rp), Timestamp: proto.Int64(c.tm(a.A).UnixNano()),
				ShardTier: proto.Uint64(2), EngineType: proto.Uint32(uint32(a.B)), Version: proto.Uint32(0)})
	case "DeleteShardGroup":
		return mcWrap(proto2.Command_DeleteShardGroupCommand, proto2.E_DeleteShardGroupCommand_Command,
			&proto2.DeleteShardGroupCommand{Database: proto.String(db), Policy: proto.String(rp), ShardGroupID: proto.Uint64(uint64(a.A)),
				DeleteType: proto.Int32(meta2.MarkDelete)})
	case "PruneGroups":
		return mcWrap(proto2.Command_PruneGroupsCommand, proto2.E_PruneGroupsCommand_Command,
			&proto2.PruneGroupsCommand{ShardGroup: proto.Bool(true), ID: proto.Uint64(uint64(a.A))})
	case "CreateUser":
		return mcWrap(proto2.Command_CreateUserCommand, proto2.E_CreateUserCommand_Command,
			&proto2.CreateUserCommand{Name: proto.String(c.conc(a.N)), Hash: proto.String("hash-" + a.N), Admin: proto.Bool(a.A == 1), RwUser: proto.Bool(false)})
	case "DropUser":
		return mcWrap(proto2.Command_DropUserCommand, proto2.E_DropUserCommand_Command, &proto2.DropUserCommand{Name: proto.String(c.conc(a.N))})
	case "SetPrivilege":
		return mcWrap(proto2.Command_SetPrivilegeCommand, proto2.E_SetPrivilegeCommand_Command,
			&proto2.SetPrivilegeCommand{Username: proto.String(c.conc(a.N)), Database: proto.String(db), Privilege: proto.Int32(int32(a.A))})
	}
	return nil, fmt.Errorf("unknown op %q", a.Op)
}

// ---- unmodelled command types ("Opaque" steps of the specification) ---------------------------------
//
// The specification says about them only that the modelled part of the catalogue does not change. The
// harness builds a command of the kind with arguments drawn from the live catalogue (names of the
// universe, so existing and absent objects both occur; identifiers a little beyond the ones handed out)
// and judges it instance against instance: every instance must return the same and hold the same
// catalogue, also through snapshot and restore; a command that fails must leave the catalogue unchanged;
// the structural invariants must hold.
const mcOpaqueKinds = 15 // = OpaqueKinds of MetaCatalog.tla

func (c *mcConc) opaque(A *meta2.Data, k int64, sclean bool) ([]byte, string, *mcSubOp, error) {
	rng := c.rng
	pick := func(l []string) string {
		if len(l) == 0 {
			return ""
		}
		return l[rng.Intn(len(l))]
	}
	db, rp, mst := c.conc(pick(c.dbs)), c.conc(pick(c.rps)), c.conc(pick(c.msts))
	if k == 13 && sclean { // the model's PruneGroups takes schemas as empty: schemas only with schema-clean off
		k = 14
	}
	switch k {
	case 0:
		v := &proto2.CreateSubscriptionCommand{Name: proto.String(fmt.Sprintf("sub%d", rng.Intn(2))), Database: proto.String(db), RetentionPolicy: proto.String(rp),
			Mode: proto.String([]string{"ALL", "ANY"}[rng.Intn(2)]), Destinations: []string{fmt.Sprintf("udp://127.0.0.1:%d", 9000+rng.Intn(2))}}
		raw, err := mcWrap(proto2.Command_CreateSubscriptionCommand, proto2.E_CreateSubscriptionCommand_Command, v)
		return raw, fmt.Sprintf("CreateSubscription %s %s.%s", v.GetName(), db, rp),
			&mcSubOp{create: true, db: db, rp: rp, name: v.GetName(), mode: v.GetMode(), dests: v.GetDestinations()}, err
	case 1:
		name := fmt.Sprintf("sub%d", rng.Intn(2))
		if rng.Intn(6) == 0 {
			name = "" // all subscriptions of the database
		}
		raw, err := mcWrap(proto2.Command_DropSubscriptionCommand, proto2.E_DropSubscriptionCommand_Command,
			&proto2.DropSubscriptionCommand{Name: proto.String(name), Database: proto.String(db), RetentionPolicy: proto.String(rp)})
		return raw, fmt.Sprintf("DropSubscription %q %s.%s", name, db, rp), &mcSubOp{db: db, rp: rp, name: name}, err
	case 2:
		name := fmt.Sprintf("cq%d", rng.Intn(2))
		q := fmt.Sprintf("CREATE CONTINUOUS QUERY %s ON %s BEGIN SELECT mean(v) INTO m_%d FROM %s GROUP BY time(1h) END", name, db, rng.Intn(2), mst)
		raw, err := mcWrap(proto2.Command_CreateContinuousQueryCommand, proto2.E_CreateContinuousQueryCommand_Command,
			&proto2.CreateContinuousQueryCommand{Database: proto.String(db), Name: proto.String(name), Query: proto.String(q)})
		return raw, "CreateContinuousQuery " + name + " ON " + db, nil, err
	case 3:
		name := fmt.Sprintf("cq%d", rng.Intn(2))
		raw, err := mcWrap(proto2.Command_DropContinuousQueryCommand, proto2.E_DropContinuousQueryCommand_Command,
			&proto2.DropContinuousQueryCommand{Name: proto.String(name), Database: proto.String(db)})
		return raw, "DropContinuousQuery " + name + " ON " + db, nil, err
	case 4:
		v := &proto2.ContinuousQueryReportCommand{}
		for i := 0; i < 2; i++ {
			v.CQStates = append(v.CQStates, &proto2.CQState{Name: proto.String(fmt.Sprintf("cq%d", i)), LastRunTime: proto.Int64(c.tm(int64(rng.Intn(8))).UnixNano())})
		}
		raw, err := mcWrap(proto2.Command_ContinuousQueryReportCommand, proto2.E_ContinuousQueryReportCommand_Command, v)
		return raw, "ContinuousQueryReport", nil, err
	case 5:
		raw, err := mcWrap(proto2.Command_NotifyCQLeaseChangedCommand, proto2.E_NotifyCQLeaseChangedCommand_Command, &proto2.NotifyCQLeaseChangedCommand{})
		return raw, "NotifyCQLeaseChanged", nil, err
	case 6:
		u := c.conc(fmt.Sprintf("u%d", 1+rng.Intn(2)))
		raw, err := mcWrap(proto2.Command_UpdateUserCommand, proto2.E_UpdateUserCommand_Command,
			&proto2.UpdateUserCommand{Name: proto.String(u), Hash: proto.String(fmt.Sprintf("hash-x%d", rng.Intn(2)))})
		return raw, "UpdateUser " + u, nil, err
	case 7:
		h := fmt.Sprintf("127.0.1.%d:8086", 1+rng.Intn(3))
		raw, err := mcWrap(proto2.Command_RegisterQueryIDOffsetCommand, proto2.E_RegisterQueryIDOffsetCommand_Command, &proto2.RegisterQueryIDOffsetCommand{Host: proto.String(h)})
		return raw, "RegisterQueryIDOffset " + h, nil, err
	case 8:
		id := uint64(1 + rng.Intn(int(A.MaxShardID)+2))
		raw, err := mcWrap(proto2.Command_UpdateShardInfoTierCommand, proto2.E_UpdateShardInfoTierCommand_Command,
			&proto2.UpdateShardInfoTierCommand{ShardID: proto.Uint64(id), Tier: proto.Uint64(uint64(1 + rng.Intn(3))), DbName: proto.String(db), RpName: proto.String(rp)})
		return raw, fmt.Sprintf("UpdateShardInfoTier %d %s.%s", id, db, rp), nil, err
	case 9:
		id := uint64(1 + rng.Intn(int(A.MaxIndexID)+2))
		raw, err := mcWrap(proto2.Command_UpdateIndexInfoTierCommand, proto2.E_UpdateIndexInfoTierCommand_Command,
			&proto2.UpdateIndexInfoTierCommand{IndexID: proto.Uint64(id), Tier: proto.Uint64(uint64(1 + rng.Intn(3))), DbName: proto.String(db), RpName: proto.String(rp)})
		return raw, fmt.Sprintf("UpdateIndexInfoTier %d %s.%s", id, db, rp), nil, err
	case 10:
		raw, err := mcWrap(proto2.Command_MarkTakeoverCommand, proto2.E_MarkTakeoverCommand_Command, &proto2.MarkTakeoverCommand{Enable: proto.Bool(rng.Intn(2) == 0)})
		return raw, "MarkTakeover", nil, err
	case 11:
		raw, err := mcWrap(proto2.Command_MarkBalancerCommand, proto2.E_MarkBalancerCommand_Command, &proto2.MarkBalancerCommand{Enable: proto.Bool(rng.Intn(2) == 0)})
		return raw, "MarkBalancer", nil, err
	case 12:
		pt := uint32(rng.Intn(int(A.ClusterPtNum) + 2))
		raw, err := mcWrap(proto2.Command_UpdatePtVersionCommand, proto2.E_UpdatePtVersionCommand_Command, &proto2.UpdatePtVersionCommand{Db: proto.String(db), Pt: proto.Uint32(pt)})
		return raw, fmt.Sprintf("UpdatePtVersion %s %d", db, pt), nil, err
	case 13:
		f := &proto2.FieldSchema{FieldName: proto.String(fmt.Sprintf("f%d", rng.Intn(2))), FieldType: proto.Int32([]int32{1, 3}[rng.Intn(2)])}
		raw, err := mcWrap(proto2.Command_UpdateSchemaCommand, proto2.E_UpdateSchemaCommand_Command,
			&proto2.UpdateSchemaCommand{Database: proto.String(db), RpName: proto.String(rp), Measurement: proto.String(mst), FieldToCreate: []*proto2.FieldSchema{f}})
		return raw, fmt.Sprintf("UpdateSchema %s.%s.%s %s:%d", db, rp, mst, f.GetFieldName(), f.GetFieldType()), nil, err
	case 14:
		id := uint64(1 + rng.Intn(int(A.MaxShardID)+2))
		v := &proto2.ShardIdentifier{ShardID: proto.Uint64(id), ShardGroupID: proto.Uint64(uint64(1 + rng.Intn(int(A.MaxShardGroupID)+1))), OwnerDb: proto.String(db),
			OwnerPt: proto.Uint32(0), Policy: proto.String(rp), ShardType: proto.String(meta2.HASH), DownSampleLevel: proto.Int64(int64(rng.Intn(3))),
			DownSampleID: proto.Uint64(uint64(rng.Intn(2))), ReadOnly: proto.Bool(rng.Intn(2) == 0)}
		raw, err := mcWrap(proto2.Command_UpdateShardDownSampleInfoCommand, proto2.E_UpdateShardDownSampleInfoCommand_Command, &proto2.UpdateShardDownSampleInfoCommand{Ident: v})
		return raw, fmt.Sprintf("UpdateShardDownSampleInfo %d %s.%s", id, db, rp), nil, err
	}
	return nil, "", nil, fmt.Errorf("unknown opaque kind %d", k)
}

// mcSubShadow is the deviation model of clone_shares_subscriptions: RetentionPolicyInfo.Clone copies the
// slice HEADER of Subscriptions, so the snapshot object reads the live catalogue's backing array when it is
// marshalled later. The model replays the subscription commands on slices of the same element type with
// the same built-in operations the catalogue code uses (append / reslice), copies the headers at Snapshot
// and reads them at Persist: Go's own slice semantics give the exact prediction.
type mcSubOp struct {
	create       bool
	db, rp, name string
	mode         string
	dests        []string
}

type mcSubShadow struct {
	live      map[string][]meta2.SubscriptionInfo // db \x00 rp -> the replica's slice
	snap      map[string][]meta2.SubscriptionInfo // headers as copied by Clone at Snapshot
	atPersist map[string][]meta2.SubscriptionInfo // what Marshal read through those headers at Persist
	maxID     uint64                              // the replica's MaxSubscriptionID: one more per successful command
}

func mcNewSubShadow() *mcSubShadow {
	return &mcSubShadow{live: map[string][]meta2.SubscriptionInfo{}, snap: map[string][]meta2.SubscriptionInfo{}, atPersist: map[string][]meta2.SubscriptionInfo{}}
}

// apply mirrors Data.CreateSubscription / DropSubscription for a command that returned ok
func (s *mcSubShadow) apply(op *mcSubOp) {
	key := op.db + "\x00" + op.rp
	s.maxID++
	switch {
	case op.create:
		s.live[key] = append(s.live[key], meta2.SubscriptionInfo{Name: op.name, Mode: op.mode, Destinations: op.dests})
	case op.name == "": // all subscriptions of the database
		for k := range s.live {
			if strings.HasPrefix(k, op.db+"\x00") {
				s.live[k] = s.live[k][:0]
			}
		}
	default:
		l := s.live[key]
		for i := range l {
			if l[i].Name == op.name {
				s.live[key] = append(l[:i], l[i+1:]...)
				break
			}
		}
	}
}

// sync drops the policies that left the catalogue (their slices go with them)
func (s *mcSubShadow) sync(d *meta2.Data) {
	for k := range s.live {
		p := strings.SplitN(k, "\x00", 2)
		if dbi := d.Databases[p[0]]; dbi == nil || dbi.RetentionPolicies[p[1]] == nil {
			delete(s.live, k)
		}
	}
}

func (s *mcSubShadow) snapshot() {
	s.snap = map[string][]meta2.SubscriptionInfo{}
	for k, l := range s.live {
		s.snap[k] = l // header copy, as `other := rpi` does
	}
}

func (s *mcSubShadow) persist() {
	s.atPersist = map[string][]meta2.SubscriptionInfo{}
	for k, l := range s.snap {
		s.atPersist[k] = append([]meta2.SubscriptionInfo(nil), l...)
	}
}

// resetFrom: the replica was replaced by an unmarshalled catalogue (fresh slices of exactly the length)
func (s *mcSubShadow) resetFrom(d *meta2.Data) {
	s.live = map[string][]meta2.SubscriptionInfo{}
	s.maxID = d.MaxSubscriptionID
	for db, dbi := range d.Databases {
		for rp, rpi := range dbi.RetentionPolicies {
			if len(rpi.Subscriptions) > 0 {
				l := make([]meta2.SubscriptionInfo, len(rpi.Subscriptions))
				copy(l, rpi.Subscriptions)
				s.live[db+"\x00"+rp] = l
			}
		}
	}
}

func mcSubsEqual(a, b []meta2.SubscriptionInfo) bool {
	if len(a) != len(b) {
		return false
	}
	for i := range a {
		if a[i].Name != b[i].Name || a[i].Mode != b[i].Mode || strings.Join(a[i].Destinations, ",") != strings.Join(b[i].Destinations, ",") {
			return false
		}
	}
	return true
}

// ---- applying a command to real meta.Data (level 1) ------------------------------------------------

// mcApply is storeFSM.executeCmd on a bare meta.Data: the dispatch of store_fsm.go's applyFunc table for
// the modelled command types. Returns the handler's return value (nil / error), or a panic text.
func mcApply(d *meta2.Data, raw []byte) (err error, panicked string) {
	defer func() {
		if r := recover(); r != nil {
			panicked = fmt.Sprint(r)
		}
	}()
	var cmd proto2.Command
	if e := proto.Unmarshal(raw, &cmd); e != nil {
		return nil, "cannot unmarshal command: " + e.Error()
	}
	switch cmd.GetType() {
	case proto2.Command_CreateDataNodeCommand:
		d.ExpandShardsEnable = false // fsm.config.ExpandShardsEnable (default)
		return meta2.ApplyCreateDataNode(d, &cmd), ""
	case proto2.Command_CreateSqlNodeCommand: // storeFSM.applyCreateSqlNodeCommand
		ext, _ := proto.GetExtension(&cmd, proto2.E_CreateSqlNodeCommand_Command)
		v := ext.(*proto2.CreateSqlNodeCommand)
		if n := d.SqlNodeByHttpHost(v.GetHTTPAddr()); n != nil {
			d.MaxConnID++
			n.ConnID = d.MaxConnID
			return nil, ""
		}
		d.ExpandShardsEnable = false
		_, e := d.CreateSqlNode(v.GetHTTPAddr(), v.GetGossipAddr())
		return e, ""
	case proto2.Command_CreateDbPtViewCommand:
		return meta2.ApplyCreateDbPtViewCommand(d, &cmd), ""
	case proto2.Command_UpdateReplicationCommand:
		return meta2.ApplyUpdateReplication(d, &cmd, nil), ""
	case proto2.Command_CreateDatabaseCommand: // storeFSM.applyCreateDatabaseCommand, retention-autocreate = false
		ext, _ := proto.GetExtension(&cmd, proto2.E_CreateDatabaseCommand_Command)
		v := ext.(*proto2.CreateDatabaseCommand)
		var rp *meta2.RetentionPolicyInfo
		rpi := v.GetRetentionPolicy()
		repN := v.GetReplicaNum()
		if repN == 0 {
			repN = 1
		}
		if rpi != nil {
			rp = &meta2.RetentionPolicyInfo{
				Name:               rpi.GetName(),
				ReplicaN:           int(rpi.GetReplicaN()),
				Duration:           time.Duration(rpi.GetDuration()),
				ShardGroupDuration: time.Duration(rpi.GetShardGroupDuration()),
				HotDuration:        time.Duration(rpi.GetHotDuration()),
				WarmDuration:       time.Duration(rpi.GetWarmDuration()),
				IndexColdDuration:  time.Duration(rpi.GetIndexColdDuration()),
				IndexGroupDuration: time.Duration(rpi.GetIndexGroupDuration()),
				ShardMergeDuration: time.Duration(rpi.GetShardMergeDuration())}
		}
		return d.CreateDatabase(v.GetName(), rp, v.GetSki(), v.GetEnableTagArray(), repN, v.GetOptions()), ""
	case proto2.Command_MarkDatabaseDeleteCommand:
		return meta2.ApplyMarkDatabaseDelete(d, &cmd), ""
	case proto2.Command_DropDatabaseCommand: // storeFSM.applyDropDatabaseCommand (no continuous queries in the model)
		ext, _ := proto.GetExtension(&cmd, proto2.E_DropDatabaseCommand_Command)
		v := ext.(*proto2.DropDatabaseCommand)
		dbi := d.Database(v.GetName())
		if dbi == nil {
			return nil, ""
		}
		if len(dbi.ContinuousQueries) > 0 { // (the store's cq name list / schedule is not part of the catalogue)
			d.MaxCQChangeID++
		}
		d.DropDatabase(v.GetName())
		return nil, ""
	case proto2.Command_CreateRetentionPolicyCommand:
		return meta2.ApplyCreateRetentionPolicy(d, &cmd), ""
	case proto2.Command_UpdateRetentionPolicyCommand:
		return meta2.ApplyUpdateRetentionPolicy(d, &cmd), ""
	case proto2.Command_MarkRetentionPolicyDeleteCommand:
		return meta2.ApplyMarkRetentionPolicyDelete(d, &cmd), ""
	case proto2.Command_DropRetentionPolicyCommand:
		return meta2.ApplyDropRetentionPolicy(d, &cmd), ""
	case proto2.Command_SetDefaultRetentionPolicyCommand:
		return meta2.ApplySetDefaultRetentionPolicy(d, &cmd), ""
	case proto2.Command_CreateMeasurementCommand:
		return meta2.ApplyCreateMeasurement(d, &cmd), ""
	case proto2.Command_MarkMeasurementDeleteCommand:
		return meta2.ApplyMarkMeasurementDelete(d, &cmd), ""
	case proto2.Command_DropMeasurementCommand:
		return meta2.ApplyDropMeasurement(d, &cmd), ""
	case proto2.Command_CreateShardGroupCommand:
		return meta2.ApplyCreateShardGroup(d, &cmd), ""
	case proto2.Command_DeleteShardGroupCommand:
		return meta2.ApplyDeleteShardGroup(d, &cmd), ""
	case proto2.Command_PruneGroupsCommand:
		return meta2.ApplyPruneGroups(d, &cmd), ""
	case proto2.Command_CreateUserCommand:
		return meta2.ApplyCreateUser(d, &cmd), ""
	case proto2.Command_DropUserCommand:
		return meta2.ApplyDropUser(d, &cmd), ""
	case proto2.Command_SetPrivilegeCommand:
		return meta2.ApplySetPrivilege(d, &cmd), ""
	// ---- unmodelled types (Opaque steps)
	case proto2.Command_CreateSubscriptionCommand:
		return meta2.ApplyCreateSubscription(d, &cmd), ""
	case proto2.Command_DropSubscriptionCommand:
		return meta2.ApplyDropSubscription(d, &cmd), ""
	case proto2.Command_CreateContinuousQueryCommand: // storeFSM.applyCreateContinuousQueryCommand
		ext, _ := proto.GetExtension(&cmd, proto2.E_CreateContinuousQueryCommand_Command)
		v := ext.(*proto2.CreateContinuousQueryCommand)
		return d.CreateContinuousQuery(v.GetDatabase(), v.GetName(), v.GetQuery()), ""
	case proto2.Command_DropContinuousQueryCommand: // storeFSM.applyDropContinuousQueryCommand
		ext, _ := proto.GetExtension(&cmd, proto2.E_DropContinuousQueryCommand_Command)
		v := ext.(*proto2.DropContinuousQueryCommand)
		_, e := d.DropContinuousQuery(v.GetName(), v.GetDatabase())
		return e, ""
	case proto2.Command_ContinuousQueryReportCommand:
		return meta2.ApplyContinuousQueryReport(d, &cmd), ""
	case proto2.Command_NotifyCQLeaseChangedCommand: // storeFSM.applyNotifyCQLeaseChangedCommand
		d.MaxCQChangeID++
		return nil, ""
	case proto2.Command_UpdateUserCommand:
		return meta2.ApplyUpdateUser(d, &cmd), ""
	case proto2.Command_RegisterQueryIDOffsetCommand:
		return meta2.ApplyRegisterQueryIDOffset(d, &cmd), ""
	case proto2.Command_UpdateShardInfoTierCommand:
		return meta2.ApplyUpdateShardInfoTier(d, &cmd), ""
	case proto2.Command_UpdateIndexInfoTierCommand:
		return meta2.ApplyUpdateIndexInfoTier(d, &cmd), ""
	case proto2.Command_MarkTakeoverCommand: // storeFSM.applyMarkTakeoverCommand
		ext, _ := proto.GetExtension(&cmd, proto2.E_MarkTakeoverCommand_Command)
		d.MarkTakeover(ext.(*proto2.MarkTakeoverCommand).GetEnable())
		return nil, ""
	case proto2.Command_MarkBalancerCommand: // storeFSM.applyMarkBalancerCommand
		ext, _ := proto.GetExtension(&cmd, proto2.E_MarkBalancerCommand_Command)
		d.MarkBalancer(ext.(*proto2.MarkBalancerCommand).GetEnable())
		return nil, ""
	case proto2.Command_UpdatePtVersionCommand:
		return meta2.ApplyUpdatePtVersion(d, &cmd), ""
	case proto2.Command_UpdateSchemaCommand:
		return meta2.ApplyUpdateSchema(d, &cmd), ""
	case proto2.Command_UpdateShardDownSampleInfoCommand:
		return meta2.ApplyUpdateShardDownSampleInfo(d, &cmd), ""
	}
	return nil, fmt.Sprintf("command type %v not dispatched by the harness", cmd.GetType())
}

func mcRetText(err error, panicked string) string {
	if panicked != "" {
		return "panic: " + panicked
	}
	if err == nil {
		return "ok"
	}
	return "error: " + err.Error()
}

// mcClassify maps a handler's return to the specification's return classes.
func mcClassify(err error, panicked string) string {
	if panicked != "" {
		return "panic"
	}
	if err == nil {
		return "ok"
	}
	msg := err.Error()
	switch {
	case errno.Equal(err, errno.DatabaseNotFound):
		return "db_not_found"
	case errno.Equal(err, errno.DatabaseIsBeingDelete), strings.HasPrefix(msg, "can't create same DB Name"):
		return "db_being_deleted"
	case errno.Equal(err, errno.NoMstInDb):
		return "no_mst"
	case errno.Equal(err, errno.DataNoAlive):
		return "no_alive_node"
	case errno.Equal(err, errno.ErrMeasurementNotFound):
		return "mst_not_found"
	case err == meta2.ErrStorageNodeNotReady:
		return "store_not_ready"
	case err == meta2.ErrRetentionPolicyIsBeingDelete:
		return "rp_being_deleted"
	case strings.HasPrefix(msg, "retention policy not found"):
		return "rp_not_found"
	case err == meta2.ErrRetentionPolicyConflict:
		return "rp_conflict"
	case err == meta2.ErrReplicaNConflict:
		return "replican_conflict"
	case err == meta2.ErrIncompatibleDurations:
		return "incompatible_durations"
	case err == meta2.ErrRetentionPolicyDurationTooLow:
		return "duration_too_low"
	case err == meta2.ErrMeasurementExists:
		return "mst_exists"
	case strings.HasPrefix(msg, "sharding type are not equal"): // ErrShardingTypeNotEqual
		return "shard_type_conflict"
	case errno.Equal(err, errno.ConflictWithRep):
		return "conflict_with_rep"
	case err == meta2.ErrUserExists:
		return "user_exists"
	case err == meta2.ErrUserNotFound:
		return "user_not_found"
	case err == meta2.ErrUserForbidden:
		return "user_forbidden"
	case err == meta2.ErrUserDropSelf:
		return "user_drop_self"
	}
	return "other: " + msg
}

func mcNewData(ppn uint32) *meta2.Data {
	// as meta.NewStore builds it; ppn = [meta] ptnum-pernode
	return &meta2.Data{Index: 1, PtNumPerNode: ppn, TakeOverEnabled: true, BalancerEnabled: true, NumOfShards: 0, UpdateNodeTmpIndexCommandStart: 1}
}

// ---- canonical dump of the whole catalogue (reflection) --------------------------------------------

var mcSkipFields = map[string]map[string]bool{
	// position in the log and incremental-sync bookkeeping: not part of the catalogue; configuration flag
	"Data": {"Term": true, "Index": true, "opsMapMu": true, "OpsMap": true, "OpsMapMinIndex": true, "OpsMapMaxIndex": true,
		"OpsToMarshalIndex": true, "UpdateNodeTmpIndexCommandStart": true, "SQLite": true, "ExpandShardsEnable": true},
	"MeasurementInfo": {"SchemaLock": true},
}

var mcTimeType = reflect.TypeOf(time.Time{})

func mcDumpValue(v reflect.Value, field string) interface{} {
	switch v.Kind() {
	case reflect.Ptr, reflect.Interface:
		if v.IsNil() {
			return nil
		}
		return mcDumpValue(v.Elem(), field)
	case reflect.Struct:
		if v.Type() == mcTimeType {
			if !v.CanInterface() {
				return "<unexported time>"
			}
			t := v.Interface().(time.Time)
			if field == "DeletedAt" { // wall-clock deletion stamps: set / unset
				if t.IsZero() {
					return "unset"
				}
				return "set"
			}
			return mcFmtTime(t)
		}
		if v.Type().PkgPath() == "sync" {
			return nil
		}
		out := map[string]interface{}{}
		skip := mcSkipFields[v.Type().Name()]
		for i := 0; i < v.NumField(); i++ {
			f := v.Type().Field(i)
			if skip[f.Name] || f.Type.PkgPath() == "sync" {
				continue
			}
			out[f.Name] = mcDumpValue(v.Field(i), f.Name)
		}
		return out
	case reflect.Map:
		out := map[string]interface{}{}
		it := v.MapRange()
		for it.Next() {
			out[fmt.Sprint(mcScalar(it.Key()))] = mcDumpValue(it.Value(), field)
		}
		return out
	case reflect.Slice, reflect.Array:
		out := make([]interface{}, 0, v.Len())
		for i := 0; i < v.Len(); i++ {
			out = append(out, mcDumpValue(v.Index(i), field))
		}
		return out
	case reflect.Func, reflect.Chan, reflect.UnsafePointer:
		return nil
	}
	return mcScalar(v)
}

func mcScalar(v reflect.Value) interface{} {
	switch v.Kind() {
	case reflect.Bool:
		return v.Bool()
	case reflect.Int, reflect.Int8, reflect.Int16, reflect.Int32, reflect.Int64:
		return v.Int()
	case reflect.Uint, reflect.Uint8, reflect.Uint16, reflect.Uint32, reflect.Uint64:
		return v.Uint()
	case reflect.Float32, reflect.Float64:
		return v.Float()
	case reflect.String:
		return v.String()
	}
	return fmt.Sprintf("<%s>", v.Kind())
}

func mcDump(d *meta2.Data) map[string]interface{} {
	return mcDumpValue(reflect.ValueOf(d), "").(map[string]interface{})
}

func mcEmpty(x interface{}) bool {
	switch t := x.(type) {
	case nil:
		return true
	case map[string]interface{}:
		return len(t) == 0
	case []interface{}:
		return len(t) == 0
	}
	return false
}

// mcDiff lists the paths at which two dumps differ; nil, empty map and empty slice are the same.
func mcDiff(a, b interface{}, path string, out *[]string) {
	if len(*out) > 40 {
		return
	}
	if mcEmpty(a) && mcEmpty(b) {
		return
	}
	switch ta := a.(type) {
	case map[string]interface{}:
		tb, ok := b.(map[string]interface{})
		if !ok {
			if mcEmpty(b) {
				tb = map[string]interface{}{}
			} else {
				*out = append(*out, fmt.Sprintf("%s: %v != %v", path, mcShort(a), mcShort(b)))
				return
			}
		}
		keys := map[string]bool{}
		for k := range ta {
			keys[k] = true
		}
		for k := range tb {
			keys[k] = true
		}
		ks := make([]string, 0, len(keys))
		for k := range keys {
			ks = append(ks, k)
		}
		sort.Strings(ks)
		for _, k := range ks {
			va, oka := ta[k]
			vb, okb := tb[k]
			if !oka || !okb {
				if mcEmpty(va) && mcEmpty(vb) { // absent key / empty value
					continue
				}
				*out = append(*out, fmt.Sprintf("%s/%s: %v != %v", path, k, mcPresent(oka, va), mcPresent(okb, vb)))
				continue
			}
			mcDiff(va, vb, path+"/"+k, out)
		}
		return
	case []interface{}:
		tb, ok := b.([]interface{})
		if !ok {
			if mcEmpty(b) {
				tb = nil
			} else {
				*out = append(*out, fmt.Sprintf("%s: %v != %v", path, mcShort(a), mcShort(b)))
				return
			}
		}
		if len(ta) != len(tb) {
			*out = append(*out, fmt.Sprintf("%s: len %d != len %d (%v != %v)", path, len(ta), len(tb), mcShort(a), mcShort(b)))
			return
		}
		for i := range ta {
			mcDiff(ta[i], tb[i], fmt.Sprintf("%s/%d", path, i), out)
		}
		return
	}
	if mcEmpty(a) { // a is nil, b is not empty
		*out = append(*out, fmt.Sprintf("%s: nil != %v", path, mcShort(b)))
		return
	}
	if !reflect.DeepEqual(a, b) {
		*out = append(*out, fmt.Sprintf("%s: %v != %v", path, mcShort(a), mcShort(b)))
	}
}

func mcPresent(ok bool, v interface{}) string {
	if !ok {
		return "<absent>"
	}
	return mcShort(v)
}

func mcShort(v interface{}) string {
	b, _ := json.Marshal(v)
	if len(b) > 160 {
		return string(b[:160]) + "..."
	}
	return string(b)
}

func mcDiffOf(a, b interface{}) []string {
	var out []string
	mcDiff(a, b, "", &out)
	return out
}

// ---- projection of the real catalogue onto the specification's state ------------------------------

func (c *mcConc) ticks(d time.Duration) int64 {
	if d%mcTick != 0 {
		return -999
	}
	return int64(d / mcTick)
}

func mcRgStatus(s meta2.RGStatus) string {
	switch s {
	case meta2.UnFull:
		return "unfull"
	case meta2.SubHealth:
		return "sub"
	}
	return "health"
}

// ghost: shard group id -> shard-group duration (ticks) of its policy when the group was first seen
func (c *mcConc) project(d *meta2.Data, ghost map[uint64]int64, sclean bool) map[string]interface{} {
	nodes := func(ns []meta2.DataNode) []interface{} {
		out := []interface{}{}
		for i := range ns {
			h := ns[i].Host
			if h == "" {
				h = ns[i].TCPHost // sql nodes carry their http address in TCPHost
			}
			out = append(out, map[string]interface{}{"id": ns[i].ID, "host": c.absHost(h), "conn": ns[i].ConnID})
		}
		return out
	}
	p := map[string]interface{}{
		"nodes": nodes(d.DataNodes), "sql": nodes(d.SqlNodes),
		"maxNode": d.MaxNodeID, "maxConn": d.MaxConnID, "ptNum": d.ClusterPtNum,
		"maxSG": d.MaxShardGroupID, "maxSh": d.MaxShardID, "maxMst": d.MaxMstID, "maxIG": d.MaxIndexGroupID, "maxIdx": d.MaxIndexID,
		"sclean": sclean, "rgmap": d.ReplicaGroups != nil, "ppn": d.PtNumPerNode,
	}
	ptv, rgs, dbs := map[string]interface{}{}, map[string]interface{}{}, map[string]interface{}{}
	for _, adb := range c.dbs {
		ptv[adb], rgs[adb] = []interface{}{}, []interface{}{}
		dbs[adb] = c.noDb()
	}
	for name, view := range d.PtView {
		l := []interface{}{}
		for i := range view {
			l = append(l, map[string]interface{}{"owner": view[i].Owner.NodeID, "rg": view[i].RGID})
		}
		ptv[c.abstract(name)] = l
	}
	for name, gs := range d.ReplicaGroups {
		l := []interface{}{}
		for i := range gs {
			peers := []interface{}{}
			for _, pr := range gs[i].Peers {
				peers = append(peers, pr.ID)
			}
			l = append(l, map[string]interface{}{"id": gs[i].ID, "master": gs[i].MasterPtID, "peers": peers, "st": mcRgStatus(gs[i].Status)})
		}
		rgs[c.abstract(name)] = l
	}
	for name, dbi := range d.Databases {
		rps := map[string]interface{}{}
		for _, arp := range c.rps {
			rps[arp] = c.noRp()
		}
		for rname, rpi := range dbi.RetentionPolicies {
			mv := map[string]interface{}{}
			for _, am := range c.msts {
				mv[am] = int64(-1)
			}
			for m, ver := range rpi.MstVersions {
				mv[c.abstract(m)] = int64(ver.Version)
			}
			ms := []interface{}{}
			for key, msti := range rpi.Measurements {
				origin := influx.GetOriginMstName(key)
				var ver int64 = -1
				fmt.Sscanf(key[len(origin)+1:], "%d", &ver)
				sk, skg, ty := int64(-1), int64(-1), ""
				if len(msti.ShardKeys) == 1 {
					sk = int64(len(msti.ShardKeys[0].ShardKey))
					skg = int64(msti.ShardKeys[0].ShardGroup)
				}
				if len(msti.ShardKeys) > 0 { // what createShards / validMeasurementShardType read
					ty = msti.ShardKeys[0].Type
				}
				n := c.abstract(origin)
				if key != msti.Name || origin != msti.OriginName() {
					n = "?" + key + "/" + msti.Name
				}
				ms = append(ms, map[string]interface{}{"n": n, "v": ver, "id": msti.ID, "mark": msti.MarkDeleted, "sk": sk, "skg": skg, "ty": ty})
			}
			sgs := []interface{}{}
			for i := range rpi.ShardGroups {
				g := &rpi.ShardGroups[i]
				shards := []interface{}{}
				for j := range g.Shards {
					shards = append(shards, map[string]interface{}{"id": g.Shards[j].ID, "ix": g.Shards[j].IndexID, "mdel": g.Shards[j].MarkDelete})
				}
				sgs = append(sgs, map[string]interface{}{"id": g.ID, "s": c.tick(g.StartTime), "e": c.tick(g.EndTime), "del": g.Deleted(),
					"eng": int64(g.EngineType), "d": ghost[g.ID], "shards": shards})
			}
			igs := []interface{}{}
			for i := range rpi.IndexGroups {
				g := &rpi.IndexGroups[i]
				idxs := []interface{}{}
				for j := range g.Indexes {
					idxs = append(idxs, g.Indexes[j].ID)
				}
				igs = append(igs, map[string]interface{}{"id": g.ID, "s": c.tick(g.StartTime), "e": c.tick(g.EndTime), "eng": int64(g.EngineType), "idxs": idxs})
			}
			arp := c.abstract(rname)
			if rname != rpi.Name {
				arp = "?" + rname + "/" + rpi.Name
			}
			rps[arp] = map[string]interface{}{"ex": true, "mark": rpi.MarkDeleted, "dur": c.ticks(rpi.Duration), "sgd": c.ticks(rpi.ShardGroupDuration),
				"igd": c.ticks(rpi.IndexGroupDuration), "repn": int64(rpi.ReplicaN), "mv": mv, "ms": ms, "sgs": sgs, "igs": igs}
		}
		adb := c.abstract(name)
		if name != dbi.Name {
			adb = "?" + name + "/" + dbi.Name
		}
		dbs[adb] = map[string]interface{}{"ex": true, "mark": dbi.MarkDeleted, "def": c.abstract(dbi.DefaultRetentionPolicy), "repn": int64(dbi.ReplicaN), "rps": rps}
	}
	p["ptv"], p["rgs"], p["dbs"] = ptv, rgs, dbs
	users := []interface{}{}
	for i := range d.Users {
		privs := map[string]interface{}{}
		for _, adb := range c.dbs {
			privs[adb] = int64(0)
		}
		for db, pr := range d.Users[i].Privileges {
			privs[c.abstract(db)] = int64(pr)
		}
		users = append(users, map[string]interface{}{"n": c.abstract(d.Users[i].Name), "admin": d.Users[i].Admin, "privs": privs})
	}
	p["users"] = users
	return p
}

func (c *mcConc) noRp() map[string]interface{} {
	mv := map[string]interface{}{}
	for _, am := range c.msts {
		mv[am] = int64(-1)
	}
	return map[string]interface{}{"ex": false, "mark": false, "dur": int64(0), "sgd": int64(0), "igd": int64(0), "repn": int64(0),
		"mv": mv, "ms": []interface{}{}, "sgs": []interface{}{}, "igs": []interface{}{}}
}

func (c *mcConc) noDb() map[string]interface{} {
	rps := map[string]interface{}{}
	for _, arp := range c.rps {
		rps[arp] = c.noRp()
	}
	return map[string]interface{}{"ex": false, "mark": false, "def": "", "repn": int64(0), "rps": rps}
}

// mcCanon renders a projection / specification state as canonical JSON: numbers as integers, the "ms" sets
// sorted by (n, v).
func mcCanonTree(x interface{}, key string) interface{} {
	switch t := x.(type) {
	case map[string]interface{}:
		out := map[string]interface{}{}
		for k, v := range t {
			out[k] = mcCanonTree(v, k)
		}
		return out
	case []interface{}:
		out := make([]interface{}, len(t))
		for i := range t {
			out[i] = mcCanonTree(t[i], "")
		}
		if key == "ms" {
			sort.Slice(out, func(i, j int) bool {
				a, b := out[i].(map[string]interface{}), out[j].(map[string]interface{})
				if a["n"] != b["n"] {
					return fmt.Sprint(a["n"]) < fmt.Sprint(b["n"])
				}
				return a["v"].(int64) < b["v"].(int64)
			})
		}
		return out
	case float64:
		return int64(t)
	case uint64:
		return int64(t)
	case uint32:
		return int64(t)
	case int:
		return int64(t)
	case int32:
		return int64(t)
	}
	return x
}

func mcDecodeState(raw json.RawMessage) (interface{}, error) {
	var x interface{}
	if err := json.Unmarshal(raw, &x); err != nil {
		return nil, err
	}
	return mcCanonTree(x, ""), nil
}

func mcJSON(x interface{}) string {
	b, _ := json.Marshal(x)
	return string(b)
}

// universes: keys of the specification's state
func (c *mcConc) learnUniverse(st interface{}) {
	m := st.(map[string]interface{})
	dbs := m["dbs"].(map[string]interface{})
	c.dbs, c.rps, c.msts = nil, nil, nil
	for d, dv := range dbs {
		c.dbs = append(c.dbs, d)
		if c.rps == nil {
			for r, rv := range dv.(map[string]interface{})["rps"].(map[string]interface{}) {
				c.rps = append(c.rps, r)
				if c.msts == nil {
					for mm := range rv.(map[string]interface{})["mv"].(map[string]interface{}) {
						c.msts = append(c.msts, mm)
					}
				}
			}
		}
	}
	sort.Strings(c.dbs)
	sort.Strings(c.rps)
	sort.Strings(c.msts)
	for _, l := range [][]string{c.dbs, c.rps, c.msts} { // concretise in a fixed order
		for _, a := range l {
			c.conc(a)
		}
	}
}

// ---- the C16 invariants on the real structure -------------------------------------------------------

type mcIdHistory struct {
	ever map[string]map[uint64]bool // kind -> ids ever observed
	cur  map[string]map[uint64]bool
	// measurement versions (name_NNNN) observed in a policy since the policy exists: db \x00 rp -> keys
	everV map[string]map[string]bool
	curV  map[string]map[string]bool
}

func mcNewIdHistory() *mcIdHistory {
	return &mcIdHistory{ever: map[string]map[uint64]bool{}, cur: map[string]map[uint64]bool{},
		everV: map[string]map[string]bool{}, curV: map[string]map[string]bool{}}
}

func mcCollectIds(d *meta2.Data) (map[string][]uint64, map[string]map[uint64]bool) {
	l := map[string][]uint64{}
	add := func(k string, id uint64) { l[k] = append(l[k], id) }
	for i := range d.DataNodes {
		add("node", d.DataNodes[i].ID)
	}
	for i := range d.SqlNodes {
		add("node", d.SqlNodes[i].ID)
	}
	for i := range d.MetaNodes {
		add("node", d.MetaNodes[i].ID)
	}
	for _, dbi := range d.Databases {
		for _, rpi := range dbi.RetentionPolicies {
			for _, m := range rpi.Measurements {
				add("mst", m.ID)
			}
			for i := range rpi.ShardGroups {
				add("sg", rpi.ShardGroups[i].ID)
				for j := range rpi.ShardGroups[i].Shards {
					add("sh", rpi.ShardGroups[i].Shards[j].ID)
				}
			}
			for i := range rpi.IndexGroups {
				add("ig", rpi.IndexGroups[i].ID)
				for j := range rpi.IndexGroups[i].Indexes {
					add("ix", rpi.IndexGroups[i].Indexes[j].ID)
				}
			}
		}
	}
	s := map[string]map[uint64]bool{}
	for k, ids := range l {
		s[k] = map[uint64]bool{}
		for _, id := range ids {
			s[k][id] = true
		}
	}
	return l, s
}

// mcInvariants evaluates the C16 invariants on the real catalogue; returns invariant name -> detail.
func mcInvariants(d *meta2.Data, hist *mcIdHistory, ghostDur map[uint64]time.Duration) map[string]string {
	bad := map[string]string{}
	set := func(k, v string) {
		if _, ok := bad[k]; !ok {
			bad[k] = v
		}
	}
	// IdsUnique
	lists, sets := mcCollectIds(d)
	for k, ids := range lists {
		if len(ids) != len(sets[k]) {
			set("IdsUnique", fmt.Sprintf("duplicate %s id among %v", k, ids))
		}
	}
	// IdsNeverReused: an id that appears now, was not present before this command, but was seen earlier
	for k, cur := range sets {
		for id := range cur {
			if !hist.cur[k][id] && hist.ever[k][id] {
				set("IdsNeverReused", fmt.Sprintf("%s id %d handed out again", k, id))
			}
		}
	}
	hist.cur = sets
	for k, cur := range sets {
		if hist.ever[k] == nil {
			hist.ever[k] = map[uint64]bool{}
		}
		for id := range cur {
			hist.ever[k][id] = true
		}
	}
	// VersionsNeverReused: a measurement version that appears now, was not there before this command, but was
	// seen earlier in the life of this policy
	nowV := map[string]map[string]bool{}
	for dbName, dbi := range d.Databases {
		for rpName, rpi := range dbi.RetentionPolicies {
			key := dbName + "\x00" + rpName
			nowV[key] = map[string]bool{}
			for k := range rpi.Measurements {
				nowV[key][k] = true
				if !hist.curV[key][k] && hist.everV[key][k] {
					set("VersionsNeverReused", fmt.Sprintf("%s.%s: measurement version %s handed out again", dbName, rpName, k))
				}
			}
		}
	}
	for key := range hist.everV {
		if _, ok := nowV[key]; !ok { // the version counters of a policy go with the policy
			delete(hist.everV, key)
		}
	}
	for key, cur := range nowV {
		if hist.everV[key] == nil {
			hist.everV[key] = map[string]bool{}
		}
		for k := range cur {
			hist.everV[key][k] = true
		}
	}
	hist.curV = nowV
	nodeIDs := map[uint64]bool{}
	for i := range d.DataNodes {
		nodeIDs[d.DataNodes[i].ID] = true
	}
	for db, view := range d.PtView {
		for i := range view {
			if !nodeIDs[view[i].Owner.NodeID] {
				set("RefsValid", fmt.Sprintf("partition %d of %s is owned by node %d which does not exist", i, db, view[i].Owner.NodeID))
			}
			if uint32(i) != view[i].PtId {
				set("RefsValid", fmt.Sprintf("partition at position %d of %s has id %d", i, db, view[i].PtId))
			}
		}
	}
	for dbName, dbi := range d.Databases {
		// DefaultPolicyExists
		if dbi.DefaultRetentionPolicy != "" {
			if _, ok := dbi.RetentionPolicies[dbi.DefaultRetentionPolicy]; !ok {
				set("DefaultPolicyExists", fmt.Sprintf("database %s: default policy %q does not exist", dbName, dbi.DefaultRetentionPolicy))
			}
		}
		for rpName, rpi := range dbi.RetentionPolicies {
			where := dbName + "." + rpName
			// RefsValid
			idx := map[uint64]bool{}
			for i := range rpi.IndexGroups {
				for j := range rpi.IndexGroups[i].Indexes {
					idx[rpi.IndexGroups[i].Indexes[j].ID] = true
				}
			}
			for i := range rpi.ShardGroups {
				g := &rpi.ShardGroups[i]
				for j := range g.Shards {
					if !idx[g.Shards[j].IndexID] {
						set("RefsValid", fmt.Sprintf("%s: shard %d refers to index %d which is in no index group of the policy", where, g.Shards[j].ID, g.Shards[j].IndexID))
					}
					for _, o := range g.Shards[j].Owners {
						if int(o) >= len(d.PtView[dbName]) {
							set("RefsValid", fmt.Sprintf("%s: shard %d is owned by partition %d; the database has %d partitions", where, g.Shards[j].ID, o, len(d.PtView[dbName])))
						}
					}
					if len(g.Shards[j].Owners) == 0 {
						set("RefsValid", fmt.Sprintf("%s: shard %d has no owner", where, g.Shards[j].ID))
					}
				}
			}
			for m, ver := range rpi.MstVersions { // a version entry names its measurement consistently
				if ver.NameWithVersion != influx.GetNameWithVersion(m, ver.Version) {
					set("RefsValid", fmt.Sprintf("%s: version entry of %s is %s/%d", where, m, ver.NameWithVersion, ver.Version))
				}
			}
			// GroupsDisjointAlignedSorted
			if !sort.IsSorted(meta2.ShardGroupInfos(rpi.ShardGroups)) {
				set("GroupsDisjointAlignedSorted", where+": shard groups are not sorted")
			}
			for i := range rpi.ShardGroups {
				g := &rpi.ShardGroups[i]
				if _, ok := ghostDur[g.ID]; !ok {
					ghostDur[g.ID] = rpi.ShardGroupDuration
				}
				dur := ghostDur[g.ID]
				if !g.StartTime.Before(g.EndTime) {
					set("GroupsDisjointAlignedSorted", fmt.Sprintf("%s: group %d spans [%s, %s)", where, g.ID, mcFmtTime(g.StartTime), mcFmtTime(g.EndTime)))
				} else if dur > 0 && !g.StartTime.Truncate(dur).Equal(g.EndTime.Add(-1).Truncate(dur)) {
					set("GroupsDisjointAlignedSorted", fmt.Sprintf("%s: group %d [%s, %s) is not inside one window of its duration %s", where, g.ID, mcFmtTime(g.StartTime), mcFmtTime(g.EndTime), dur))
				}
				if g.Deleted() {
					continue
				}
				for j := i + 1; j < len(rpi.ShardGroups); j++ {
					h := &rpi.ShardGroups[j]
					if h.Deleted() || h.EngineType != g.EngineType {
						continue
					}
					if g.StartTime.Before(h.EndTime) && h.StartTime.Before(g.EndTime) {
						set("GroupsDisjointAlignedSorted", fmt.Sprintf("%s: live groups %d [%s, %s) and %d [%s, %s) overlap", where,
							g.ID, mcFmtTime(g.StartTime), mcFmtTime(g.EndTime), h.ID, mcFmtTime(h.StartTime), mcFmtTime(h.EndTime)))
					}
				}
			}
		}
	}
	return bad
}

// which as-implemented deviation explains a violated invariant
var mcInvDev = map[string][]string{
	"GroupsDisjointAlignedSorted": {"groups_not_clipped"},
	"DefaultPolicyExists":         {"drop_rp_keeps_default"},
}

// ---- instance C: maps re-created in shuffled insertion order ---------------------------------------

func mcShuffleKeys(rng *rand.Rand, keys []string) []string {
	sort.Strings(keys)
	rng.Shuffle(len(keys), func(i, j int) { keys[i], keys[j] = keys[j], keys[i] })
	return keys
}

func mcReorderMap(rng *rand.Rand, mv reflect.Value) {
	if mv.Kind() != reflect.Map || mv.IsNil() || mv.Len() < 2 {
		return
	}
	keys := mv.MapKeys()
	sort.Slice(keys, func(i, j int) bool { return fmt.Sprint(keys[i].Interface()) < fmt.Sprint(keys[j].Interface()) })
	rng.Shuffle(len(keys), func(i, j int) { keys[i], keys[j] = keys[j], keys[i] })
	nm := reflect.MakeMapWithSize(mv.Type(), mv.Len())
	for _, k := range keys {
		nm.SetMapIndex(k, mv.MapIndex(k))
	}
	mv.Set(nm)
}

func mcShuffle(d *meta2.Data, rng *rand.Rand) {
	re := func(p interface{}) { mcReorderMap(rng, reflect.ValueOf(p).Elem()) }
	re(&d.Databases)
	re(&d.PtView)
	re(&d.ReplicaGroups)
	re(&d.Streams)
	re(&d.MigrateEvents)
	re(&d.QueryIDInit)
	for _, dbi := range d.Databases {
		re(&dbi.RetentionPolicies)
		re(&dbi.ContinuousQueries)
		for _, rpi := range dbi.RetentionPolicies {
			re(&rpi.Measurements)
			re(&rpi.MstVersions)
			for _, m := range rpi.Measurements {
				re(&m.ShardIdexes)
				if m.Schema != nil {
					re(m.Schema)
				}
			}
		}
	}
	for i := range d.Users {
		re(&d.Users[i].Privileges)
	}
}

// ---- level 2: the real storeFSM behind the verif hook ------------------------------------------------

type mcSink struct{ bytes.Buffer }

func (s *mcSink) ID() string    { return "verif" }
func (s *mcSink) Cancel() error { return nil }
func (s *mcSink) Close() error  { return nil }

// mcNet stands in for the store's network side (requests from ts-meta to the stores): the state
// machine's apply handlers start them asynchronously and do not wait for the result.
type mcNet struct{}

func (mcNet) GetShardSplitPoints(node *meta2.DataNode, database string, pt uint32, shardId uint64, idxes []int64) ([]string, error) {
	return nil, nil
}
func (mcNet) DeleteDatabase(node *meta2.DataNode, database string, pt uint32) error { return nil }
func (mcNet) DeleteRetentionPolicy(node *meta2.DataNode, db string, rp string, pt uint32) error {
	return nil
}
func (mcNet) DeleteMeasurement(node *meta2.DataNode, db string, rp string, name string, shardIds []uint64) error {
	return nil
}
func (mcNet) MigratePt(nodeID uint64, data transport.Codec, cb transport.Callback) error { return nil }
func (mcNet) SendSegregateNodeCmds(nodeIDs []uint64, address []string) (int, error)    { return 0, nil }
func (mcNet) TransferLeadership(database string, nodeId uint64, oldMasterPtId, newMasterPtId uint32) error {
	return nil
}
func (mcNet) SendClearEvents(nodeId uint64, data transport.Codec) error { return nil }

type mcFsm struct {
	store *metasrv.Store
	fsm   raft.FSM
	data  reflect.Value // method VerifData
	index uint64
	snap  raft.FSMSnapshot
	img   []byte
	last  error // the error value the last Apply returned (nil for ok / panic / other values)
}

func mcNewFsm(sclean bool, ppn uint32) *mcFsm {
	cfg := config.NewMeta()
	cfg.PtNumPerNode = ppn
	cfg.NumOfShards = 0
	cfg.RetentionAutoCreate = false
	cfg.ExpandShardsEnable = false
	cfg.UseIncSyncData = false
	cfg.SchemaCleanEn = sclean
	st := metasrv.NewStore(cfg, "127.0.0.1:8091", "127.0.0.1:8092", "127.0.0.1:8088")
	m := reflect.ValueOf(st).MethodByName("VerifFSM")
	dm := reflect.ValueOf(st).MethodByName("VerifData")
	if !m.IsValid() || !dm.IsValid() {
		return nil
	}
	st.Logger = logger.NewLogger(errno.ModuleMeta).SetZapLogger(zap.NewNop())
	st.NetStore = mcNet{}
	f, ok := m.Call(nil)[0].Interface().(raft.FSM)
	if !ok {
		return nil
	}
	return &mcFsm{store: st, fsm: f, data: dm, index: 1}
}

func (f *mcFsm) Data() *meta2.Data { return f.data.Call(nil)[0].Interface().(*meta2.Data) }

func (f *mcFsm) Apply(raw []byte) (ret string) {
	defer func() {
		if r := recover(); r != nil {
			ret = "panic: " + fmt.Sprint(r)
		}
	}()
	f.index++
	f.last = nil
	r := f.fsm.Apply(&raft.Log{Index: f.index, Term: 1, Type: raft.LogCommand, Data: raw})
	if r == nil {
		return "ok"
	}
	if e, ok := r.(error); ok {
		if e == nil {
			return "ok"
		}
		f.last = e
		return "error: " + e.Error()
	}
	return fmt.Sprintf("value: %v", r)
}

// ---- replay of one behaviour ------------------------------------------------------------------------

type mcRun struct {
	c       *mcConc
	res     *mcResult
	lineage string // both | design | impl
	fired   map[string]bool
}

func (r *mcRun) cloneFired() bool {
	for d := range r.fired {
		if strings.HasPrefix(d, "clone_") {
			return true
		}
	}
	return false
}

func (r *mcRun) fail(step int, action, tag, detail string) {
	if !r.res.OK {
		return
	}
	r.res.OK = false
	r.res.Step, r.res.Action, r.res.Tag, r.res.Detail = step, action, tag, detail
}

func (r *mcRun) known(dev, detail string) {
	if r.res.Devs == nil {
		r.res.Devs = map[string]string{}
	}
	if _, ok := r.res.Devs[dev]; !ok {
		if len(detail) > 600 {
			detail = detail[:600] + "..."
		}
		r.res.Devs[dev] = detail
	}
	r.fired[dev] = true
}

// parts of the projection the snapshot-sharing deviations may change
func mcSharedParts(p interface{}) string {
	m := p.(map[string]interface{})
	return mcJSON(map[string]interface{}{"rgs": m["rgs"], "ptv": m["ptv"], "sql": m["sql"]})
}

// mcAttributeReplica explains the differences between the dump of the reference instance (or of the
// reference at Snapshot time) and a restored instance by the snapshot deviations, exactly:
//
//	clone_drops_mst_id           ID of every measurement that was in the snapshot is 0 in the restored
//	                             instance, for all of them (those whose real ID is not 0 differ), nothing else;
//	clone_shares_replica_groups  differences below ReplicaGroups / PtView.*.RGID, and the restored
//	clone_shares_sql_nodes       below SqlNodes: replica groups, partition view and sql nodes equal the
//	                             specification's prediction for the as-implemented snapshot;
//	clone_shares_subscriptions   RetentionPolicies/*/Subscriptions of the restored instance are what the model
//	                             mcSubShadow predicts (slice header shared between snapshot and live catalogue);
//	cq_zero_lastrun_wraps        ContinuousQueries/*/LastRunTime is the zero time on the reference and
//	                             time.Unix(0, time.Time{}.UnixNano()) = 1754-08-30T22:43:41.128654848Z on the
//	                             restored instance (harness-level model: continuous queries are not in the
//	                             specification's state).
//
// Returns the deviations observed, or an error text.
func (r *mcRun) attributeReplica(diffs []string, ref, got map[string]interface{}, inSnapshot map[string]bool,
	gotProj interface{}, predicted []interface{}, gotData *meta2.Data, predSubs map[string][]meta2.SubscriptionInfo, predMaxSub uint64) ([]string, string) {
	devs := map[string]bool{}
	mstDiff := map[string]bool{}
	needShared, needFull := false, false
	for _, df := range diffs {
		path := df[:strings.Index(df, ": ")]
		seg := strings.Split(strings.TrimPrefix(path, "/"), "/")
		switch {
		case len(seg) == 7 && seg[0] == "Databases" && seg[2] == "RetentionPolicies" && seg[4] == "Measurements" && seg[6] == "ID":
			key := seg[1] + "|" + seg[3] + "|" + seg[5]
			if !inSnapshot[key] {
				return nil, "measurement id differs for a measurement that was not in the snapshot: " + df
			}
			mstDiff[key] = true
			devs["clone_drops_mst_id"] = true
		case seg[0] == "ReplicaGroups", len(seg) == 4 && seg[0] == "PtView" && seg[3] == "RGID":
			devs["clone_shares_replica_groups"] = true
			needShared = true
		case seg[0] == "SqlNodes":
			devs["clone_shares_sql_nodes"] = true
			needShared = true
		case len(seg) >= 5 && seg[0] == "Databases" && seg[2] == "RetentionPolicies" && seg[4] == "Subscriptions":
			// exact prediction: the subscriptions of this policy are what the snapshot's shared slice header showed
			// when it was marshalled (model mcSubShadow), and the restored node carried on from there
			var real []meta2.SubscriptionInfo
			if dbi := gotData.Databases[seg[1]]; dbi != nil && dbi.RetentionPolicies[seg[3]] != nil {
				real = dbi.RetentionPolicies[seg[3]].Subscriptions
			}
			if !mcSubsEqual(real, predSubs[seg[1]+"\x00"+seg[3]]) {
				return nil, fmt.Sprintf("subscriptions differ, not as the snapshot's shared slice predicts (%+v expected): %s", predSubs[seg[1]+"\x00"+seg[3]], df)
			}
			devs["clone_shares_subscriptions"] = true
		case seg[0] == "MaxSubscriptionID" && r.fired["clone_shares_subscriptions"]:
			// consequence: the commands after the snapshot found other subscriptions on the restored node
			if gotData.MaxSubscriptionID != predMaxSub {
				return nil, fmt.Sprintf("MaxSubscriptionID differs, not as the snapshot's shared slice predicts (%d expected): %s", predMaxSub, df)
			}
			devs["clone_shares_subscriptions"] = true
		case len(seg) == 5 && seg[0] == "Databases" && seg[2] == "ContinuousQueries" && seg[4] == "LastRunTime":
			// exact prediction: the reference's time is the zero time (the query never ran) and the restored one is
			// time.Unix(0, time.Time{}.UnixNano()), what ContinuousQueryInfo.Marshal / unmarshal make of it
			a, _ := mcDig(ref, seg...).(string)
			g, _ := mcDig(got, seg...).(string)
			if a != "0" || g != mcFmtTime(time.Unix(0, time.Time{}.UnixNano())) {
				return nil, "last run time of a continuous query differs, not as the int64 round trip of the zero time: " + df
			}
			devs["cq_zero_lastrun_wraps"] = true
		case len(seg) == 7 && seg[0] == "Databases" && seg[2] == "RetentionPolicies" && (seg[4] == "ShardGroups" || seg[4] == "IndexGroups") && seg[6] == "StartTime":
			// exact prediction: the reference's start is before MinNanoTime and the restored one is its int64 wrap-around
			a, _ := mcDig(ref, seg...).(string)
			g, _ := mcDig2(got, seg...).(string)
			ta, e1 := time.Parse(time.RFC3339Nano, a)
			if e1 != nil || !ta.Before(time.Unix(0, models.MinNanoTime)) || g != mcFmtTime(time.Unix(0, ta.UnixNano())) {
				return nil, "group start differs, not as the int64 wrap-around of a start before MinNanoTime: " + df
			}
			devs["snapshot_wraps_far_past_start"] = true
		case r.fired["snapshot_wraps_far_past_start"] && (seg[0] == "MaxShardGroupID" || seg[0] == "MaxShardID" || seg[0] == "MaxIndexGroupID" || seg[0] == "MaxIndexID" ||
			(len(seg) >= 5 && seg[0] == "Databases" && seg[2] == "RetentionPolicies" && (seg[4] == "ShardGroups" || seg[4] == "IndexGroups"))):
			// consequences of a group whose start wrapped around (it no longer contains its timestamps):
			// accepted only if the whole modelled state is the specification's prediction for the restored node
			devs["snapshot_wraps_far_past_start"] = true
			needFull = true
		default:
			return nil, "difference outside the deviation models: " + df
		}
	}
	if needFull {
		ok := false
		gs := mcJSON(mcNoRgmap(gotProj))
		for _, p := range predicted {
			if p != nil && mcJSON(mcNoRgmap(p)) == gs {
				ok = true
			}
		}
		if !ok {
			return nil, "state of the restored instance is not the deviation model's prediction: " + strings.Join(diffs, "; ")
		}
	}
	if devs["clone_drops_mst_id"] {
		// exactness: every snapshotted measurement still present must have lost its id (be 0)
		dbs, _ := got["Databases"].(map[string]interface{})
		rdbs, _ := ref["Databases"].(map[string]interface{})
		for key := range inSnapshot {
			p := strings.Split(key, "|")
			g := mcDig(dbs, p[0], "RetentionPolicies", p[1], "Measurements", p[2], "ID")
			a := mcDig(rdbs, p[0], "RetentionPolicies", p[1], "Measurements", p[2], "ID")
			if g == nil || a == nil {
				continue
			}
			if g.(uint64) != 0 {
				return nil, fmt.Sprintf("measurement %s was in the snapshot and kept id %v while others lost theirs", key, g)
			}
			if a.(uint64) != 0 && !mstDiff[key] {
				return nil, "inconsistent measurement id loss for " + key
			}
		}
	}
	if needShared {
		ok := false
		gs := mcSharedParts(gotProj)
		for _, p := range predicted {
			if p != nil && mcSharedParts(p) == gs {
				ok = true
			}
		}
		if !ok {
			return nil, "replica groups / partition view / sql nodes of the restored instance are not the deviation model's prediction: " + strings.Join(diffs, "; ")
		}
	}
	var out []string
	for d := range devs {
		out = append(out, d)
	}
	sort.Strings(out)
	return out, ""
}

// the part of the projection that the far-past wrap-around can change: everything except the parts owned
// by the other snapshot deviations (replica groups, partition view, sql nodes, measurement ids)
func mcNoRgmap(p interface{}) interface{} {
	var strip func(x interface{}, key string) interface{}
	strip = func(x interface{}, key string) interface{} {
		switch t := x.(type) {
		case map[string]interface{}:
			out := map[string]interface{}{}
			for k, v := range t {
				if key == "" && (k == "rgmap" || k == "rgs" || k == "ptv" || k == "sql") {
					continue
				}
				if key == "ms" && k == "id" {
					continue
				}
				nk := k
				if key == "ms" {
					nk = "ms-entry"
				}
				out[k] = strip(v, nk)
			}
			return out
		case []interface{}:
			out := make([]interface{}, len(t))
			for i := range t {
				out[i] = strip(t[i], key)
			}
			return out
		}
		return x
	}
	return strip(p, "")
}

func mcDig(m map[string]interface{}, path ...string) interface{} {
	var cur interface{} = m
	for _, k := range path {
		switch t := cur.(type) {
		case map[string]interface{}:
			v, ok := t[k]
			if !ok {
				return nil
			}
			cur = v
		case []interface{}:
			var i int
			if _, err := fmt.Sscanf(k, "%d", &i); err != nil || i < 0 || i >= len(t) {
				return nil
			}
			cur = t[i]
		default:
			return nil
		}
	}
	return cur
}

func mcDig2(m map[string]interface{}, path ...string) interface{} { return mcDig(m, path...) }

func mcMeasurementKeys(dump map[string]interface{}) map[string]bool {
	out := map[string]bool{}
	dbs, _ := dump["Databases"].(map[string]interface{})
	for db, dv := range dbs {
		rps, _ := mcDig(dv.(map[string]interface{}), "RetentionPolicies").(map[string]interface{})
		for rp, rv := range rps {
			ms, _ := mcDig(rv.(map[string]interface{}), "Measurements").(map[string]interface{})
			for m := range ms {
				out[db+"|"+rp+"|"+m] = true
			}
		}
	}
	return out
}

func mcFirst(raws []json.RawMessage) interface{} {
	if len(raws) == 0 {
		return nil
	}
	x, err := mcDecodeState(raws[0])
	if err != nil {
		return nil
	}
	return x
}

// mcExtra = number of plain extra instances (D1..Dn) fed the same log
const mcExtra = 3

// mcOutcome: what one instance did with a command, in the specification's terms
type mcOutcome struct {
	class string
	proj  string // canonical JSON of the projected catalogue
}

func mcReplayCase(cs *mcCase) (res mcResult) {
	res = mcResult{ID: cs.ID, OK: true, Lineage: "both"}
	defer func() {
		if r := recover(); r != nil {
			res.OK = false
			res.Infra = fmt.Sprintf("harness panic: %v", r)
		}
	}()
	if len(cs.Hist) == 0 {
		return
	}
	c := newMcConc(cs.Seed, cs.ID)
	run := &mcRun{c: c, res: &res, lineage: "both", fired: map[string]bool{}}
	st0, err := mcDecodeState(cs.Hist[0].St)
	if err != nil {
		res.OK, res.Infra = false, "cannot decode the specification's state: "+err.Error()
		return
	}
	c.learnUniverse(st0)
	sclean, _ := st0.(map[string]interface{})["sclean"].(bool)
	ppn := uint32(1)
	if v, ok := st0.(map[string]interface{})["ppn"].(int64); ok && v > 0 {
		ppn = uint32(v)
	}
	meta2.InitSchemaCleanEn(sclean)

	A, B, C := mcNewData(ppn), mcNewData(ppn), mcNewData(ppn)
	var Ds []*meta2.Data
	for k := 0; k < mcExtra; k++ {
		Ds = append(Ds, mcNewData(ppn))
	}
	F := mcNewFsm(sclean, ppn)
	res.Fsm = F != nil
	meta2.InitSchemaCleanEn(sclean)
	shuf := rand.New(rand.NewSource(cs.Seed*7919 + int64(cs.ID)))
	ids := mcNewIdHistory()
	ghostDur := map[uint64]time.Duration{}
	ghost := map[uint64]int64{}
	refreshGhost := func() {
		for id, d := range ghostDur {
			ghost[id] = c.ticks(d)
		}
	}
	projOf := func(d *meta2.Data) string { return mcJSON(mcCanonTree(c.project(d, ghost, sclean), "")) }

	var snapB *meta2.Data
	var snapDump map[string]interface{}
	var snapKeys map[string]bool
	var img []byte
	var tail [][]byte
	var tailRets []string
	phase := "none"      // none -> taken -> persisted -> none
	restoredOnce := false // B (and F) went through at least one restore
	restoredKeys := map[string]bool{}
	subs := mcNewSubShadow()
	var tailSubOps []*mcSubOp
	// for the commands after the snapshot whose as-implemented outcome depends on the map order: the predicted
	// outcomes and the one the reference took (the restored node applies them again and may take another)
	var tailAlts [][]mcOutcome
	var tailTaken []int

	var prevD interface{}
	for i := range cs.Hist {
		st := &cs.Hist[i]
		res.Steps++
		stD, err := mcDecodeState(st.St)
		if err != nil {
			res.OK, res.Infra = false, "cannot decode the specification's state: "+err.Error()
			return
		}
		if _, unchanged := stD.(int64); unchanged { // 0 = the design's state is the one after the previous step
			stD = prevD
		}
		prevD = stD
		// the as-implemented alternatives: [0] = the one the specification's lineage follows; more than one =
		// the as-implemented catalogue lets the runtime's map order decide
		var alt *mcAlt
		var stI interface{}
		var altJSON []string
		for k := range st.Alt {
			x, err := mcDecodeState(st.Alt[k].St)
			if err != nil {
				res.OK, res.Infra = false, "cannot decode the specification's alternative state: "+err.Error()
				return
			}
			if k == 0 {
				alt, stI = &st.Alt[0], x
			}
			altJSON = append(altJSON, mcJSON(x))
		}
		matchAlt := func(o mcOutcome) int {
			for k := range st.Alt {
				if (o.class == st.Alt[k].Exp || st.A == "Opaque") && o.proj == altJSON[k] {
					return k
				}
			}
			return -1
		}
		// the specification's prediction of A on the lineage the real code follows
		expectedA := func() interface{} {
			if run.lineage == "impl" && alt != nil {
				return stI
			}
			return stD
		}

		switch st.A {
		case "Snapshot":
			snapB = B.Clone() // storeFSM.Snapshot
			snapDump = mcDump(B)
			snapKeys = mcMeasurementKeys(snapDump)
			tail, tailRets, tailSubOps, tailAlts, tailTaken = nil, nil, nil, nil, nil
			subs.snapshot()
			phase = "taken"
			if F != nil {
				if F.snap, err = F.fsm.Snapshot(); err != nil {
					run.fail(i, st.A, "C15", "FSM.Snapshot: "+err.Error())
					return
				}
			}
			continue
		case "Persist":
			if img, err = snapB.MarshalBinary(); err != nil { // storeFSMSnapshot.Persist
				run.fail(i, st.A, "C15", "MarshalBinary of the snapshot: "+err.Error())
				return
			}
			subs.persist()
			phase = "persisted"
			if F != nil {
				sink := &mcSink{}
				if err = F.snap.Persist(sink); err != nil {
					run.fail(i, st.A, "C15", "FSMSnapshot.Persist: "+err.Error())
					return
				}
				F.img = append([]byte(nil), sink.Bytes()...)
			}
			continue
		case "Restore":
			nb := &meta2.Data{}
			if err = nb.UnmarshalBinary(img); err != nil { // storeFSM.Restore
				run.fail(i, st.A, "C15", "UnmarshalBinary of the snapshot: "+err.Error())
				return
			}
			nb.PtNumPerNode = ppn
			res.Restored = true
			// (1) what was persisted is the catalogue at the moment of Snapshot
			var predImg []interface{}
			if len(st.X) > 0 {
				if x, e := mcDecodeState(st.X[0].Img); e == nil {
					predImg = append(predImg, x)
				}
				if x := mcFirst(st.X[0].Imgi); x != nil {
					predImg = append(predImg, x)
				}
			}
			nbDump := mcDump(nb)
			res.DumpCmps++
			if diffs := mcDiffOf(snapDump, nbDump); len(diffs) > 0 {
				refreshGhost()
				devs, why := run.attributeReplica(diffs, snapDump, nbDump, snapKeys, mcCanonTree(c.project(nb, ghost, sclean), ""), predImg, nb, subs.atPersist, nb.MaxSubscriptionID)
				if why != "" {
					run.fail(i, st.A, "C15", "the restored snapshot is not the catalogue at Snapshot time: "+why+" | "+strings.Join(diffs, "; "))
					return
				}
				for _, dv := range devs {
					run.known(dv, "restored snapshot differs from the catalogue at Snapshot time: "+strings.Join(diffs, "; "))
				}
			}
			// (2) then the commands after the snapshot index are applied again
			subs.resetFrom(nb)
			parted := ""
			for k, raw := range tail {
				e, pn := mcApply(nb, raw)
				if tailSubOps[k] != nil && e == nil && pn == "" {
					subs.apply(tailSubOps[k])
				}
				subs.sync(nb)
				if k < len(tailAlts) && tailAlts[k] != nil && !run.cloneFired() {
					// known finding: this command's outcome depends on the map order; the restored node must take
					// exactly one of the predicted outcomes, not necessarily the reference's
					refreshGhost()
					o := mcOutcome{mcClassify(e, pn), projOf(nb)}
					ka := -1
					for j := range tailAlts[k] {
						if o == tailAlts[k][j] {
							ka = j
						}
					}
					if ka < 0 {
						run.fail(i, st.A, "C15", fmt.Sprintf("command %d after the snapshot, whose outcome depends on the map order, took none of the %d predicted outcomes on the restored node (class %s)", k, len(tailAlts[k]), o.class))
						return
					}
					if ka != tailTaken[k] {
						parted = fmt.Sprintf("step %d Restore: command %d after the snapshot took predicted outcome %d on the restored node, %d on the node that applied everything", i, k, ka, tailTaken[k])
						break
					}
					continue
				}
				if got := mcRetText(e, pn); got != tailRets[k] {
					if !run.cloneFired() {
						run.fail(i, st.A, "C15", fmt.Sprintf("command %d after the snapshot returns %q on the restored node, %q on the node that applied everything", k, got, tailRets[k]))
						return
					}
				}
			}
			if parted != "" {
				run.known("template_by_map_order", parted)
				res.Stopped = true
				res.Lineage = run.lineage
				return
			}
			B = nb
			for k := range snapKeys {
				restoredKeys[k] = true
			}
			phase = "none"
			restoredOnce = true
			if F != nil {
				if err = F.fsm.Restore(io.NopCloser(bytes.NewReader(F.img))); err != nil {
					run.fail(i, st.A, "C15", "FSM.Restore: "+err.Error())
					return
				}
				for k, raw := range tail {
					retF := F.Apply(raw)
					if k < len(tailAlts) && tailAlts[k] != nil && !run.cloneFired() {
						cl := "other: " + retF
						if retF == "ok" || F.last != nil {
							cl = mcClassify(F.last, "")
						}
						o := mcOutcome{cl, projOf(F.Data())}
						ka := -1
						for j := range tailAlts[k] {
							if o == tailAlts[k][j] {
								ka = j
							}
						}
						if ka < 0 {
							run.fail(i, st.A, "C15", fmt.Sprintf("command %d after the snapshot, whose outcome depends on the map order, took none of the %d predicted outcomes on the restored storeFSM (class %s)", k, len(tailAlts[k]), cl))
							return
						}
						if ka != tailTaken[k] {
							run.known("template_by_map_order", fmt.Sprintf("step %d Restore: command %d after the snapshot took predicted outcome %d on the restored storeFSM, %d on the node that applied everything", i, k, ka, tailTaken[k]))
							res.Stopped = true
							res.Lineage = run.lineage
							return
						}
					}
				}
			}
		default:
			opaque := st.A == "Opaque"
			var raw []byte
			var err error
			var subOp *mcSubOp
			if opaque {
				var what string
				if raw, what, subOp, err = c.opaque(A, st.Args.A, sclean); err == nil {
					st.Args.N = what // for the messages
				}
			} else {
				raw, err = c.build(st.Args)
			}
			if err != nil {
				res.OK, res.Infra = false, "cannot build command: "+err.Error()
				return
			}
			res.Cmds++
			pre := mcDump(A)
			eA, pA := mcApply(A, raw)
			retA := mcRetText(eA, pA)
			class := mcClassify(eA, pA)
			if phase == "taken" || phase == "persisted" {
				tail = append(tail, raw)
				tailRets = append(tailRets, retA)
				tailSubOps = append(tailSubOps, subOp)
			}
			if class == "panic" {
				// the process would be gone: nothing after this step can be judged
				if alt != nil && alt.Exp == "panic" && run.lineage != "design" {
					run.lineage = "impl"
					for _, dv := range alt.Fired {
						run.known(dv, fmt.Sprintf("step %d %s %+v: %s", i, st.A, st.Args, retA))
					}
					res.Stopped = true
					res.Lineage = run.lineage
					return
				}
				run.fail(i, st.A, "C16", fmt.Sprintf("%+v: %s (expected %s)", st.Args, retA, st.Exp))
				return
			}
			// ---- conformance of A with the specification (return class and projected state)
			mcInvariants(A, mcNewIdHistory(), ghostDur) // records creation durations
			refreshGhost()
			projA := mcCanonTree(c.project(A, ghost, sclean), "")
			pj := mcJSON(projA)
			outA := mcOutcome{class, pj}
			// (the specification does not say what an unmodelled command returns, only that the modelled state stays)
			matchD := (class == st.Exp || opaque) && pj == mcJSON(stD)
			kA := matchAlt(outA) // which as-implemented alternative the reference followed
			explain := func(exp string, want interface{}) string {
				d := mcDiffOf(want, projA)
				return fmt.Sprintf("%+v returned %q (class %s, expected %s); state differences (specification != real): %s", st.Args, retA, class, exp, strings.Join(d, "; "))
			}
			switch {
			case alt == nil || run.lineage == "design":
				if !matchD {
					run.fail(i, st.A, "spec", explain(st.Exp, stD))
					return
				}
			case run.lineage == "impl":
				if kA < 0 {
					run.fail(i, st.A, "spec", "(as-implemented lineage) "+explain(alt.Exp, stI))
					return
				}
				for _, dv := range alt.Fired {
					run.known(dv, fmt.Sprintf("step %d: %s", i, explain(st.Exp, stD)))
				}
			default: // both lineages possible so far, and they part here
				if matchD {
					run.lineage = "design"
				} else if kA >= 0 {
					run.lineage = "impl"
					for _, dv := range alt.Fired {
						run.known(dv, fmt.Sprintf("step %d: %s", i, explain(st.Exp, stD)))
					}
				} else {
					run.fail(i, st.A, "spec", explain(st.Exp, stD)+" | nor the as-implemented prediction: "+explain(alt.Exp, stI))
					return
				}
			}
			if phase == "taken" || phase == "persisted" { // (aligned with tail)
				var alts []mcOutcome
				if run.lineage == "impl" && len(st.Alt) > 1 {
					for k := range st.Alt {
						exp := st.Alt[k].Exp
						if opaque {
							exp = class
						}
						alts = append(alts, mcOutcome{exp, altJSON[k]})
					}
				}
				tailAlts = append(tailAlts, alts)
				tailTaken = append(tailTaken, kA)
			}
			// ---- C16 on the real structure
			res.InvEvals++
			for inv, detail := range mcInvariants(A, ids, ghostDur) {
				attributed := false
				for _, dv := range mcInvDev[inv] {
					if run.lineage == "impl" && run.fired[dv] {
						run.known(dv, fmt.Sprintf("step %d %s: %s violated on the real catalogue: %s", i, st.A, inv, detail))
						attributed = true
					}
				}
				if attributed {
					continue
				}
				run.fail(i, st.A, "C16", fmt.Sprintf("%s violated after %+v: %s", inv, st.Args, detail))
				return
			}
			if class != "ok" {
				res.Failed++
				if diffs := mcDiffOf(pre, mcDump(A)); len(diffs) > 0 {
					run.fail(i, st.A, "C16", fmt.Sprintf("FailedCommandIsNoop: %+v returned %q but changed the catalogue: %s", st.Args, retA, strings.Join(diffs, "; ")))
					return
				}
			}
			// ---- C15: the other instances
			eB, pB := mcApply(B, raw)
			if subOp != nil && eB == nil && pB == "" {
				subs.apply(subOp)
			}
			subs.sync(B)
			mcShuffle(C, shuf)
			eC, pC := mcApply(C, raw)
			retB, retC := mcRetText(eB, pB), mcRetText(eC, pC)
			outs := []mcOutcome{outA, {mcClassify(eC, pC), ""}}
			names := []string{"reference", "instance with shuffled maps"}
			insts := []*meta2.Data{A, C}
			retDs := make([]string, len(Ds))
			for k, D := range Ds {
				eD, pD := mcApply(D, raw)
				retDs[k] = mcRetText(eD, pD)
				outs = append(outs, mcOutcome{mcClassify(eD, pD), ""})
				names = append(names, fmt.Sprintf("fresh instance %d", k+1))
				insts = append(insts, D)
			}
			retF := ""
			if F != nil {
				retF = F.Apply(raw)
			}
			if run.lineage == "impl" && len(st.Alt) > 1 {
				// The as-implemented catalogue lets the map order decide (known finding): every instance must
				// have taken exactly one of the predicted outcomes. If they all took the one the specification
				// follows the behaviour goes on; otherwise the replicas have parted and nothing after this step
				// can be predicted.
				if !run.fired["shardtype_check_skips_same_name"] {
					run.fail(i, st.A, "spec", fmt.Sprintf("%+v: the specification predicts a map-order dependent outcome although no deviation that mixes sharding types has fired", st.Args))
					return
				}
				if !run.cloneFired() {
					outs = append(outs, mcOutcome{mcClassify(eB, pB), ""})
					names = append(names, "replica (phase "+phase+")")
					insts = append(insts, B)
					if F != nil {
						cl := "other: " + retF
						if retF == "ok" || F.last != nil {
							cl = mcClassify(F.last, "")
						}
						outs = append(outs, mcOutcome{cl, ""})
						names = append(names, "storeFSM instance")
						insts = append(insts, F.Data())
					}
				}
				taken := map[int]bool{}
				for k := range outs {
					if k > 0 {
						outs[k].proj = projOf(insts[k])
					}
					ka := matchAlt(outs[k])
					if ka < 0 {
						run.fail(i, st.A, "C15", fmt.Sprintf("%+v on a catalogue whose outcome depends on the map order: the %s (class %s) took none of the %d predicted outcomes; it differs from the reference in: %s",
							st.Args, names[k], outs[k].class, len(st.Alt), strings.Join(mcDiffOf(mcDump(A), mcDump(insts[k])), "; ")))
						return
					}
					taken[ka] = true
				}
				if len(taken) > 1 || !taken[0] {
					var ks []string
					for k := range outs {
						ks = append(ks, fmt.Sprintf("%s: outcome %d (%s)", names[k], matchAlt(outs[k]), outs[k].class))
					}
					run.known("template_by_map_order", fmt.Sprintf("step %d %+v: instances fed the same log part, each following one of the %d predicted outcomes: %s",
						i, st.Args, len(st.Alt), strings.Join(ks, "; ")))
					res.Stopped = true
					res.Lineage = run.lineage
					return
				}
			}
			if retC != retA {
				run.fail(i, st.A, "C15", fmt.Sprintf("%+v returns %q on the instance with shuffled maps, %q on the reference", st.Args, retC, retA))
				return
			}
			for k := range Ds {
				if retDs[k] != retA {
					run.fail(i, st.A, "C15", fmt.Sprintf("%+v returns %q on fresh instance %d fed the same log, %q on the reference", st.Args, retDs[k], k+1, retA))
					return
				}
			}
			if retB != retA && !(restoredOnce && run.cloneFired()) {
				run.fail(i, st.A, "C15", fmt.Sprintf("%+v returns %q on the replica (phase %s, restored %v), %q on the reference", st.Args, retB, phase, restoredOnce, retA))
				return
			}
			if F != nil && retF != retA {
				// (after a restore that carried a known snapshot deviation the FSM instance follows the replica)
				if !(restoredOnce && run.cloneFired() && retF == retB) {
					run.fail(i, st.A, "C15", fmt.Sprintf("%+v returns %q through storeFSM.Apply, %q through the apply functions (replica: %q)", st.Args, retF, retA, retB))
					return
				}
			}
		}
		// ---- C15: canonical dumps after the step
		dA := mcDump(A)
		if len(restoredKeys) > 0 { // a measurement that left the catalogue is no longer "the one from the snapshot"
			now := mcMeasurementKeys(dA)
			for k := range restoredKeys {
				if !now[k] {
					delete(restoredKeys, k)
				}
			}
		}
		res.DumpCmps += 2 + len(Ds)
		if diffs := mcDiffOf(dA, mcDump(C)); len(diffs) > 0 {
			run.fail(i, st.A, "C15", "instance with shuffled maps diverges from the reference: "+strings.Join(diffs, "; "))
			return
		}
		for k, D := range Ds {
			if diffs := mcDiffOf(dA, mcDump(D)); len(diffs) > 0 {
				run.fail(i, st.A, "C15", fmt.Sprintf("fresh instance %d fed the same log diverges from the reference: %s", k+1, strings.Join(diffs, "; ")))
				return
			}
		}
		if diffs := mcDiffOf(dA, mcDump(B)); len(diffs) > 0 {
			if !restoredOnce {
				run.fail(i, st.A, "C15", "replica (phase "+phase+") diverges from the reference: "+strings.Join(diffs, "; "))
				return
			}
			refreshGhost()
			var pred []interface{}
			if x := mcFirst(st.Bi); x != nil {
				pred = append(pred, x)
			}
			if x := mcFirst(st.B); x != nil {
				pred = append(pred, x)
			}
			pred = append(pred, expectedA())
			devs, why := run.attributeReplica(diffs, dA, mcDump(B), restoredKeys, mcCanonTree(c.project(B, ghost, sclean), ""), pred, B, subs.live, subs.maxID)
			if why != "" {
				run.fail(i, st.A, "C15", "restored node diverges from the node that applied everything: "+why+" | "+strings.Join(diffs, "; "))
				return
			}
			for _, dv := range devs {
				run.known(dv, fmt.Sprintf("step %d %s: restored node diverges from the node that applied everything: %s", i, st.A, strings.Join(diffs, "; ")))
			}
		}
		if F != nil {
			res.DumpCmps++
			ref := dA
			what := "storeFSM instance diverges from the apply-function instance: "
			if restoredOnce { // F went through snapshot/restore as B did
				ref = mcDump(B)
				what = "storeFSM instance restored through FSM.Snapshot/Persist/Restore diverges from the replica restored through Clone/Marshal/Unmarshal: "
			}
			if diffs := mcDiffOf(ref, mcDump(F.Data())); len(diffs) > 0 {
				run.fail(i, st.A, "C15", what+strings.Join(diffs, "; "))
				return
			}
		}
	}
	res.Lineage = run.lineage
	return
}

func replayMeta(args []string) int {
	meta2.DataLogger = zap.NewNop()
	_ = originql.AllPrivileges
	in := bufio.NewReaderSize(os.Stdin, 1<<20)
	out := bufio.NewWriter(os.Stdout)
	defer out.Flush()
	rc := 0
	dec := json.NewDecoder(in)
	for {
		var cs mcCase
		if err := dec.Decode(&cs); err != nil {
			if err == io.EOF {
				break
			}
			fmt.Fprintln(os.Stderr, "bad case:", err)
			return 2
		}
		res := mcReplayCase(&cs)
		if !res.OK {
			rc = 1
		}
		b, _ := json.Marshal(res)
		out.Write(b)
		out.WriteByte('\n')
		out.Flush()
	}
	return rc
}
