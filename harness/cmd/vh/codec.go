package main

// replay-codec (C07): every behaviour of specs/Codec.tla is one column shape (kind, null pattern, runs of value
// classes) with the block kind and the encoding mode the specification predicts for every segment, or one torn
// log file / truncated row batch with what a replay may deliver.  The harness draws concrete values for the
// classes (several draws per case) and pushes them through the REAL code:
//   block codecs        encoding.Encode*Block / Decode*Block on every segment of ColVal.Split, EncodeColumnHeader /
//                       DecodeColumnHeader
//   data file           immutable.MsBuilder.WriteData -> NewTSSPFile -> chunk meta, every segment by ReadAt, RowCount
//                       from the stored statistics, time ranges, trailer; the file re-opened from disk and iterated
//   record codec        record.Marshal / Unmarshal
//   row batches         influx.FastMarshalMultiRows / FastUnmarshalMultiRows, engine.WAL Write -> Replay
//   torn input          EVERY prefix of the log file in the cut class, every prefix of the batch in the cut class
// Verdict: bit inequality after decoding, an error or a panic.  The predicted mode is compared as drift only.

import (
	"bufio"
	"bytes"
	"context"
	"encoding/binary"
	"encoding/json"
	"flag"
	"fmt"
	"math"
	"math/rand"
	"os"
	"path/filepath"
	"reflect"
	"runtime/debug"
	"sort"
	"strings"
	"time"
	"unsafe"

	"github.com/golang/snappy"
	"github.com/openGemini/openGemini/engine"
	"github.com/openGemini/openGemini/engine/immutable"
	"github.com/openGemini/openGemini/lib/compress"
	"github.com/openGemini/openGemini/lib/config"
	"github.com/openGemini/openGemini/lib/encoding"
	"github.com/openGemini/openGemini/lib/fileops"
	"github.com/openGemini/openGemini/lib/logger"
	"github.com/openGemini/openGemini/lib/record"
	"github.com/openGemini/openGemini/lib/util"
	"github.com/openGemini/openGemini/lib/util/lifted/vm/protoparser/influx"
)

func init() { cmds["replay-codec"] = replayCodec }

// ------------------------------------------------------------------------------------------------ case format

type cdSegExp struct {
	Rows  int      `json:"rows"`
	Nils  int      `json:"nils"`
	Hdr   string   `json:"hdr"`
	Modes []string `json:"modes"`
}

type cdSegImpl struct {
	O     string   `json:"o"` // ok | panic | differs
	Modes []string `json:"modes"`
	Rows  []string `json:"rows"`
	Why   []string `json:"why"`
}

type cdStep struct {
	A     string          `json:"a"`
	Kind  string          `json:"kind"`
	Np    string          `json:"np"`
	Seg   int             `json:"seg"`
	Falgo string          `json:"falgo"`
	Salgo string          `json:"salgo"`
	C     string          `json:"c"`
	N     int             `json:"n"`
	J     int             `json:"j"`
	R     int             `json:"r"`
	W     string          `json:"w"`
	Exp   json.RawMessage `json:"exp"`
	Impl  json.RawMessage `json:"impl"`
}

type cdCase struct {
	ID    int      `json:"id"`
	Seed  int64    `json:"seed"`
	Draws int      `json:"draws"`
	Hist  []cdStep `json:"hist"`
}

type cdResult struct {
	ID      int               `json:"id"`
	OK      bool              `json:"ok"`
	Step    int               `json:"step"`
	Action  string            `json:"action,omitempty"`
	Detail  string            `json:"detail,omitempty"`
	Infra   string            `json:"infra,omitempty"`
	Known   []string          `json:"known,omitempty"`   // deviations of the specification that explain a divergence exactly
	KDetail map[string]string `json:"kdetail,omitempty"` // one example per deviation
	Unobs   []string          `json:"unobs,omitempty"`   // deviations that predicted a divergence the real code did not show
	Drift   []string          `json:"drift,omitempty"`
	Modes   map[string]int    `json:"modes,omitempty"` // coverage: "<codec>/<mode>" and "block/<kind>" reached
	Stats   map[string]int    `json:"stats,omitempty"`
	Hang    bool              `json:"hang,omitempty"`
}

func (r *cdResult) fail(step int, action, detail string) {
	if r.OK {
		r.OK = false
		r.Step = step
		r.Action = action
		if len(detail) > 3000 {
			detail = detail[:3000] + "..."
		}
		r.Detail = detail
	}
}

func (r *cdResult) known(dev, detail string) {
	for _, k := range r.Known {
		if k == dev {
			return
		}
	}
	r.Known = append(r.Known, dev)
	if r.KDetail == nil {
		r.KDetail = map[string]string{}
	}
	if len(detail) > 600 {
		detail = detail[:600] + "..."
	}
	r.KDetail[dev] = detail
}

func (r *cdResult) knownAll(devs []string, detail string) {
	if len(devs) == 0 {
		devs = []string{"unexplained"}
	}
	for _, d := range devs {
		r.known(d, detail)
	}
}

func cdHasValue(m map[int]string, v string) bool {
	for _, x := range m {
		if x == v {
			return true
		}
	}
	return false
}

func (r *cdResult) unobs(dev string) {
	for _, k := range r.Unobs {
		if k == dev {
			return
		}
	}
	r.Unobs = append(r.Unobs, dev)
}

func (r *cdResult) drift(s string) {
	if len(r.Drift) < 5 {
		r.Drift = append(r.Drift, s)
	}
}

func (r *cdResult) mode(k string) { r.Modes[k]++ }
func (r *cdResult) stat(k string) { r.Stats[k]++ }

// ------------------------------------------------------------------------------------------------ process profile

type cdProfile struct {
	falgo, salgo string
	cm           int
	dir          string
	scrubDir     string
	nfile        uint64
}

var cdProf cdProfile

// mode byte -> name, per codec
var cdModeNames = map[string]map[byte]string{
	"int":    {1: "const", 2: "s8b", 3: "zstd", 4: "raw"},
	"time":   {1: "const", 2: "s8b", 3: "snappy", 4: "raw"},
	"float":  {0: "raw", 1: "oldgorilla", 2: "snappy", 3: "gorilla", 4: "same", 5: "rle", 6: "mlf"},
	"string": {0: "raw", 1: "snappy", 2: "zstd", 3: "lz4"},
	"bool":   {1: "bitpack"},
}

func cdModeOf(kind string, block []byte) string {
	if len(block) == 0 {
		return "none"
	}
	if n, ok := cdModeNames[kind][block[0]>>4]; ok {
		return n
	}
	return fmt.Sprintf("unknown%d", block[0]>>4)
}

// ------------------------------------------------------------------------------------------------ concretisation

type cdCell struct {
	null bool
	cls  string // value class of the specification (float: resolved class)
	i    int64
	f    float64
	s    string
	b    bool
}

type cdColumn struct {
	kind  string
	typ   int
	cells []cdCell // rows
	times []int64
	// timeOverflow: a timestamp column whose deltas leave the int64 range (block level only)
	timeOverflow bool
}

func cdType(kind string) int {
	switch kind {
	case "int", "time":
		return influx.Field_Type_Int
	case "float":
		return influx.Field_Type_Float
	case "string":
		return influx.Field_Type_String
	case "bool":
		return influx.Field_Type_Boolean
	}
	return influx.Field_Type_Unknown
}

func zigzag(v int64) uint64 { return uint64(v<<1) ^ uint64(v>>63) }

const s8bMax = uint64(1)<<60 - 1

type cdRun struct {
	c string
	n int
}

func cdFlat(runs []cdRun) []string {
	var out []string
	for _, r := range runs {
		for i := 0; i < r.n; i++ {
			out = append(out, r.c)
		}
	}
	return out
}

func cdHas(toks []string, c string) bool {
	for _, t := range toks {
		if t == c {
			return true
		}
	}
	return false
}

func cdIntValues(toks []string, rng *rand.Rand) []cdCell {
	out := make([]cdCell, len(toks))
	var start int64
	switch {
	case cdHas(toks, "O"):
		start = math.MaxInt64 - rng.Int63n(1<<12)
	default:
		switch rng.Intn(8) {
		case 0:
			start = 0
		case 1:
			start = math.MaxInt64
		case 2:
			start = math.MinInt64
		case 3:
			start = -1
		case 4:
			start = int64(rng.Uint64())
		case 5:
			start = 1 << 53
		default:
			start = rng.Int63n(1<<40) - 1<<39
		}
	}
	consts := []int64{1, -1, 10, 1000, 60e9, -7}
	c := consts[rng.Intn(len(consts))]
	if rng.Intn(3) == 0 {
		c = rng.Int63n(1<<20) + 2
		if rng.Intn(2) == 0 {
			c = -c
		}
	}
	prev, prevDelta := start, int64(0)
	out[0] = cdCell{cls: "A", i: start}
	bflip := false
	for k := 1; k < len(toks); k++ {
		var d int64
		switch toks[k] {
		case "Z":
			d = 0
		case "C":
			d = c
		case "S":
			for {
				d = rng.Int63n(1<<uint(1+rng.Intn(30))) + 1
				if rng.Intn(2) == 0 {
					d = -d
				}
				if d != c && d != prevDelta {
					break
				}
			}
		case "M":
			d = -(1 << 59) // zig-zag = 2^60-1 = simple8b.MaxValue
		case "K":
			d = 1 << 61
		case "B":
			if bflip {
				d = -(1<<61 + 3)
			} else {
				d = 1<<61 + 7
			}
			bflip = !bflip
		case "X":
			for {
				d = int64(rng.Uint64()) - prev
				if zigzag(d) > s8bMax && d != prevDelta {
					break
				}
			}
		case "O":
			r := rng.Int63n(1 << 10)
			if prev > math.MaxInt64-(1<<20) {
				d = (math.MaxInt64 - prev) + 1 + r // crosses to the MinInt64 side, wrapped delta small
			} else if prev < math.MinInt64+(1<<20) {
				d = -((prev - math.MinInt64) + 1 + r)
			} else {
				d = r + 1
			}
			for d == prevDelta || d == c {
				d++
			}
		}
		prev += d // wraps
		prevDelta = d
		out[k] = cdCell{cls: toks[k], i: prev}
	}
	return out
}

// timestamps: strictly increasing while they fit int64
func cdTimeValues(toks []string, rng *rand.Rand) ([]cdCell, bool) {
	out := make([]cdCell, len(toks))
	var start int64
	big := cdHas(toks, "G") || cdHas(toks, "M")
	switch {
	case big:
		start = math.MinInt64 + 1 + rng.Int63n(1000)
	default:
		switch rng.Intn(5) {
		case 0:
			start = 0
		case 1:
			start = 1_600_000_000_000_000_000 + rng.Int63n(1e15)
		case 2:
			start = -rng.Int63n(1e18)
		case 3:
			start = rng.Int63n(1e9)
		default:
			start = 1_700_000_000_000_000_000
		}
	}
	steps := []uint64{1, 1e9, 15e9, 7, 1e3, 1e6, 60e9}
	c := steps[rng.Intn(len(steps))]
	if rng.Intn(4) == 0 {
		c = uint64(rng.Int63n(1<<30) + 1)
	}
	scale := uint64(1)
	for p := 3 + rng.Intn(7); p > 0; p-- {
		scale *= 10
	}
	prev := uint64(start)
	var prevDelta uint64
	overflow := false
	out[0] = cdCell{cls: "A", i: start}
	for k := 1; k < len(toks); k++ {
		var d uint64
		switch toks[k] {
		case "C":
			d = c
		case "T":
			for {
				d = uint64(rng.Int63n(1000)+1) * scale
				if d != prevDelta && d != c {
					break
				}
			}
		case "U":
			for {
				d = uint64(rng.Int63n(1<<uint(2+rng.Intn(29)))) | 1
				if d%10 == 0 {
					d += 2
				}
				if d != prevDelta && d != c {
					break
				}
			}
		case "M":
			d = s8bMax
		case "G":
			for {
				d = 1<<60 + uint64(rng.Int63n(1<<59))
				if d != prevDelta {
					break
				}
			}
		}
		next := prev + d
		if int64(next) <= int64(prev) {
			overflow = true
		}
		prev, prevDelta = next, d
		out[k] = cdCell{cls: toks[k], i: int64(next)}
	}
	return out, overflow
}

func cdIsInt(f float64) bool {
	if f >= 0 && f < (1<<32) {
		return float64(uint64(f)) == f
	}
	return math.Ceil(f) == f && math.Floor(f) == f
}

// the decimal precision lib/compress/mlf finds in a value (getPrecision / isIntV4, begin = 0); -1 = none.  The classes
// of the specification are predicates on the value: the draws are filtered with the code's own arithmetic.
func cdIsIntV4(f float64) bool {
	u := math.Float64bits(f)
	k := u>>52 - 1023
	k = 1<<(52-k) - 1
	u &= k
	return u < 8 || u == k
}

func cdMlfPrecision(f float64) int {
	f = math.Abs(f)
	p10 := 1.0
	for i := 0; i < 9; i++ {
		v := f * p10
		if v >= 1<<52 {
			break
		}
		if v >= 1 && cdIsIntV4(v) {
			return i
		}
		p10 *= 10
	}
	return -1
}

func cdFloatOf(cls string, rng *rand.Rand) float64 {
	switch cls {
	case "I":
		var v float64
		switch rng.Intn(4) {
		case 0:
			v = float64(rng.Int63n(1000) + 1)
		case 1:
			v = float64(rng.Int63n(1<<31) + 1)
		case 2:
			v = float64(rng.Int63n(1<<40) + 1)
		default:
			v = float64(rng.Int63n(100000) + 1)
		}
		if rng.Intn(3) == 0 {
			v = -v
		}
		return v
	case "L":
		for {
			k := rng.Int63n(10_000_000) + 1
			if k%1000 == 0 {
				continue
			}
			f := float64(k) / 1000
			if rng.Intn(3) == 0 {
				f = -f
			}
			if p := cdMlfPrecision(f); !cdIsInt(f) && cdIsInt(f*1000) && p >= 1 && p <= 3 {
				return f
			}
		}
	case "P":
		for {
			f := rng.Float64()*999 + 1
			if rng.Intn(3) == 0 {
				f = -f
			}
			if !cdIsInt(f) && !cdIsInt(f*1000) && cdMlfPrecision(f) == -1 {
				return f
			}
		}
	case "SUB":
		b := uint64(rng.Int63n(1<<52-1) + 1)
		if rng.Intn(2) == 0 {
			b |= 1 << 63
		}
		return math.Float64frombits(b)
	case "BIGF":
		return 0.9e308 + rng.Float64()*0.8e308
	case "PZ":
		return 0
	case "NZ":
		return math.Copysign(0, -1)
	case "NAN":
		b := uint64(0x7ff0000000000000) | uint64(rng.Int63n(1<<52-1)+1)
		if rng.Intn(2) == 0 {
			b |= 1 << 51 // quiet
		}
		if rng.Intn(2) == 0 {
			b |= 1 << 63
		}
		return math.Float64frombits(b)
	case "PINF":
		return math.Inf(1)
	case "NINF":
		return math.Inf(-1)
	}
	panic("float class " + cls)
}

func cdFloatValues(toks []string, rng *rand.Rand) []cdCell {
	out := make([]cdCell, len(toks))
	for k, t := range toks {
		if t == "E" {
			if k == 0 {
				out[k] = cdCell{cls: "I", f: cdFloatOf("I", rng)}
			} else {
				out[k] = cdCell{cls: out[k-1].cls, f: out[k-1].f}
			}
			continue
		}
		for {
			f := cdFloatOf(t, rng)
			fixed := t == "PZ" || t == "NZ" || t == "PINF" || t == "NINF"
			if k == 0 || fixed || math.Float64bits(f) != math.Float64bits(out[k-1].f) {
				out[k] = cdCell{cls: t, f: f}
				break
			}
		}
	}
	return out
}

func cdRandBytes(rng *rand.Rand, n int, text bool) string {
	b := make([]byte, n)
	if text {
		const al = "abcdefghijklmnopqrstuvwxyzABCDEFGHIJKLMNOPQRSTUVWXYZ0123456789 ,=\"\\\n\t\x00\xff"
		for i := range b {
			b[i] = al[rng.Intn(len(al))]
		}
	} else {
		rng.Read(b)
	}
	return string(b)
}

func cdStringValues(toks []string, rng *rand.Rand) []cdCell {
	out := make([]cdCell, len(toks))
	rep := cdRandBytes(rng, 8, true)
	var lg string
	for k, t := range toks {
		var s string
		switch t {
		case "EMP":
			s = ""
		case "SH":
			s = cdRandBytes(rng, 1+rng.Intn(15), rng.Intn(2) == 0)
		case "REP":
			s = rep
		case "RND":
			s = cdRandBytes(rng, 40, false)
		case "LG":
			if lg == "" || rng.Intn(2) == 0 {
				if rng.Intn(2) == 0 {
					lg = cdRandBytes(rng, 70000, false)
				} else {
					lg = strings.Repeat(cdRandBytes(rng, 7, true), 10000)
				}
			}
			s = lg
		}
		out[k] = cdCell{cls: t, s: s}
	}
	return out
}

func cdBoolValues(toks []string) []cdCell {
	out := make([]cdCell, len(toks))
	for k, t := range toks {
		out[k] = cdCell{cls: t, b: t == "T"}
	}
	return out
}

// the null patterns of Codec.tla Rows(v, p)
func cdInterleave(vals []cdCell, np string, seg int) []cdCell {
	null := cdCell{null: true, cls: "N"}
	var out []cdCell
	switch np {
	case "none":
		return vals
	case "all":
		for range vals {
			out = append(out, null)
		}
	case "alt":
		for _, v := range vals {
			out = append(out, v, null)
		}
	case "altn":
		for _, v := range vals {
			out = append(out, null, v)
		}
	case "lead1":
		out = append(append(out, null), vals...)
	case "leadS":
		for i := 0; i <= seg; i++ {
			out = append(out, null)
		}
		out = append(out, vals...)
	case "trail1":
		out = append(append(out, vals...), null)
	case "trailS":
		out = append(out, vals...)
		for i := 0; i <= seg; i++ {
			out = append(out, null)
		}
	default:
		panic("null pattern " + np)
	}
	return out
}

func cdConcretize(kind, np string, seg int, runs []cdRun, rng *rand.Rand) *cdColumn {
	toks := cdFlat(runs)
	col := &cdColumn{kind: kind, typ: cdType(kind)}
	var vals []cdCell
	switch kind {
	case "int":
		vals = cdIntValues(toks, rng)
	case "time":
		vals, col.timeOverflow = cdTimeValues(toks, rng)
	case "float":
		vals = cdFloatValues(toks, rng)
	case "string":
		vals = cdStringValues(toks, rng)
	case "bool":
		vals = cdBoolValues(toks)
	}
	col.cells = cdInterleave(vals, np, seg)
	n := len(col.cells)
	col.times = make([]int64, n)
	if kind == "time" {
		for i, c := range col.cells {
			col.times[i] = c.i
		}
	} else {
		// the accompanying time column: constant step, varying step or a far jump
		t := int64(1_600_000_000_000_000_000) + rng.Int63n(1e12)
		step := []int64{1, 1e9, 10e9, 1e6}[rng.Intn(4)]
		mode := rng.Intn(3)
		for i := 0; i < n; i++ {
			col.times[i] = t
			switch mode {
			case 0:
				t += step
			case 1:
				t += step * (1 + rng.Int63n(50))
			default:
				t += 1 + rng.Int63n(1<<uint(1+rng.Intn(40)))
			}
		}
	}
	return col
}

func cdAppend(cv *record.ColVal, kind string, c cdCell) {
	switch kind {
	case "int", "time":
		if c.null {
			cv.AppendIntegerNull()
		} else {
			cv.AppendInteger(c.i)
		}
	case "float":
		if c.null {
			cv.AppendFloatNull()
		} else {
			cv.AppendFloat(c.f)
		}
	case "string":
		if c.null {
			cv.AppendStringNull()
		} else {
			cv.AppendString(c.s)
		}
	case "bool":
		if c.null {
			cv.AppendBooleanNull()
		} else {
			cv.AppendBoolean(c.b)
		}
	}
}

func cdColVal(kind string, cells []cdCell) *record.ColVal {
	cv := &record.ColVal{}
	for _, c := range cells {
		cdAppend(cv, kind, c)
	}
	return cv
}

func cdCellString(kind string, c cdCell) string {
	if c.null {
		return "null"
	}
	switch kind {
	case "int", "time":
		return fmt.Sprintf("%d", c.i)
	case "float":
		return fmt.Sprintf("%v(0x%016x)", c.f, math.Float64bits(c.f))
	case "string":
		if len(c.s) > 24 {
			return fmt.Sprintf("%q...(%d bytes)", c.s[:24], len(c.s))
		}
		return fmt.Sprintf("%q", c.s)
	default:
		return fmt.Sprint(c.b)
	}
}

// compare a decoded column (rows lo..hi of the expectation) bit by bit; "" = identical
func cdCompare(kind string, exp []cdCell, got *record.ColVal) string {
	if got.Len != len(exp) {
		return fmt.Sprintf("row count %d, expected %d", got.Len, len(exp))
	}
	nils := 0
	for _, c := range exp {
		if c.null {
			nils++
		}
	}
	if got.NilCount != nils {
		return fmt.Sprintf("null count %d, expected %d", got.NilCount, nils)
	}
	var ints []int64
	var floats []float64
	var bools []bool
	switch kind {
	case "int", "time":
		ints = got.IntegerValues()
		if len(ints) != len(exp)-nils {
			return fmt.Sprintf("%d stored values, expected %d", len(ints), len(exp)-nils)
		}
	case "float":
		floats = got.FloatValues()
		if len(floats) != len(exp)-nils {
			return fmt.Sprintf("%d stored values, expected %d", len(floats), len(exp)-nils)
		}
	case "bool":
		bools = got.BooleanValues()
		if len(bools) != len(exp)-nils {
			return fmt.Sprintf("%d stored values, expected %d", len(bools), len(exp)-nils)
		}
	case "string":
		if len(got.Offset) != len(exp) {
			return fmt.Sprintf("%d string offsets, expected %d", len(got.Offset), len(exp))
		}
	}
	vi := 0
	for r, c := range exp {
		if got.IsNil(r) != c.null {
			return fmt.Sprintf("row %d: null=%v, expected %s", r, got.IsNil(r), cdCellString(kind, c))
		}
		if c.null {
			if kind == "string" {
				if b, _ := got.StringValue(r); len(b) != 0 {
					return fmt.Sprintf("row %d: null string holds %d bytes", r, len(b))
				}
			}
			continue
		}
		switch kind {
		case "int", "time":
			if ints[vi] != c.i {
				return fmt.Sprintf("row %d: %d, expected %d", r, ints[vi], c.i)
			}
		case "float":
			if math.Float64bits(floats[vi]) != math.Float64bits(c.f) {
				return fmt.Sprintf("row %d: %v(0x%016x), expected %s", r, floats[vi], math.Float64bits(floats[vi]), cdCellString(kind, c))
			}
		case "bool":
			if bools[vi] != c.b {
				return fmt.Sprintf("row %d: %v, expected %v", r, bools[vi], c.b)
			}
		case "string":
			b, _ := got.StringValue(r)
			if string(b) != c.s {
				return fmt.Sprintf("row %d: %s, expected %s", r, cdCellString(kind, cdCell{s: string(b)}), cdCellString(kind, c))
			}
		}
		vi++
	}
	return ""
}

// ------------------------------------------------------------------------------------------------ block level

type cdBlockOut struct {
	hdr    string // one | full | empty | bitmap
	mode   string
	panicv string
	err    string
	diff   string
	got    *record.ColVal
}

func cdHdrOf(b byte) string {
	switch {
	case encoding.IsBlockOne(b):
		return "one"
	case encoding.IsBlockFull(b):
		return "full"
	case encoding.IsBlockEmpty(b):
		return "empty"
	}
	return "bitmap"
}

// one segment through the block codec exactly as ColumnBuilder.enc<Type>Column / appendColumnData use it
func cdBlockRoundTrip(kind string, typ int, seg *record.ColVal, exp []cdCell) (out cdBlockOut) {
	defer func() {
		if r := recover(); r != nil {
			out.panicv = fmt.Sprint(r)
		}
	}()
	ctx := encoding.NewCoderContext()
	defer ctx.Release()
	var data []byte
	var err error
	blockType := map[string]byte{"int": encoding.BlockInteger, "time": encoding.BlockInteger, "float": encoding.BlockFloat64,
		"string": encoding.BlockString, "bool": encoding.BlockBoolean}[kind]
	if immutable.CanEncodeOneRowMode(seg) {
		one := map[string]byte{"int": encoding.BlockIntegerOne, "time": encoding.BlockIntegerOne, "float": encoding.BlockFloat64One, "string": encoding.BlockStringOne,
			"bool": encoding.BlockBooleanOne}[kind]
		data = append(data, one)
		data = append(data, seg.Val...)
		out.hdr = "one"
		out.mode = "none"
		got := &record.ColVal{}
		immutable.DecodeColumnOfOneValue(data[1:], got, one)
		out.got = got
		out.diff = cdCompare(kind, exp, got)
		return
	}
	data = immutable.EncodeColumnHeader(seg, data, blockType)
	out.hdr = cdHdrOf(data[0])
	hl := len(data)
	switch kind {
	case "int":
		data, err = encoding.EncodeIntegerBlock(seg.Val, data, ctx)
	case "time": // ChunkDataBuilder.EncodeTime
		data, err = encoding.EncodeTimestampBlock(seg.Val, data, ctx)
	case "float":
		data, err = encoding.EncodeFloatBlock(seg.Val, data, ctx)
	case "string":
		data, err = encoding.EncodeStringBlock(seg.Val, seg.Offset, data, ctx)
	case "bool":
		data, err = encoding.EncodeBooleanBlock(seg.Val, data, ctx)
	}
	if err != nil {
		out.err = "encode: " + err.Error()
		return
	}
	out.mode = cdModeOf(kind, data[hl:])
	// decode as reader.go decodeColumnData / append<Type>Column do
	got := &record.ColVal{}
	rest, bitmap, err := immutable.DecodeColumnHeader(got, data, blockType)
	if err != nil {
		out.err = "decode header: " + err.Error()
		return
	}
	dctx := encoding.NewCoderContext()
	defer dctx.Release()
	nilCount, bmOff := got.NilCount, got.BitMapOffset
	got.Init()
	nvals, rows := 0, 0
	switch kind {
	case "int":
		if len(rest) != 0 {
			var v []int64
			v, err = encoding.DecodeIntegerBlock(rest, &got.Val, dctx)
			nvals = len(v)
		}
	case "time": // appendTimeColumnData
		var v []int64
		v, err = encoding.DecodeTimestampBlock(rest, &got.Val, dctx)
		nvals = len(v)
	case "float":
		if len(rest) != 0 {
			var v []float64
			v, err = encoding.DecodeFloatBlock(rest, &got.Val, dctx)
			nvals = len(v)
		}
	case "bool":
		if len(rest) != 0 {
			var v []bool
			v, err = encoding.DecodeBooleanBlock(rest, &got.Val, dctx)
			nvals = len(v)
		}
	case "string":
		var offs []uint32
		_, offs, err = encoding.DecodeStringBlock(rest, &got.Val, &got.Offset, dctx)
		got.Offset = offs
		nvals = len(offs)
	}
	if err != nil {
		out.err = "decode: " + err.Error()
		return
	}
	if kind == "string" {
		rows = nvals
	} else {
		rows = nvals + nilCount
	}
	if nvals > 0 {
		if kind == "string" {
			got.ReserveBitmap(rows)
		} else {
			got.ReserveBitmap(len(got.Val))
		}
		got.AppendBitmap(bitmap, bmOff, rows, 0, rows)
		got.Len += rows
		got.NilCount += nilCount
	} else {
		rows = nilCount
		got.Append(nil, got.Offset, bitmap, bmOff, rows, nilCount, typ, 0, rows, 0, 0)
	}
	out.got = got
	out.diff = cdCompare(kind, exp, got)
	return
}

// ------------------------------------------------------------------------------------------------ file level

type cdSeries struct {
	sid uint64
	col *cdColumn
	aux []cdCell // second field "g" (integer, alternating nulls), absent for time columns with one row
}

func cdRecord(s *cdSeries) *record.Record {
	var schema record.Schemas
	if s.col.kind == "time" {
		schema = record.Schemas{{Name: "g", Type: influx.Field_Type_Int}, {Name: record.TimeField, Type: influx.Field_Type_Int}}
	} else {
		schema = record.Schemas{{Name: "f", Type: s.col.typ}, {Name: "g", Type: influx.Field_Type_Int}, {Name: record.TimeField, Type: influx.Field_Type_Int}}
	}
	rec := record.NewRecord(schema, false)
	k := 0
	if s.col.kind != "time" {
		for _, c := range s.col.cells {
			cdAppend(&rec.ColVals[0], s.col.kind, c)
		}
		k = 1
	}
	for _, c := range s.aux {
		cdAppend(&rec.ColVals[k], "int", c)
	}
	rec.ColVals[k+1].AppendIntegers(s.col.times...)
	return rec
}

func cdAux(n int, rng *rand.Rand) []cdCell {
	out := make([]cdCell, n)
	v := rng.Int63n(1000)
	for i := range out {
		if i%3 == 1 {
			out[i] = cdCell{null: true, cls: "N"}
		} else {
			out[i] = cdCell{cls: "S", i: v}
			v += rng.Int63n(7)
		}
	}
	out[0] = cdCell{cls: "S", i: v} // every row needs one field at least in the first row for the row batch
	return out
}

type cdSegSeen struct {
	hdr, mode string
}

// parse the stored bytes of one segment of a field column: block kind and mode byte
func cdParseSegment(kind string, data []byte) (cdSegSeen, error) {
	if len(data) == 0 {
		return cdSegSeen{}, fmt.Errorf("empty segment")
	}
	h := cdHdrOf(data[0])
	switch h {
	case "one":
		return cdSegSeen{h, "none"}, nil
	case "full", "empty":
		if len(data) < 5 {
			return cdSegSeen{}, fmt.Errorf("short block header")
		}
		return cdSegSeen{h, cdModeOf(kind, data[5:])}, nil
	}
	if len(data) < 5 {
		return cdSegSeen{}, fmt.Errorf("short block header")
	}
	bl := int(binary.BigEndian.Uint32(data[1:5]))
	if len(data) < 5+bl+8 {
		return cdSegSeen{}, fmt.Errorf("short bitmap header")
	}
	return cdSegSeen{h, cdModeOf(kind, data[5+bl+8:])}, nil
}

type cdFileOut struct {
	panicv string
	err    string
	diff   string
	// where the first difference is: segment and column ("" = not in a column)
	diffSeg int
	diffCol string
	seen    [][]cdSegSeen // per series, per segment of field "f" (time columns: the time column)
}

func cdReadBack(f immutable.TSSPFile, series []*cdSeries, seg int, out *cdFileOut, collect bool) {
	ctx := immutable.NewReadContext(true)
	defer ctx.Release()
	nIdx := int(f.MetaIndexItemNum())
	var cms []immutable.ChunkMeta
	for i := 0; i < nIdx; i++ {
		mi, err := f.MetaIndexAt(i)
		if err != nil {
			out.err = "MetaIndexAt: " + err.Error()
			return
		}
		part, err := f.ReadChunkMetaData(i, mi, nil, fileops.IO_PRIORITY_ULTRA_HIGH)
		if err != nil {
			out.err = "ReadChunkMetaData: " + err.Error()
			return
		}
		cms = append(cms, part...)
	}
	if len(cms) != len(series) {
		out.diff = fmt.Sprintf("file holds %d chunks, %d series were written", len(cms), len(series))
		return
	}
	fmin, fmax, err := f.MinMaxTime()
	if err != nil {
		out.err = "MinMaxTime: " + err.Error()
		return
	}
	wmin, wmax := int64(math.MaxInt64), int64(math.MinInt64)
	for si, s := range series {
		cm := &cms[si]
		rec := cdRecord(s)
		n := len(s.col.times)
		if cm.GetSid() != s.sid {
			out.diff = fmt.Sprintf("chunk %d: series id %d, expected %d", si, cm.GetSid(), s.sid)
			return
		}
		if ok, err := f.Contains(s.sid); err != nil || !ok {
			out.diff = fmt.Sprintf("series %d: Contains = %v, %v", s.sid, ok, err)
			return
		}
		nseg := (n + seg - 1) / seg
		if cm.SegmentCount() != nseg {
			out.diff = fmt.Sprintf("series %d: %d segments, expected %d for %d rows", s.sid, cm.SegmentCount(), nseg, n)
			return
		}
		cmin, cmax := cm.MinMaxTime()
		if cmin != s.col.times[0] || cmax != s.col.times[n-1] {
			out.diff = fmt.Sprintf("series %d: chunk time range [%d,%d], expected [%d,%d]", s.sid, cmin, cmax, s.col.times[0], s.col.times[n-1])
			return
		}
		if cmin < wmin {
			wmin = cmin
		}
		if cmax > wmax {
			wmax = cmax
		}
		// statistics: the row count kept in the pre-aggregates of every column
		for ci := range rec.Schema {
			var cmeta *immutable.ColumnMeta
			cols := cm.GetColMeta()
			for k := range cols {
				if cols[k].Name() == rec.Schema[ci].Name {
					cmeta = &cols[k]
				}
			}
			if cmeta == nil {
				out.diff = fmt.Sprintf("series %d: column %s has no column meta", s.sid, rec.Schema[ci].Name)
				return
			}
			cnt, err := cmeta.RowCount(&rec.Schema[ci], ctx)
			if err != nil {
				out.err = fmt.Sprintf("series %d column %s: RowCount: %v", s.sid, rec.Schema[ci].Name, err)
				return
			}
			want := int64(rec.ColVals[ci].Len - rec.ColVals[ci].NilCount)
			if cnt != want {
				out.diff = fmt.Sprintf("series %d column %s: stored count %d, %d non-null values were written", s.sid, rec.Schema[ci].Name, cnt, want)
				return
			}
		}
		var seen []cdSegSeen
		for g := 0; g < nseg; g++ {
			lo, hi := g*seg, (g+1)*seg
			if hi > n {
				hi = n
			}
			tr := cm.GetTimeRangeBy(g)
			if tr[0] != s.col.times[lo] || tr[1] != s.col.times[hi-1] {
				out.diff = fmt.Sprintf("series %d segment %d: time range [%d,%d], expected [%d,%d]", s.sid, g, tr[0], tr[1], s.col.times[lo], s.col.times[hi-1])
				return
			}
			dst := record.NewRecord(rec.Schema, false)
			got, err := f.ReadAt(cm, g, dst, ctx, fileops.IO_PRIORITY_ULTRA_HIGH)
			if err != nil {
				out.err = fmt.Sprintf("series %d segment %d: ReadAt: %v", s.sid, g, err)
				return
			}
			if got == nil {
				out.diff = fmt.Sprintf("series %d segment %d: ReadAt returned no record", s.sid, g)
				return
			}
			k := 0
			if s.col.kind != "time" {
				if d := cdCompare(s.col.kind, s.col.cells[lo:hi], &got.ColVals[0]); d != "" {
					out.diff = fmt.Sprintf("series %d segment %d column f: %s", s.sid, g, d)
					out.diffSeg, out.diffCol = g, "f"
					return
				}
				k = 1
			}
			if d := cdCompare("int", s.aux[lo:hi], &got.ColVals[k]); d != "" {
				out.diff = fmt.Sprintf("series %d segment %d column g: %s", s.sid, g, d)
				return
			}
			tcells := make([]cdCell, hi-lo)
			for i := range tcells {
				tcells[i] = cdCell{i: s.col.times[lo+i]}
			}
			if d := cdCompare("time", tcells, &got.ColVals[k+1]); d != "" {
				out.diff = fmt.Sprintf("series %d segment %d column time: %s", s.sid, g, d)
				return
			}
			if collect {
				// the stored bytes of the segment: block kind and mode byte as written by the real builder
				var cmeta *immutable.ColumnMeta
				cols := cm.GetColMeta()
				name := "f"
				if s.col.kind == "time" {
					name = record.TimeField
				}
				for k := range cols {
					if cols[k].Name() == name {
						cmeta = &cols[k]
					}
				}
				sg := cmeta.GetSegment(g)
				off, size := sg.OffsetSize()
				var buf []byte
				raw, err := f.ReadData(off, size, &buf, fileops.IO_PRIORITY_ULTRA_HIGH)
				if err != nil {
					out.err = fmt.Sprintf("series %d segment %d: ReadData: %v", s.sid, g, err)
					return
				}
				ss, err := cdParseSegment(s.col.kind, raw)
				if err != nil {
					out.err = fmt.Sprintf("series %d segment %d: %v", s.sid, g, err)
					return
				}
				seen = append(seen, ss)
			}
		}
		if collect {
			out.seen = append(out.seen, seen)
		}
	}
	if fmin != wmin || fmax != wmax {
		out.diff = fmt.Sprintf("file time range [%d,%d], expected [%d,%d]", fmin, fmax, wmin, wmax)
	}
}

// the whole chunk through the iterator the compaction uses
func cdIterate(f immutable.TSSPFile, series []*cdSeries, out *cdFileOut) {
	fi := immutable.NewFileIterator(f, immutable.CLog)
	itr := immutable.NewChunkIterator(fi)
	defer itr.Close()
	si := 0
	for itr.Next() {
		if si >= len(series) {
			out.diff = "the chunk iterator yields more chunks than series were written"
			return
		}
		s := series[si]
		rec := itr.GetRecord()
		if itr.GetSeriesID() != s.sid {
			out.diff = fmt.Sprintf("iterator: series id %d, expected %d", itr.GetSeriesID(), s.sid)
			return
		}
		k := 0
		if s.col.kind != "time" {
			if d := cdCompare(s.col.kind, s.col.cells, &rec.ColVals[0]); d != "" {
				out.diff = fmt.Sprintf("iterator: series %d column f: %s", s.sid, d)
				return
			}
			k = 1
		}
		if d := cdCompare("int", s.aux, &rec.ColVals[k]); d != "" {
			out.diff = fmt.Sprintf("iterator: series %d column g: %s", s.sid, d)
			return
		}
		tcells := make([]cdCell, len(s.col.times))
		for i := range tcells {
			tcells[i] = cdCell{i: s.col.times[i]}
		}
		if d := cdCompare("time", tcells, &rec.ColVals[k+1]); d != "" {
			out.diff = fmt.Sprintf("iterator: series %d column time: %s", s.sid, d)
			return
		}
		si++
	}
	if si != len(series) {
		out.diff = fmt.Sprintf("the chunk iterator yields %d chunks, %d series were written", si, len(series))
	}
}

func cdFileRoundTrip(series []*cdSeries, seg int) (out cdFileOut) {
	defer func() {
		if r := recover(); r != nil {
			out.panicv = fmt.Sprint(r)
			if os.Getenv("VH_CODEC_STACK") != "" {
				out.panicv += "\n" + string(debug.Stack())
			}
		}
	}()
	immutable.SetMaxRowsPerSegment4TsStore(seg)
	conf := immutable.NewTsStoreConfig()
	cdProf.nfile++
	dir := filepath.Join(cdProf.dir, fmt.Sprintf("f%d", cdProf.nfile))
	defer os.RemoveAll(dir)
	lock := ""
	fileName := immutable.NewTSSPFileName(cdProf.nfile, 0, 0, 0, true, &lock)
	msb := immutable.NewMsBuilder(dir, "mst", &lock, conf, len(series), fileName, 1, nil, 2, config.TSSTORE, nil, 0)
	for _, s := range series {
		if err := msb.WriteData(s.sid, cdRecord(s)); err != nil {
			out.err = "WriteData: " + err.Error()
			return
		}
	}
	f, err := msb.NewTSSPFile(false)
	if err != nil {
		out.err = "NewTSSPFile: " + err.Error()
		return
	}
	if f == nil {
		out.err = "NewTSSPFile: empty file"
		return
	}
	path := f.Path()
	cdReadBack(f, series, seg, &out, true)
	if out.err == "" && out.diff == "" {
		cdIterate(f, series, &out)
	}
	_ = f.Close()
	if out.err != "" || out.diff != "" {
		return
	}
	// the file as a restarted store finds it
	f2, err := immutable.OpenTSSPFile(path, &lock, true)
	if err != nil {
		out.err = "OpenTSSPFile: " + err.Error()
		return
	}
	var o2 cdFileOut
	cdReadBack(f2, series, seg, &o2, false)
	_ = f2.Close()
	if o2.err != "" {
		out.err = "re-opened file: " + o2.err
	}
	if o2.diff != "" {
		out.diff = "re-opened file: " + o2.diff
	}
	return
}

// ------------------------------------------------------------------------------------------------ records, rows, WAL

func cdRecordCodec(rec *record.Record) (diff string) {
	defer func() {
		if r := recover(); r != nil {
			diff = "panic: " + fmt.Sprint(r)
		}
	}()
	buf := rec.Marshal(nil)
	if len(buf) != rec.CodecSize() {
		return fmt.Sprintf("Marshal wrote %d bytes, CodecSize says %d", len(buf), rec.CodecSize())
	}
	got := &record.Record{}
	got.Unmarshal(buf)
	if len(got.Schema) != len(rec.Schema) || len(got.ColVals) != len(rec.ColVals) {
		return fmt.Sprintf("schema/columns %d/%d, expected %d/%d", len(got.Schema), len(got.ColVals), len(rec.Schema), len(rec.ColVals))
	}
	for i := range rec.Schema {
		if got.Schema[i].Name != rec.Schema[i].Name || got.Schema[i].Type != rec.Schema[i].Type {
			return fmt.Sprintf("field %d: %v, expected %v", i, got.Schema[i], rec.Schema[i])
		}
		a, b := &rec.ColVals[i], &got.ColVals[i]
		if a.Len != b.Len || a.NilCount != b.NilCount || a.BitMapOffset != b.BitMapOffset || !bytes.Equal(a.Val, b.Val) ||
			!bytes.Equal(a.Bitmap, b.Bitmap) || !reflect.DeepEqual(append([]uint32{}, a.Offset...), append([]uint32{}, b.Offset...)) {
			return fmt.Sprintf("column %s differs after Unmarshal (len %d/%d nil %d/%d val %d/%d bytes)", rec.Schema[i].Name, b.Len, a.Len, b.NilCount, a.NilCount, len(b.Val), len(a.Val))
		}
	}
	return ""
}

// the rows of one series as the write path hands them to the WAL / the store RPC
func cdRows(s *cdSeries, tag string) []influx.Row {
	var rows []influx.Row
	for r := range s.col.times {
		var fs influx.Fields
		if s.col.kind != "time" && !s.col.cells[r].null {
			c := s.col.cells[r]
			fd := influx.Field{Key: "f", Type: int32(s.col.typ)}
			switch s.col.kind {
			case "int":
				fd.NumValue = float64(c.i)
			case "float":
				fd.NumValue = c.f
			case "bool":
				if c.b {
					fd.NumValue = 1
				}
			case "string":
				fd.StrValue = c.s
			}
			fs = append(fs, fd)
		}
		if !s.aux[r].null {
			fs = append(fs, influx.Field{Key: "g", Type: influx.Field_Type_Int, NumValue: float64(s.aux[r].i)})
		}
		if len(fs) == 0 {
			continue
		}
		rows = append(rows, influx.Row{Name: "mst_0000", Tags: influx.PointTags{{Key: "host", Value: tag}, {Key: "zone", Value: "z"}},
			Fields: fs, Timestamp: s.col.times[r]})
	}
	return rows
}

func cdRowsEqual(exp, got []influx.Row) string {
	if len(exp) != len(got) {
		return fmt.Sprintf("%d rows, expected %d", len(got), len(exp))
	}
	for i := range exp {
		a, b := &exp[i], &got[i]
		if a.Name != b.Name || a.Timestamp != b.Timestamp || len(a.Tags) != len(b.Tags) || len(a.Fields) != len(b.Fields) {
			return fmt.Sprintf("row %d: %s t=%d %d tags %d fields, expected %s t=%d %d tags %d fields", i, b.Name, b.Timestamp, len(b.Tags), len(b.Fields),
				a.Name, a.Timestamp, len(a.Tags), len(a.Fields))
		}
		for k := range a.Tags {
			if a.Tags[k].Key != b.Tags[k].Key || a.Tags[k].Value != b.Tags[k].Value {
				return fmt.Sprintf("row %d tag %d: %s=%s, expected %s=%s", i, k, b.Tags[k].Key, b.Tags[k].Value, a.Tags[k].Key, a.Tags[k].Value)
			}
		}
		for k := range a.Fields {
			x, y := &a.Fields[k], &b.Fields[k]
			if x.Key != y.Key || x.Type != y.Type || x.StrValue != y.StrValue || math.Float64bits(x.NumValue) != math.Float64bits(y.NumValue) {
				return fmt.Sprintf("row %d field %s: type %d value %v(0x%016x) %d string bytes, expected type %d value %v(0x%016x) %d string bytes", i, y.Key,
					y.Type, y.NumValue, math.Float64bits(y.NumValue), len(y.StrValue), x.Type, x.NumValue, math.Float64bits(x.NumValue), len(x.StrValue))
			}
		}
	}
	return ""
}

func cdCloneRows(rs []influx.Row) []influx.Row {
	cp := make([]influx.Row, len(rs))
	for i := range rs {
		cp[i].Clone(&rs[i])
		// Clone shares nothing we rely on, but the strings point into the decode buffer: copy them
		cp[i].Name = strings.Clone(rs[i].Name)
		for k := range cp[i].Tags {
			cp[i].Tags[k].Key = strings.Clone(cp[i].Tags[k].Key)
			cp[i].Tags[k].Value = strings.Clone(cp[i].Tags[k].Value)
		}
		for k := range cp[i].Fields {
			cp[i].Fields[k].Key = strings.Clone(cp[i].Fields[k].Key)
			cp[i].Fields[k].StrValue = strings.Clone(cp[i].Fields[k].StrValue)
		}
	}
	return cp
}

func cdBatchRoundTrip(rows []influx.Row) (batch []byte, diff string) {
	defer func() {
		if r := recover(); r != nil {
			diff = "panic: " + fmt.Sprint(r)
		}
	}()
	batch, err := influx.FastMarshalMultiRows(nil, rows)
	if err != nil {
		return nil, "FastMarshalMultiRows: " + err.Error()
	}
	got, _, _, _, _, err := influx.FastUnmarshalMultiRows(batch, nil, nil, nil, nil, nil)
	if err != nil {
		return batch, "FastUnmarshalMultiRows: " + err.Error()
	}
	if d := cdRowsEqual(rows, got); d != "" {
		return batch, d
	}
	// the same batch decoded into POOLED rows, tags, fields and index options that earlier batches of this process
	// were decoded into (truncated to [:0], never cleared) - the way WAL replay (walRowsObjects) and the store's write
	// RPC (pointsdecoder) decode: what a batch decodes to must not depend on what the pool held before
	pr, pt, pf, po, pk, err := influx.FastUnmarshalMultiRows(batch, cdPool.rows[:0], cdPool.tags[:0], cdPool.fields[:0], cdPool.opts[:0], cdPool.keys[:0])
	if err != nil {
		return batch, "FastUnmarshalMultiRows into pooled rows: " + err.Error()
	}
	// (a pooled numeric field may keep the string bytes of the slot's previous occupant: only the member the field's
	// type selects is part of the value; index options, tags, names and times are compared as they are, and the pooled
	// rows must re-encode to the very same bytes)
	cmp := make([]influx.Row, len(pr))
	copy(cmp, pr)
	for i := range cmp {
		cmp[i].Fields = append([]influx.Field(nil), pr[i].Fields...)
		if i >= len(rows) {
			continue
		}
		for k := range cmp[i].Fields {
			if k >= len(rows[i].Fields) {
				break
			}
			if cmp[i].Fields[k].Type == influx.Field_Type_String {
				cmp[i].Fields[k].NumValue = rows[i].Fields[k].NumValue
			} else {
				cmp[i].Fields[k].StrValue = rows[i].Fields[k].StrValue
			}
		}
	}
	d := cdRowsEqual(rows, cmp)
	if d == "" {
		for i := range rows {
			if di := cdIndexOptionsDiff(rows[i].IndexOptions, pr[i].IndexOptions); di != "" {
				d = fmt.Sprintf("row %d index options: %s", i, di)
				break
			}
		}
	}
	if d == "" {
		if again, err2 := influx.FastMarshalMultiRows(nil, pr); err2 != nil {
			d = "re-encoding the pooled rows: " + err2.Error()
		} else if !bytes.Equal(again, batch) {
			d = fmt.Sprintf("the pooled rows re-encode to %d bytes that differ from the %d bytes they were decoded from", len(again), len(batch))
		}
	}
	cdPool.rows, cdPool.tags, cdPool.fields, cdPool.opts, cdPool.keys = pr, pt, pf, po, pk
	if d != "" {
		return batch, "decoded into pooled rows (as WAL replay and the write RPC do): " + d
	}
	return batch, ""
}

func cdIndexOptionsDiff(a, b influx.IndexOptions) string {
	if len(a) != len(b) {
		return fmt.Sprintf("%d options decoded, %d were encoded: %v vs %v", len(b), len(a), b, a)
	}
	for i := range a {
		if a[i].Oid != b[i].Oid || fmt.Sprint(a[i].IndexList) != fmt.Sprint(b[i].IndexList) {
			return fmt.Sprintf("option %d: %v, expected %v", i, b[i], a[i])
		}
	}
	return ""
}

var cdPool struct {
	rows   []influx.Row
	tags   []influx.Tag
	fields []influx.Field
	opts   []influx.IndexOption
	keys   []byte
}

// unmarshal a proper prefix held in a buffer of exactly that capacity: "incomplete" | "rows" | "panic"
func cdUnmarshalPrefix(batch []byte, k int) (res string, detail string) {
	defer func() {
		if r := recover(); r != nil {
			res, detail = "panic", fmt.Sprint(r)
		}
	}()
	p := make([]byte, k)
	copy(p, batch[:k])
	got, _, _, _, _, err := influx.FastUnmarshalMultiRows(p, nil, nil, nil, nil, nil)
	if err != nil {
		return "incomplete", err.Error()
	}
	return "rows", fmt.Sprintf("%d rows decoded without an error", len(got))
}

// WAL through the exported API; Replay's callback type and the file list are reached by reflection
func cdWalWrite(dir string, batches [][]byte) error {
	lock := ""
	w := engine.NewWAL(dir, &lock, 1, time.Hour, true, false, 1, 0)
	for _, b := range batches {
		if err := w.Write(b, engine.WriteWalLineProtocol, 0); err != nil {
			return err
		}
	}
	return w.Close()
}

func cdWalFile(dir string) (string, error) {
	files, _ := filepath.Glob(filepath.Join(dir, "0", "*.wal"))
	if len(files) != 1 {
		return "", fmt.Errorf("%d wal files in %s", len(files), dir)
	}
	return files[0], nil
}

func cdWalReplay(dir string) (got [][]influx.Row, err error, panicv string) {
	defer func() {
		if r := recover(); r != nil {
			panicv = fmt.Sprint(r)
		}
	}()
	lock := ""
	w := engine.NewWAL(dir, &lock, 1, time.Hour, true, false, 1, 0)
	files, _ := filepath.Glob(filepath.Join(dir, "0", "*.wal"))
	sort.Strings(files)
	lr := reflect.ValueOf(w).Elem().FieldByName("logReplay").Index(0).FieldByName("fileNames")
	reflect.NewAt(lr.Type(), unsafe.Pointer(lr.UnsafeAddr())).Elem().Set(reflect.ValueOf(files))
	ft := reflect.TypeOf((engine.ReplayCallFuncType)(nil))
	cb := reflect.MakeFunc(ft, func(args []reflect.Value) []reflect.Value {
		ro := args[1]
		if !ro.IsNil() {
			f := ro.Elem().FieldByName("rows")
			rs := reflect.NewAt(f.Type(), unsafe.Pointer(f.UnsafeAddr())).Elem().Interface().(influx.Rows)
			if len(rs) > 0 {
				got = append(got, cdCloneRows(rs))
			}
		}
		return []reflect.Value{reflect.Zero(ft.Out(0))}
	}).Interface().(engine.ReplayCallFuncType)
	_, err = w.Replay(context.Background(), cb)
	return
}

// leave a body of a length no test record has in the pooled read buffer of the WAL replay
func cdWalScrub() {
	if cdProf.scrubDir == "" {
		d := filepath.Join(cdProf.dir, "scrub")
		rows := []influx.Row{{Name: "scrub", Fields: influx.Fields{{Key: "s", Type: influx.Field_Type_String, StrValue: cdRandBytes(rand.New(rand.NewSource(1)), 5000, false)}}, Timestamp: 1}}
		b, _ := influx.FastMarshalMultiRows(nil, rows)
		if err := cdWalWrite(d, [][]byte{b}); err != nil {
			panic(err)
		}
		cdProf.scrubDir = d
	}
	_, _, _ = cdWalReplay(cdProf.scrubDir)
}

func cdWalBoundaries(data []byte) ([]int, error) {
	var ends []int
	for p := 0; p < len(data); {
		if p+engine.WalRecordHeadSize > len(data) {
			return nil, fmt.Errorf("wal file ends inside a header at %d", p)
		}
		l := int(binary.BigEndian.Uint32(data[p+1 : p+5]))
		p += engine.WalRecordHeadSize + l
		if p > len(data) {
			return nil, fmt.Errorf("wal file ends inside a body")
		}
		ends = append(ends, p)
	}
	return ends, nil
}

// ------------------------------------------------------------------------------------------------ column cases

func cdSameSet(a []string, m string) bool {
	for _, x := range a {
		if x == m {
			return true
		}
	}
	return false
}

func runCodecColumn(c *cdCase, res *cdResult) {
	var kind, np, falgo, salgo string
	var seg int
	var runs []cdRun
	var exp []cdSegExp
	var impl []cdSegImpl
	encStep := 0
	for i, st := range c.Hist {
		switch st.A {
		case "Choose":
			kind, np, seg, falgo, salgo = st.Kind, st.Np, st.Seg, st.Falgo, st.Salgo
		case "Append":
			runs = append(runs, cdRun{st.C, st.N})
		case "Encode":
			encStep = i
			if err := json.Unmarshal(st.Exp, &exp); err != nil {
				res.Infra = "bad Encode.exp: " + err.Error()
				return
			}
			if err := json.Unmarshal(st.Impl, &impl); err != nil {
				res.Infra = "bad Encode.impl: " + err.Error()
				return
			}
		}
	}
	if kind == "float" && falgo != cdProf.falgo {
		res.Infra = fmt.Sprintf("case wants float algorithm %s, the process runs %s", falgo, cdProf.falgo)
		return
	}
	if kind == "string" && salgo != cdProf.salgo {
		res.Infra = fmt.Sprintf("case wants string algorithm %s, the process runs %s", salgo, cdProf.salgo)
		return
	}
	draws := c.Draws
	if draws <= 0 {
		draws = 2
	}
	var series []*cdSeries
	for d := 0; d < draws; d++ {
		rng := rand.New(rand.NewSource(c.Seed*1_000_003 + int64(c.ID)*7919 + int64(d)))
		col := cdConcretize(kind, np, seg, runs, rng)
		n := len(col.cells)
		nseg := (n + seg - 1) / seg
		if nseg != len(exp) {
			res.drift(fmt.Sprintf("the column has %d rows = %d segments, the specification says %d", n, nseg, len(exp)))
			return
		}
		s := &cdSeries{sid: uint64(d + 1), col: col, aux: cdAux(n, rng)}
		// ---- block level, segment by segment (ColVal.Split as EncodeColumn does)
		cv := cdColVal(kind, col.cells)
		var segs []record.ColVal
		if cv.Len > seg {
			segs = cv.Split(nil, seg, col.typ)
		} else {
			segs = []record.ColVal{*cv}
		}
		if len(segs) != nseg {
			res.fail(encStep, "Encode", fmt.Sprintf("draw %d: ColVal.Split(%d rows, %d) gives %d segments", d, n, seg, len(segs)))
			return
		}
		badSeg := map[int]string{} // segments whose divergence is explained by a deviation of the specification: panic | differs
		for g := range segs {
			lo, hi := g*seg, (g+1)*seg
			if hi > n {
				hi = n
			}
			e, im := exp[g], impl[g]
			nils := 0
			for _, cell := range col.cells[lo:hi] {
				if cell.null {
					nils++
				}
			}
			if e.Rows != hi-lo || e.Nils != nils {
				res.drift(fmt.Sprintf("segment %d has %d rows %d nulls, the specification says %d/%d", g, hi-lo, nils, e.Rows, e.Nils))
				return
			}
			o := cdBlockRoundTrip(kind, col.typ, &segs[g], col.cells[lo:hi])
			res.stat("blocks")
			where := fmt.Sprintf("draw %d segment %d (%d rows, %d nulls, %s)", d, g, hi-lo, nils, cdDescribe(kind, col.cells[lo:hi]))
			switch {
			case o.panicv != "" || o.err != "":
				what := "panic: " + o.panicv
				if o.err != "" {
					what = o.err
				}
				if im.O == "panic" && o.panicv != "" {
					res.knownAll(im.Why, where+": "+what)
					badSeg[g] = "panic"
				} else {
					res.fail(encStep, "Encode", "block codec, "+where+": "+what)
					return
				}
			case o.diff != "":
				if im.O == "differs" && cdMatchesImpl(kind, col.cells[lo:hi], im.Rows, o.got) {
					res.knownAll(im.Why, where+" mode "+o.mode+": "+o.diff)
					badSeg[g] = "differs"
				} else {
					res.fail(encStep+1, "Decode", "block codec, "+where+" mode "+o.mode+": "+o.diff)
					return
				}
			default:
				for _, w := range im.Why {
					res.unobs(w)
				}
			}
			if o.panicv == "" && o.err == "" {
				res.mode(kind + "/" + o.mode)
				res.mode("block/" + o.hdr)
				if o.hdr != e.Hdr {
					res.drift(fmt.Sprintf("%s: block kind %s, the specification says %s", where, o.hdr, e.Hdr))
				}
				if !cdSameSet(im.Modes, o.mode) {
					res.drift(fmt.Sprintf("%s: mode %s, the specification says %v", where, o.mode, im.Modes))
				}
			}
		}
		// ---- record codec
		rec := cdRecord(s)
		if diff := cdRecordCodec(rec); diff != "" {
			res.fail(encStep+1, "Decode", fmt.Sprintf("draw %d: record.Marshal/Unmarshal: %s", d, diff))
			return
		}
		res.stat("records")
		// ---- row batch and WAL
		rows := cdRows(s, fmt.Sprintf("h%d", d))
		if len(rows) > 0 {
			batch, diff := cdBatchRoundTrip(rows)
			if diff != "" {
				res.fail(encStep+1, "Decode", fmt.Sprintf("draw %d: row batch of %d rows: %s", d, len(rows), diff))
				return
			}
			res.stat("batches")
			if d == 0 {
				wd := filepath.Join(cdProf.dir, fmt.Sprintf("w%d", c.ID))
				half := len(rows) / 2
				batches := [][]byte{batch}
				want := [][]influx.Row{rows}
				if half > 0 {
					b1, _ := influx.FastMarshalMultiRows(nil, rows[:half])
					b2, _ := influx.FastMarshalMultiRows(nil, rows[half:])
					batches = [][]byte{b1, b2, batch}
					want = [][]influx.Row{rows[:half], rows[half:], rows}
				}
				err := cdWalWrite(wd, batches)
				if err != nil {
					res.fail(encStep, "Encode", "WAL.Write: "+err.Error())
					os.RemoveAll(wd)
					return
				}
				got, err, pv := cdWalReplay(wd)
				os.RemoveAll(wd)
				if err != nil || pv != "" {
					res.fail(encStep+1, "Decode", fmt.Sprintf("WAL.Replay of an intact log: err=%v panic=%s", err, pv))
					return
				}
				if len(got) != len(want) {
					res.fail(encStep+1, "Decode", fmt.Sprintf("WAL.Replay delivers %d records, %d were written", len(got), len(want)))
					return
				}
				for i := range want {
					if diff := cdRowsEqual(want[i], got[i]); diff != "" {
						res.fail(encStep+1, "Decode", fmt.Sprintf("WAL.Replay record %d: %s", i, diff))
						return
					}
				}
				res.stat("wal_roundtrips")
			}
		}
		if col.timeOverflow {
			res.stat("file_skipped_time_wraps")
			continue
		}
		if len(badSeg) > 0 {
			// the data file hits the same defect: a file of its own for this series, the outcome must be the defect's
			fo := cdFileRoundTrip([]*cdSeries{s}, seg)
			res.stat("files_with_known_defect")
			var why []string
			for g := range badSeg {
				why = append(why, impl[g].Why...)
			}
			switch {
			case fo.panicv != "" && cdHasValue(badSeg, "panic"):
				res.knownAll(why, fmt.Sprintf("draw %d: data file (MsBuilder.WriteData): panic: %s", d, fo.panicv))
			case fo.panicv == "" && fo.err == "" && fo.diff != "" && fo.diffCol == "f" && badSeg[fo.diffSeg] == "differs":
				res.knownAll(why, fmt.Sprintf("draw %d: data file: %s", d, fo.diff))
			case fo.panicv == "" && fo.err == "" && fo.diff == "":
				res.drift(fmt.Sprintf("draw %d: the block codec shows a known defect in segments %v, the data file does not", d, badSeg))
			default:
				res.fail(encStep, "Encode", fmt.Sprintf("draw %d: data file of a series with a known defect in segments %v: panic=%q err=%q diff=%q", d, badSeg, fo.panicv, fo.err, fo.diff))
				return
			}
			continue
		}
		series = append(series, s)
	}
	if len(series) == 0 {
		return
	}
	// ---- data file: all draws as series of one file
	fo := cdFileRoundTrip(series, seg)
	res.stat("files")
	switch {
	case fo.panicv != "":
		res.fail(encStep, "Encode", "data file: panic: "+fo.panicv)
	case fo.err != "":
		res.fail(encStep, "Encode", "data file: "+fo.err)
	case fo.diff != "":
		res.fail(encStep+1, "Decode", "data file: "+fo.diff)
	default:
		for si, seen := range fo.seen {
			for g, ss := range seen {
				res.mode("file:" + kind + "/" + ss.mode)
				res.mode("file:block/" + ss.hdr)
				if g < len(exp) {
					if ss.hdr != exp[g].Hdr {
						res.drift(fmt.Sprintf("data file series %d segment %d: block kind %s, the specification says %s", si+1, g, ss.hdr, exp[g].Hdr))
					}
					if !cdSameSet(impl[g].Modes, ss.mode) {
						res.drift(fmt.Sprintf("data file series %d segment %d: mode %s, the specification says %v", si+1, g, ss.mode, impl[g].Modes))
					}
				}
			}
		}
	}
}

func cdDescribe(kind string, cells []cdCell) string {
	var sb strings.Builder
	last, n := "", 0
	flush := func() {
		if n > 0 {
			fmt.Fprintf(&sb, "%s*%d ", last, n)
		}
	}
	for _, c := range cells {
		if c.cls == last {
			n++
			continue
		}
		flush()
		last, n = c.cls, 1
	}
	flush()
	return strings.TrimSpace(sb.String())
}

// does the decoded segment equal EXACTLY what the as-implemented model of the specification predicts?  The model's
// rows are class tokens; a token that differs from the written class names the value the defect substitutes.
func cdMatchesImpl(kind string, exp []cdCell, implRows []string, got *record.ColVal) bool {
	if got == nil || kind != "float" || len(implRows) != len(exp) {
		return false
	}
	pred := make([]cdCell, len(exp))
	changed := false
	for i, c := range exp {
		tok := strings.TrimSuffix(implRows[i], "=")
		pred[i] = c
		if c.null {
			if tok != "N" {
				return false
			}
			continue
		}
		if tok == c.cls || (i == 0 && tok == c.cls) {
			continue
		}
		// the substitutions the model knows: a value replaced by the one member of a single-valued class
		// (a zero that lost or gained its sign)
		switch tok {
		case "PZ", "NZ", "PINF", "NINF":
			pred[i].f = cdFloatOf(tok, nil)
			changed = true
			continue
		}
		return false
	}
	return changed && cdCompare(kind, pred, got) == ""
}

// ------------------------------------------------------------------------------------------------ log cases

func cdLogRows(rng *rand.Rand, cls string, j int, padTo int) []influx.Row {
	// class a: 2 rows, class b: 3 rows; the string payload is random, so the compressed length is that of the plain length
	n := 2
	if cls == "b" {
		n = 3
	}
	rows := make([]influx.Row, n)
	for i := range rows {
		rows[i] = influx.Row{Name: "mst_0000",
			Tags: influx.PointTags{{Key: "host", Value: fmt.Sprintf("h%03d", j)}, {Key: "rec", Value: fmt.Sprintf("%04d", rng.Intn(10000))}},
			Fields: influx.Fields{
				{Key: "b", Type: influx.Field_Type_Boolean, NumValue: float64(rng.Intn(2))},
				{Key: "f", Type: influx.Field_Type_Float, NumValue: cdFloatOf([]string{"I", "L", "P", "SUB", "NZ", "NAN", "PINF", "NINF", "BIGF"}[rng.Intn(9)], rng)},
				{Key: "i", Type: influx.Field_Type_Int, NumValue: float64(rng.Int63n(1<<53) - 1<<52)},
				{Key: "s", Type: influx.Field_Type_String, StrValue: cdRandBytes(rng, padTo, false)},
			},
			Timestamp: int64(rng.Uint64()),
		}
	}
	return rows
}

func runCodecLog(c *cdCase, res *cdResult) {
	var classes []string
	var cutJ int
	var cutW string
	var exp, impl []int
	repStep := 0
	for i, st := range c.Hist {
		switch st.A {
		case "LogAppend":
			classes = append(classes, st.C)
		case "Cut":
			cutJ, cutW = st.J, st.W
		case "Replay":
			repStep = i
			if err := json.Unmarshal(st.Exp, &exp); err != nil {
				res.Infra = "bad Replay.exp"
				return
			}
			if err := json.Unmarshal(st.Impl, &impl); err != nil {
				res.Infra = "bad Replay.impl"
				return
			}
		}
	}
	rng := rand.New(rand.NewSource(c.Seed*1_000_003 + int64(c.ID)*7919))
	pad := 24 + rng.Intn(40)
	// records of one class must have the same compressed length, records of different classes different ones
	wd := filepath.Join(cdProf.dir, fmt.Sprintf("l%d", c.ID))
	defer os.RemoveAll(wd)
	var recs [][]influx.Row
	var batches [][]byte
	clen := map[string]int{}
	for j, cls := range classes {
		var rows []influx.Row
		var b []byte
		rows = cdLogRows(rng, cls, j+1, pad)
		for try := 0; ; try++ {
			var err error
			b, err = influx.FastMarshalMultiRows(nil, rows)
			if err != nil {
				res.Infra = "marshal: " + err.Error()
				return
			}
			l := len(snappy.Encode(nil, b))
			want, ok := clen[cls]
			if os.Getenv("VH_CODEC_DEBUG") != "" {
				fmt.Fprintln(os.Stderr, "log record", j, cls, "try", try, "len", len(b), "compressed", l, "want", want, ok)
			}
			if !ok || want == l {
				clen[cls] = l
				break
			}
			if try > 5000 {
				res.Infra = "no record of class " + cls + " with the compressed length of the first one"
				return
			}
			// the string payloads are random bytes: a byte more or less there is about a byte more or less after
			// compression (snappy's match skipping makes it a little erratic: a jittered walk towards the length wanted)
			sv := &rows[rng.Intn(len(rows))].Fields[3].StrValue
			d := want - l + rng.Intn(3) - 1
			switch {
			case d > 0:
				*sv += cdRandBytes(rng, d, false)
			case d < 0 && len(*sv) > -d:
				*sv = (*sv)[:len(*sv)+d]
			case d < 0:
				rows = cdLogRows(rng, cls, j+1, pad)
			}
		}
		recs = append(recs, rows)
		batches = append(batches, b)
	}
	if err := cdWalWrite(wd, batches); err != nil {
		res.Infra = "WAL.Write: " + err.Error()
		return
	}
	wf, err := cdWalFile(wd)
	if err != nil {
		res.Infra = err.Error()
		return
	}
	data, err := os.ReadFile(wf)
	if err != nil {
		res.Infra = err.Error()
		return
	}
	ends, err := cdWalBoundaries(data)
	if err != nil || len(ends) != len(classes) {
		res.Infra = fmt.Sprintf("wal boundaries: %v (%d records of %d)", err, len(ends), len(classes))
		return
	}
	lens := map[string]int{}
	for j, cls := range classes {
		start := 0
		if j > 0 {
			start = ends[j-1]
		}
		l := ends[j] - start
		if o, ok := lens[cls]; ok && o != l {
			res.Infra = fmt.Sprintf("records of class %s have compressed lengths %d and %d", cls, o, l)
			return
		}
		lens[cls] = l
	}
	if len(lens) == 2 && lens["a"] == lens["b"] {
		res.Infra = "records of class a and b have the same compressed length"
		return
	}
	start := 0
	if cutJ > 1 {
		start = ends[cutJ-2]
	}
	end := ends[cutJ-1]
	var ks []int
	switch cutW {
	case "rec_start":
		ks = []int{start}
	case "hdr_mid":
		for k := start + 1; k < start+engine.WalRecordHeadSize; k++ {
			ks = append(ks, k)
		}
	case "hdr_end":
		ks = []int{start + engine.WalRecordHeadSize}
	case "body_mid":
		for k := start + engine.WalRecordHeadSize + 1; k < end; k++ {
			ks = append(ks, k)
		}
	case "rec_end":
		ks = []int{end}
	}
	pdir := filepath.Join(wd, "p")
	for _, k := range ks {
		os.RemoveAll(pdir)
		if err := os.MkdirAll(filepath.Join(pdir, "0"), 0750); err != nil {
			res.Infra = err.Error()
			return
		}
		if err := os.WriteFile(filepath.Join(pdir, "0", "1.wal"), data[:k], 0640); err != nil {
			res.Infra = err.Error()
			return
		}
		cdWalScrub()
		got, rerr, pv := cdWalReplay(pdir)
		res.stat("log_prefixes")
		where := fmt.Sprintf("log of %d records %v cut at byte %d of %d (record %d, %s)", len(classes), classes, k, len(data), cutJ, cutW)
		if pv != "" || rerr != nil {
			res.fail(repStep, "Replay", fmt.Sprintf("%s: err=%v panic=%s", where, rerr, pv))
			return
		}
		match := func(want []int) bool {
			if len(got) != len(want) {
				return false
			}
			for i, j := range want {
				if cdRowsEqual(recs[j-1], got[i]) != "" {
					return false
				}
			}
			return true
		}
		if match(exp) {
			if !reflect.DeepEqual(exp, impl) {
				res.unobs("eof_body_reuses_buffer")
			}
			continue
		}
		desc := fmt.Sprintf("%d records delivered, the whole records are %v", len(got), exp)
		if len(got) > 0 {
			last := got[len(got)-1]
			desc += fmt.Sprintf("; the last delivered record has %d rows of host=%s", len(last), last[0].Tags[0].Value)
		}
		if !reflect.DeepEqual(exp, impl) && match(impl) {
			res.known("eof_body_reuses_buffer", where+": "+desc+fmt.Sprintf(" (the model of the defect predicts %v)", impl))
			continue
		}
		res.fail(repStep, "Replay", where+": "+desc)
		return
	}
}

// ------------------------------------------------------------------------------------------------ batch cases

type cdRowLayout struct {
	start, nameEnd, skEnd, tagsEnd, fieldsEnd, idxEnd, end int
}

func cdBatchLayout(rows []influx.Row) []cdRowLayout {
	var out []cdRowLayout
	p := 5
	for i := range rows {
		r := &rows[i]
		l := cdRowLayout{start: p}
		p += 1 + len(r.Name)
		l.nameEnd = p
		p += 4 + len(r.ShardKey)
		l.skEnd = p
		p += 4
		for _, t := range r.Tags {
			p += 2 + len(t.Key) + 2 + len(t.Value)
		}
		l.tagsEnd = p
		p += 4
		for _, f := range r.Fields {
			p += 2 + len(f.Key) + 1
			if f.Type == influx.Field_Type_String {
				p += 8 + len(f.StrValue)
			} else {
				p += 8
			}
		}
		l.fieldsEnd = p
		p++
		if len(r.IndexOptions) > 0 {
			p += 4
			for _, o := range r.IndexOptions {
				p += 4 + 2 + 2*len(o.IndexList)
			}
		}
		l.idxEnd = p
		p += 8
		l.end = p
		out = append(out, l)
	}
	return out
}

func runCodecBatch(c *cdCase, res *cdResult) {
	var n, cutR int
	var cutW, exp, impl string
	step := 0
	for i, st := range c.Hist {
		switch st.A {
		case "Marshal":
			n = st.N
		case "CutBatch":
			cutR, cutW = st.R, st.W
		case "Unmarshal":
			step = i
			_ = json.Unmarshal(st.Exp, &exp)
			_ = json.Unmarshal(st.Impl, &impl)
		}
	}
	rng := rand.New(rand.NewSource(c.Seed*1_000_003 + int64(c.ID)*7919))
	var rows []influx.Row
	for i := 0; i < n; i++ {
		rows = append(rows, cdLogRows(rng, "a", i+1, 1+rng.Intn(30))[0])
		if rng.Intn(2) == 0 {
			rows[i].ShardKey = []byte("mst_0000,host=" + rows[i].Tags[0].Value)
		}
		if rng.Intn(3) == 0 {
			rows[i].Tags = nil
		}
		if rng.Intn(3) == 0 {
			rows[i].Fields = rows[i].Fields[:1+rng.Intn(3)]
		}
		if rng.Intn(2) == 0 || (cutW == "idxopt" && i == cutR-1) {
			rows[i].IndexOptions = influx.IndexOptions{{Oid: uint32(rng.Intn(5)), IndexList: []uint16{uint16(rng.Intn(9)), 3}}}
			if rng.Intn(2) == 0 {
				rows[i].IndexOptions = append(rows[i].IndexOptions, influx.IndexOption{Oid: 7, IndexList: []uint16{1}})
			}
		}
	}
	batch, diff := cdBatchRoundTrip(rows)
	if diff != "" {
		res.fail(0, "Marshal", "row batch: "+diff)
		return
	}
	lay := cdBatchLayout(rows)
	if lay[len(lay)-1].end != len(batch) {
		res.Infra = fmt.Sprintf("batch layout: computed %d bytes, the batch has %d", lay[len(lay)-1].end, len(batch))
		return
	}
	l := lay[cutR-1]
	var ks []int
	rng2 := func(lo, hi int) {
		for k := lo; k <= hi; k++ {
			ks = append(ks, k)
		}
	}
	switch cutW {
	case "count":
		rng2(0, 4)
	case "row_start":
		ks = []int{l.start}
	case "name":
		rng2(l.start+1, l.nameEnd)
	case "shardkey":
		rng2(l.nameEnd+1, l.skEnd)
	case "tags":
		rng2(l.skEnd+1, l.tagsEnd)
	case "fields":
		rng2(l.tagsEnd+1, l.fieldsEnd-1)
	case "fields_end":
		ks = []int{l.fieldsEnd}
	case "idxopt":
		rng2(l.fieldsEnd+2, l.idxEnd)
	case "ts":
		if l.idxEnd == l.fieldsEnd+1 {
			rng2(l.fieldsEnd+1, l.end-1)
		} else {
			rng2(l.idxEnd+1, l.end-1)
		}
		if len(ks) > 0 && ks[0] != l.fieldsEnd+1 {
			ks = append([]int{l.fieldsEnd + 1}, ks...) // the flag byte alone
		}
	}
	for _, k := range ks {
		got, detail := cdUnmarshalPrefix(batch, k)
		res.stat("batch_prefixes")
		where := fmt.Sprintf("batch of %d rows (%d bytes) cut at byte %d (row %d, %s)", n, len(batch), k, cutR, cutW)
		switch {
		case got == exp:
			if impl != exp {
				res.unobs("batch_unchecked_slices")
			}
		case got == impl && got == "panic":
			res.known("batch_unchecked_slices", where+": panic: "+detail)
		default:
			res.fail(step, "Unmarshal", where+": "+got+": "+detail)
			return
		}
	}
}

// ------------------------------------------------------------------------------------------------ driver

func runCodecCase(c *cdCase) (res cdResult) {
	res = cdResult{ID: c.ID, OK: true, Modes: map[string]int{}, Stats: map[string]int{}}
	defer func() {
		if r := recover(); r != nil {
			res.Infra = "harness panic: " + fmt.Sprint(r)
		}
	}()
	if len(c.Hist) == 0 {
		res.Infra = "empty history"
		return
	}
	switch c.Hist[0].A {
	case "Choose":
		runCodecColumn(c, &res)
	case "LogAppend":
		runCodecLog(c, &res)
	case "Marshal":
		runCodecBatch(c, &res)
	default:
		res.Infra = "unknown first action " + c.Hist[0].A
	}
	return
}

func replayCodec(args []string) int {
	fs := flag.NewFlagSet("replay-codec", flag.ContinueOnError)
	falgo := fs.String("falgo", "gorilla", "float compression: gorilla | mlf")
	salgo := fs.String("salgo", "snappy", "string compression: snappy | zstd | lz4")
	cm := fs.Int("cm", 0, "chunk meta compression mode 0..3")
	if err := fs.Parse(args); err != nil {
		return 2
	}
	tmp, err := os.MkdirTemp("/dev/shm", "verif-c07-")
	if err != nil {
		fmt.Fprintln(os.Stderr, err)
		return 2
	}
	defer os.RemoveAll(tmp)
	_ = flag.CommandLine.Set("loggerLevel", "ERROR")
	if !flag.Parsed() {
		_ = flag.CommandLine.Parse(nil)
	}
	lc := config.NewLogger(config.AppStore)
	lc.Path = filepath.Join(tmp, "logs")
	lc.Level = 3 // panic level: the replay of a torn log logs an error per cut
	logger.InitLogger(lc)
	cdProf = cdProfile{falgo: *falgo, salgo: *salgo, cm: *cm, dir: tmp}
	config.GetStoreConfig().StringCompressAlgo = *salgo
	if *falgo == "mlf" {
		config.GetStoreConfig().FloatCompressAlgorithm = compress.FloatCompressAlgorithmMLF
	} else {
		config.GetStoreConfig().FloatCompressAlgorithm = ""
	}
	compress.Init()
	if compress.IsEnableMLF() != (*falgo == "mlf") {
		fmt.Fprintln(os.Stderr, "float compression algorithm not applied")
		return 2
	}
	immutable.SetChunkMetaCompressMode(*cm)
	if int(immutable.GetChunkMetaCompressMode()) != *cm {
		fmt.Fprintln(os.Stderr, "chunk meta compression mode not applied")
		return 2
	}
	_ = util.Hot

	sc := bufio.NewScanner(os.Stdin)
	sc.Buffer(make([]byte, 1<<20), 1<<28)
	out := bufio.NewWriter(os.Stdout)
	defer out.Flush()
	bad := 0
	for sc.Scan() {
		line := sc.Bytes()
		if len(line) == 0 {
			continue
		}
		var c cdCase
		if err := json.Unmarshal(line, &c); err != nil {
			fmt.Fprintln(os.Stderr, "bad case:", err)
			return 2
		}
		done := make(chan cdResult, 1)
		go func() { done <- runCodecCase(&c) }()
		var r cdResult
		select {
		case r = <-done:
		case <-time.After(180 * time.Second):
			r = cdResult{ID: c.ID, Hang: true, Detail: "case did not finish within 180s"}
			b, _ := json.Marshal(r)
			out.Write(b)
			out.WriteByte('\n')
			out.Flush()
			os.Exit(3)
		}
		if !r.OK {
			bad++
		}
		b, _ := json.Marshal(r)
		out.Write(b)
		out.WriteByte('\n')
	}
	if bad > 0 {
		return 1
	}
	return 0
}
