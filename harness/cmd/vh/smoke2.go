package main

import (
	"fmt"
	"os"

	"github.com/openGemini/openGemini/engine/index/tsi"

	"github.com/openGemini/openGemini/lib/util/lifted/influx/influxql"
	"github.com/openGemini/openGemini/lib/util/lifted/vm/protoparser/influx"
	"verifharness/internal/engx"
)

func init() { cmds["smoke2"] = smoke2 }

func smoke2(args []string) int {
	dir, _ := os.MkdirTemp("/dev/shm", "vh-smoke-")
	defer os.RemoveAll(dir)
	e, err := engx.Open(dir+"/a", engx.Options{WalParts: 1})
	if err != nil {
		fmt.Println("open:", err)
		return 2
	}
	p := func(s string, t int64, v float64) engx.Pt {
		return engx.Pt{Mst: "m", Tags: [][2]string{{"host", s}}, Time: t, Fields: []engx.FV{{Key: "f", Typ: influx.Field_Type_Int, Num: v}}}
	}
	fr := []engx.FieldReq{{Name: "f", Typ: influxql.Integer}}
	e.Write([]engx.Pt{p("s1", 4, 1)})
	e.IndexFlush()
	e.Flush()
	nre := 1
	if len(args) > 0 {
		fmt.Sscanf(args[0], "%d", &nre)
	}
	for i := 0; i < nre; i++ {
		e.Close()
		e, err = engx.Open(dir+"/a", engx.Options{WalParts: 1})
		if err != nil {
			fmt.Println("reopen:", err)
			return 2
		}
	}
	e.Write([]engx.Pt{p("s2", 6, 2)})
	e.IndexFlush()
	rows, err := e.Read("m", fr, []string{"host"}, 0, 1000, true)
	fmt.Println("after:", rows, err)
	sh := e.Shard()
	if idx, ok := sh.GetIndexBuilder().GetPrimaryIndex().(*tsi.MergeSetIndex); ok {
		keys, err := idx.SearchSeriesKeys(nil, []byte("m_0000"), nil)
		for _, k := range keys {
			fmt.Printf("KEY %q\n", k)
		}
		fmt.Println(err)
		for _, pt := range []engx.Pt{p("s1", 1, 1), p("s2", 1, 1)} {
			r := engx.MakeRows([]engx.Pt{pt})
			id, err := idx.GetSeriesIdBySeriesKey(r[0].IndexKey)
			fmt.Println("SID", pt.Tags, id, err)
		}
	}
	fmt.Println("series count", sh.GetSeriesCount())
	e.Close()
	return 0
}
