//go:build verif

package main

// routes: prints the LIVE HTTP route table of the SQL front end (C19).
//
// The handler is built exactly the way ts-sql / ts-server build it: sql.NewServer(config) (which calls
// httpd.NewService -> httpd.NewHandler -> AddInfluxDBAPIRoutes / AddPrometheusAPIRoutes / AddSysAPIRoutes /
// AddFluxAPIRoute / AddLogstreamAPIRoutes, and then adds the server's own routes such as /runtime_config).
// The server is constructed but never opened (no listener, no meta connection). The handler is then read
// out of the server (unexported field httpService, reflection) and its router is walked through the verif
// hook (*httpd.Handler).VerifRoutes. Nothing is taken from a copied list.
//
//   vh routes [-product logkeeper] [-runtimecfg] [-flux] [-pprof]
//
// Output: one line "ROUTES " + JSON object {"config":{...},"routes":[{"pattern":..,"methods":[..]}],"prefixes":[..],"via":".."}.
// "prefixes" are the path prefixes ServeHTTP dispatches outside the router; they are probed on the handler
// itself (a request below the prefix that the router does not know must not be answered by the router's 404).
// Exit 2 when the hook is absent or the server cannot be constructed.

import (
	"encoding/json"
	"flag"
	"fmt"
	"net/http"
	"net/http/httptest"
	"os"
	"reflect"
	"sort"
	"unsafe"

	"github.com/openGemini/openGemini/app"
	sql "github.com/openGemini/openGemini/app/ts-sql/sql"
	"github.com/openGemini/openGemini/lib/config"
	"github.com/openGemini/openGemini/lib/logger"
	"github.com/openGemini/openGemini/lib/util/lifted/influx/httpd"
)

func init() { cmds["routes"] = routesCmd }

type routeOut struct {
	Pattern string   `json:"pattern"`
	Methods []string `json:"methods"`
}

func routesCmd(args []string) int {
	fs := flag.NewFlagSet("routes", flag.ContinueOnError)
	product := fs.String("product", "", "product type (logkeeper)")
	runtimecfg := fs.Bool("runtimecfg", false, "enable the runtime-config service")
	flux := fs.Bool("flux", false, "flux-enabled")
	pprof := fs.Bool("pprof", false, "pprof-enabled")
	direct := fs.Bool("direct", false, "build the handler with httpd.NewHandler only (no server)")
	if err := fs.Parse(args); err != nil {
		return 2
	}
	config.SetProductType(*product)
	defer config.SetProductType("")

	c := config.NewTSSql(false)
	c.HTTP.AuthEnabled = true
	c.HTTP.FluxEnabled = *flux
	c.HTTP.PprofEnabled = *pprof
	c.HTTP.LogEnabled = false
	c.Common.ProductType = *product
	if *runtimecfg {
		dir, err := os.MkdirTemp("/dev/shm", "vh-routes-")
		if err != nil {
			fmt.Fprintln(os.Stderr, "routes:", err)
			return 2
		}
		defer os.RemoveAll(dir)
		p := dir + "/runtime.yaml"
		_ = os.WriteFile(p, []byte("overrides: {}\n"), 0600)
		c.RuntimeConfig.Enabled = true
		c.RuntimeConfig.LoadPath = p
	}

	var h *httpd.Handler
	via := "sql.NewServer"
	if *direct {
		h = httpd.NewHandler(c.HTTP)
		via = "httpd.NewHandler"
	} else {
		srv, err := sql.NewServer(c, app.ServerInfo{App: config.AppSingle, Version: "verif"}, logger.NewLogger(0))
		if err != nil {
			fmt.Fprintln(os.Stderr, "routes: sql.NewServer:", err)
			return 2
		}
		h = handlerOf(srv)
		if h == nil {
			fmt.Fprintln(os.Stderr, "routes: the http handler cannot be read out of sql.Server (field httpService.Handler moved?)")
			return 2
		}
	}

	m := reflect.ValueOf(h).MethodByName("VerifRoutes")
	if !m.IsValid() {
		fmt.Fprintln(os.Stderr, "routes: verif hook (*httpd.Handler).VerifRoutes is absent in the tree under verification")
		return 2
	}
	res := m.Call(nil)[0]
	byPat := map[string]map[string]bool{}
	var order []string
	for i := 0; i < res.Len(); i++ {
		r := res.Index(i)
		p := r.FieldByName("Pattern").String()
		ms := r.FieldByName("Methods")
		if _, ok := byPat[p]; !ok {
			byPat[p] = map[string]bool{}
			order = append(order, p)
		}
		if ms.Len() == 0 {
			byPat[p]["*"] = true
		}
		for j := 0; j < ms.Len(); j++ {
			byPat[p][ms.Index(j).String()] = true
		}
	}
	out := struct {
		Config   map[string]interface{} `json:"config"`
		Routes   []routeOut             `json:"routes"`
		Prefixes []string               `json:"prefixes"`
		Via      string                 `json:"via"`
	}{Config: map[string]interface{}{"product": *product, "runtimecfg": *runtimecfg, "flux": *flux, "pprof": *pprof}, Via: via}
	for _, p := range order {
		var ms []string
		for k := range byPat[p] {
			ms = append(ms, k)
		}
		sort.Strings(ms)
		out.Routes = append(out.Routes, routeOut{Pattern: p, Methods: ms})
	}
	out.Prefixes = probePrefixes(h, byPat)
	b, _ := json.Marshal(out)
	fmt.Println("ROUTES " + string(b))
	return 0
}

// handlerOf reads (*sql.Server).httpService.Handler.
func handlerOf(s interface{}) *httpd.Handler {
	v := reflect.ValueOf(s)
	for v.Kind() == reflect.Ptr || v.Kind() == reflect.Interface {
		v = v.Elem()
	}
	if v.Kind() != reflect.Struct {
		return nil
	}
	for i := 0; i < v.NumField(); i++ {
		f := v.Field(i)
		if f.Type() == reflect.TypeOf((*httpd.Service)(nil)) {
			f = reflect.NewAt(f.Type(), unsafe.Pointer(f.UnsafeAddr())).Elem()
			svc, _ := f.Interface().(*httpd.Service)
			if svc != nil {
				return svc.Handler
			}
		}
	}
	return nil
}

// probePrefixes finds the path prefixes that ServeHTTP serves outside the router: for every candidate prefix a
// path below it that no route matches is requested (GET below /debug, where every known handler only reads; an
// unknown method elsewhere). The router answers such a path with its own not-found / method-not-allowed answer,
// which is taken from a path that certainly does not exist; a prefix dispatch answers anything else (or panics on
// a service only an opened server has). The candidate list is wider than the three prefixes known today; the
// Python side additionally probes the live server with paths outside every mapped route.
func probePrefixes(h *httpd.Handler, byPat map[string]map[string]bool) []string {
	cands := []string{"/debug/pprof", "/debug/vars", "/debug/query", "/debug/requests", "/debug/ctrl", "/debug/state", "/debug",
		"/metrics", "/health", "/ready", "/status", "/ping", "/api", "/api/v1", "/api/v2", "/backup", "/runtime_config"}
	ask := func(method, path string) (code int, body string, panicked bool) {
		defer func() {
			if recover() != nil {
				panicked = true
			}
		}()
		rec := httptest.NewRecorder()
		req := httptest.NewRequest(http.MethodGet, path, nil)
		req.Method = method
		h.ServeHTTP(rec, req)
		return rec.Code, rec.Body.String(), false
	}
	var found []string
	for _, c := range cands {
		method := "VERIFPROBE"
		if len(c) >= 6 && c[:6] == "/debug" {
			method = http.MethodGet
		}
		rc, rb, _ := ask(method, "/verif-no-such-root/verif-no-such-leaf")
		code, body, panicked := ask(method, c+"/verif-no-such-leaf")
		if panicked || code != rc || body != rb {
			found = append(found, c)
		}
	}
	sort.Strings(found)
	return found
}
