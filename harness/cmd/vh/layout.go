//go:build verif

package main

// replay-layout: steps TLC-generated behaviours of specs/Layout.tla through a real shard and compares
// what queries read with the specification's expected observation after every action (C02).

import (
	"bufio"
	"encoding/json"
	"fmt"
	"math/rand"
	"os"
	"regexp"
	"sort"
	"strings"
	"time"

	"path/filepath"

	"github.com/openGemini/openGemini/engine/immutable"
	"github.com/openGemini/openGemini/engine/index/tsi"
	"github.com/openGemini/openGemini/lib/util/lifted/influx/influxql"
	"github.com/openGemini/openGemini/lib/util/lifted/vm/protoparser/influx"
	"verifharness/internal/crashfs"
	"verifharness/internal/engx"
)

func init() { cmds["replay-layout"] = replayLayout }

type specRow struct {
	S  string   `json:"s"`
	M  string   `json:"m"` // measurement ("" = "m")
	T  int64    `json:"t"`
	Fs []string `json:"fs"`
	V  int64    `json:"v"`
}

type specObs struct {
	S string           `json:"s"`
	M string           `json:"m"`
	T int64            `json:"t"`
	V map[string]int64 `json:"v"`
}

func mstOr(m string) string {
	if m == "" {
		return "m"
	}
	return m
}

type specStep struct {
	A     string          `json:"a"`
	Args  json.RawMessage `json:"args"`
	Exp   []specObs       `json:"exp"`
	Shape map[string]int  `json:"shape"`
}

type layoutCase struct {
	ID       int        `json:"id"`
	Seed     int64      `json:"seed"`
	Hist     []specStep `json:"hist"`
	Crash    bool       `json:"crash"`     // C03: freeze a crash image after every fs mutation of each reorganisation
	NoSettle bool       `json:"no_settle"` // do not wait for background loads (directed reproduction of F-C04-1)
	// directed reproduction of a known finding: forced concretisation, and the contents the finding's deviation
	// model predicts after the named step
	Force *struct {
		Seg   int               `json:"seg"`
		Types map[string]string `json:"types"`
	} `json:"force,omitempty"`
	Probe *struct {
		Finding string    `json:"finding"`
		Step    int       `json:"step"`
		Wrong   []specObs `json:"wrong"`
	} `json:"probe,omitempty"`
}

// sparseDownSample: the behaviour down-samples, and some written row lacks a field of its measurement
func sparseDownSample(h []specStep) bool {
	has := false
	fields := map[string]map[string]bool{}
	var rows []specRow
	for _, st := range h {
		if st.A == "DownSample" {
			has = true
		}
		if st.A == "Write" {
			var rs []specRow
			if json.Unmarshal(st.Args, &rs) == nil {
				for _, r := range rs {
					if fields[mstOr(r.M)] == nil {
						fields[mstOr(r.M)] = map[string]bool{}
					}
					for _, f := range r.Fs {
						fields[mstOr(r.M)][f] = true
					}
					rows = append(rows, r)
				}
			}
		}
	}
	if !has {
		return false
	}
	for _, r := range rows {
		if len(r.Fs) < len(fields[mstOr(r.M)]) {
			return true
		}
	}
	return false
}

type caseResult struct {
	ID                int                        `json:"id"`
	OK                bool                       `json:"ok"`
	Step              int                        `json:"step"`
	Action            string                     `json:"action,omitempty"`
	Detail            string                     `json:"detail,omitempty"`
	Reads             int                        `json:"reads"`
	Drift             int                        `json:"drift"`
	Infra             string                     `json:"infra,omitempty"`
	Known             string                     `json:"known,omitempty"`             // id of the known finding this divergence was attributed to
	KnownReadErrors   int                        `json:"known_read_errors,omitempty"` // F-C02-2 occurrences (query retried)
	Images            int                        `json:"images"`                      // crash images restored and re-opened (C03)
	Nested            int                        `json:"nested"`
	Reorgs            int                        `json:"reorgs"` // reorganisations that actually replaced files
	IndexInconclusive int                        `json:"index_inconclusive"`
	Tev               [][]map[string]interface{} `json:"tev,omitempty"` // per reorganisation: spec-level fs event trace
	Hang              bool                       `json:"hang,omitempty"`
	// coverage of the reorganisations that really replaced files (C03)
	Kinds    map[string]int `json:"kinds,omitempty"`     // LevelCompact | FullCompact | MergeOOO | DownSample
	Methods  map[string]int `json:"methods,omitempty"`   // compactions per method (stream | nonstream | auto)
	ToLevels map[string]int `json:"to_levels,omitempty"` // compactions per output level
	Groups   map[string]int `json:"groups,omitempty"`    // level compactions per group size
	Msts     map[string]int `json:"msts,omitempty"`      // replacements per number of measurements touched at once
	Torn     int            `json:"torn"`                // images with a half-written temporary file or log
	PreWrite int            `json:"prewrite"`            // images taken while the reorganisation was still writing its temporary files
	DSPre    int            `json:"ds_pre"`              // down-sample images that must recover to the raw contents
	DSPost   int            `json:"ds_post"`             // down-sample images that must recover to the down-sampled contents
	Skips    int            `json:"skips"`
}

func bump(m *map[string]int, k string) {
	if *m == nil {
		*m = map[string]int{}
	}
	(*m)[k]++
}

// ---- deviation model "wal_replay_round_robin_from_0" (known finding F-C01-1) -------------------
// WAL records are appended to partition (writeReq++ mod N); writeReq is not reset when the log is
// switched at a flush; start-up replays one record from partition 0,1,..,N-1 in turn. The model
// predicts what a restart recovers; a divergence is attributed to the finding only if the real
// contents equal this prediction exactly.
type lwwTable map[string]map[string]int64

func (t lwwTable) apply(rows []specRow) {
	for _, r := range rows {
		k := fmt.Sprintf("%s|%d", r.S, r.T)
		if t[k] == nil {
			t[k] = map[string]int64{}
		}
		for _, f := range r.Fs {
			t[k][f] = r.V
		}
	}
}

func (t lwwTable) clone() lwwTable {
	c := lwwTable{}
	for k, m := range t {
		c[k] = map[string]int64{}
		for f, v := range m {
			c[k][f] = v
		}
	}
	return c
}

func (t lwwTable) obs(fields []string) []specObs {
	var out []specObs
	for k, m := range t {
		var s string
		var tm int64
		i := strings.LastIndex(k, "|")
		s = k[:i]
		fmt.Sscanf(k[i+1:], "%d", &tm)
		o := specObs{S: s, T: tm, V: map[string]int64{}}
		for _, f := range fields {
			o.V[f] = m[f]
		}
		out = append(out, o)
	}
	return out
}

type walModel struct {
	n        int
	writeReq int
	pending  [][][]specRow // per partition: queue of records (a record = one write batch)
	flushed  lwwTable
}

func newWalModel(n int) *walModel {
	return &walModel{n: n, pending: make([][][]specRow, n), flushed: lwwTable{}}
}

func (w *walModel) write(rows []specRow) {
	p := w.writeReq % w.n
	w.writeReq++
	w.pending[p] = append(w.pending[p], rows)
}

// ack-order application of everything pending (what a flush persists)
func (w *walModel) flush(acked [][]specRow) {
	for _, b := range acked {
		w.flushed.apply(b)
	}
	for i := range w.pending {
		w.pending[i] = nil
	}
}

// restart: round-robin replay from partition 0, then everything is flushed and writeReq restarts
func (w *walModel) restartPrediction() lwwTable {
	t := w.flushed.clone()
	idx := make([]int, w.n)
	for {
		progressed := false
		for p := 0; p < w.n; p++ {
			if idx[p] < len(w.pending[p]) {
				t.apply(w.pending[p][idx[p]])
				idx[p]++
				progressed = true
			}
		}
		if !progressed {
			break
		}
	}
	return t
}

const timeBase = int64(1600000000) * 1e9
const timeStep = int64(1e9)

// concretisation of one abstract field: type chosen per case from the seed
type fieldConc struct {
	name  string
	typ   int32
	plain bool // the abstract value is the stored integer itself (count_<field> columns of a down-sampled shard)
}

func (f fieldConc) fv(v int64) engx.FV {
	switch f.typ {
	case influx.Field_Type_Int:
		return engx.FV{Key: f.name, Typ: f.typ, Num: float64(v)}
	case influx.Field_Type_Float:
		return engx.FV{Key: f.name, Typ: f.typ, Num: float64(v) + 0.5}
	case influx.Field_Type_Boolean:
		return engx.FV{Key: f.name, Typ: f.typ, Num: float64(v % 2)}
	default:
		return engx.FV{Key: f.name, Typ: f.typ, Str: fmt.Sprintf("v%d", v)}
	}
}

// cellString renders a read cell in the same canonical form as expString renders an expected value
func (f fieldConc) cellString(c engx.Cell) string {
	if c.Null {
		return "null"
	}
	switch f.typ {
	case influx.Field_Type_Int:
		return fmt.Sprintf("%d", c.I)
	case influx.Field_Type_Float:
		return fmt.Sprintf("%g", c.F)
	case influx.Field_Type_Boolean:
		return fmt.Sprintf("%v", c.B)
	default:
		return c.S
	}
}

func (f fieldConc) expString(v int64) string {
	if v == 0 {
		return "null"
	}
	if f.plain {
		return fmt.Sprintf("%d", v)
	}
	switch f.typ {
	case influx.Field_Type_Int:
		return fmt.Sprintf("%d", v)
	case influx.Field_Type_Float:
		return fmt.Sprintf("%g", float64(v)+0.5)
	case influx.Field_Type_Boolean:
		return fmt.Sprintf("%v", v%2 == 1)
	default:
		return fmt.Sprintf("v%d", v)
	}
}

func (f fieldConc) req() engx.FieldReq {
	switch f.typ {
	case influx.Field_Type_Int:
		return engx.FieldReq{Name: f.name, Typ: influxql.Integer}
	case influx.Field_Type_Float:
		return engx.FieldReq{Name: f.name, Typ: influxql.Float}
	case influx.Field_Type_Boolean:
		return engx.FieldReq{Name: f.name, Typ: influxql.Boolean}
	default:
		return engx.FieldReq{Name: f.name, Typ: influxql.String}
	}
}

var fieldTypes = []int32{influx.Field_Type_Int, influx.Field_Type_Float, influx.Field_Type_String, influx.Field_Type_Boolean}

type layoutConc struct {
	fields map[string]fieldConc // abstract field name -> concrete column read now
	raw    map[string]fieldConc // abstract field name -> concrete field as written
	order  []string             // abstract field names sorted
	msts   []string             // measurements of the behaviour, sorted
}

// dsArgs are the arguments of a DownSample action: [interval, {field: call}]
func dsArgs(raw json.RawMessage) (int64, map[string]string, error) {
	var a []json.RawMessage
	if err := json.Unmarshal(raw, &a); err != nil || len(a) != 2 {
		return 0, nil, fmt.Errorf("bad DownSample args %s", string(raw))
	}
	var iv int64
	calls := map[string]string{}
	if err := json.Unmarshal(a[0], &iv); err != nil {
		return 0, nil, err
	}
	if err := json.Unmarshal(a[1], &calls); err != nil {
		return 0, nil, err
	}
	return iv, calls, nil
}

func newLayoutConc(h []specStep, rng *rand.Rand) *layoutConc {
	names := map[string]bool{}
	msts := map[string]bool{}
	numeric := map[string]bool{} // fields aggregated by min / max: the concretisation must keep the order of the abstract values
	for _, st := range h {
		for _, o := range st.Exp {
			for f := range o.V {
				names[f] = true
			}
			msts[mstOr(o.M)] = true
		}
		if st.A == "DownSample" {
			if _, calls, err := dsArgs(st.Args); err == nil {
				for f, c := range calls {
					if c == "min" || c == "max" {
						numeric[f] = true
					}
				}
			}
		}
	}
	c := &layoutConc{fields: map[string]fieldConc{}, raw: map[string]fieldConc{}}
	for f := range names {
		c.order = append(c.order, f)
	}
	for m := range msts {
		c.msts = append(c.msts, m)
	}
	sort.Strings(c.order)
	sort.Strings(c.msts)
	for i, f := range c.order {
		typ := fieldTypes[rng.Intn(len(fieldTypes))]
		if i == 0 && rng.Intn(2) == 0 {
			typ = influx.Field_Type_Int // unique values discriminate best; keep one int field often
		}
		if numeric[f] && typ != influx.Field_Type_Int && typ != influx.Field_Type_Float {
			typ = []int32{influx.Field_Type_Int, influx.Field_Type_Float}[rng.Intn(2)]
		}
		c.fields[f] = fieldConc{name: f, typ: typ}
		c.raw[f] = c.fields[f]
	}
	return c
}

// downSampled returns the concretisation after a down-sample: field f is read from column <call>_<f>.
func (c *layoutConc) downSampled(calls map[string]string) *layoutConc {
	d := &layoutConc{fields: map[string]fieldConc{}, raw: c.raw, order: c.order, msts: c.msts}
	for _, f := range c.order {
		call := calls[f]
		fc := fieldConc{name: call + "_" + c.raw[f].name, typ: c.raw[f].typ}
		if call == "count" {
			fc.typ, fc.plain = influx.Field_Type_Int, true
		}
		d.fields[f] = fc
	}
	return d
}

func seriesTags(s string) [][2]string { return [][2]string{{"host", s}, {"zone", "z"}} }
func seriesKey(s string) string       { return "host=" + s + ",zone=z" }

// expected rows for a read of fields fs over [tmin,tmax]: canonical strings "measurement|series|time|v1|v2"
func expectRows(c *layoutConc, exp []specObs, fs []string, tmin, tmax int64) []string {
	var out []string
	for _, o := range exp {
		t := timeBase + o.T*timeStep
		if t < tmin || t > tmax {
			continue
		}
		any := false
		parts := []string{mstOr(o.M), seriesKey(o.S), fmt.Sprintf("%d", t)}
		for _, f := range fs {
			v := o.V[f]
			if v != 0 {
				any = true
			}
			parts = append(parts, c.fields[f].expString(v))
		}
		if any {
			out = append(out, strings.Join(parts, "|"))
		}
	}
	sort.Strings(out)
	return out
}

// readCheck runs one read (of every measurement of the behaviour) and compares it; returns "" when equal.
func readCheck(e *engx.Env, c *layoutConc, exp []specObs, fs []string, tmin, tmax int64, asc bool) string {
	var reqs []engx.FieldReq
	for _, f := range fs {
		reqs = append(reqs, c.fields[f].req())
	}
	var got []string
	for _, mst := range c.msts {
		rows, err := e.Read(mst, reqs, []string{"host", "zone"}, tmin, tmax, asc)
		if err != nil && strings.Contains(err.Error(), "slice bounds out of range [4294967288:0]") {
			// known finding F-C02-2: ReadMetaBlock fails (EINVAL) and ChunkMeta goes on to index the empty
			// block; the query fails with a recovered panic. Intermittent; a retry must succeed.
			knownReadErrors++
			rows, err = e.Read(mst, reqs, []string{"host", "zone"}, tmin, tmax, asc)
		}
		if err != nil {
			return "read error: " + err.Error()
		}
		lastT := map[string]int64{}
		for _, r := range rows {
			parts := []string{mst, r.Series, fmt.Sprintf("%d", r.Time)}
			for i, f := range fs {
				parts = append(parts, c.fields[f].cellString(r.Vals[i]))
			}
			got = append(got, strings.Join(parts, "|"))
			if lt, ok := lastT[r.Series]; ok {
				if (asc && r.Time <= lt) || (!asc && r.Time >= lt) {
					dump := ""
					for _, x := range rows {
						dump += fmt.Sprintf(" [%s %d", x.Series, (x.Time-timeBase)/timeStep)
						for i, f := range fs {
							dump += " " + c.fields[f].cellString(x.Vals[i])
						}
						dump += "]"
					}
					if idx, ok := e.Shard().GetIndexBuilder().GetPrimaryIndex().(*tsi.MergeSetIndex); ok {
						for _, sname := range []string{"s1", "s2"} {
							rr := engx.MakeRows([]engx.Pt{{Mst: mst, Tags: seriesTags(sname), Time: 1}})
							sid, _ := idx.GetSeriesIdBySeriesKey(rr[0].IndexKey)
							sq := e.Store().Sequencer()
							lf, rc := sq.Get(mst+"_0000", sid)
							dump += fmt.Sprintf(" {seq %s sid=%d lastFlush=%d rows=%d loading=%v}", sname, sid, (lf-timeBase)/timeStep, rc, sq.IsLoading())
							sq.UnRef()
						}
					}
					dump += fileDump(e, mst)
					return fmt.Sprintf("rows of series %s of measurement %s not strictly sorted by time (asc=%v): %d after %d; all rows:%s", r.Series, mst, asc, r.Time, lt, dump)
				}
			}
			lastT[r.Series] = r.Time
		}
	}
	sort.Strings(got)
	want := expectRows(c, exp, fs, tmin, tmax)
	if strings.Join(got, "\n") != strings.Join(want, "\n") {
		cols := []string{}
		for _, f := range fs {
			cols = append(cols, f+"="+c.fields[f].name)
		}
		return fmt.Sprintf("read fields=%v range=[%d,%d] asc=%v\n  got:  %v\n  want: %v", cols, (tmin-timeBase)/timeStep, (tmax-timeBase)/timeStep, asc, got, want)
	}
	return ""
}

func fileDump(e *engx.Env, mst string) string {
	dump := ""
	for _, ord := range []bool{true, false} {
		if fsx, ok := e.Shard().GetTSSPFiles(mst+"_0000", ord); ok && fsx != nil {
			for _, f := range fsx.Files() {
				mn, mx, _ := f.MinMaxTime()
				dump += fmt.Sprintf(" {file %s order=%v t=[%d,%d]}", filepath.Base(f.Path()), ord, (mn-timeBase)/timeStep, (mx-timeBase)/timeStep)
			}
			immutable.UnrefFiles(fsx.Files()...)
		}
	}
	return dump
}

func describeEvent(events []crashfs.Event, n int) string {
	for _, ev := range events {
		if ev.N == n {
			return fmt.Sprintf("%s %s %s", ev.Op, ev.Class, filepath.Base(ev.Path))
		}
	}
	return "?"
}

var knownReadErrors int

// withCompaction is the reorganisation switch of the concurrent driver (view.go): reorganisations on, one entry
// point, wait, reorganisations off - through the store's enable flags (shard.DisableCompAndMerge would close the
// compaction scheduler for good, finding F-C03-2).
func withCompaction(e *engx.Env, f func(st *immutable.MmsTables) error) error {
	sh := e.Shard()
	st, ok := sh.GetTableStore().(*immutable.MmsTables)
	if !ok {
		return fmt.Errorf("table store is not *MmsTables")
	}
	st.CompactionEnable()
	st.MergeEnable()
	err := f(st)
	st.Wait()
	st.CompactionDisable()
	st.MergeDisable()
	return err
}

func setCompactionGroups(n int) {
	for i := range immutable.LeveLMinGroupFiles {
		immutable.LeveLMinGroupFiles[i] = n
	}
}

func setSmallCompactionGroups() { setCompactionGroups(2) }

// setCompactionMethod makes compactToLevel take the method of the action ([data] compaction-method) and
// returns the name of the method the engine's own decision function now selects.
func setCompactionMethod(meth string, dflt int) string {
	switch meth {
	case "stream":
		immutable.SetMergeFlag4TsStore(1)
	case "nonstream":
		immutable.SetMergeFlag4TsStore(2)
	default:
		immutable.SetMergeFlag4TsStore(int32(dflt))
	}
	if immutable.GetMergeFlag4TsStore() == 0 {
		return "auto"
	}
	if immutable.NonStreamingCompaction(immutable.FilesInfo{}) {
		return "nonstream"
	}
	return "stream"
}

// evClass refines the recorder's classification: the down-sample log lives in <shard>/downsample_log/
func evClass(ev crashfs.Event) string {
	if strings.Contains(ev.Path, "/"+immutable.DownSampleLogDir+"/") {
		return "dslog"
	}
	return ev.Class
}

var reTsspName = regexp.MustCompile(`[0-9a-fA-F]{8}-[0-9a-fA-F]{4}-[0-9a-fA-F]{8}\.tssp`)

func tsspLevel(base string) string {
	// <seq>-<level>-<extent>.tssp[.init]
	p := strings.Split(base, "-")
	if len(p) >= 2 {
		var l int
		if _, err := fmt.Sscanf(p[1], "%d", &l); err == nil {
			return fmt.Sprintf("L%d", l)
		}
	}
	return "L?"
}

// mstOfPath returns the measurement directory of a data file path (.../tssp/<measurement>/[out-of-order/]<file>)
func mstOfPath(p string) string {
	parts := strings.Split(p, "/")
	for i, x := range parts {
		if x == immutable.TsspDirName && i+1 < len(parts) {
			return parts[i+1]
		}
	}
	return "?"
}

// reorg describes one reorganisation step of a behaviour for the crash driver
type reorg struct {
	kind string       // LevelCompact | FullCompact | MergeOOO | DownSample
	pre  *layoutConc  // concretisation and contents before the reorganisation
	preX []specObs
	post *layoutConc  // ... and after it (equal to pre unless the reorganisation is a down-sample)
	posX []specObs
	meth string
	run  func(e *reorgEnv) error
}

func runLayoutCase(lc *layoutCase, root string) (res caseResult) {
	res = caseResult{ID: lc.ID, OK: true, Step: -1}
	defer func() {
		if r := recover(); r != nil {
			res.OK = false
			res.Detail = fmt.Sprintf("panic: %v", r)
		}
	}()
	rng := rand.New(rand.NewSource(lc.Seed*1000003 + int64(lc.ID)))
	conc := newLayoutConc(lc.Hist, rng)
	if len(conc.order) == 0 {
		return // behaviour without a single write: nothing to observe
	}
	dir := fmt.Sprintf("%s/c%d", root, lc.ID)
	wp := 1
	if rng.Intn(10) < 3 && !lc.Crash {
		wp = 2 + rng.Intn(2)
	}
	opts := engx.Options{WalParts: wp, MaxRowsPerSegment: []int{0, 2, 3, 5}[rng.Intn(4)], CompactionMethod: rng.Intn(3)}
	if sparseDownSample(lc.Hist) {
		// open finding F-C03-3: the down-sample loses values of a sparse column in a chunk of several segments
		// (reproduced by the directed probe); generated behaviours keep such chunks in one segment
		opts.MaxRowsPerSegment = 0
	}
	if v := os.Getenv("VH_SEG"); v != "" {
		fmt.Sscanf(v, "%d", &opts.MaxRowsPerSegment)
	}
	if lc.Force != nil {
		opts.MaxRowsPerSegment = lc.Force.Seg
		for f, t := range lc.Force.Types {
			typ := map[string]int32{"int": influx.Field_Type_Int, "float": influx.Field_Type_Float, "string": influx.Field_Type_String, "bool": influx.Field_Type_Boolean}[t]
			if fc, ok := conc.raw[f]; ok && typ != 0 {
				fc.typ = typ
				conc.raw[f], conc.fields[f] = fc, fc
			}
		}
	}
	metaLevel := 0 // down-sample level of the shard as ts-meta knows it
	e, err := openReorgEnv(dir, opts, metaLevel)
	if err != nil {
		res.Infra = "open: " + err.Error()
		return
	}
	defer func() {
		if e != nil {
			_ = e.Close()
		}
		os.RemoveAll(dir)
	}()
	setSmallCompactionGroups()
	e.NoSettle = lc.NoSettle
	tmin, tmax := timeBase-timeStep, timeBase+100*timeStep
	seen := map[string]bool{}
	written := map[string]map[string]bool{} // measurement -> abstract fields written to it so far
	wm := newWalModel(opts.WalParts)
	var unflushed [][]specRow
	var prevExp []specObs

	// fullCheck compares the complete contents (asc, and desc unless quick) against (c, exp); when other is
	// given, the columns of that concretisation must hold nothing at all (no mixture of raw and down-sampled files)
	fullCheck := func(e2 *reorgEnv, c *layoutConc, exp []specObs, other *layoutConc, desc bool) string {
		d := readCheck(e2.Env, c, exp, c.order, tmin, tmax, true)
		if d == "" && desc {
			d = readCheck(e2.Env, c, exp, c.order, tmin, tmax, false)
		}
		if d == "" && other != nil {
			if d2 := readCheck(e2.Env, other, nil, other.order, tmin, tmax, true); d2 != "" {
				d = "columns of the other file set are visible as well: " + d2
			}
		}
		return d
	}

	// doReorg runs one reorganisation; in crash mode (C03) it freezes an image after every data
	// mutation of the reorganisation (and one with a half-written file after every write of a temporary
	// file or log), then restarts on each image and requires the contents the protocol defines.
	doReorg := func(st specStep, ro reorg) error {
		if !lc.Crash {
			return ro.run(e)
		}
		rec := crashfs.Install()
		imgRoot := dir + "-img"
		defer os.RemoveAll(imgRoot)
		type img struct {
			dir  string
			n    int
			torn string // "" or the path (relative to dir) of the file cut short in this image
		}
		var imgs []img
		var metaAt []int // event numbers after which the level was reported to ts-meta
		lastN := 0
		logMst := map[string]string{}            // compact log path -> measurement it names (read when it is written)
		logFiles := map[string]map[string]bool{} // compact log path -> data files it names (final names)
		e.Meta.OnUpdate = func() { metaAt = append(metaAt, lastN) }
		rec.Start(dir)
		rec.After = func(ev crashfs.Event) {
			if ev.N == 0 || ev.Class == "wal" {
				return
			}
			lastN = ev.N
			d := filepath.Join(imgRoot, fmt.Sprintf("i%d", ev.N))
			if engx.CopyTree(dir, d) == nil {
				imgs = append(imgs, img{dir: d, n: ev.N})
			}
			cls := evClass(ev)
			if ev.Op == "write" && cls == "clog" {
				if b, err := os.ReadFile(filepath.Join(dir, ev.Path)); err == nil {
					for _, m := range conc.msts {
						if strings.Contains(string(b), m+"_0000") {
							logMst[ev.Path] = m + "_0000"
						}
					}
					names := map[string]bool{}
					for _, n := range reTsspName.FindAllString(string(b), -1) {
						names[n] = true
					}
					logFiles[ev.Path] = names
				}
			}
			if ev.Op == "write" && ev.Size > 1 && (cls == "init" || cls == "clog" || cls == "dslog") {
				// the process dies inside this write: the file keeps a prefix of what the write appended
				dt := filepath.Join(imgRoot, fmt.Sprintf("t%d", ev.N))
				if engx.CopyTree(dir, dt) == nil {
					fp := filepath.Join(dt, ev.Path)
					if fi, err := os.Stat(fp); err == nil && fi.Size() > 0 {
						cut := fi.Size() - int64(ev.Size) + int64(rng.Intn(ev.Size))
						if cut < 0 {
							cut = 0
						}
						if os.Truncate(fp, cut) == nil {
							imgs = append(imgs, img{dir: dt, n: ev.N, torn: ev.Path})
						}
					}
				}
			}
		}
		cerr := ro.run(e)
		events := rec.Stop()
		e.Meta.OnUpdate = nil
		if cerr != nil {
			return cerr
		}
		if os.Getenv("VH_DEBUG_EV") != "" {
			for _, ev := range events {
				if ev.N > 0 {
					fmt.Fprintf(os.Stderr, "EV %3d %-8s %-5s %s -> %s\n", ev.N, ev.Op, evClass(ev), ev.Path, ev.To)
				}
			}
		}
		// spec-level trace of the reorganisation (Mode C) and the protocol positions the verdicts need
		var tev []map[string]interface{}
		logComplete := 0 // number of the event that completed the intent log (its last write)
		firstLog := 0
		touched := map[string]bool{}
		lastLogOf := map[string]string{}
		isMeta := func(n int) bool {
			for _, m := range metaAt {
				if m == n {
					return true
				}
			}
			return false
		}
		for _, ev := range events {
			if ev.N == 0 {
				continue
			}
			base := filepath.Base(ev.Path)
			cls := evClass(ev)
			isLog := cls == "clog" || cls == "dslog"
			nb := len(tev)
			emst := mstOfPath(ev.Path)
			if cls == "clog" {
				emst = logMst[ev.Path]
			}
			switch {
			case cls == "init" && ev.Op == "create":
				tev = append(tev, map[string]interface{}{"ev": "CreateNew", "f": mstOfPath(ev.Path) + "/" + base})
			case cls == "init" && ev.Op == "write":
				tev = append(tev, map[string]interface{}{"ev": "WriteData", "f": mstOfPath(ev.Path) + "/" + base})
			case cls == "init" && ev.Op == "sync":
				tev = append(tev, map[string]interface{}{"ev": "SyncNew", "f": mstOfPath(ev.Path) + "/" + base})
			case isLog && ev.Op == "create":
				tev = append(tev, map[string]interface{}{"ev": "LogCreate"})
				if firstLog == 0 {
					firstLog = ev.N
				}
			case isLog && ev.Op == "write":
				tev = append(tev, map[string]interface{}{"ev": "LogWrite"})
				logComplete = ev.N
			case isLog && ev.Op == "sync":
				tev = append(tev, map[string]interface{}{"ev": "LogSync"})
			case isLog && ev.Op == "remove":
				tev = append(tev, map[string]interface{}{"ev": "LogRemove"})
			case ev.Op == "rename" && cls == "init":
				tev = append(tev, map[string]interface{}{"ev": "RenameNew", "f": mstOfPath(ev.Path) + "/" + base})
				touched[mstOfPath(ev.Path)] = true
				if ro.kind != "MergeOOO" && ro.kind != "DownSample" {
					bump(&res.ToLevels, tsspLevel(base))
				}
			case ev.Op == "rename" && cls == "tssp":
				tev = append(tev, map[string]interface{}{"ev": "DeleteOld", "f": base})
			case ev.Op == "remove" && cls == "tssp":
				tev = append(tev, map[string]interface{}{"ev": "DeleteOld", "f": base})
			case ev.Op == "remove" && cls == "init":
				tev = append(tev, map[string]interface{}{"ev": "DeleteOld", "f": base})
			}
			// the replacement (= its log) the event belongs to: several groups of one measurement are compacted
			// concurrently, each under its own log
			grp := ""
			switch {
			case cls == "clog" || cls == "dslog":
				grp = ev.Path
			case strings.Contains(ev.Path, "/out-of-order/") && !strings.HasSuffix(ev.Path, ".init"):
				grp = lastLogOf[emst] // the merge's tail: its out-of-order inputs are not named in the log
			default:
				fin := strings.TrimSuffix(base, ".init")
				for lp, names := range logFiles {
					if logMst[lp] == emst && names[fin] {
						grp = lp
					}
				}
			}
			for k := nb; k < len(tev); k++ {
				tev[k]["m"] = emst
				tev[k]["g"] = grp
			}
			if cls == "clog" {
				lastLogOf[logMst[ev.Path]] = ev.Path
			}
			if isMeta(ev.N) {
				tev = append(tev, map[string]interface{}{"ev": "MetaUpdate"})
			}
		}
		if len(tev) > 0 {
			proto := "compact"
			if ro.kind == "DownSample" {
				proto = "ds"
			}
			tev = append([]map[string]interface{}{{"ev": "Proto", "proto": proto, "kind": ro.kind}}, tev...)
			res.Tev = append(res.Tev, tev)
			res.Reorgs++
			bump(&res.Kinds, ro.kind)
			bump(&res.Msts, fmt.Sprintf("%d", len(touched)))
			if ro.kind == "LevelCompact" || ro.kind == "FullCompact" {
				bump(&res.Methods, ro.meth)
			}
			if ro.kind == "LevelCompact" {
				bump(&res.Groups, fmt.Sprintf("%d", immutable.LeveLMinGroupFiles[0]))
			}
		}
		liveLevel := metaLevel
		if len(metaAt) > 0 {
			liveLevel = 1
		}
		if len(imgs) == 0 {
			metaLevel = liveLevel
			return nil
		}
		// stop the live engine, set its tree aside, restart on every image
		if err := e.Close(); err != nil {
			return fmt.Errorf("close before crash replay: %w", err)
		}
		e = nil
		live := dir + ".live"
		if err := os.Rename(dir, live); err != nil {
			return err
		}
		restart := func(label string, level int) (*reorgEnv, bool) {
			e2, err := openReorgEnvRead(dir, opts, level)
			if err != nil {
				if strings.Contains(err.Error(), "cannot open index") {
					res.IndexInconclusive++
					return nil, true
				}
				res.OK = false
				res.Detail = fmt.Sprintf("%s: restart failed: %v", label, err)
				return nil, false
			}
			return e2, true
		}
		for _, im := range imgs {
			if !res.OK {
				break
			}
			// which contents does the protocol define for a crash here?
			wantC, wantX, otherC := ro.pre, ro.preX, (*layoutConc)(nil)
			level := metaLevel
			if ro.kind == "DownSample" {
				otherC = ro.post
				// the down-sampled contents iff the log was complete when the process died
				if logComplete > 0 && (im.n > logComplete || (im.n == logComplete && im.torn == "")) {
					wantC, wantX, otherC = ro.post, ro.posX, ro.pre
					res.DSPost++
				} else {
					res.DSPre++
				}
				for _, m := range metaAt {
					if m < im.n { // the image of event m was frozen before the report that followed it
						level = 1
					}
				}
			}
			if im.torn != "" {
				res.Torn++
			}
			if firstLog == 0 || im.n < firstLog {
				res.PreWrite++
			}
			what := describeEvent(events, im.n)
			if im.torn != "" {
				what = "in the middle of " + what + " (file cut short)"
			} else {
				what = "after " + what
			}
			label := fmt.Sprintf("step %d (%s %s): crash %s, fs event %d of the reorganisation", res.Step, st.A, string(st.Args), what, im.n)
			if err := engx.RestoreImage(im.dir, dir); err != nil {
				res.Infra = "restore: " + err.Error()
				break
			}
			res.Images++
			var nested []string
			if rng.Intn(3) == 0 {
				rec.Start(dir)
				rec.After = func(ev crashfs.Event) {
					if ev.N == 0 || ev.Class == "wal" {
						return
					}
					d := filepath.Join(imgRoot, fmt.Sprintf("n%d-%d", im.n, ev.N))
					if engx.CopyTree(dir, d) == nil {
						nested = append(nested, d)
					}
				}
			}
			e2, ok := restart(label, level)
			rec.Stop()
			if !ok {
				break
			}
			if e2 != nil {
				d := fullCheck(e2, wantC, wantX, otherC, true)
				_ = e2.Close()
				if d != "" {
					res.OK = false
					res.Detail = label + ": contents after restart differ from the contents the protocol defines for this crash point: " + d
					break
				}
			}
			for _, nd := range nested {
				if engx.RestoreImage(nd, dir) != nil {
					continue
				}
				res.Nested++
				e3, ok := restart(label+", second crash inside recovery", level)
				if !ok {
					break
				}
				if e3 != nil {
					d := fullCheck(e3, wantC, wantX, otherC, false)
					_ = e3.Close()
					if d != "" {
						res.OK = false
						res.Detail = label + ", then a second crash inside recovery: contents differ: " + d
						break
					}
				}
			}
		}
		os.RemoveAll(dir)
		if err := os.Rename(live, dir); err != nil {
			return err
		}
		metaLevel = liveLevel
		var err error
		e, err = openReorgEnv(dir, opts, metaLevel)
		if err != nil {
			e = nil
			return fmt.Errorf("reopen live tree: %w", err)
		}
		setSmallCompactionGroups()
		return nil
	}
	compaction := func(st specStep, kind, meth string, f func(s *immutable.MmsTables) error) error {
		real := setCompactionMethod(meth, opts.CompactionMethod)
		if meth != "" && meth != "auto" && real != meth {
			return fmt.Errorf("compaction method %s requested, the engine selects %s", meth, real)
		}
		ro := reorg{kind: kind, pre: conc, preX: st.Exp, post: conc, posX: st.Exp, meth: real,
			run: func(e *reorgEnv) error { return withReorg(e, f) }}
		err := doReorg(st, ro)
		if !lc.Crash && kind != "MergeOOO" {
			bump(&res.Methods, real)
		}
		return err
	}
	for i, st := range lc.Hist {
		res.Step = i
		res.Action = st.A
		switch st.A {
		case "Write":
			var rows []specRow
			if err := json.Unmarshal(st.Args, &rows); err != nil {
				res.Infra = "bad args: " + err.Error()
				return
			}
			var pts []engx.Pt
			newSeries := false
			for _, r := range rows {
				p := engx.Pt{Mst: mstOr(r.M), Tags: seriesTags(r.S), Time: timeBase + r.T*timeStep}
				if written[mstOr(r.M)] == nil {
					written[mstOr(r.M)] = map[string]bool{}
				}
				for _, f := range r.Fs {
					p.Fields = append(p.Fields, conc.raw[f].fv(r.V))
					written[mstOr(r.M)][f] = true
				}
				pts = append(pts, p)
				if !seen[mstOr(r.M)+"/"+r.S] {
					seen[mstOr(r.M)+"/"+r.S] = true
					newSeries = true
				}
			}
			if err := e.Write(pts); err != nil {
				res.OK = false
				res.Detail = "write rejected: " + err.Error()
				return
			}
			wm.write(rows)
			unflushed = append(unflushed, rows)
			if v := os.Getenv("VH_SLEEP_AFTER_WRITE_MS"); v != "" {
				var ms int
				fmt.Sscanf(v, "%d", &ms)
				time.Sleep(time.Duration(ms) * time.Millisecond)
			}
			if newSeries {
				e.IndexFlush()
			}
		case "Flush":
			e.Flush()
			if v := os.Getenv("VH_SLEEP_AFTER_FLUSH_MS"); v != "" {
				var ms int
				fmt.Sscanf(v, "%d", &ms)
				time.Sleep(time.Duration(ms) * time.Millisecond)
			}
			wm.flush(unflushed)
			unflushed = nil
		case "Skip":
			res.Skips++
		case "LevelCompact":
			// args: [level, method, group size] (older behaviours: [level])
			var a []interface{}
			_ = json.Unmarshal(st.Args, &a)
			lvl, meth, group := uint16(0), "", 2
			if len(a) > 0 {
				if f, ok := a[0].(float64); ok {
					lvl = uint16(f)
				}
			}
			if len(a) > 1 {
				meth, _ = a[1].(string)
			}
			if len(a) > 2 {
				if f, ok := a[2].(float64); ok && f >= 2 {
					group = int(f)
				}
			}
			setCompactionGroups(group)
			err := compaction(st, "LevelCompact", meth, func(s *immutable.MmsTables) error { return s.LevelCompact(lvl, engx.ShardID) })
			setSmallCompactionGroups()
			if err != nil {
				res.OK, res.Detail = false, "LevelCompact: "+err.Error()
				return
			}
		case "FullCompact":
			var a []string
			_ = json.Unmarshal(st.Args, &a)
			meth := ""
			if len(a) > 0 {
				meth = a[0]
			}
			if err := compaction(st, "FullCompact", meth, func(s *immutable.MmsTables) error { return s.FullCompact(engx.ShardID) }); err != nil {
				res.OK, res.Detail = false, "FullCompact: "+err.Error()
				return
			}
		case "MergeOOO":
			if err := compaction(st, "MergeOOO", "", func(s *immutable.MmsTables) error { return s.MergeOutOfOrder(engx.ShardID, true, true) }); err != nil {
				res.OK, res.Detail = false, "MergeOutOfOrder: "+err.Error()
				return
			}
		case "DownSample":
			iv, calls, err := dsArgs(st.Args)
			if err != nil {
				res.Infra = err.Error()
				return
			}
			post := conc.downSampled(calls)
			ro := reorg{kind: "DownSample", pre: conc, preX: prevExp, post: post, posX: st.Exp,
				run: func(e *reorgEnv) error { return runDownSample(e, conc, written, iv, calls) }}
			if err := doReorg(st, ro); err != nil {
				res.OK, res.Detail = false, "DownSample: "+err.Error()
				return
			}
			if !lc.Crash {
				bump(&res.Kinds, "DownSample")
				metaLevel = 1
			}
			// the raw columns are gone
			if res.OK && e != nil {
				if d := readCheck(e.Env, conc, nil, conc.order, tmin, tmax, true); d != "" {
					res.OK, res.Detail = false, fmt.Sprintf("after step %d (DownSample %s): the raw columns still hold rows: %s", i, string(st.Args), d)
					return
				}
			}
			conc = post
		case "Reopen":
			if err := e.Close(); err != nil {
				res.OK, res.Detail = false, "close: "+err.Error()
				e = nil
				return
			}
			e, err = openReorgEnv(dir, opts, metaLevel)
			if err != nil {
				res.OK, res.Detail = false, "reopen: "+err.Error()
				e = nil
				return
			}
			setSmallCompactionGroups()
			e.NoSettle = lc.NoSettle
			pred := wm.restartPrediction()
			wm = newWalModel(opts.WalParts)
			wm.flushed = pred
			unflushed = nil
			if d := readCheck(e.Env, conc, st.Exp, conc.order, tmin, tmax, true); d != "" && metaLevel == 0 {
				// diverged from the specification: is it exactly the known replay-order defect?
				if d2 := readCheck(e.Env, conc, pred.obs(conc.order), conc.order, tmin, tmax, true); d2 == "" {
					res.Known = "F-C01-1"
					res.Detail = fmt.Sprintf("after step %d (Reopen) walparts=%d: recovered contents equal the round-robin-replay prediction, not the acknowledged order: %s", i, opts.WalParts, d)
					return
				}
			}
		default:
			res.Infra = "unknown action " + st.A
			return
		}
		if !res.OK || res.Infra != "" {
			return
		}
		// shape drift (not a verdict): number of ordered / out-of-order files
		if st.Shape != nil {
			no, nu := 0, 0
			for _, m := range conc.msts {
				no += e.Store().GetTableFileNum(m+"_0000", true)
				nu += e.Store().GetTableFileNum(m+"_0000", false)
			}
			if no != st.Shape["no"] || nu != st.Shape["nu"] {
				res.Drift++
			}
		}
		// observations: full dump asc and desc, then seeded sub-range / sub-field reads
		checks := []struct {
			fs         []string
			tmin, tmax int64
			asc        bool
		}{{conc.order, tmin, tmax, true}, {conc.order, tmin, tmax, false}}
		for k := 0; k < 3; k++ {
			a := timeBase + int64(rng.Intn(7))*timeStep
			b := a + int64(rng.Intn(5))*timeStep
			var fs []string
			for _, f := range conc.order {
				if rng.Intn(2) == 0 {
					fs = append(fs, f)
				}
			}
			if len(fs) == 0 {
				fs = []string{conc.order[rng.Intn(len(conc.order))]}
			}
			checks = append(checks, struct {
				fs         []string
				tmin, tmax int64
				asc        bool
			}{fs, a, b, rng.Intn(2) == 0})
		}
		for _, ck := range checks {
			res.Reads++
			if d := readCheck(e.Env, conc, st.Exp, ck.fs, ck.tmin, ck.tmax, ck.asc); d != "" {
				if lc.Probe != nil && lc.Probe.Step == i {
					if d2 := readCheck(e.Env, conc, lc.Probe.Wrong, conc.order, tmin, tmax, true); d2 == "" {
						res.Known = lc.Probe.Finding
						res.Detail = fmt.Sprintf("after step %d (%s %s): the contents equal the prediction of the finding's deviation model: %s", i, st.A, string(st.Args), d)
						return
					}
				}
				res.OK = false
				types := []string{}
				for _, f := range conc.order {
					types = append(types, fmt.Sprintf("%s:%d", f, conc.raw[f].typ))
				}
				res.Detail = fmt.Sprintf("after step %d (%s %s) walparts=%d seg=%d compaction-method=%d types=%v: %s", i, st.A, string(st.Args), opts.WalParts, opts.MaxRowsPerSegment, immutable.GetMergeFlag4TsStore(), types, d)
				if lc.NoSettle && strings.Contains(d, "not strictly sorted") && orderedFilesOverlap(e.Env) {
					res.OK = true
					res.Known = "F-C04-1"
				}
				return
			}
		}
		prevExp = st.Exp
	}
	return
}

func replayLayout(args []string) int {
	root, err := os.MkdirTemp("/dev/shm", "vh-layout-")
	if err != nil {
		fmt.Fprintln(os.Stderr, err)
		return 2
	}
	defer os.RemoveAll(root)
	sc := bufio.NewScanner(os.Stdin)
	sc.Buffer(make([]byte, 1<<20), 1<<28)
	out := bufio.NewWriter(os.Stdout)
	defer out.Flush()
	bad := 0
	for sc.Scan() {
		line := sc.Bytes()
		if len(line) == 0 {
			continue
		}
		var lc layoutCase
		if err := json.Unmarshal(line, &lc); err != nil {
			fmt.Fprintln(os.Stderr, "bad case:", err)
			return 2
		}
		knownReadErrors = 0
		limit := 120
		if lc.Crash {
			limit = 900 // hundreds of images are restored and re-opened
		}
		r := withWatchdog(lc.ID, limit, func() caseResult { return runLayoutCase(&lc, root) })
		r.KnownReadErrors = knownReadErrors
		if !r.OK {
			bad++
		}
		b, _ := json.Marshal(r)
		out.Write(b)
		out.WriteByte('\n')
		out.Flush()
	}
	if bad > 0 {
		return 1
	}
	return 0
}
