//go:build verif

package main

// replay-layout: steps TLC-generated behaviours of specs/Layout.tla through a real shard and compares
// what queries read with the specification's expected observation after every action (C02).

import (
	"bufio"
	"encoding/json"
	"fmt"
	"math/rand"
	"os"
	"sort"
	"strings"
	"time"

	"path/filepath"

	"github.com/openGemini/openGemini/engine/immutable"
	"github.com/openGemini/openGemini/engine/index/tsi"
	"github.com/openGemini/openGemini/lib/util/lifted/influx/influxql"
	"github.com/openGemini/openGemini/lib/util/lifted/vm/protoparser/influx"
	"verifharness/internal/crashfs"
	"verifharness/internal/engx"
)

func init() { cmds["replay-layout"] = replayLayout }

type specRow struct {
	S  string   `json:"s"`
	T  int64    `json:"t"`
	Fs []string `json:"fs"`
	V  int64    `json:"v"`
}

type specObs struct {
	S string           `json:"s"`
	T int64            `json:"t"`
	V map[string]int64 `json:"v"`
}

type specStep struct {
	A     string          `json:"a"`
	Args  json.RawMessage `json:"args"`
	Exp   []specObs       `json:"exp"`
	Shape map[string]int  `json:"shape"`
}

type layoutCase struct {
	ID       int        `json:"id"`
	Seed     int64      `json:"seed"`
	Hist     []specStep `json:"hist"`
	Crash    bool       `json:"crash"`     // C03: freeze a crash image after every fs mutation of each reorganisation
	NoSettle bool       `json:"no_settle"` // do not wait for background loads (directed reproduction of F-C04-1)
}

type caseResult struct {
	ID                int                        `json:"id"`
	OK                bool                       `json:"ok"`
	Step              int                        `json:"step"`
	Action            string                     `json:"action,omitempty"`
	Detail            string                     `json:"detail,omitempty"`
	Reads             int                        `json:"reads"`
	Drift             int                        `json:"drift"`
	Infra             string                     `json:"infra,omitempty"`
	Known             string                     `json:"known,omitempty"`             // id of the known finding this divergence was attributed to
	KnownReadErrors   int                        `json:"known_read_errors,omitempty"` // F-C02-2 occurrences (query retried)
	Images            int                        `json:"images"`                      // crash images restored and re-opened (C03)
	Nested            int                        `json:"nested"`
	Reorgs            int                        `json:"reorgs"` // reorganisations that actually replaced files
	IndexInconclusive int                        `json:"index_inconclusive"`
	Tev               [][]map[string]interface{} `json:"tev,omitempty"` // per reorganisation: spec-level fs event trace
	Hang              bool                       `json:"hang,omitempty"`
}

// ---- deviation model "wal_replay_round_robin_from_0" (known finding F-C01-1) -------------------
// WAL records are appended to partition (writeReq++ mod N); writeReq is not reset when the log is
// switched at a flush; start-up replays one record from partition 0,1,..,N-1 in turn. The model
// predicts what a restart recovers; a divergence is attributed to the finding only if the real
// contents equal this prediction exactly.
type lwwTable map[string]map[string]int64

func (t lwwTable) apply(rows []specRow) {
	for _, r := range rows {
		k := fmt.Sprintf("%s|%d", r.S, r.T)
		if t[k] == nil {
			t[k] = map[string]int64{}
		}
		for _, f := range r.Fs {
			t[k][f] = r.V
		}
	}
}

func (t lwwTable) clone() lwwTable {
	c := lwwTable{}
	for k, m := range t {
		c[k] = map[string]int64{}
		for f, v := range m {
			c[k][f] = v
		}
	}
	return c
}

func (t lwwTable) obs(fields []string) []specObs {
	var out []specObs
	for k, m := range t {
		var s string
		var tm int64
		i := strings.LastIndex(k, "|")
		s = k[:i]
		fmt.Sscanf(k[i+1:], "%d", &tm)
		o := specObs{S: s, T: tm, V: map[string]int64{}}
		for _, f := range fields {
			o.V[f] = m[f]
		}
		out = append(out, o)
	}
	return out
}

type walModel struct {
	n        int
	writeReq int
	pending  [][][]specRow // per partition: queue of records (a record = one write batch)
	flushed  lwwTable
}

func newWalModel(n int) *walModel {
	return &walModel{n: n, pending: make([][][]specRow, n), flushed: lwwTable{}}
}

func (w *walModel) write(rows []specRow) {
	p := w.writeReq % w.n
	w.writeReq++
	w.pending[p] = append(w.pending[p], rows)
}

// ack-order application of everything pending (what a flush persists)
func (w *walModel) flush(acked [][]specRow) {
	for _, b := range acked {
		w.flushed.apply(b)
	}
	for i := range w.pending {
		w.pending[i] = nil
	}
}

// restart: round-robin replay from partition 0, then everything is flushed and writeReq restarts
func (w *walModel) restartPrediction() lwwTable {
	t := w.flushed.clone()
	idx := make([]int, w.n)
	for {
		progressed := false
		for p := 0; p < w.n; p++ {
			if idx[p] < len(w.pending[p]) {
				t.apply(w.pending[p][idx[p]])
				idx[p]++
				progressed = true
			}
		}
		if !progressed {
			break
		}
	}
	return t
}

const timeBase = int64(1600000000) * 1e9
const timeStep = int64(1e9)

// concretisation of one abstract field: type chosen per case from the seed
type fieldConc struct {
	name string
	typ  int32
}

func (f fieldConc) fv(v int64) engx.FV {
	switch f.typ {
	case influx.Field_Type_Int:
		return engx.FV{Key: f.name, Typ: f.typ, Num: float64(v)}
	case influx.Field_Type_Float:
		return engx.FV{Key: f.name, Typ: f.typ, Num: float64(v) + 0.5}
	case influx.Field_Type_Boolean:
		return engx.FV{Key: f.name, Typ: f.typ, Num: float64(v % 2)}
	default:
		return engx.FV{Key: f.name, Typ: f.typ, Str: fmt.Sprintf("v%d", v)}
	}
}

// cellString renders a read cell in the same canonical form as expString renders an expected value
func (f fieldConc) cellString(c engx.Cell) string {
	if c.Null {
		return "null"
	}
	switch f.typ {
	case influx.Field_Type_Int:
		return fmt.Sprintf("%d", c.I)
	case influx.Field_Type_Float:
		return fmt.Sprintf("%g", c.F)
	case influx.Field_Type_Boolean:
		return fmt.Sprintf("%v", c.B)
	default:
		return c.S
	}
}

func (f fieldConc) expString(v int64) string {
	if v == 0 {
		return "null"
	}
	switch f.typ {
	case influx.Field_Type_Int:
		return fmt.Sprintf("%d", v)
	case influx.Field_Type_Float:
		return fmt.Sprintf("%g", float64(v)+0.5)
	case influx.Field_Type_Boolean:
		return fmt.Sprintf("%v", v%2 == 1)
	default:
		return fmt.Sprintf("v%d", v)
	}
}

func (f fieldConc) req() engx.FieldReq {
	switch f.typ {
	case influx.Field_Type_Int:
		return engx.FieldReq{Name: f.name, Typ: influxql.Integer}
	case influx.Field_Type_Float:
		return engx.FieldReq{Name: f.name, Typ: influxql.Float}
	case influx.Field_Type_Boolean:
		return engx.FieldReq{Name: f.name, Typ: influxql.Boolean}
	default:
		return engx.FieldReq{Name: f.name, Typ: influxql.String}
	}
}

var fieldTypes = []int32{influx.Field_Type_Int, influx.Field_Type_Float, influx.Field_Type_String, influx.Field_Type_Boolean}

type layoutConc struct {
	fields map[string]fieldConc // abstract field name -> concrete
	order  []string             // abstract field names sorted
}

func newLayoutConc(h []specStep, rng *rand.Rand) *layoutConc {
	names := map[string]bool{}
	for _, st := range h {
		for _, o := range st.Exp {
			for f := range o.V {
				names[f] = true
			}
		}
	}
	c := &layoutConc{fields: map[string]fieldConc{}}
	for f := range names {
		c.order = append(c.order, f)
	}
	sort.Strings(c.order)
	for i, f := range c.order {
		typ := fieldTypes[rng.Intn(len(fieldTypes))]
		if i == 0 && rng.Intn(2) == 0 {
			typ = influx.Field_Type_Int // unique values discriminate best; keep one int field often
		}
		c.fields[f] = fieldConc{name: f, typ: typ}
	}
	return c
}

func seriesTags(s string) [][2]string { return [][2]string{{"host", s}, {"zone", "z"}} }
func seriesKey(s string) string       { return "host=" + s + ",zone=z" }

// expected rows for a read of fields fs over [tmin,tmax]: canonical strings "series|time|v1|v2"
func expectRows(c *layoutConc, exp []specObs, fs []string, tmin, tmax int64) []string {
	var out []string
	for _, o := range exp {
		t := timeBase + o.T*timeStep
		if t < tmin || t > tmax {
			continue
		}
		any := false
		parts := []string{seriesKey(o.S), fmt.Sprintf("%d", t)}
		for _, f := range fs {
			v := o.V[f]
			if v != 0 {
				any = true
			}
			parts = append(parts, c.fields[f].expString(v))
		}
		if any {
			out = append(out, strings.Join(parts, "|"))
		}
	}
	sort.Strings(out)
	return out
}

// readCheck runs one read and compares it; returns "" when equal.
func readCheck(e *engx.Env, c *layoutConc, exp []specObs, fs []string, tmin, tmax int64, asc bool) string {
	var reqs []engx.FieldReq
	for _, f := range fs {
		reqs = append(reqs, c.fields[f].req())
	}
	rows, err := e.Read("m", reqs, []string{"host", "zone"}, tmin, tmax, asc)
	if err != nil && strings.Contains(err.Error(), "slice bounds out of range [4294967288:0]") {
		// known finding F-C02-2: ReadMetaBlock fails (EINVAL) and ChunkMeta goes on to index the empty
		// block; the query fails with a recovered panic. Intermittent; a retry must succeed.
		knownReadErrors++
		rows, err = e.Read("m", reqs, []string{"host", "zone"}, tmin, tmax, asc)
	}
	if err != nil {
		return "read error: " + err.Error()
	}
	var got []string
	lastT := map[string]int64{}
	for _, r := range rows {
		parts := []string{r.Series, fmt.Sprintf("%d", r.Time)}
		for i, f := range fs {
			parts = append(parts, c.fields[f].cellString(r.Vals[i]))
		}
		got = append(got, strings.Join(parts, "|"))
		if lt, ok := lastT[r.Series]; ok {
			if (asc && r.Time <= lt) || (!asc && r.Time >= lt) {
				dump := ""
				for _, x := range rows {
					dump += fmt.Sprintf(" [%s %d", x.Series, (x.Time-timeBase)/timeStep)
					for i, f := range fs {
						dump += " " + c.fields[f].cellString(x.Vals[i])
					}
					dump += "]"
				}
				if idx, ok := e.Shard().GetIndexBuilder().GetPrimaryIndex().(*tsi.MergeSetIndex); ok {
					for _, sname := range []string{"s1", "s2"} {
						rr := engx.MakeRows([]engx.Pt{{Mst: "m", Tags: seriesTags(sname), Time: 1}})
						sid, _ := idx.GetSeriesIdBySeriesKey(rr[0].IndexKey)
						sq := e.Store().Sequencer()
						lf, rc := sq.Get("m_0000", sid)
						dump += fmt.Sprintf(" {seq %s sid=%d lastFlush=%d rows=%d loading=%v}", sname, sid, (lf-timeBase)/timeStep, rc, sq.IsLoading())
						sq.UnRef()
					}
				}
				for _, ord := range []bool{true, false} {
					if fsx, ok := e.Shard().GetTSSPFiles("m_0000", ord); ok && fsx != nil {
						for _, f := range fsx.Files() {
							mn, mx, _ := f.MinMaxTime()
							dump += fmt.Sprintf(" {file %s order=%v t=[%d,%d]}", filepath.Base(f.Path()), ord, (mn-timeBase)/timeStep, (mx-timeBase)/timeStep)
						}
					}
				}
				return fmt.Sprintf("rows of series %s not strictly sorted by time (asc=%v): %d after %d; all rows:%s", r.Series, asc, r.Time, lt, dump)
			}
		}
		lastT[r.Series] = r.Time
	}
	sort.Strings(got)
	want := expectRows(c, exp, fs, tmin, tmax)
	if strings.Join(got, "\n") != strings.Join(want, "\n") {
		return fmt.Sprintf("read fields=%v range=[%d,%d] asc=%v\n  got:  %v\n  want: %v", fs, (tmin-timeBase)/timeStep, (tmax-timeBase)/timeStep, asc, got, want)
	}
	return ""
}

func describeEvent(events []crashfs.Event, n int) string {
	for _, ev := range events {
		if ev.N == n {
			return fmt.Sprintf("%s %s %s", ev.Op, ev.Class, filepath.Base(ev.Path))
		}
	}
	return "?"
}

var knownReadErrors int

func withCompaction(e *engx.Env, f func(st *immutable.MmsTables) error) error {
	sh := e.Shard()
	sh.EnableCompAndMerge()
	st, ok := sh.GetTableStore().(*immutable.MmsTables)
	if !ok {
		return fmt.Errorf("table store is not *MmsTables")
	}
	err := f(st)
	st.Wait()
	sh.DisableCompAndMerge()
	return err
}

func setSmallCompactionGroups() {
	for i := range immutable.LeveLMinGroupFiles {
		immutable.LeveLMinGroupFiles[i] = 2
	}
}

func runLayoutCase(lc *layoutCase, root string) (res caseResult) {
	res = caseResult{ID: lc.ID, OK: true, Step: -1}
	defer func() {
		if r := recover(); r != nil {
			res.OK = false
			res.Detail = fmt.Sprintf("panic: %v", r)
		}
	}()
	rng := rand.New(rand.NewSource(lc.Seed*1000003 + int64(lc.ID)))
	conc := newLayoutConc(lc.Hist, rng)
	if len(conc.order) == 0 {
		return // behaviour without a single write: nothing to observe
	}
	dir := fmt.Sprintf("%s/c%d", root, lc.ID)
	wp := 1
	if rng.Intn(10) < 3 && !lc.Crash {
		wp = 2 + rng.Intn(2)
	}
	opts := engx.Options{WalParts: wp, MaxRowsPerSegment: []int{0, 2, 3, 5}[rng.Intn(4)], CompactionMethod: rng.Intn(3)}
	if v := os.Getenv("VH_SEG"); v != "" {
		fmt.Sscanf(v, "%d", &opts.MaxRowsPerSegment)
	}
	e, err := engx.Open(dir, opts)
	if err != nil {
		res.Infra = "open: " + err.Error()
		return
	}
	defer func() {
		if e != nil {
			_ = e.Close()
		}
		os.RemoveAll(dir)
	}()
	setSmallCompactionGroups()
	e.NoSettle = lc.NoSettle
	tmin, tmax := timeBase-timeStep, timeBase+100*timeStep
	seen := map[string]bool{}
	wm := newWalModel(opts.WalParts)
	var unflushed [][]specRow
	// doCompact runs one reorganisation; in crash mode (C03) it freezes an image after every data
	// mutation of the reorganisation, then restarts on each image and requires the contents the
	// shard had before the reorganisation began.
	doCompact := func(st specStep, f func(s *immutable.MmsTables) error) error {
		if !lc.Crash {
			return withCompaction(e, f)
		}
		rec := crashfs.Install()
		imgRoot := dir + "-img"
		defer os.RemoveAll(imgRoot)
		type img struct {
			dir string
			n   int
		}
		var imgs []img
		rec.Start(dir)
		rec.After = func(ev crashfs.Event) {
			if ev.N == 0 || ev.Class == "wal" {
				return
			}
			d := filepath.Join(imgRoot, fmt.Sprintf("i%d", ev.N))
			if engx.CopyTree(dir, d) == nil {
				imgs = append(imgs, img{d, ev.N})
			}
		}
		cerr := withCompaction(e, f)
		events := rec.Stop()
		if cerr != nil {
			return cerr
		}
		if os.Getenv("VH_DEBUG_EV") != "" {
			for _, ev := range events {
				if ev.N > 0 {
					fmt.Fprintf(os.Stderr, "EV %3d %-8s %-5s %s -> %s\n", ev.N, ev.Op, ev.Class, ev.Path, ev.To)
				}
			}
		}
		var tev []map[string]interface{}
		for _, ev := range events {
			if ev.N == 0 {
				continue
			}
			base := filepath.Base(ev.Path)
			switch {
			case ev.Class == "init" && ev.Op == "create":
				tev = append(tev, map[string]interface{}{"ev": "WriteNew", "f": base})
			case ev.Class == "clog" && ev.Op == "create":
				tev = append(tev, map[string]interface{}{"ev": "LogCreate"})
			case ev.Class == "clog" && ev.Op == "write":
				tev = append(tev, map[string]interface{}{"ev": "LogWrite"})
			case ev.Class == "clog" && ev.Op == "sync":
				tev = append(tev, map[string]interface{}{"ev": "LogSync"})
			case ev.Class == "clog" && ev.Op == "remove":
				tev = append(tev, map[string]interface{}{"ev": "LogRemove"})
			case ev.Op == "rename" && ev.Class == "init":
				tev = append(tev, map[string]interface{}{"ev": "RenameNew", "f": base})
			case ev.Op == "rename" && ev.Class == "tssp":
				tev = append(tev, map[string]interface{}{"ev": "DeleteOld", "f": base})
			case ev.Op == "remove" && ev.Class == "tssp":
				tev = append(tev, map[string]interface{}{"ev": "DeleteOld", "f": base})
			case ev.Op == "remove" && ev.Class == "init":
				tev = append(tev, map[string]interface{}{"ev": "DeleteOld", "f": base})
			}
		}
		if len(tev) > 0 {
			res.Tev = append(res.Tev, tev)
			res.Reorgs++
		}
		if len(imgs) == 0 {
			return nil
		}
		// stop the live engine, set its tree aside, restart on every image
		if err := e.Close(); err != nil {
			return fmt.Errorf("close before crash replay: %w", err)
		}
		e = nil
		live := dir + ".live"
		if err := os.Rename(dir, live); err != nil {
			return err
		}
		restart := func(label string) (*engx.Env, bool) {
			e2, err := engx.Open(dir, opts)
			if err != nil {
				if strings.Contains(err.Error(), "cannot open index") {
					res.IndexInconclusive++
					return nil, true
				}
				res.OK = false
				res.Detail = fmt.Sprintf("%s: restart failed: %v", label, err)
				return nil, false
			}
			return e2, true
		}
		for _, im := range imgs {
			if !res.OK {
				break
			}
			label := fmt.Sprintf("step %d (%s): crash after fs event %d of the reorganisation (%v)", res.Step, st.A, im.n, describeEvent(events, im.n))
			if err := engx.RestoreImage(im.dir, dir); err != nil {
				res.Infra = "restore: " + err.Error()
				break
			}
			res.Images++
			var nested []string
			if rng.Intn(3) == 0 {
				rec.Start(dir)
				rec.After = func(ev crashfs.Event) {
					if ev.N == 0 || ev.Class == "wal" {
						return
					}
					d := filepath.Join(imgRoot, fmt.Sprintf("n%d-%d", im.n, ev.N))
					if engx.CopyTree(dir, d) == nil {
						nested = append(nested, d)
					}
				}
			}
			e2, ok := restart(label)
			rec.Stop()
			if !ok {
				break
			}
			if e2 != nil {
				d := readCheck(e2, conc, st.Exp, conc.order, tmin, tmax, true)
				if d == "" {
					d = readCheck(e2, conc, st.Exp, conc.order, tmin, tmax, false)
				}
				_ = e2.Close()
				if d != "" {
					res.OK = false
					res.Detail = label + ": contents after restart differ from the contents before the reorganisation: " + d
					break
				}
			}
			for _, nd := range nested {
				if engx.RestoreImage(nd, dir) != nil {
					continue
				}
				res.Nested++
				e3, ok := restart(label + ", second crash inside recovery")
				if !ok {
					break
				}
				if e3 != nil {
					d := readCheck(e3, conc, st.Exp, conc.order, tmin, tmax, true)
					_ = e3.Close()
					if d != "" {
						res.OK = false
						res.Detail = label + ", then a second crash inside recovery: contents differ: " + d
						break
					}
				}
			}
		}
		os.RemoveAll(dir)
		if err := os.Rename(live, dir); err != nil {
			return err
		}
		var err error
		e, err = engx.Open(dir, opts)
		if err != nil {
			e = nil
			return fmt.Errorf("reopen live tree: %w", err)
		}
		setSmallCompactionGroups()
		return nil
	}
	for i, st := range lc.Hist {
		res.Step = i
		res.Action = st.A
		switch st.A {
		case "Write":
			var rows []specRow
			if err := json.Unmarshal(st.Args, &rows); err != nil {
				res.Infra = "bad args: " + err.Error()
				return
			}
			var pts []engx.Pt
			newSeries := false
			for _, r := range rows {
				p := engx.Pt{Mst: "m", Tags: seriesTags(r.S), Time: timeBase + r.T*timeStep}
				for _, f := range r.Fs {
					p.Fields = append(p.Fields, conc.fields[f].fv(r.V))
				}
				pts = append(pts, p)
				if !seen[r.S] {
					seen[r.S] = true
					newSeries = true
				}
			}
			if err := e.Write(pts); err != nil {
				res.OK = false
				res.Detail = "write rejected: " + err.Error()
				return
			}
			wm.write(rows)
			unflushed = append(unflushed, rows)
			if v := os.Getenv("VH_SLEEP_AFTER_WRITE_MS"); v != "" {
				var ms int
				fmt.Sscanf(v, "%d", &ms)
				time.Sleep(time.Duration(ms) * time.Millisecond)
			}
			if newSeries {
				e.IndexFlush()
			}
		case "Flush":
			e.Flush()
			if v := os.Getenv("VH_SLEEP_AFTER_FLUSH_MS"); v != "" {
				var ms int
				fmt.Sscanf(v, "%d", &ms)
				time.Sleep(time.Duration(ms) * time.Millisecond)
			}
			wm.flush(unflushed)
			unflushed = nil
		case "LevelCompact":
			var a []int
			_ = json.Unmarshal(st.Args, &a)
			lvl := uint16(0)
			if len(a) > 0 {
				lvl = uint16(a[0])
			}
			if err := doCompact(st, func(s *immutable.MmsTables) error { return s.LevelCompact(lvl, engx.ShardID) }); err != nil {
				res.OK, res.Detail = false, "LevelCompact: "+err.Error()
				return
			}
		case "FullCompact":
			if err := doCompact(st, func(s *immutable.MmsTables) error { return s.FullCompact(engx.ShardID) }); err != nil {
				res.OK, res.Detail = false, "FullCompact: "+err.Error()
				return
			}
		case "MergeOOO":
			if err := doCompact(st, func(s *immutable.MmsTables) error { return s.MergeOutOfOrder(engx.ShardID, true, true) }); err != nil {
				res.OK, res.Detail = false, "MergeOutOfOrder: "+err.Error()
				return
			}
		case "Reopen":
			if err := e.Close(); err != nil {
				res.OK, res.Detail = false, "close: "+err.Error()
				e = nil
				return
			}
			e, err = engx.Open(dir, opts)
			if err != nil {
				res.OK, res.Detail = false, "reopen: "+err.Error()
				e = nil
				return
			}
			setSmallCompactionGroups()
			e.NoSettle = lc.NoSettle
			pred := wm.restartPrediction()
			wm = newWalModel(opts.WalParts)
			wm.flushed = pred
			unflushed = nil
			if d := readCheck(e, conc, st.Exp, conc.order, tmin, tmax, true); d != "" {
				// diverged from the specification: is it exactly the known replay-order defect?
				if d2 := readCheck(e, conc, pred.obs(conc.order), conc.order, tmin, tmax, true); d2 == "" {
					res.Known = "F-C01-1"
					res.Detail = fmt.Sprintf("after step %d (Reopen) walparts=%d: recovered contents equal the round-robin-replay prediction, not the acknowledged order: %s", i, opts.WalParts, d)
					return
				}
			}
		default:
			res.Infra = "unknown action " + st.A
			return
		}
		if !res.OK || res.Infra != "" {
			return
		}
		// shape drift (not a verdict): number of ordered / out-of-order files
		if st.Shape != nil {
			no := e.Store().GetTableFileNum("m_0000", true)
			nu := e.Store().GetTableFileNum("m_0000", false)
			if no != st.Shape["no"] || nu != st.Shape["nu"] {
				res.Drift++
			}
		}
		// observations: full dump asc and desc, then seeded sub-range / sub-field reads
		checks := []struct {
			fs         []string
			tmin, tmax int64
			asc        bool
		}{{conc.order, tmin, tmax, true}, {conc.order, tmin, tmax, false}}
		for k := 0; k < 3; k++ {
			a := timeBase + int64(rng.Intn(7))*timeStep
			b := a + int64(rng.Intn(5))*timeStep
			var fs []string
			for _, f := range conc.order {
				if rng.Intn(2) == 0 {
					fs = append(fs, f)
				}
			}
			if len(fs) == 0 {
				fs = []string{conc.order[rng.Intn(len(conc.order))]}
			}
			checks = append(checks, struct {
				fs         []string
				tmin, tmax int64
				asc        bool
			}{fs, a, b, rng.Intn(2) == 0})
		}
		for _, ck := range checks {
			res.Reads++
			if d := readCheck(e, conc, st.Exp, ck.fs, ck.tmin, ck.tmax, ck.asc); d != "" {
				res.OK = false
				types := []string{}
				for _, f := range conc.order {
					types = append(types, fmt.Sprintf("%s:%d", f, conc.fields[f].typ))
				}
				res.Detail = fmt.Sprintf("after step %d (%s) walparts=%d seg=%d compaction-method=%d types=%v: %s", i, st.A, opts.WalParts, opts.MaxRowsPerSegment, opts.CompactionMethod, types, d)
				if lc.NoSettle && strings.Contains(d, "not strictly sorted") && orderedFilesOverlap(e) {
					res.OK = true
					res.Known = "F-C04-1"
				}
				return
			}
		}
	}
	return
}

func replayLayout(args []string) int {
	root, err := os.MkdirTemp("/dev/shm", "vh-layout-")
	if err != nil {
		fmt.Fprintln(os.Stderr, err)
		return 2
	}
	defer os.RemoveAll(root)
	sc := bufio.NewScanner(os.Stdin)
	sc.Buffer(make([]byte, 1<<20), 1<<28)
	out := bufio.NewWriter(os.Stdout)
	defer out.Flush()
	bad := 0
	for sc.Scan() {
		line := sc.Bytes()
		if len(line) == 0 {
			continue
		}
		var lc layoutCase
		if err := json.Unmarshal(line, &lc); err != nil {
			fmt.Fprintln(os.Stderr, "bad case:", err)
			return 2
		}
		knownReadErrors = 0
		r := withWatchdog(lc.ID, 120, func() caseResult { return runLayoutCase(&lc, root) })
		r.KnownReadErrors = knownReadErrors
		if !r.OK {
			bad++
		}
		b, _ := json.Marshal(r)
		out.Write(b)
		out.WriteByte('\n')
		out.Flush()
	}
	if bad > 0 {
		return 1
	}
	return 0
}
