package main

import (
	"fmt"
	"os"
)

type cmdFn func(args []string) int

var cmds = map[string]cmdFn{}

func main() {
	if len(os.Args) < 2 {
		fmt.Fprintln(os.Stderr, "usage: vh <cmd> ...")
		os.Exit(2)
	}
	f, ok := cmds[os.Args[1]]
	if !ok {
		fmt.Fprintln(os.Stderr, "unknown command", os.Args[1])
		os.Exit(2)
	}
	os.Exit(f(os.Args[2:]))
}
