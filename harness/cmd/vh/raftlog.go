package main

// replay-raftlog: steps TLC-generated behaviours of specs/RaftStorage.tla through a real
// raftlog.RaftDiskStorage (lib/raftlog) on a scratch directory and compares every read operator with
// the specification's expected observation after every action (C17).
//
// Concretisation. The real rotation constant (30000 slots per file) is a const, so one abstract log
// entry of the spec is instantiated as a BLOCK of consecutive concrete entries, and FileCap = 3
// abstract slots are exactly one real file (30000 concrete entries). Inside every file period the two
// interior block edges are drawn from a palette (10000/20000 with +-1 offsets, 1/29999, 1/2, ...), so
// that conflicting appends, snapshots and prefix deletions hit slot 0, slot 1, the last slot and the
// middle of real files. Payloads are tiny and unique per (save id, concrete index).
//
// Size-rotation family (exp.cap.big > 0, the specification's MaxBig). The other real rotation constant
// (maxLogFileSize = 32 MiB: a file's payload area is 31 MiB) is a const as well, so the specification's
// payload class Big (d = 3, one unit; SizeCap units per file) is instantiated with REAL payloads of
// 31 MiB/(SizeCap+1) + 256 KiB (+ a seeded jitter): SizeCap of them plus all the small payloads a file
// can hold fit into a file, one more does not, exactly as the specification's Rolls(); class Huge (d = 4)
// is a payload of 31 MiB + 64 KiB, more than the payload area of an empty file. Blocks are uniform
// in this family (30000/FileCap concrete entries each, so that FileCap abstract slots are one real file
// wherever a file starts); a Big abstract entry is a block whose FIRST concrete entry carries the big
// payload, so that the real roll falls on the block edge like in the specification (what DeleteBefore and
// Init leave depends on the file boundaries, so the boundaries have to be the specification's). With
// FileCap = 30000 every abstract entry is ONE concrete entry (rotation by size only). The real
// file layout (first index and used slots of every *.entry file, read
// from the slot tables on /dev/shm) is compared with the specification's after every action (drift,
// not a verdict) and real rotations by size are counted (vacuity guard of props/c17.py).
//
// As a cross-check of the SPEC (not the oracle) the same operations are fed to etcd's
// raft.MemoryStorage; a spec-vs-MemoryStorage disagreement is an infrastructure error.

import (
	"bufio"
	"bytes"
	"encoding/binary"
	"encoding/json"
	"fmt"
	"math"
	"math/rand"
	"os"
	"path/filepath"
	"sort"
	"strings"

	"github.com/openGemini/openGemini/lib/config"
	"github.com/openGemini/openGemini/lib/logger"
	"github.com/openGemini/openGemini/lib/raftlog"
	"go.etcd.io/etcd/raft/v3"
	"go.etcd.io/etcd/raft/v3/raftpb"
	"go.uber.org/zap"
)

func init() { cmds["replay-raftlog"] = replayRaftlog }

const (
	rlFileCap   = 3     // abstract slots per file (FileCap of the spec)
	rlRealCap   = 30000 // maxNumEntries of lib/raftlog/log.go
	rlCompacted = -1
	rlUnavail   = -2
	rlBig       = 3        // payload class Big of the spec
	rlHuge      = 4        // payload class Huge of the spec: does not fit into an empty file
	rlSlotBytes = 32       // entrySize of lib/raftlog/log.go
	rlPayArea   = 31 << 20 // maxLogFileSize - logFileOffset
	rlMaxBigs   = 12       // refuse behaviours that would write more big payloads than this
)

var rlTrace = os.Getenv("VH_RAFTLOG_TRACE") != ""

type rlEnt struct {
	I int64 `json:"i"`
	T int64 `json:"t"`
	D int64 `json:"d"`
	S int64 `json:"s"`
}

type rlFile struct {
	Fi int64 `json:"fi"`
	N  int64 `json:"n"`
	U  int64 `json:"u"`
}

type rlExp struct {
	First  int64   `json:"first"`
	Last   int64   `json:"last"`
	Terms  []int64 `json:"terms"`  // position k = Term(k) of the reference
	ITerms []int64 `json:"iterms"` // position k = Term(k) as implemented (deviation model F-C17-2)
	Ents   []rlEnt `json:"ents"`
	Snap   struct {
		I int64 `json:"i"`
		T int64 `json:"t"`
		D int64 `json:"d"`
	} `json:"snap"`
	Hard struct {
		T int64 `json:"t"`
		V int64 `json:"v"`
		C int64 `json:"c"`
	} `json:"hard"`
	Files []rlFile `json:"files"`
	Cap   struct {
		Slots int64 `json:"slots"`
		Units int64 `json:"units"`
		Big   int64 `json:"big"`
	} `json:"cap"`
	Clob []int64 `json:"clob"`
	Vis  []int64 `json:"vis"`
}

type rlArgs struct {
	H  int64 `json:"h"`
	S0 int64 `json:"s0"`
	N  int64 `json:"n"`
	T  int64 `json:"t"`
	D  int64 `json:"d"`
	Bm int64 `json:"bm"`
	Bc int64 `json:"bc"`
	Si int64 `json:"si"`
	ID int64 `json:"id"`
	I  int64 `json:"i"`
}

type rlStep struct {
	A    string `json:"a"`
	Args rlArgs `json:"args"`
	Res  string `json:"res"`
	Exp  rlExp  `json:"exp"`
}

type rlCase struct {
	ID   int      `json:"id"`
	Seed int64    `json:"seed"`
	Hist []rlStep `json:"hist"`
}

// interior block edges (e1 < e2) of one file period of 30000 concrete entries
var rlPalette = [][2]int64{
	{10000, 20000}, {9999, 20001}, {10001, 19999}, {10000, 20001},
	{1, 29999}, {1, 2}, {29998, 29999}, {2, 15000}, {1, 10000}, {20000, 29999}, {15000, 29998},
}

type rlConc struct {
	seed  int64
	edges map[int64][2]int64
	rng   *rand.Rand
	// size-rotation family: uniform blocks of `block` concrete entries (0 = palette mode), the big payload
	// is carried by the first concrete entry of a Big block and has bigLen bytes
	slots  int64
	block  int64
	bigLen int
	bigs   map[[2]int64][]byte
}

func (c *rlConc) period(p int64) [2]int64 {
	if c.block > 0 {
		return [2]int64{c.block, 2 * c.block}
	}
	if e, ok := c.edges[p]; ok {
		return e
	}
	r := rand.New(rand.NewSource(c.seed*7919 + p*104729 + 17))
	e := rlPalette[r.Intn(len(rlPalette))]
	c.edges[p] = e
	return e
}

// bnd(a) = last concrete index of abstract entry a (bnd(0) = 0)
func (c *rlConc) bnd(a int64) uint64 {
	if a <= 0 {
		return 0
	}
	if c.block > 0 {
		return uint64(a * c.block)
	}
	p := (a - 1) / rlFileCap
	k := (a - 1) % rlFileCap
	base := p * rlRealCap
	e := c.period(p)
	switch k {
	case 0:
		return uint64(base + e[0])
	case 1:
		return uint64(base + e[1])
	}
	return uint64(base + rlRealCap)
}

// blk(ci) = abstract entry that concrete index ci belongs to (0 for ci = 0)
func (c *rlConc) blk(ci uint64) int64 {
	if ci == 0 {
		return 0
	}
	if c.block > 0 {
		return int64(ci-1)/c.block + 1
	}
	p := int64(ci-1) / rlRealCap
	for k := int64(1); k <= rlFileCap; k++ {
		if ci <= c.bnd(p*rlFileCap+k) {
			return p*rlFileCap + k
		}
	}
	panic("blk")
}

func rlPayload(d, s int64, ci uint64) []byte {
	switch d {
	case 0:
		return nil
	case 1:
		return []byte(fmt.Sprintf("p%d.%d", s, ci))
	}
	b := []byte(fmt.Sprintf("P%d.%d.", s, ci))
	for len(b) < 48 {
		b = append(b, byte('a'+len(b)%26))
	}
	return b
}

// payload of concrete entry ci of an abstract entry of class d written by save s
func (c *rlConc) payload(d, s int64, ci uint64) []byte {
	if d != rlBig && d != rlHuge {
		return rlPayload(d, s, ci)
	}
	if c.block == 0 {
		panic("payload class Big outside the size-rotation family")
	}
	n := c.bigLen
	if d == rlHuge {
		if c.block != 1 {
			panic("payload class Huge needs FileCap = 30000 (one concrete entry per abstract entry)")
		}
		n = rlPayArea + 64<<10 + c.bigLen%4096 // more than the whole payload area of a file
	}
	if int64(ci-1)%c.block != 0 {
		return rlPayload(1, s, ci)
	}
	k := [2]int64{s, int64(ci)}
	if b, ok := c.bigs[k]; ok {
		return b
	}
	if len(c.bigs) >= rlMaxBigs {
		panic(fmt.Sprintf("behaviour writes more than %d big payloads", rlMaxBigs))
	}
	// a per-entry pattern with a prime period (a shifted or foreign payload never matches) and the save id and index
	// as binary digits at both ends. Every byte is 0 or 1: should a defective store interpret payload bytes as a length
	// prefix, the length stays below 17 MB (instead of up to 4 GiB of allocation per read).
	b := make([]byte, n)
	r := rand.New(rand.NewSource(s*1000003 + int64(ci)))
	pat := make([]byte, 65521)
	r.Read(pat)
	for i := range pat {
		pat[i] &= 1
	}
	for o := 0; o < len(b); o += len(pat) {
		copy(b[o:], pat)
	}
	for i := 0; i < 64; i++ {
		bit := byte((uint64(s)<<40 ^ ci) >> uint(i) & 1)
		b[i], b[len(b)-1-i] = bit, bit
	}
	c.bigs[k] = b
	return b
}

func rlType(s int64, ci uint64) raftpb.EntryType {
	if (int64(ci)+s)%53 == 0 {
		return raftpb.EntryConfChange
	}
	return raftpb.EntryNormal
}

// ---- the expected store, derived from the specification's observation --------------------------

type rlWant struct {
	c            *rlConc
	exp          *rlExp
	cfirst       uint64
	clast        uint64
	empty        map[uint64]bool // concrete indexes whose payload the F-C17-1 model predicts to read empty
	snapData     []byte
	snapCS       raftpb.ConfState
	hard         raftpb.HardState
	everSnapshot bool
}

func (w *rlWant) entry(ci uint64, dev1 bool) raftpb.Entry {
	a := w.c.blk(ci)
	e := w.exp.Ents[a-w.exp.First]
	if e.I != a {
		panic(fmt.Sprintf("spec entry table inconsistent: want index %d got %d", a, e.I))
	}
	ent := raftpb.Entry{Index: ci, Term: uint64(e.T), Type: rlType(e.S, ci), Data: w.c.payload(e.D, e.S, ci)}
	if dev1 && w.empty[ci] {
		ent.Data = nil
	}
	return ent
}

// term per the specification's table (reference) or the as-implemented table
func (w *rlWant) term(ci uint64) int64 {
	a := w.c.blk(ci)
	if ci > w.clast {
		a = w.exp.Last + 1
	}
	if ci+1 < w.cfirst { // of the compacted block first-1 only its last concrete entry keeps its term
		return rlCompacted
	}
	return w.exp.Terms[a]
}

// as-implemented Term at concrete granularity (deviation model of F-C17-2, TermImpl of the spec):
// index 0 -> 0; a stored index -> its term; otherwise below the snapshot index -> compacted, at the
// snapshot index -> snapshot term, a store without entries or an index below the first -> compacted,
// else unavailable.
func (w *rlWant) implTerm(ci uint64) int64 {
	if ci == 0 {
		return 0
	}
	if w.exp.Last >= w.exp.First && ci >= w.cfirst && ci <= w.clast {
		return w.term(ci)
	}
	cs := w.c.bnd(w.exp.Snap.I)
	if w.exp.Snap.I > 0 && ci < cs {
		return rlCompacted
	}
	if w.exp.Snap.I > 0 && ci == cs {
		return w.exp.Snap.T
	}
	if w.exp.Last < w.exp.First || ci < w.cfirst {
		return rlCompacted
	}
	return rlUnavail
}

// Entries(lo,hi,max) per the specification: status, then the size-limited prefix
func (w *rlWant) entries(lo, hi, max uint64, dev1 bool) (int64, []raftpb.Entry) {
	if lo < w.cfirst {
		return rlCompacted, nil
	}
	if hi > w.clast+1 {
		return rlUnavail, nil
	}
	if w.exp.Last < w.exp.First {
		return rlUnavail, nil
	}
	var out []raftpb.Entry
	var size uint64
	for ci := lo; ci < hi; ci++ {
		e := w.entry(ci, dev1)
		size += uint64(e.Size())
		if len(out) > 0 && size > max {
			break
		}
		out = append(out, e)
	}
	return 0, out
}

func rlErrCode(err error) int64 {
	switch err {
	case nil:
		return 0
	case raft.ErrCompacted:
		return rlCompacted
	case raft.ErrUnavailable:
		return rlUnavail
	}
	return -9
}

func rlEntsEqual(a, b []raftpb.Entry) (bool, string) {
	if len(a) != len(b) {
		return false, fmt.Sprintf("%d entries, want %d", len(a), len(b))
	}
	for i := range a {
		if a[i].Index != b[i].Index || a[i].Term != b[i].Term || a[i].Type != b[i].Type || !bytes.Equal(a[i].Data, b[i].Data) {
			return false, fmt.Sprintf("entry #%d: got {index %d term %d type %v payload %s}, want {index %d term %d type %v payload %s}",
				i, a[i].Index, a[i].Term, a[i].Type, rlShow(a[i].Data), b[i].Index, b[i].Term, b[i].Type, rlShow(b[i].Data))
		}
	}
	return true, ""
}

func rlShow(b []byte) string {
	if len(b) <= 64 {
		return fmt.Sprintf("%q", b)
	}
	return fmt.Sprintf("%q..%q (%d bytes)", b[:24], b[len(b)-16:], len(b))
}

// ---- MemoryStorage as a cross-check of the specification ----------------------------------------

func msEntries(ms *raft.MemoryStorage, lo, hi, max uint64) (code int64, es []raftpb.Entry) {
	defer func() {
		if r := recover(); r != nil { // MemoryStorage panics for hi > last+1
			code, es = rlUnavail, nil
		}
	}()
	es, err := ms.Entries(lo, hi, max)
	return rlErrCode(err), es
}

type rlRun struct {
	lc       *rlCase
	conc     *rlConc
	dir      string
	rds      *raftlog.RaftDiskStorage
	ms       *raft.MemoryStorage
	res      *caseResult
	known    map[string]string
	rwType   int
	rng      *rand.Rand
	want     *rlWant
	sizeMode bool
	extra    *rlExtra
	short    map[string]bool // short (rolled by size) files of the real store seen so far
	// what was handed to the store (must come back unchanged)
	snapData []byte
	snapCS   raftpb.ConfState
	hard     raftpb.HardState
}

func (r *rlRun) fail(step int, st *rlStep, format string, a ...interface{}) {
	r.res.OK = false
	r.res.Detail = fmt.Sprintf("after step %d (%s %+v) rwtype=%d edges=%v: ", step, st.A, st.Args, r.rwType, r.edgeList()) + fmt.Sprintf(format, a...)
}

// rlExtra: coverage of the size-rotation family, measured on the REAL store's files
type rlExtra struct {
	SizeMode          bool `json:"size_mode,omitempty"`
	BigWritten        int  `json:"big_written,omitempty"`         // big payloads handed to Save
	SizeRolls         int  `json:"size_rolls,omitempty"`          // real files found rolled with < 30000 used slots
	ConflictSizeRolls int  `json:"conflict_size_rolls,omitempty"` // ... produced by a Save that conflicts with stored entries
	MidBatchRolls     int  `json:"mid_batch_rolls,omitempty"`     // ... whose successor file starts inside the batch (not at its first entry)
	StaleTailRolls    int  `json:"stale_tail_rolls,omitempty"`    // ... of a conflicting Save, roll point inside the batch and not beyond the old end of the log (superseded entries lay behind the roll point)
}

type rlDiskFile struct {
	name  string
	first uint64
	used  int
	size  int64
}

// diskLayout reads the slot table of every entry file of the real store: first index and number of used
// (leading non-zero index) slots, ordered by first index; files without entries are dropped.
func (r *rlRun) diskLayout() ([]rlDiskFile, error) {
	names, err := filepath.Glob(filepath.Join(r.dir, "__raft_entries__", "*.entry"))
	if err != nil {
		return nil, err
	}
	var out []rlDiskFile
	buf := make([]byte, rlRealCap*rlSlotBytes)
	for _, n := range names {
		f, err := os.Open(n)
		if err != nil {
			return nil, err
		}
		st, _ := f.Stat()
		m, _ := f.ReadAt(buf, 0)
		f.Close()
		df := rlDiskFile{name: filepath.Base(n), size: st.Size()}
		for k := 0; (k+1)*rlSlotBytes <= m; k++ {
			idx := binary.BigEndian.Uint64(buf[k*rlSlotBytes+8:])
			if idx == 0 {
				break
			}
			if k == 0 {
				df.first = idx
			}
			df.used++
		}
		if df.used > 0 {
			out = append(out, df)
		}
	}
	sort.Slice(out, func(i, j int) bool { return out[i].first < out[j].first })
	return out, nil
}

// observeLayout compares the real file layout with the specification's (drift, informational) and counts
// real rotations by size. prevLast = concrete last index before the step, lo/hi = concrete range of a Save's
// batch (0,0 otherwise).
func (r *rlRun) observeLayout(st *rlStep, prevLast, lo, hi uint64) {
	files, err := r.diskLayout()
	if err != nil {
		r.res.Drift++
		return
	}
	var want []rlFile
	for _, f := range st.Exp.Files {
		if f.N > 0 {
			want = append(want, f)
		}
	}
	same := len(files) == len(want)
	for j := 0; same && j < len(files); j++ {
		cf := r.conc.bnd(want[j].Fi-1) + 1
		cn := r.conc.bnd(want[j].Fi+want[j].N-1) - r.conc.bnd(want[j].Fi-1)
		same = files[j].first == cf && uint64(files[j].used) == cn
	}
	if !same {
		r.res.Drift++
	}
	for j := 0; j+1 < len(files); j++ {
		f := files[j]
		if f.used >= rlRealCap {
			continue
		}
		key := fmt.Sprintf("%s/%d/%d", f.name, f.first, f.used)
		if r.short[key] {
			continue
		}
		r.short[key] = true
		r.extra.SizeRolls++
		next := files[j+1].first // the entry that did not fit
		if st.A == "Save" && hi > 0 && next >= lo && next <= hi {
			if next > lo {
				r.extra.MidBatchRolls++
			}
			if lo <= prevLast {
				r.extra.ConflictSizeRolls++
				if next > lo && next <= prevLast {
					r.extra.StaleTailRolls++
				}
			}
		}
	}
}

func (r *rlRun) edgeList() string {
	var ps []int64
	for p := range r.conc.edges {
		ps = append(ps, p)
	}
	sort.Slice(ps, func(i, j int) bool { return ps[i] < ps[j] })
	var sb strings.Builder
	for _, p := range ps {
		fmt.Fprintf(&sb, "[%d:%d,%d]", p, r.conc.edges[p][0], r.conc.edges[p][1])
	}
	return sb.String()
}

func (r *rlRun) noteKnown(id, detail string) {
	if _, ok := r.known[id]; !ok {
		r.known[id] = detail
	}
}

// boundary arguments: first-1, first, first+1, block and file edges +-1, middle, last, last+1, last+2
func (r *rlRun) points(w *rlWant) []uint64 {
	set := map[uint64]bool{0: true, 1: true}
	add := func(v int64) {
		if v >= 0 {
			set[uint64(v)] = true
		}
	}
	for a := w.exp.First - 2; a <= w.exp.Last+1; a++ {
		if a < 0 {
			continue
		}
		b := int64(r.conc.bnd(a))
		add(b - 1)
		add(b)
		add(b + 1)
		add(b + 2)
	}
	add(int64(w.cfirst) - 2)
	add(int64(w.cfirst) - 1)
	add(int64(w.clast) + 1)
	add(int64(w.clast) + 2)
	if w.clast >= w.cfirst {
		add(int64(w.cfirst+w.clast) / 2)
		for k := 0; k < 4; k++ {
			add(int64(w.cfirst) + r.rng.Int63n(int64(w.clast-w.cfirst)+1))
		}
	}
	if w.exp.Snap.I > 0 {
		cs := int64(r.conc.bnd(w.exp.Snap.I))
		add(cs - 1)
		add(cs)
		add(cs + 1)
	}
	var out []uint64
	for v := range set {
		if v <= w.clast+3 {
			out = append(out, v)
		}
	}
	sort.Slice(out, func(i, j int) bool { return out[i] < out[j] })
	return out
}

// checkReads compares every read operator; returns false when a (non attributed) divergence or an
// infrastructure problem was recorded.
func (r *rlRun) checkReads(step int, st *rlStep) bool {
	w := r.want
	res := r.res
	// FirstIndex / LastIndex
	fi, err := r.rds.FirstIndex()
	res.Reads++
	if err != nil || fi != w.cfirst {
		r.fail(step, st, "FirstIndex = %d,%v want %d (abstract %d)", fi, err, w.cfirst, w.exp.First)
		return false
	}
	li, err := r.rds.LastIndex()
	res.Reads++
	if err != nil || li != w.clast {
		r.fail(step, st, "LastIndex = %d,%v want %d (abstract %d)", li, err, w.clast, w.exp.Last)
		return false
	}
	if mf, _ := r.ms.FirstIndex(); mf != w.cfirst {
		res.Infra = fmt.Sprintf("step %d: spec FirstIndex %d but MemoryStorage %d", step, w.cfirst, mf)
		return false
	}
	if ml, _ := r.ms.LastIndex(); ml != w.clast {
		res.Infra = fmt.Sprintf("step %d: spec LastIndex %d but MemoryStorage %d", step, w.clast, ml)
		return false
	}
	pts := r.points(w)
	// Term
	for _, ci := range pts {
		wantT := w.term(ci)
		mt, merr := r.ms.Term(ci)
		mcode := rlErrCode(merr)
		if mcode == 0 {
			mcode = int64(mt)
		}
		if mcode != wantT {
			res.Infra = fmt.Sprintf("step %d: spec Term(%d)=%d but MemoryStorage says %d", step, ci, wantT, mcode)
			return false
		}
		gt, gerr := r.rds.Term(ci)
		res.Reads++
		got := rlErrCode(gerr)
		if got == 0 {
			got = int64(gt)
		}
		if got == wantT {
			continue
		}
		if it := w.implTerm(ci); got == it {
			r.noteKnown("F-C17-2", fmt.Sprintf("after step %d (%s): Term(%d) = %s where the contract (MemoryStorage) says %s; first=%d last=%d snapshot=%d: exactly the as-implemented classification (seekEntry/Term consult only stored slots and the snapshot index)",
				step, st.A, ci, rlCodeStr(got), rlCodeStr(wantT), w.cfirst, w.clast, r.conc.bnd(w.exp.Snap.I)))
			continue
		}
		r.fail(step, st, "Term(%d) = %s (err %v), want %s [first=%d last=%d]", ci, rlCodeStr(got), gerr, rlCodeStr(wantT), w.cfirst, w.clast)
		return false
	}
	// consistency of the concrete as-implemented model with the specification's table (block ends)
	for a := int64(0); a <= w.exp.Last+1 && int(a) < len(w.exp.ITerms); a++ {
		ci := r.conc.bnd(a)
		if a == w.exp.Last+1 {
			ci = w.clast + 1
		}
		if w.implTerm(ci) != w.exp.ITerms[a] {
			res.Infra = fmt.Sprintf("step %d: harness implTerm(%d)=%d differs from spec iterms[%d]=%d", step, ci, w.implTerm(ci), a, w.exp.ITerms[a])
			return false
		}
	}
	// Entries: pairs of boundary points with several size limits
	type pair struct{ lo, hi, max uint64 }
	var pairs []pair
	// (narrow ranges first, the full scans last: a store that went wrong is recognised before the expensive reads)
	limits := []uint64{math.MaxUint64, 0, 1, 40, 100, 700}
	for i, lo := range pts {
		if lo == 0 {
			continue
		}
		// a window of two entries at every boundary point, without a size limit
		pairs = append(pairs, pair{lo, lo + 2, math.MaxUint64})
		for _, j := range []int{i + 1, i + 2, i + 3, i + 5} {
			if j < len(pts) {
				pairs = append(pairs, pair{lo, pts[j], limits[(i+j)%len(limits)]})
			}
		}
	}
	if w.clast >= w.cfirst { // wide ranges with small limits, range == whole log with a limit, full scan
		pairs = append(pairs, pair{w.cfirst, w.clast + 1, 100}, pair{w.cfirst, w.clast + 1, 0}, pair{w.cfirst, w.clast + 2, math.MaxUint64})
		for k := 0; k < 6; k++ {
			lo := w.cfirst + uint64(r.rng.Int63n(int64(w.clast-w.cfirst)+1))
			hi := lo + 1 + uint64(r.rng.Int63n(int64(w.clast-lo)+1))
			pairs = append(pairs, pair{lo, hi, []uint64{math.MaxUint64, 500, 30}[k%3]})
		}
		pairs = append(pairs, pair{w.cfirst, w.clast + 1, math.MaxUint64})
	}
	sort.SliceStable(pairs, func(i, j int) bool { return pairs[i].hi-pairs[i].lo < pairs[j].hi-pairs[j].lo })
	for _, p := range pairs {
		if p.lo >= p.hi {
			continue
		}
		wcode, wents := w.entries(p.lo, p.hi, p.max, false)
		mcode, ments := msEntries(r.ms, p.lo, p.hi, p.max)
		if mcode != wcode {
			res.Infra = fmt.Sprintf("step %d: spec Entries(%d,%d) status %d but MemoryStorage %d", step, p.lo, p.hi, wcode, mcode)
			return false
		}
		if ok, d := rlEntsEqual(ments, wents); !ok {
			res.Infra = fmt.Sprintf("step %d: spec Entries(%d,%d,%d) differs from MemoryStorage: %s", step, p.lo, p.hi, p.max, d)
			return false
		}
		if rlTrace {
			fmt.Fprintf(os.Stderr, "TRACE step %d %s Entries(%d,%d,%d)\n", step, st.A, p.lo, p.hi, p.max)
		}
		gents, gerr := r.rds.Entries(p.lo, p.hi, p.max)
		res.Reads++
		gcode := rlErrCode(gerr)
		if gcode != wcode {
			r.fail(step, st, "Entries(%d,%d,%d) status %s (err %v), want %s [first=%d last=%d]", p.lo, p.hi, p.max, rlCodeStr(gcode), gerr, rlCodeStr(wcode), w.cfirst, w.clast)
			return false
		}
		if ok, d := rlEntsEqual(gents, wents); !ok {
			// exactly the prediction of the F-C17-1 deviation model?
			if len(w.empty) > 0 {
				_, dents := w.entries(p.lo, p.hi, p.max, true)
				if ok2, _ := rlEntsEqual(gents, dents); ok2 {
					r.noteKnown("F-C17-1", fmt.Sprintf("after step %d (%s): Entries(%d,%d,%d): %s; the payload of the first slot of a file that a conflicting append truncated into reads empty (predicted set %v)",
						step, st.A, p.lo, p.hi, p.max, d, rlKeys(w.empty)))
					continue
				}
			}
			r.fail(step, st, "Entries(%d,%d,%d): %s [first=%d last=%d]", p.lo, p.hi, p.max, d, w.cfirst, w.clast)
			return false
		}
	}
	// Snapshot / InitialState: returned unchanged
	sn, err := r.rds.Snapshot()
	res.Reads++
	if err != nil {
		r.fail(step, st, "Snapshot: %v", err)
		return false
	}
	wantIdx := r.conc.bnd(w.exp.Snap.I)
	if sn.Metadata.Index != wantIdx || sn.Metadata.Term != uint64(w.exp.Snap.T) || !bytes.Equal(sn.Data, r.snapData) {
		r.fail(step, st, "Snapshot = {index %d term %d data %q}, want {index %d term %d data %q}", sn.Metadata.Index, sn.Metadata.Term, sn.Data, wantIdx, w.exp.Snap.T, r.snapData)
		return false
	}
	if fmt.Sprint(sn.Metadata.ConfState) != fmt.Sprint(r.snapCS) {
		r.fail(step, st, "Snapshot conf state = %v want %v", sn.Metadata.ConfState, r.snapCS)
		return false
	}
	msn, _ := r.ms.Snapshot()
	if msn.Metadata.Index != wantIdx || msn.Metadata.Term != uint64(w.exp.Snap.T) {
		res.Infra = fmt.Sprintf("step %d: spec snapshot %d/%d but MemoryStorage %d/%d", step, wantIdx, w.exp.Snap.T, msn.Metadata.Index, msn.Metadata.Term)
		return false
	}
	hs, cs, err := r.rds.InitialState()
	res.Reads++
	if err != nil || hs.Term != r.hard.Term || hs.Vote != r.hard.Vote || hs.Commit != r.hard.Commit {
		r.fail(step, st, "InitialState hard state = %+v,%v want %+v", hs, err, r.hard)
		return false
	}
	if uint64(w.exp.Hard.T) != r.hard.Term || uint64(w.exp.Hard.V) != r.hard.Vote || r.conc.bnd(w.exp.Hard.C) != r.hard.Commit {
		res.Infra = fmt.Sprintf("step %d: spec hard state %+v but harness handed %+v", step, w.exp.Hard, r.hard)
		return false
	}
	if fmt.Sprint(cs) != fmt.Sprint(r.snapCS) {
		r.fail(step, st, "InitialState conf state = %v want %v", cs, r.snapCS)
		return false
	}
	return true
}

func rlCodeStr(c int64) string {
	switch c {
	case rlCompacted:
		return "ErrCompacted"
	case rlUnavail:
		return "ErrUnavailable"
	case -9:
		return "other-error"
	}
	return fmt.Sprintf("term %d", c)
}

func rlKeys(m map[uint64]bool) []uint64 {
	var out []uint64
	for k := range m {
		out = append(out, k)
	}
	sort.Slice(out, func(i, j int) bool { return out[i] < out[j] })
	return out
}

func (r *rlRun) setWant(exp *rlExp) {
	w := &rlWant{c: r.conc, exp: exp, empty: map[uint64]bool{}}
	w.cfirst = r.conc.bnd(exp.First-1) + 1
	w.clast = r.conc.bnd(exp.Last)
	// F-C17-1 deviation model: which first-slot payloads read empty. With the per-slot cache of
	// FileWrapV2 (default) the clobbered length prefix is consulted only after a reopen (vis); the
	// whole-file buffer of FileWrap (entry-file-rw-type 1) shows it at once (clob).
	src := exp.Vis
	if r.rwType == 1 {
		src = exp.Clob
	}
	for _, a := range src {
		w.empty[r.conc.bnd(a-1)+1] = true
	}
	r.want = w
}

func (r *rlRun) compactMS(exp *rlExp) string {
	mf, _ := r.ms.FirstIndex()
	cf := r.conc.bnd(exp.First-1) + 1
	if cf > mf {
		if err := r.ms.Compact(cf - 1); err != nil {
			return fmt.Sprintf("MemoryStorage.Compact(%d): %v", cf-1, err)
		}
	}
	return ""
}

func runRaftlogCase(lc *rlCase, root string, extra *rlExtra) (res caseResult) {
	res = caseResult{ID: lc.ID, OK: true, Step: -1}
	defer func() {
		if p := recover(); p != nil {
			res.OK = false
			res.Detail = fmt.Sprintf("panic at step %d (%s): %v", res.Step, res.Action, p)
		}
	}()
	rng := rand.New(rand.NewSource(lc.Seed*1000003 + int64(lc.ID)*31 + 7))
	r := &rlRun{lc: lc, res: &res, known: map[string]string{}, rng: rng,
		conc: &rlConc{seed: lc.Seed*1000003 + int64(lc.ID), edges: map[int64][2]int64{}, bigs: map[[2]int64][]byte{}},
		ms:   raft.NewMemoryStorage(), extra: extra, short: map[string]bool{}}
	r.rwType = 2
	if rng.Intn(5) == 0 {
		r.rwType = 1
	}
	if len(lc.Hist) > 0 {
		c0 := lc.Hist[0].Exp.Cap
		if c0.Slots == 0 && c0.Big == 0 { // behaviour exported before the specification knew rotation by size
			c0.Slots = rlFileCap
		}
		if c0.Slots != rlFileCap && c0.Big == 0 {
			res.Infra = fmt.Sprintf("FileCap = %d: the palette concretisation needs %d", c0.Slots, rlFileCap)
			return
		}
		if c0.Big > 0 { // size-rotation family
			if c0.Slots < 1 || rlRealCap%c0.Slots != 0 || c0.Units < 1 || c0.Units > 8 || c0.Big > rlMaxBigs {
				res.Infra = fmt.Sprintf("size-rotation family: unsupported constants %+v", c0)
				return
			}
			r.sizeMode, extra.SizeMode = true, true
			r.conc.slots, r.conc.block = c0.Slots, rlRealCap/c0.Slots
			// Units big payloads + every small payload a file can hold (30000 * (4+48) bytes) fit into the
			// 31 MiB payload area, Units+1 big payloads do not
			r.conc.bigLen = rlPayArea/int(c0.Units+1) + 256<<10 + rng.Intn(4096)
			if int(c0.Units)*(r.conc.bigLen+4)+rlRealCap*52 > rlPayArea || int(c0.Units+1)*(r.conc.bigLen+4) <= rlPayArea {
				res.Infra = fmt.Sprintf("size-rotation family: big payload of %d bytes does not realise SizeCap = %d", r.conc.bigLen, c0.Units)
				return
			}
			if r.rwType == 1 && rng.Intn(2) == 0 { // the whole-file buffers of rw type 1 are costly with 32 MiB files
				r.rwType = 2
			}
		}
	}
	if v := os.Getenv("VH_RAFTLOG_RWTYPE"); v == "1" || v == "2" {
		r.rwType = int(v[0] - '0')
	}
	config.EntryFileRWType = r.rwType
	r.dir = fmt.Sprintf("%s/c%d", root, lc.ID)
	if err := os.MkdirAll(r.dir, 0o750); err != nil {
		res.Infra = err.Error()
		return
	}
	defer os.RemoveAll(r.dir)
	var err error
	r.rds, err = raftlog.Init(r.dir, 0)
	if err != nil {
		res.Infra = "Init: " + err.Error()
		return
	}
	defer func() {
		if r.rds != nil {
			if r.sizeMode && r.want != nil && r.want.clast > 0 {
				// (after the last comparison) let the store delete its rolled files itself: rw type 1 keeps
				// the buffers of rolled files in a process-wide cache until their Delete
				_ = r.rds.DeleteBefore(r.want.clast)
			}
			_ = r.rds.Close()
		}
		if len(r.known) > 0 {
			var ids []string
			for k := range r.known {
				ids = append(ids, k)
			}
			sort.Strings(ids)
			res.Known = strings.Join(ids, ",")
			if res.OK && res.Infra == "" {
				var ds []string
				for _, k := range ids {
					ds = append(ds, k+": "+r.known[k])
				}
				res.Detail = strings.Join(ds, " || ")
			}
		}
	}()
	for i := range lc.Hist {
		st := &lc.Hist[i]
		res.Step, res.Action = i, st.A
		var prevLast, saveLo, saveHi uint64
		if r.want != nil {
			prevLast = r.want.clast
		}
		if st.Exp.Cap != lc.Hist[0].Exp.Cap {
			res.Infra = "the constants of the behaviour change between steps"
			return
		}
		r.setWant(&st.Exp)
		switch st.A {
		case "Save":
			a := st.Args
			var ents []raftpb.Entry
			if a.N > 0 {
				if a.Bm != 0 && !r.sizeMode {
					res.Infra = "Big payloads in a behaviour with MaxBig = 0"
					return
				}
				lo, hi := r.conc.bnd(a.S0-1)+1, r.conc.bnd(a.S0+a.N-1)
				saveLo, saveHi = lo, hi
				ents = make([]raftpb.Entry, 0, hi-lo+1)
				for ci := lo; ci <= hi; ci++ {
					d := a.D
					if (a.Bm>>uint(r.conc.blk(ci)-a.S0))&1 == 1 {
						d = a.Bc
						if d != rlBig && d != rlHuge {
							res.Infra = fmt.Sprintf("heavy payload class %d", d)
							return
						}
					}
					data := r.conc.payload(d, a.ID, ci)
					if len(data) > 1<<20 {
						extra.BigWritten++
					}
					ents = append(ents, raftpb.Entry{Index: ci, Term: uint64(a.T), Type: rlType(a.ID, ci), Data: data})
				}
			}
			var hs *raftpb.HardState
			if a.H > 0 {
				hs = &raftpb.HardState{Term: uint64(st.Exp.Hard.T), Vote: uint64(st.Exp.Hard.V), Commit: r.conc.bnd(st.Exp.Hard.C)}
			}
			var snap *raftpb.Snapshot
			if a.Si > 0 {
				cs := raftpb.ConfState{Voters: []uint64{1, 2, 3}, Learners: []uint64{uint64(10 + a.ID)}}
				snap = &raftpb.Snapshot{Data: []byte(fmt.Sprintf("snap-%d-%d", a.ID, a.Si)),
					Metadata: raftpb.SnapshotMetadata{Index: r.conc.bnd(a.Si), Term: uint64(st.Exp.Snap.T), ConfState: cs}}
			}
			// the batch is handed over in 1..3 consecutive Save calls (hard state and snapshot ride on the last)
			var parts [][]raftpb.Entry
			rest := ents
			if len(ents) > 3 {
				for k := rng.Intn(3); k > 0 && len(rest) >= 2; k-- {
					cut := 1 + rng.Intn(len(rest)-1)
					parts = append(parts, rest[:cut])
					rest = rest[cut:]
				}
			}
			parts = append(parts, rest)
			for k, part := range parts {
				var h2 *raftpb.HardState
				var s2 *raftpb.Snapshot
				if k == len(parts)-1 {
					h2, s2 = hs, snap
				}
				if err := r.rds.Save(h2, part, s2); err != nil {
					r.fail(i, st, "Save: %v", err)
					return
				}
			}
			if len(ents) > 0 {
				if err := r.ms.Append(ents); err != nil {
					res.Infra = "MemoryStorage.Append: " + err.Error()
					return
				}
			}
			if hs != nil {
				_ = r.ms.SetHardState(*hs)
				r.hard = *hs
			}
			if snap != nil {
				msn, err := r.ms.CreateSnapshot(snap.Metadata.Index, &snap.Metadata.ConfState, snap.Data)
				if err != nil || msn.Metadata.Term != snap.Metadata.Term {
					res.Infra = fmt.Sprintf("MemoryStorage.CreateSnapshot(%d): %v term %d (spec %d)", snap.Metadata.Index, err, msn.Metadata.Term, snap.Metadata.Term)
					return
				}
				r.snapData, r.snapCS = snap.Data, snap.Metadata.ConfState
			}
		case "CreateSnapshot":
			ci := r.conc.bnd(st.Args.I)
			cs := raftpb.ConfState{Voters: []uint64{1, 2, 3}, Learners: []uint64{uint64(100 + st.Args.I)}}
			data := []byte(fmt.Sprintf("snap-0-%d", st.Args.I))
			if err := r.rds.CreateSnapshot(ci, &cs, data); err != nil {
				r.fail(i, st, "CreateSnapshot(%d): %v", ci, err)
				return
			}
			if _, err := r.ms.CreateSnapshot(ci, &cs, data); err != nil {
				res.Infra = fmt.Sprintf("MemoryStorage.CreateSnapshot(%d): %v", ci, err)
				return
			}
			r.snapData, r.snapCS = data, cs
		case "DeleteBefore":
			x := st.Args.I
			lo, hi := r.conc.bnd(x-1)+1, r.conc.bnd(x)
			prevLast := r.conc.bnd(st.Exp.Last)
			var ci uint64
			if lo > prevLast { // x = last+1: just beyond the end
				ci = prevLast + 1
			} else {
				ci = []uint64{lo, hi, (lo + hi) / 2, lo + uint64(rng.Int63n(int64(hi-lo)+1))}[rng.Intn(4)]
			}
			err := r.rds.DeleteBefore(ci)
			if (err != nil) != (st.Res == "err") {
				r.fail(i, st, "DeleteBefore(%d) = %v, want result %q", ci, err, st.Res)
				return
			}
			if d := r.compactMS(&st.Exp); d != "" {
				res.Infra = d
				return
			}
		case "Close":
			err := r.rds.Close()
			r.rds = nil
			if err != nil {
				r.fail(i, st, "Close: %v", err)
				return
			}
			continue // nothing to read from a closed store
		case "Reopen":
			r.rds, err = raftlog.Init(r.dir, 0)
			if err != nil {
				r.rds = nil
				r.fail(i, st, "Init (reopen): %v", err)
				return
			}
			if d := r.compactMS(&st.Exp); d != "" {
				res.Infra = d
				return
			}
		default:
			res.Infra = "unknown action " + st.A
			return
		}
		if !r.checkReads(i, st) {
			return
		}
		r.observeLayout(st, prevLast, saveLo, saveHi)
	}
	return
}

func replayRaftlog(args []string) int {
	logger.GetSuppressLogger()
	logger.SetLogger(zap.NewNop())
	root, err := os.MkdirTemp("/dev/shm", "vh-raftlog-")
	if err != nil {
		fmt.Fprintln(os.Stderr, err)
		return 2
	}
	defer os.RemoveAll(root)
	sc := bufio.NewScanner(os.Stdin)
	sc.Buffer(make([]byte, 1<<20), 1<<28)
	out := bufio.NewWriter(os.Stdout)
	defer out.Flush()
	bad := 0
	for sc.Scan() {
		line := sc.Bytes()
		if len(line) == 0 {
			continue
		}
		var lc rlCase
		if err := json.Unmarshal(line, &lc); err != nil {
			fmt.Fprintln(os.Stderr, "bad case:", err)
			return 2
		}
		var extra rlExtra
		r := withWatchdog(lc.ID, 300, func() caseResult { return runRaftlogCase(&lc, root, &extra) })
		if !r.OK {
			bad++
		}
		b, _ := json.Marshal(struct {
			caseResult
			rlExtra
		}{r, extra})
		out.Write(b)
		out.WriteByte('\n')
		out.Flush()
	}
	if bad > 0 {
		return 1
	}
	return 0
}
