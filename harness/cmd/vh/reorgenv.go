//go:build verif

package main

// Engine environment of replay-layout (C02/C03). It differs from engx.Open in three points, all needed to
// drive reorganisations deterministically through exported API:
//   - the meta client handed to the engine answers UpdateShardDownSampleInfo locally (the real client would
//     retry an RPC to ts-meta forever): shard.DownSampleRecover and StartDownSample report the shard's new
//     down-sample level to ts-meta, which does not exist in process;
//   - shard.DisableCompAndMerge is never called: it closes the store's stopCompMerge channel, the compaction
//     scheduler's listener answers with CloseAll, and a closed scheduler silently drops every later
//     LevelCompact / FullCompact task of the store (finding F-C03-2). Reorganisations are switched with the
//     store's enable flags instead;
//   - the shard is withdrawn from the engine's compaction worker (10 s ticker), so that every reorganisation
//     is one the replayed behaviour asks for;
//   - the Sequencer is loaded as soon as the shard is open (see the end of openReorgEnv; finding F-C02-3).

import (
	"fmt"
	"math"
	"os"
	"path/filepath"
	"sync"
	"time"

	"github.com/openGemini/openGemini/engine"
	"github.com/openGemini/openGemini/engine/executor"
	"github.com/openGemini/openGemini/engine/hybridqp"
	"github.com/openGemini/openGemini/engine/immutable"
	"github.com/openGemini/openGemini/lib/config"
	"github.com/openGemini/openGemini/lib/cpu"
	"github.com/openGemini/openGemini/lib/logger"
	"github.com/openGemini/openGemini/lib/metaclient"
	"github.com/openGemini/openGemini/lib/util"
	"github.com/openGemini/openGemini/lib/util/lifted/influx/influxql"
	meta2 "github.com/openGemini/openGemini/lib/util/lifted/influx/meta"
	"github.com/openGemini/openGemini/lib/util/lifted/influx/query"
	"verifharness/internal/engx"
)

// dsMeta is the ts-meta side of a down-sample: it records the shard identifiers reported to it.
type dsMeta struct {
	mu       sync.Mutex
	Updates  []meta2.ShardIdentifier
	OnUpdate func()
}

func (d *dsMeta) UpdateShardDownSampleInfo(ident *meta2.ShardIdentifier) error {
	d.mu.Lock()
	d.Updates = append(d.Updates, *ident)
	f := d.OnUpdate
	d.mu.Unlock()
	if f != nil {
		f()
	}
	return nil
}

type reorgClient struct {
	*metaclient.Client
	ds *dsMeta
}

func (c *reorgClient) UpdateShardDownSampleInfo(ident *meta2.ShardIdentifier) error {
	return c.ds.UpdateShardDownSampleInfo(ident)
}

// reorgEnv wraps engx.Env (Write / Read / Flush / ... work on any Env that carries the engine) and owns
// the engine's life cycle.
type reorgEnv struct {
	*engx.Env
	Meta *dsMeta
	stop chan struct{}
}

func (e *reorgEnv) Close() error {
	err := e.Eng.Close()
	close(e.stop)
	return err
}

func (e *reorgEnv) tables() *immutable.MmsTables {
	st, _ := e.Shard().GetTableStore().(*immutable.MmsTables)
	return st
}

func reorgDurationInfo(dsLevel int) *meta2.ShardDurationInfo {
	return &meta2.ShardDurationInfo{
		Ident: meta2.ShardIdentifier{ShardID: engx.ShardID, ShardGroupID: 1, Policy: engx.RP, OwnerDb: engx.DB, OwnerPt: engx.PT,
			DownSampleLevel: dsLevel},
		DurationInfo: meta2.DurationDescriptor{Tier: util.Hot, TierDuration: 0, Duration: 0},
	}
}

func reorgBumpClock(dir string) error {
	if err := os.MkdirAll(dir, 0750); err != nil {
		return err
	}
	p := filepath.Join(dir, "vclock")
	n := uint64(1)
	if b, err := os.ReadFile(p); err == nil {
		fmt.Sscanf(string(b), "%d", &n)
	}
	metaclient.LogicClock = n
	return os.WriteFile(p, []byte(fmt.Sprintf("%d", n+1)), 0640)
}

// openReorgEnv opens (creating if needed) the engine rooted at dir the way ts-store does at start-up
// (Engine.Open + Assign: shards opened, down-sample log and compact logs recovered, WAL replayed).
// dsLevel is the shard's down-sample level as ts-meta knows it.
func openReorgEnv(dir string, o engx.Options, dsLevel int) (*reorgEnv, error) {
	return openReorgEnvOpt(dir, o, dsLevel, true)
}

// openReorgEnvRead opens a crash image that is only read and closed again: the Sequencer is left alone.
func openReorgEnvRead(dir string, o engx.Options, dsLevel int) (*reorgEnv, error) {
	return openReorgEnvOpt(dir, o, dsLevel, false)
}

func openReorgEnvOpt(dir string, o engx.Options, dsLevel int, loadSequencer bool) (*reorgEnv, error) {
	engx.GlobalInit(filepath.Join(dir, "logs"))
	if o.WalParts > 0 {
		cpu.SetCpuNum(o.WalParts, 1)
	}
	opt := engine.NewEngineOptions()
	opt.WalEnabled = true
	opt.WalSyncInterval = 0
	opt.WalReplayParallel = false
	opt.WalReplayAsync = false
	opt.WalReplayBatchSize = 1024 * 1024
	opt.ShardMutableSizeLimit = 1 << 30
	opt.NodeMutableSizeLimit = 4 << 30
	opt.MaxWriteHangTime = time.Second
	opt.WriteColdDuration = 24 * time.Hour
	opt.ForceSnapShotDuration = 24 * time.Hour
	opt.MemDataReadEnabled = true
	opt.OpenShardLimit = 8
	opt.MaxConcurrentCompactions = 4
	opt.MaxFullCompactions = 1
	opt.FullCompactColdDuration = 24 * time.Hour
	opt.CompactThroughput = 1 << 30
	opt.CompactThroughputBurst = 1 << 30
	opt.SnapshotThroughput = 1 << 30
	opt.SnapshotThroughputBurst = 1 << 30
	opt.BackgroundReadThroughput = 1 << 30
	opt.SnapshotTblNum = 1
	opt.FragmentsNumPerFlush = 1
	opt.ReadPageSize = "32kb"
	opt.CompactRecovery = true
	opt.CompactionMethod = o.CompactionMethod
	opt.MaxRowsPerSegment = o.MaxRowsPerSegment
	if opt.MaxRowsPerSegment == 0 {
		opt.MaxRowsPerSegment = util.DefaultMaxRowsPerSegment4TsStore
	}
	if err := reorgBumpClock(dir); err != nil {
		return nil, err
	}
	loadCtx := &metaclient.LoadCtx{LoadCh: make(chan *metaclient.DBPTCtx, 16)}
	stop := make(chan struct{})
	go func() {
		for {
			select {
			case <-stop:
				return
			case <-loadCtx.LoadCh:
			}
		}
	}()
	eng, err := engine.NewEngine(filepath.Join(dir, "data"), filepath.Join(dir, "wal"), opt, loadCtx)
	if err != nil {
		close(stop)
		return nil, err
	}
	fail := func(err error) (*reorgEnv, error) {
		_ = eng.Close()
		close(stop)
		return nil, err
	}
	base := metaclient.NewClient("", false, 0)
	data := &meta2.Data{PtNumPerNode: 1, ClusterPtNum: 1}
	if _, err := data.CreateDataNode("127.0.0.1:1", "127.0.0.1:2", "", ""); err != nil {
		return fail(fmt.Errorf("CreateDataNode: %w", err))
	}
	rpi := meta2.NewRetentionPolicyInfo(engx.RP)
	rpi.Duration = 0
	rpi.ShardGroupDuration = 365 * 24 * time.Hour * 200
	if err := data.CreateDatabase(engx.DB, rpi, nil, false, 1, nil); err != nil {
		return fail(fmt.Errorf("CreateDatabase: %w", err))
	}
	base.SetCacheData(data)
	dm := &dsMeta{}
	client := &reorgClient{Client: base, ds: dm}

	e := &reorgEnv{Env: &engx.Env{Dir: dir, Eng: eng}, Meta: dm, stop: stop}
	durs := map[uint64]*meta2.ShardDurationInfo{engx.ShardID: reorgDurationInfo(dsLevel)}
	brief := &meta2.DatabaseBriefInfo{Name: engx.DB, EnableTagArray: false}
	if err := eng.Open(nil, map[string]*meta2.DatabaseBriefInfo{engx.DB: brief}, client); err != nil {
		return fail(fmt.Errorf("engine open: %w", err))
	}
	if err := eng.Assign(1, 1, engx.DB, engx.PT, 0, durs, brief, client, nil); err != nil {
		return fail(fmt.Errorf("engine assign: %w", err))
	}
	if e.Shard() == nil {
		s, en := time.Unix(0, 0).UTC(), time.Unix(0, 0).UTC().Add(365*24*time.Hour*200)
		tr := meta2.TimeRangeInfo{StartTime: s, EndTime: en}
		tri := &meta2.ShardTimeRangeInfo{TimeRange: tr, OwnerIndex: meta2.IndexDescriptor{IndexID: 1, IndexGroupID: 1, TimeRange: tr},
			ShardDuration: reorgDurationInfo(0)}
		if err := eng.CreateShard(engx.DB, engx.RP, engx.PT, engx.ShardID, tri, &meta2.MeasurementInfo{EngineType: config.TSSTORE}); err != nil {
			return fail(fmt.Errorf("create shard: %w", err))
		}
	}
	sh := e.Shard()
	if sh == nil {
		return fail(fmt.Errorf("shard not found after open"))
	}
	sh.UnregisterShard()
	st := e.tables()
	if st == nil {
		return fail(fmt.Errorf("table store is not *MmsTables"))
	}
	st.CompactionDisable()
	st.MergeDisable()
	st.Wait()
	e.IndexFlush()
	if loadSequencer && os.Getenv("VH_NO_PRELOAD_SEQ") == "" {
		// The Sequencer (per-series last flush times) is loaded by the first write after an open. A level
		// compaction that runs on a re-opened shard BEFORE that load makes the load drop the id-times of
		// one of the files now and then (about 1 run in 20 under load; finding F-C02-3): the next flush
		// then classifies old rows as in-order and two ordered files overlap. The sequential-history
		// checks let background loads finish (engx.Settle); in the same way they load the Sequencer as soon
		// as the shard is open. The schedule itself belongs to C04.
		st.LoadSequencer()
		e.Settle()
	}
	return e, nil
}

// withReorg runs one reorganisation entry point with compaction and merge switched on, and waits for it.
func withReorg(e *reorgEnv, f func(st *immutable.MmsTables) error) error {
	st := e.tables()
	if st == nil {
		return fmt.Errorf("table store is not *MmsTables")
	}
	st.CompactionEnable()
	st.MergeEnable()
	err := f(st)
	st.Wait()
	st.CompactionDisable()
	st.MergeDisable()
	st.Wait()
	return err
}

// ---- down-sampling -----------------------------------------------------------------------------

type dsCol struct {
	call, field string
	typ         influxql.DataType
}

// dsSchema is the query schema services/downsample builds for one measurement (downSampleQuerySchemaGen):
// one aggregate call per column, grouped by every tag and by time(interval).
func dsSchema(mst string, cols []dsCol, interval time.Duration) hybridqp.Catalog {
	opt := &query.ProcessorOptions{
		Name:           mst,
		GroupByAllDims: true,
		Ascending:      true,
		ChunkSize:      1024,
		StartTime:      math.MinInt64,
		EndTime:        math.MaxInt64,
		HintType:       hybridqp.ExactStatisticQuery,
	}
	opt.Interval = hybridqp.Interval{Duration: interval}
	sources := influxql.Sources{&influxql.Measurement{Database: engx.DB, RetentionPolicy: engx.RP, Name: mst}}
	var fields influxql.Fields
	var names []string
	for _, c := range cols {
		fields = append(fields, &influxql.Field{Expr: &influxql.Call{Name: c.call, Args: []influxql.Expr{&influxql.VarRef{Val: c.field, Type: c.typ}}}})
		names = append(names, c.call+"_"+c.field)
	}
	return executor.NewQuerySchemaWithSources(fields, sources, names, opt, nil)
}

// runDownSample down-samples the shard through the engine's entry point (Engine.StartDownSampleTask, what
// services/downsample calls): every measurement of the behaviour, interval iv (spec time units), field f
// aggregated by calls[f].
func runDownSample(e *reorgEnv, c *layoutConc, written map[string]map[string]bool, iv int64, calls map[string]string) error {
	var schemas []hybridqp.Catalog
	for _, mst := range c.msts {
		var cols []dsCol
		for _, f := range c.order {
			if !written[mst][f] {
				continue // ts-meta lists the fields of each measurement
			}
			cols = append(cols, dsCol{call: calls[f], field: c.raw[f].name, typ: c.raw[f].req().Typ})
		}
		if len(cols) > 0 {
			schemas = append(schemas, dsSchema(mst+"_0000", cols, time.Duration(iv*timeStep)))
		}
	}
	if len(schemas) == 0 {
		return fmt.Errorf("nothing to down-sample")
	}
	sh := e.Shard()
	sdsp := &meta2.ShardDownSamplePolicyInfo{DbName: engx.DB, RpName: engx.RP, ShardId: engx.ShardID, PtId: engx.PT, TaskID: 7,
		DownSamplePolicyLevel: 1, Ident: sh.GetIdent()}
	eng, ok := e.Eng.(*engine.EngineImpl)
	if !ok {
		return fmt.Errorf("engine is not *EngineImpl")
	}
	if err := eng.StartDownSampleTask(sdsp, schemas, logger.GetLogger(), e.Meta); err != nil {
		return err
	}
	if sh.GetIdent().DownSampleLevel != 1 {
		return fmt.Errorf("the shard's down-sample level is %d after the task", sh.GetIdent().DownSampleLevel)
	}
	return nil
}

// ---- directed reproduction of F-C03-2 -------------------------------------------------------------

func init() { cmds["probe-compaction-after-disable"] = probeCompactionAfterDisable }

// probeCompactionAfterDisable: two level-0 files, groups of two. A level compaction must merge them, also
// after reorganisations were paused and resumed (shard.DisableCompAndMerge / EnableCompAndMerge, as
// hierarchical storage, shard merging and the offload roll-back do). Prints one JSON object.
func probeCompactionAfterDisable(args []string) int {
	root, err := os.MkdirTemp("/dev/shm", "vh-c03probe-")
	if err != nil {
		fmt.Fprintln(os.Stderr, err)
		return 2
	}
	defer os.RemoveAll(root)
	run := func(name string, cycle bool) (int, error) {
		e, err := engx.Open(filepath.Join(root, name), engx.Options{WalParts: 1, Background: true})
		if err != nil {
			return 0, err
		}
		defer e.Close()
		e.Shard().UnregisterShard()
		setCompactionGroups(2)
		for k := int64(0); k < 2; k++ {
			p := engx.Pt{Mst: "m", Tags: seriesTags("s1"), Time: timeBase + k*timeStep, Fields: []engx.FV{{Key: "f1", Typ: 1, Num: float64(k + 1)}}}
			if err := e.Write([]engx.Pt{p}); err != nil {
				return 0, err
			}
			e.IndexFlush()
			e.Flush()
		}
		time.Sleep(200 * time.Millisecond) // the scheduler's listener goroutine is parked by now
		sh := e.Shard()
		if cycle {
			sh.DisableCompAndMerge()
			time.Sleep(200 * time.Millisecond) // the pause lasts: the listener has answered the closed channel
			sh.EnableCompAndMerge()
		}
		st, ok := sh.GetTableStore().(*immutable.MmsTables)
		if !ok {
			return 0, fmt.Errorf("table store is not *MmsTables")
		}
		if err := st.LevelCompact(0, engx.ShardID); err != nil {
			return 0, err
		}
		st.Wait()
		return st.GetTableFileNum("m_0000", true), nil
	}
	plain, err := run("a", false)
	if err != nil {
		fmt.Fprintln(os.Stderr, err)
		return 2
	}
	cycled, err := run("b", true)
	if err != nil {
		fmt.Fprintln(os.Stderr, err)
		return 2
	}
	fmt.Printf("{\"files_after_compaction\":%d,\"files_after_pause_resume_and_compaction\":%d}\n", plain, cycled)
	return 0
}
