//go:build verif

package main

// walGate (C01): a thin VFS layer installed on top of the crash recorder that can hold a memtable
// flush still at a chosen point of its protocol - outside the recorder's lock - so that the harness
// can run a client write *inside* the flush (the specification interleaves writes with the steps of
// a flush; Wal.tla exports where the flush stood when a write started). The flush is paused right
// before one of its own file operations:
//
//	"switched"   before the first file of the index part that writeSnapshot's indexBuilder.Flush()
//	             writes (or, when nothing is pending in the index, before the first *.tssp.init)
//	"indexed"    before the first *.tssp.init is created
//	"committing" before the first rename *.tssp.init -> *.tssp
//	"renamed"    before the first log file of the flush is removed
//
// All four points lie after the exclusive section of writeSnapshot, so writers are not blocked.

import (
	"os"
	"runtime"
	"strings"
	"sync"
	"time"

	"github.com/openGemini/openGemini/lib/fileops"
	"verifharness/internal/crashfs"
)

type walGate struct {
	fileops.VFS
	mu      sync.Mutex
	at      string // "" = not armed
	reached chan struct{}
	release chan struct{}
}

var (
	walGateOnce sync.Once
	walGateInst *walGate
)

// installWalGate wraps the recorder (installing it first if needed) and returns both.
func installWalGate() (*crashfs.Recorder, *walGate) {
	rec := crashfs.Install()
	walGateOnce.Do(func() {
		walGateInst = &walGate{}
		walGateInst.VFS = fileops.SetLocalFSForVerif(walGateInst)
	})
	return rec, walGateInst
}

// arm makes the next matching file operation wait. It returns the channel that is closed when the
// operation has been reached.
func (g *walGate) arm(at string) <-chan struct{} {
	g.mu.Lock()
	defer g.mu.Unlock()
	g.at = at
	g.reached = make(chan struct{})
	g.release = make(chan struct{})
	return g.reached
}

// open lets the paused operation continue (and disarms a gate that was not reached).
func (g *walGate) open() {
	g.mu.Lock()
	g.at = ""
	rel := g.release
	g.release = nil
	g.mu.Unlock()
	if rel != nil {
		close(rel)
	}
}

func inWriteSnapshot() bool {
	pc := make([]uintptr, 64)
	n := runtime.Callers(3, pc)
	frames := runtime.CallersFrames(pc[:n])
	for {
		f, more := frames.Next()
		if strings.HasSuffix(f.Function, ".writeSnapshot") {
			return true
		}
		if !more {
			return false
		}
	}
}

func (g *walGate) matches(at, op, path string) bool {
	isInit := strings.HasSuffix(path, ".tssp.init")
	switch at {
	case "switched":
		if op == "create" && strings.Contains(path, "/index/") && strings.Contains(path, "/tmp/") {
			return inWriteSnapshot() // not the index's own background flusher / merger
		}
		return op == "create" && isInit
	case "indexed":
		return op == "create" && isInit
	case "committing":
		return op == "rename" && isInit
	case "renamed":
		return op == "remove" && strings.HasSuffix(path, ".wal")
	}
	return false
}

func (g *walGate) pass(op, path string) {
	g.mu.Lock()
	if g.at == "" || !g.matches(g.at, op, path) {
		g.mu.Unlock()
		return
	}
	g.at = ""
	reached, release := g.reached, g.release
	g.mu.Unlock()
	close(reached)
	select {
	case <-release:
	case <-time.After(60 * time.Second): // never leave the engine stuck
	}
}

func (g *walGate) Create(name string, opt ...fileops.FSOption) (fileops.File, error) {
	g.pass("create", name)
	return g.VFS.Create(name, opt...)
}

func (g *walGate) OpenFile(name string, flag int, perm os.FileMode, opt ...fileops.FSOption) (fileops.File, error) {
	if flag&os.O_CREATE != 0 {
		g.pass("create", name)
	}
	return g.VFS.OpenFile(name, flag, perm, opt...)
}

func (g *walGate) RenameFile(oldPath, newPath string, opt ...fileops.FSOption) error {
	g.pass("rename", oldPath)
	return g.VFS.RenameFile(oldPath, newPath, opt...)
}

func (g *walGate) Remove(name string, opt ...fileops.FSOption) error {
	g.pass("remove", name)
	return g.VFS.Remove(name, opt...)
}

func (g *walGate) RemoveLocal(name string, opt ...fileops.FSOption) error {
	g.pass("remove", name)
	return g.VFS.RemoveLocal(name, opt...)
}
