//go:build verif

package main

// record-view (C04): runs writer, reader, flusher and compaction goroutines concurrently against one
// real shard and records the client-visible history (begin/end of every operation with its result,
// ordered by one atomic sequence number). The history is validated by TLC against TraceView.tla.
// Deadlocks (watchdog), process crashes and duplicate (series,time) rows are reported directly.

import (
	"bufio"
	"encoding/json"
	"fmt"
	"math/rand"
	"os"
	"path/filepath"
	"runtime/pprof"
	"sort"
	"sync"
	"sync/atomic"
	"time"

	"github.com/openGemini/openGemini/engine/immutable"
	"github.com/openGemini/openGemini/lib/util/lifted/influx/influxql"
	"github.com/openGemini/openGemini/lib/util/lifted/vm/protoparser/influx"
	"verifharness/internal/engx"
)

func init() { cmds["record-view"] = recordView }

type viewCase struct {
	ID          int   `json:"id"`
	Seed        int64 `json:"seed"`
	Writers     int   `json:"writers"`
	Readers     int   `json:"readers"`
	Ops         int   `json:"ops"`      // writes per writer
	Flushes     int   `json:"flushes"`  // forced flushes
	Compacts    int   `json:"compacts"` // compaction / merge triggers
	CloseMid    bool  `json:"close_mid"`
	Settle      bool  `json:"settle"` // wait for background loads after writes (removes the F-C04-1 window)
	ReopenFirst bool  `json:"reopen_first"`
}

type viewEvent map[string]interface{}

type viewResult struct {
	ID        int         `json:"id"`
	OK        bool        `json:"ok"`
	Detail    string      `json:"detail,omitempty"`
	Infra     string      `json:"infra,omitempty"`
	Known     string      `json:"known,omitempty"`
	KnownN    int         `json:"known_n,omitempty"`
	Events    []viewEvent `json:"events,omitempty"`
	Cells     []string    `json:"cells"`
	Clients   []string    `json:"clients"`
	Queries   int         `json:"queries"`
	Writes    int         `json:"writes"`
	Hang      bool        `json:"hang,omitempty"`
	ReadErrs  int         `json:"read_errs"`
	WriteErrs int         `json:"write_errs"`
}

type viewRecorder struct {
	seq    int64
	mu     sync.Mutex
	events []viewEvent
}

func (r *viewRecorder) emit(ev viewEvent) {
	r.mu.Lock() // sequence number and position are assigned together
	ev["seq"] = atomic.AddInt64(&r.seq, 1)
	r.events = append(r.events, ev)
	r.mu.Unlock()
}

// openViewEnv opens the shard with background reorganisations on or off as the case drew it. "Off" is set with
// the store's enable flags: engx.Open(Background=false) goes through shard.DisableCompAndMerge, which closes the
// store's compaction scheduler for good, so that no LevelCompact / FullCompact of the run would do anything
// (finding F-C03-2).
func openViewEnv(dir string, o engx.Options) (*engx.Env, error) {
	bg := o.Background
	o.Background = true
	e, err := engx.Open(dir, o)
	if err != nil {
		return nil, err
	}
	if !bg {
		if st, ok := e.Shard().GetTableStore().(*immutable.MmsTables); ok {
			st.CompactionDisable()
			st.MergeDisable()
			st.Wait()
		}
	}
	return e, nil
}

func runViewCase(c *viewCase, root string) (res viewResult) {
	res = viewResult{ID: c.ID, OK: true}
	rng := rand.New(rand.NewSource(c.Seed*104729 + int64(c.ID)))
	dir := filepath.Join(root, fmt.Sprintf("v%d", c.ID))
	defer os.RemoveAll(dir)
	e, err := openViewEnv(dir, engx.Options{WalParts: 1 + rng.Intn(3), MaxRowsPerSegment: []int{0, 3, 5}[rng.Intn(3)], Background: rng.Intn(2) == 0})
	if err != nil {
		res.Infra = "open: " + err.Error()
		return
	}
	e.NoSettle = !c.Settle
	setSmallCompactionGroups()
	rec := &viewRecorder{}
	var valCounter int64
	times := []int64{1, 2, 3, 4}
	// every writer owns two series; all series exist (and are searchable) before the run starts
	type ser struct{ name string }
	var cells []string
	var clients []string
	for w := 0; w < c.Writers; w++ {
		clients = append(clients, fmt.Sprintf("w%d", w))
		for _, sfx := range []string{"a", "b"} {
			s := fmt.Sprintf("w%d%s", w, sfx)
			for _, t := range times {
				cells = append(cells, fmt.Sprintf("%s|%d", s, t))
			}
			_ = e.Write([]engx.Pt{{Mst: "m", Tags: [][2]string{{"host", s}}, Time: timeBase, Fields: []engx.FV{{Key: "f", Typ: influx.Field_Type_Int, Num: 0}}}})
		}
	}
	for r := 0; r < c.Readers; r++ {
		clients = append(clients, fmt.Sprintf("r%d", r))
	}
	e.IndexFlush()
	e.Settle()
	if c.ReopenFirst {
		// start the concurrent phase on a freshly re-opened shard that already has ordered files: the
		// first writes then race the asynchronous reload of the per-series flush times
		e.Flush()
		if err := e.Close(); err != nil {
			res.Infra = "close: " + err.Error()
			return
		}
		e, err = openViewEnv(dir, engx.Options{WalParts: 1 + rng.Intn(3), MaxRowsPerSegment: []int{0, 3, 5}[rng.Intn(3)], Background: rng.Intn(2) == 0})
		if err != nil {
			res.Infra = "reopen: " + err.Error()
			return
		}
		e.NoSettle = !c.Settle
		setSmallCompactionGroups()
	}
	res.Cells, res.Clients = cells, clients

	var closed int32
	var wg sync.WaitGroup
	stopBg := make(chan struct{})
	var bgWg sync.WaitGroup
	var dupDetail atomic.Value
	var nQueries, nWrites, readErrs, writeErrs int64

	jitter := func(r *rand.Rand, maxUs int) {
		if maxUs > 0 {
			time.Sleep(time.Duration(r.Intn(maxUs)) * time.Microsecond)
		}
	}
	// writers
	for w := 0; w < c.Writers; w++ {
		wg.Add(1)
		go func(w int, r *rand.Rand) {
			defer wg.Done()
			cl := fmt.Sprintf("w%d", w)
			for i := 0; i < c.Ops; i++ {
				s := fmt.Sprintf("w%d%s", w, []string{"a", "b"}[r.Intn(2)])
				t := times[r.Intn(len(times))]
				v := atomic.AddInt64(&valCounter, 1)
				rec.emit(viewEvent{"ev": "WBegin", "c": cl, "w": v, "cell": fmt.Sprintf("%s|%d", s, t)})
				err := e.Write([]engx.Pt{{Mst: "m", Tags: [][2]string{{"host", s}}, Time: timeBase + t*timeStep, Fields: []engx.FV{{Key: "f", Typ: influx.Field_Type_Int, Num: float64(v)}}}})
				if err != nil {
					atomic.AddInt64(&writeErrs, 1)
					rec.emit(viewEvent{"ev": "WErr", "c": cl, "closed": atomic.LoadInt32(&closed)})
					if atomic.LoadInt32(&closed) == 0 {
						dupDetail.Store("write failed although the shard is open: " + err.Error())
					}
				} else {
					atomic.AddInt64(&nWrites, 1)
					rec.emit(viewEvent{"ev": "WAck", "c": cl})
				}
				jitter(r, 300)
			}
		}(w, rand.New(rand.NewSource(rng.Int63())))
	}
	// readers
	readerStop := make(chan struct{})
	for rd := 0; rd < c.Readers; rd++ {
		bgWg.Add(1)
		go func(rd int, r *rand.Rand) {
			defer bgWg.Done()
			cl := fmt.Sprintf("r%d", rd)
			q := 0
			for {
				select {
				case <-readerStop:
					return
				default:
				}
				q++
				qid := fmt.Sprintf("%s.%d", cl, q)
				asc := r.Intn(2) == 0
				rec.emit(viewEvent{"ev": "QBegin", "c": cl, "q": qid})
				// half of the queries carry no time bound that falls inside the shard: the store then takes its view of the
				// file lists through the "no time filter" path (shard.CreateCursor: hasTimeFilter = false)
				qmin, qmax := timeBase+timeStep, timeBase+100*timeStep
				if r.Intn(2) == 0 {
					qmin, qmax = influxql.MinTime, influxql.MaxTime
				}
				rows, err := e.Read("m", []engx.FieldReq{{Name: "f", Typ: influxql.Integer}}, []string{"host"}, qmin, qmax, asc)
				if err != nil {
					atomic.AddInt64(&readErrs, 1)
					rec.emit(viewEvent{"ev": "QErr", "c": cl, "q": qid, "closed": atomic.LoadInt32(&closed), "err": err.Error()})
					if atomic.LoadInt32(&closed) != 0 {
						return
					}
					continue
				}
				atomic.AddInt64(&nQueries, 1)
				out := map[string]int64{}
				for _, row := range rows {
					if row.Vals[0].Null || row.Time < timeBase+timeStep { // (the row at timeBase only creates the series)
						continue
					}
					key := fmt.Sprintf("%s|%d", row.Series[len("host="):], (row.Time-timeBase)/timeStep)
					if old, dup := out[key]; dup {
						dupDetail.Store(fmt.Sprintf("query %s returned cell %s twice (values %d and %d); ordered files overlap in time: %v", qid, key, old, row.Vals[0].I, orderedFilesOverlap(e)))
					}
					out[key] = row.Vals[0].I
				}
				var ks []string
				for k := range out {
					ks = append(ks, k)
				}
				sort.Strings(ks)
				rowsOut := make([][]interface{}, 0, len(ks))
				for _, k := range ks {
					rowsOut = append(rowsOut, []interface{}{k, out[k]})
				}
				rec.emit(viewEvent{"ev": "QEnd", "c": cl, "q": qid, "rows": rowsOut})
				jitter(r, 500)
			}
		}(rd, rand.New(rand.NewSource(rng.Int63())))
	}
	// flusher
	bgWg.Add(1)
	go func(r *rand.Rand) {
		defer bgWg.Done()
		for i := 0; i < c.Flushes; i++ {
			select {
			case <-stopBg:
				return
			default:
			}
			jitter(r, 3000)
			if atomic.LoadInt32(&closed) != 0 {
				return
			}
			rec.emit(viewEvent{"ev": "FlushBegin"})
			e.Flush()
			rec.emit(viewEvent{"ev": "FlushEnd"})
		}
	}(rand.New(rand.NewSource(rng.Int63())))
	// compaction / merge triggers
	bgWg.Add(1)
	go func(r *rand.Rand) {
		defer bgWg.Done()
		for i := 0; i < c.Compacts; i++ {
			select {
			case <-stopBg:
				return
			default:
			}
			jitter(r, 4000)
			kind := r.Intn(3)
			if atomic.LoadInt32(&closed) != 0 {
				return
			}
			rec.emit(viewEvent{"ev": "ReorgBegin", "kind": kind})
			_ = withCompaction(e, func(s *immutable.MmsTables) error {
				switch kind {
				case 0:
					return s.LevelCompact(0, engx.ShardID)
				case 1:
					return s.MergeOutOfOrder(engx.ShardID, true, true)
				default:
					return s.FullCompact(engx.ShardID)
				}
			})
			rec.emit(viewEvent{"ev": "ReorgEnd"})
		}
	}(rand.New(rand.NewSource(rng.Int63())))

	done := make(chan struct{})
	go func() {
		if c.CloseMid {
			time.Sleep(time.Duration(500+rng.Intn(3000)) * time.Microsecond)
		} else {
			wg.Wait()
			// one last query round after all writes are acknowledged
			time.Sleep(2 * time.Millisecond)
		}
		close(stopBg)
		if !c.CloseMid {
			close(readerStop)
			bgWg.Wait()
		}
		// In half of the runs that close in the middle a planner keeps asking for level compactions while the shard
		// closes, as the store's compaction worker does (shard.Compact -> LevelCompact -> LevelPlan): Close disables
		// compaction and closes the table store while such a call may be between its checks. Close must still return.
		var closeReturned int32
		racerDone := make(chan struct{})
		if sh := e.Shard(); c.CloseMid && c.ID%2 == 0 && sh != nil {
			if st, ok := sh.GetTableStore().(*immutable.MmsTables); ok {
				sh.EnableCompAndMerge()
				go func() {
					defer close(racerDone)
					for i := 0; i < 2000 && atomic.LoadInt32(&closeReturned) == 0; i++ {
						_ = st.LevelCompact(0, engx.ShardID)
					}
				}()
				time.Sleep(time.Duration(rng.Intn(300)) * time.Microsecond)
			} else {
				close(racerDone)
			}
		} else {
			close(racerDone)
		}
		rec.emit(viewEvent{"ev": "CloseBegin"})
		atomic.StoreInt32(&closed, 1)
		_ = e.Close()
		atomic.StoreInt32(&closeReturned, 1)
		<-racerDone
		rec.emit(viewEvent{"ev": "CloseEnd"})
		if c.CloseMid {
			close(readerStop)
		}
		wg.Wait()
		bgWg.Wait()
		close(done)
	}()
	select {
	case <-done:
	case <-time.After(time.Duration(viewWatchdogSec()) * time.Second):
		fmt.Fprintf(os.Stderr, "WATCHDOG: view case %d did not finish (deadlock?)\n", c.ID)
		_ = pprof.Lookup("goroutine").WriteTo(os.Stderr, 1)
		res.OK = false
		res.Hang = true
		res.Detail = "operations and close did not finish (watchdog; goroutine dump on stderr)"
		b, _ := json.Marshal(res)
		fmt.Println(string(b))
		os.Exit(3)
	}
	res.Queries, res.Writes = int(nQueries), int(nWrites)
	res.ReadErrs, res.WriteErrs = int(readErrs), int(writeErrs)
	res.Events = rec.events
	if d := dupDetail.Load(); d != nil {
		res.OK = false
		res.Detail = d.(string)
	}
	return
}

// orderedFilesOverlap reports whether two ordered files of the measurement overlap in time (the layout
// signature of known finding F-C04-1: an out-of-order row was flushed into an ordered file).
func orderedFilesOverlap(e *engx.Env) bool {
	defer func() { _ = recover() }()
	fsx, ok := e.Shard().GetTSSPFiles("m_0000", true)
	if !ok || fsx == nil {
		return false
	}
	type rg struct{ a, b int64 }
	var rs []rg
	for _, f := range fsx.Files() {
		mn, mx, err := f.MinMaxTime()
		if err == nil {
			rs = append(rs, rg{mn, mx})
		}
	}
	for i := range rs {
		for j := i + 1; j < len(rs); j++ {
			if rs[i].a <= rs[j].b && rs[j].a <= rs[i].b {
				return true
			}
		}
	}
	return false
}

func viewWatchdogSec() int {
	sec := 90
	if v := os.Getenv("VH_WATCHDOG"); v != "" {
		fmt.Sscanf(v, "%d", &sec)
	}
	return sec
}

func recordView(args []string) int {
	root, err := os.MkdirTemp("/dev/shm", "vh-view-")
	if err != nil {
		fmt.Fprintln(os.Stderr, err)
		return 2
	}
	defer os.RemoveAll(root)
	sc := bufio.NewScanner(os.Stdin)
	sc.Buffer(make([]byte, 1<<20), 1<<28)
	out := bufio.NewWriter(os.Stdout)
	defer out.Flush()
	bad := 0
	for sc.Scan() {
		line := sc.Bytes()
		if len(line) == 0 {
			continue
		}
		var c viewCase
		if err := json.Unmarshal(line, &c); err != nil {
			fmt.Fprintln(os.Stderr, "bad case:", err)
			return 2
		}
		r := runViewCase(&c, root)
		if !r.OK {
			bad++
		}
		b, _ := json.Marshal(r)
		out.Write(b)
		out.WriteByte('\n')
		out.Flush()
	}
	if bad > 0 {
		return 1
	}
	return 0
}
