package main

// replay-retention: steps TLC-generated behaviours of specs/Retention.tla (C14) through the REAL retention
// service (services/retention: Service.handle, reached through the services.Base it registered itself in),
// a REAL storage engine holding real shards (open, lazily loaded after a restart, or known to the catalogue
// only), the REAL catalogue (meta.Data, changed only by the commands ts-meta's state machine applies:
// meta.ApplyUpdateRetentionPolicy / ApplyDeleteShardGroup / ApplyPruneGroups / CreateShardGroup) and the REAL
// coordinator.PointsWriter for writes (the up-front rejection of points older than now - duration).
//
// The service's MetaClient and Engine fields are thin adapters that forward every call to the real object
// and park the service goroutine at the calls the specification names as actions (LoopRefresh .. LoopEnd),
// so that the specification's interleavings (ALTER, writes, queries, restarts between any two steps of one
// iteration) are reproduced exactly. After EVERY action the real state is observed and compared with the
// specification's expected observation: policy duration, shard groups (slot, DeletedAt mark, pruned), per
// shard the engine state (open / lazy / none / orphan directory), ShardInfo.MarkDelete, the store's cached
// duration, the rows readable from every open shard; Query steps and a final read of every slot compare
// what a query returns.
//
// Time: the code reads time.Now() directly, so the specification's ticks (half shard-group durations) are
// mapped onto the wall clock by choosing the shard-group duration (1 h .. 3 h, any nanosecond value) such
// that "now" lies inside the tick interval the behaviour starts in, either far from both boundaries, a few
// seconds after one ("just after"), 1.5 - 3 min before one ("just before") or - for behaviours with a Tick -
// seconds before one, the Tick being a real wait across the boundary. The equality instant is out of reach.
//
// retention-pure: Engine.ExpiredShards (shard.IsExpired / nilShardIsExpired) against the specification's
// RawExpired over generated (kind of shard, end, duration, time zone) classes at several time units.

import (
	"bufio"
	"context"
	"encoding/json"
	"fmt"
	"math"
	"math/rand"
	"os"
	"path/filepath"
	"reflect"
	"sort"
	"strings"
	"sync"
	"sync/atomic"
	"time"
	"unsafe"

	"github.com/VictoriaMetrics/VictoriaMetrics/lib/fasttime"
	"github.com/cespare/xxhash/v2"
	"github.com/openGemini/openGemini/coordinator"
	"github.com/openGemini/openGemini/engine"
	"github.com/openGemini/openGemini/engine/executor"
	"github.com/openGemini/openGemini/engine/index/tsi"
	"github.com/openGemini/openGemini/lib/config"
	"github.com/openGemini/openGemini/lib/cpu"
	"github.com/openGemini/openGemini/lib/errno"
	"github.com/openGemini/openGemini/lib/metaclient"
	"github.com/openGemini/openGemini/lib/netstorage"
	"github.com/openGemini/openGemini/lib/util"
	"github.com/openGemini/openGemini/lib/util/lifted/influx/influxql"
	meta2 "github.com/openGemini/openGemini/lib/util/lifted/influx/meta"
	proto2 "github.com/openGemini/openGemini/lib/util/lifted/influx/meta/proto"
	"github.com/openGemini/openGemini/lib/util/lifted/influx/query"
	"github.com/openGemini/openGemini/lib/util/lifted/protobuf/proto"
	"github.com/openGemini/openGemini/lib/util/lifted/vm/protoparser/influx"
	"github.com/openGemini/openGemini/services/retention"
	"verifharness/internal/engx"
)

func init() {
	cmds["replay-retention"] = replayRetention
	cmds["retention-pure"] = retentionPure
}

const (
	retDB  = "db0"
	retRP  = "rp0"
	retMst = "m"
)

// known findings: deviation name of the specification -> finding id
var retFindingOf = map[string]string{
	"decision_not_revalidated":  "F-C14-1",
	"prune_after_failed_delete": "F-C14-2",
}

// ---- case format (ToJson of Retention.tla's hist) ---------------------------------------------------

type retRes struct {
	R       string  `json:"r"`
	Fired   string  `json:"fired"`
	Ids     []int64 `json:"ids"`
	Expired []int64 `json:"expired"`
}

type retGroupObs struct {
	Slot   int64 `json:"slot"`
	Marked bool  `json:"marked"`
	Pruned bool  `json:"pruned"`
}

type retShardObs struct {
	Eng string `json:"eng"`
	Md  bool   `json:"md"`
	Cd  int64  `json:"cd"`
}

type retObs struct {
	Now    int64         `json:"now"`
	Pol    int64         `json:"pol"`
	Groups []retGroupObs `json:"groups"`
	Shards []retShardObs `json:"shards"`
	Data   [][]int64     `json:"data"`
	Q      [][]int64     `json:"q"`
	Pc     string        `json:"pc"`
	Todo   []int64       `json:"todo"`
}

type retStep struct {
	A    string           `json:"a"`
	Args map[string]int64 `json:"args"`
	Res  retRes           `json:"res"`
	Exp  retObs           `json:"exp"`
}

type retCase struct {
	ID    int       `json:"id"`
	Seed  int64     `json:"seed"`
	Hist  []retStep `json:"hist"`
	SPG   int       `json:"spg"`
	Lazy  bool      `json:"lazy"`
	Class string    `json:"class"` // "" = drawn from the seed; mid / after / before (behaviours without a Tick)
}

type retResult struct {
	ID     int      `json:"id"`
	OK     bool     `json:"ok"`
	Step   int      `json:"step"`
	Action string   `json:"action,omitempty"`
	Detail string   `json:"detail,omitempty"`
	Known  []string `json:"known,omitempty"` // findings whose deviation fired and was matched exactly by the real code
	Infra  string   `json:"infra,omitempty"`
	Late   bool     `json:"late,omitempty"` // the wall clock left the planned window: the case is not judged (retry)
	Steps  int      `json:"steps"`
	Reads  int      `json:"reads"`
	Class  string   `json:"class,omitempty"`
	Conc   string   `json:"conc,omitempty"`
	Hang   bool     `json:"hang,omitempty"`
}

// ---- concretisation of the specification's time -------------------------------------------------------

type retConc struct {
	sgd, delta time.Duration
	base       time.Time // instant of tick 0; slot sl spans [base+(sl-1)*sgd, base+sl*sgd)
	n0         int64     // initial clock reading: now in (base+(n0-1)*delta, base+n0*delta)
	class      string
	boundary   time.Time // base + n0*delta: the next tick boundary
	jd         map[int64]time.Duration
	jp         time.Duration
}

func (c *retConc) tick(t int64) time.Time { return c.base.Add(time.Duration(t) * c.delta) }

func (c *retConc) dur(d int64) time.Duration {
	if d == 0 {
		return 0
	}
	return time.Duration(d)*c.delta + c.jd[d]
}

// inverse of dur: the specification's duration of a real one (-99 = none)
func (c *retConc) inv(D time.Duration) int64 {
	if D == 0 {
		return 0
	}
	for d := int64(1); d <= 12; d++ {
		if c.dur(d) == D {
			return d
		}
	}
	return -99
}

// a multiple of the shard-group duration whose window around tick 0 holds the slots -1 .. 10
func (c *retConc) indexGroupDuration() time.Duration {
	for m := int64(64); m < 4096; m++ {
		ig := time.Duration(m) * c.sgd
		s0 := c.base.Add(-2 * c.sgd).Truncate(ig)
		if !s0.Add(ig).Before(c.base.Add(10 * c.sgd)) {
			return ig
		}
	}
	return 4096 * c.sgd
}

func (c *retConc) ptime(t, id int64) time.Time {
	return c.tick(t).Add(c.jp + time.Duration(id)*time.Millisecond)
}

func (c *retConc) String() string {
	return fmt.Sprintf("class=%s sgd=%v base=%s n0=%d boundary=%s jd=%v jp=%v", c.class, c.sgd, c.base.Format(time.RFC3339Nano), c.n0,
		c.boundary.Format(time.RFC3339Nano), c.jd, c.jp)
}

const (
	retTickLead = 8 * time.Second // a Tick behaviour starts this long (up to +2 s) before the boundary
	retTickPast = 3500 * time.Millisecond
)

func chooseRetConc(rng *rand.Rand, n0 int64, hasTick bool, class string) (*retConc, error) {
	if hasTick {
		class = "tick"
	} else if class == "" {
		class = []string{"mid", "mid", "after", "before"}[rng.Intn(4)]
	}
	now := time.Now().UTC()
	for try := 0; try < 4000000; try++ {
		sgd := time.Hour + time.Duration(rng.Int63n(int64(2*time.Hour)))
		sgd -= sgd % 2
		delta := sgd / 2
		s := now.Truncate(sgd)
		pos := now.Sub(s)
		sub := int64(pos / delta)
		phase := pos % delta
		if sub != (n0-1)%2 {
			continue
		}
		left := delta - phase
		ok := false
		switch class {
		case "tick":
			ok = left >= retTickLead && left <= retTickLead+2*time.Second
		case "mid":
			ok = phase >= delta/4 && left >= delta/4
		case "after":
			ok = phase >= 6*time.Second && phase <= 40*time.Second
		case "before":
			ok = left >= 90*time.Second && left <= 180*time.Second
		}
		if !ok {
			continue
		}
		c := &retConc{sgd: sgd, delta: delta, n0: n0, class: class, jd: map[int64]time.Duration{}}
		c.base = s.Add(-time.Duration((n0-1)/2) * sgd)
		c.boundary = c.tick(n0)
		// sub-tick jitter of durations and point times: must not move any instant across "now" (margin 3 s for
		// the one-second clock of the write path); none in the tick class, where the boundary itself is crossed
		if class != "tick" {
			room := phase - 3*time.Second
			if room > 20*time.Minute {
				room = 20 * time.Minute
			}
			if room > 4*time.Millisecond {
				for d := int64(2); d <= 12; d++ {
					c.jd[d] = time.Duration(rng.Int63n(int64(room / 2)))
				}
				c.jp = time.Duration(rng.Int63n(int64(room/2 - time.Millisecond)))
			}
		}
		return c, nil
	}
	return nil, fmt.Errorf("no shard-group duration places the clock in class %s", class)
}

// ---- the gate: parks the service goroutine at the calls the specification names ----------------------------

type retGate struct {
	parkCh  chan string
	goCh    chan struct{}
	doneCh  chan struct{}
	abort   atomic.Bool
	running bool
	at      string // where the goroutine is parked ("" = not running)
}

func newRetGate() *retGate {
	return &retGate{parkCh: make(chan string), goCh: make(chan struct{})}
}

func (g *retGate) park(name string) {
	if g.abort.Load() {
		return
	}
	g.parkCh <- name
	<-g.goCh
}

// ---- environment of one case -------------------------------------------------------------------------------

type retEnv struct {
	c      retCase
	conc   *retConc
	dir    string
	data   *meta2.Data
	mu     sync.Mutex // guards data (the service goroutine and the driver never run at the same time, but Go's race rules still apply)
	cli    *metaclient.Client
	pwm    *rtMeta
	pw     *coordinator.PointsWriter
	eng    *engine.EngineImpl
	stop   chan struct{}
	svc    *retention.Service
	handle func()
	gate   *retGate
	// adapter records
	expired     []uint64 // result of the last Engine.ExpiredShards (sorted by shard id)
	cursor      int      // number of DeleteShardGroup calls of this iteration: expired[cursor-1] is being processed
	lastCall    string
	lastID      uint64
	failNextDel bool
	sent        []uint64 // shard ids the store adapter received rows for since the last reset
	// mapping real ids <-> specification ids
	groupOf  map[uint64]int    // real shard group id -> g
	groupIDs []uint64          // g-1 -> real group id
	shardIDs map[int64]uint64  // sid -> real shard id
	sidOf    map[uint64]int64  // real shard id -> sid
	hostOf   []string          // k-1 -> tag value that hashes to shard position k-1
	ptsOf    map[int64][]int64 // sid -> ids ever acknowledged (only for messages)
	clock    uint64
	reads    int
}

// -- MetaClient of the retention service: the real catalogue behind the commands ts-meta applies

func (e *retEnv) applyCmd(t proto2.Command_Type, desc *proto.ExtensionDesc, v interface{}, apply func(*meta2.Data, *proto2.Command) error) error {
	cmd := &proto2.Command{Type: &t}
	if err := proto.SetExtension(cmd, desc, v); err != nil {
		return err
	}
	// through the wire format, as the command travels to ts-meta and through its raft log
	b, err := proto.Marshal(cmd)
	if err != nil {
		return err
	}
	var cmd2 proto2.Command
	if err := proto.Unmarshal(b, &cmd2); err != nil {
		return err
	}
	e.mu.Lock()
	defer e.mu.Unlock()
	return apply(e.data, &cmd2)
}

type retMetaAdapter struct{ e *retEnv }

var errRetStopping = fmt.Errorf("store is stopping")

func (m *retMetaAdapter) dbPts() map[string][]uint32 {
	var pts []uint32
	for i := 0; i < m.e.c.SPG; i++ {
		pts = append(pts, uint32(i))
	}
	return map[string][]uint32{retDB: pts}
}

func (m *retMetaAdapter) GetShardDurationInfo(index uint64) (*meta2.ShardDurationResponse, error) {
	e := m.e
	if e.gate.abort.Load() {
		return nil, errRetStopping
	}
	e.mu.Lock()
	r := e.data.DurationInfos(m.dbPts())
	b, err := r.MarshalBinary()
	e.mu.Unlock()
	if err != nil {
		return nil, err
	}
	out := &meta2.ShardDurationResponse{}
	if err := out.UnmarshalBinary(b); err != nil {
		return nil, err
	}
	return out, nil
}

func (m *retMetaAdapter) GetIndexDurationInfo(index uint64) (*meta2.IndexDurationResponse, error) {
	e := m.e
	if e.gate.abort.Load() {
		return nil, errRetStopping
	}
	e.mu.Lock()
	r := e.data.IndexDurationInfos(m.dbPts())
	b, err := r.MarshalBinary()
	e.mu.Unlock()
	if err != nil {
		return nil, err
	}
	out := &meta2.IndexDurationResponse{}
	if err := out.UnmarshalBinary(b); err != nil {
		return nil, err
	}
	return out, nil
}

func (m *retMetaAdapter) DeleteShardGroup(database, policy string, id uint64, deleteType int32) error {
	e := m.e
	e.gate.park("pre-mark")
	if e.gate.abort.Load() {
		return errRetStopping
	}
	e.cursor++ // the service makes exactly one DeleteShardGroup call per entry of the expired list, in order
	e.lastCall, e.lastID = "DeleteShardGroup", id
	return e.applyCmd(proto2.Command_DeleteShardGroupCommand, proto2.E_DeleteShardGroupCommand_Command,
		&proto2.DeleteShardGroupCommand{Database: proto.String(database), Policy: proto.String(policy), ShardGroupID: proto.Uint64(id),
			DeleteType: proto.Int32(deleteType)}, meta2.ApplyDeleteShardGroup)
}

func (m *retMetaAdapter) PruneGroupsCommand(shardGroup bool, id uint64) error {
	e := m.e
	if shardGroup {
		e.gate.park("pre-prune")
	}
	if e.gate.abort.Load() {
		return errRetStopping
	}
	if shardGroup {
		e.lastCall, e.lastID = "PruneGroups", id
	}
	return e.applyCmd(proto2.Command_PruneGroupsCommand, proto2.E_PruneGroupsCommand_Command,
		&proto2.PruneGroupsCommand{ShardGroup: proto.Bool(shardGroup), ID: proto.Uint64(id)}, meta2.ApplyPruneGroups)
}

func (m *retMetaAdapter) DeleteIndexGroup(database, policy string, id uint64) error {
	e := m.e
	if e.gate.abort.Load() {
		return errRetStopping
	}
	return e.applyCmd(proto2.Command_DeleteIndexGroupCommand, proto2.E_DeleteIndexGroupCommand_Command,
		&proto2.DeleteIndexGroupCommand{Database: proto.String(database), Policy: proto.String(policy), IndexGroupID: proto.Uint64(id)},
		meta2.ApplyDeleteIndexGroup)
}

func (m *retMetaAdapter) DelayDeleteShardGroup(database, policy string, id uint64, deletedAt time.Time, deleteType int32) error {
	return fmt.Errorf("DelayDeleteShardGroup belongs to the shared-storage product line")
}
func (m *retMetaAdapter) GetExpiredShards() ([]meta2.ExpiredShardInfos, []meta2.ExpiredShardInfos) {
	return nil, nil
}
func (m *retMetaAdapter) GetExpiredIndexes() []meta2.ExpiredIndexInfos { return nil }

// -- Engine of the retention service: the real engine, parked at the specification's steps

type retEngAdapter struct{ e *retEnv }

func (a *retEngAdapter) UpdateShardDurationInfo(info *meta2.ShardDurationInfo, nilShardMap *map[uint64]*meta2.ShardDurationInfo) error {
	if a.e.gate.abort.Load() {
		return errRetStopping
	}
	return a.e.eng.UpdateShardDurationInfo(info, nilShardMap)
}
func (a *retEngAdapter) UpdateIndexDurationInfo(info *meta2.IndexDurationInfo, nilIndexMap *map[uint64]*meta2.IndexDurationInfo) error {
	if a.e.gate.abort.Load() {
		return errRetStopping
	}
	return a.e.eng.UpdateIndexDurationInfo(info, nilIndexMap)
}
func (a *retEngAdapter) ExpiredShards(nilShardMap *map[uint64]*meta2.ShardDurationInfo) []*meta2.ShardIdentifier {
	e := a.e
	e.gate.park("pre-check")
	if e.gate.abort.Load() {
		return nil
	}
	res := e.eng.ExpiredShards(nilShardMap)
	// the engine walks Go maps: the order is arbitrary; the specification processes in ascending shard id
	sort.Slice(res, func(i, j int) bool { return res[i].ShardID < res[j].ShardID })
	e.expired = e.expired[:0]
	for _, r := range res {
		e.expired = append(e.expired, r.ShardID)
	}
	e.cursor = 0
	e.lastCall, e.lastID = "ExpiredShards", 0
	return res
}
func (a *retEngAdapter) DeleteShard(db string, ptId uint32, shardID uint64) error {
	e := a.e
	e.gate.park("pre-delete")
	if e.gate.abort.Load() {
		return errRetStopping
	}
	var err error
	e.lastCall, e.lastID = "DeleteShard", shardID
	if e.failNextDel {
		// fault injection named by the specification (LoopDeleteShardFail): the engine refuses, as it does
		// while the partition migrates
		e.failNextDel = false
		err = errno.NewError(errno.PtIsAlreadyMigrating)
	} else {
		err = e.eng.DeleteShard(db, ptId, shardID)
	}
	return err
}
func (a *retEngAdapter) ExpiredIndexes(nilIndexMap *map[uint64]*meta2.IndexDurationInfo) []*meta2.IndexIdentifier {
	// the first call after the loop over the expired shards
	a.e.gate.park("pre-end")
	a.e.lastCall, a.e.lastID = "ExpiredIndexes", 0
	if a.e.gate.abort.Load() {
		return nil
	}
	return a.e.eng.ExpiredIndexes(nilIndexMap)
}
func (a *retEngAdapter) ExpiredCacheIndexes() []*meta2.IndexIdentifier {
	if a.e.gate.abort.Load() {
		return nil
	}
	return a.e.eng.ExpiredCacheIndexes()
}
func (a *retEngAdapter) DeleteIndex(db string, ptId uint32, indexID uint64) error {
	if a.e.gate.abort.Load() {
		return errRetStopping
	}
	return a.e.eng.DeleteIndex(db, ptId, indexID)
}
func (a *retEngAdapter) ClearIndexCache(db string, ptId uint32, indexID uint64) error {
	if a.e.gate.abort.Load() {
		return errRetStopping
	}
	return a.e.eng.ClearIndexCache(db, ptId, indexID)
}

// -- the store behind the coordinator: what app/ts-store/storage.Storage.Write does with a batch for one shard

type retStore struct{ e *retEnv }

func (s *retStore) WriteRows(ctx *netstorage.WriteContext, nodeID uint64, pt uint32, database, rp string, timeout time.Duration) error {
	e := s.e
	bin, err := influx.FastMarshalMultiRows(nil, ctx.Rows)
	if err != nil {
		return err
	}
	rows, _, _, _, _, err := influx.FastUnmarshalMultiRows(bin, nil, nil, nil, nil, nil)
	if err != nil {
		return err
	}
	id := ctx.Shard.ID
	e.sent = append(e.sent, id)
	err = e.eng.WriteRows(database, rp, pt, id, rows, bin, nil)
	if err == nil || !errno.Equal(err, errno.ShardNotFound) {
		return err
	}
	// Storage.Write: the shard does not exist in the store yet - fetch its span and durations from the catalogue
	e.mu.Lock()
	rpi, rerr := e.data.RetentionPolicy(database, rp)
	var tri *meta2.ShardTimeRangeInfo
	if rerr == nil {
		tri = rpi.TimeRangeInfo(id)
	}
	mst, merr := e.data.Measurement(database, rp, retMst)
	e.mu.Unlock()
	if rerr != nil {
		return rerr
	}
	if tri == nil {
		return errno.NewError(errno.ShardMetaNotFound, id)
	}
	if merr != nil {
		return merr
	}
	// (the answer travels in binary form)
	b, err := tri.MarshalBinary()
	if err != nil {
		return err
	}
	tri2 := &meta2.ShardTimeRangeInfo{}
	if err := tri2.UnmarshalBinary(b); err != nil {
		return err
	}
	if err := e.eng.CreateShard(database, rp, pt, id, tri2, mst); err != nil {
		return err
	}
	return e.eng.WriteRows(database, rp, pt, id, rows, bin, nil)
}

// ---- engine life cycle --------------------------------------------------------------------------------------

func (e *retEnv) engineOptions() engine.EngineOptions {
	opt := engine.NewEngineOptions()
	opt.WalEnabled = true
	opt.WalSyncInterval = 0
	opt.WalReplayParallel = false
	opt.WalReplayAsync = false
	opt.WalReplayBatchSize = 1024 * 1024
	opt.ShardMutableSizeLimit = 1 << 30
	opt.NodeMutableSizeLimit = 4 << 30
	opt.MaxWriteHangTime = time.Second
	opt.WriteColdDuration = 24 * time.Hour
	opt.ForceSnapShotDuration = 24 * time.Hour
	opt.MemDataReadEnabled = true
	opt.OpenShardLimit = 8
	opt.MaxConcurrentCompactions = 4
	opt.MaxFullCompactions = 1
	opt.FullCompactColdDuration = 24 * time.Hour
	opt.CompactThroughput = 1 << 30
	opt.CompactThroughputBurst = 1 << 30
	opt.SnapshotThroughput = 1 << 30
	opt.SnapshotThroughputBurst = 1 << 30
	opt.BackgroundReadThroughput = 1 << 30
	opt.SnapshotTblNum = 1
	opt.FragmentsNumPerFlush = 1
	opt.ReadPageSize = "32kb"
	opt.CompactRecovery = true
	opt.MaxRowsPerSegment = util.DefaultMaxRowsPerSegment4TsStore
	// data.lazy-load-shard-enable (default true in lib/config/store.go): shards whose group does not end
	// within the "thermal" window around now are loaded without being opened
	opt.LazyLoadShardEnable = e.c.Lazy
	opt.ThermalShardStartDuration = time.Nanosecond
	opt.ThermalShardEndDuration = time.Nanosecond
	return opt
}

// startEngine opens the engine on e.dir and has every partition assigned with the shards the catalogue
// hands to a (re)joining store: GetShardDurationsByDbPtForRetention.
func (e *retEnv) startEngine() error {
	e.clock++
	metaclient.LogicClock = e.clock
	loadCtx := &metaclient.LoadCtx{LoadCh: make(chan *metaclient.DBPTCtx, 16)}
	e.stop = make(chan struct{})
	go func(stop chan struct{}) {
		for {
			select {
			case <-stop:
				return
			case <-loadCtx.LoadCh:
			}
		}
	}(e.stop)
	eng, err := engine.NewEngine(filepath.Join(e.dir, "data"), filepath.Join(e.dir, "wal"), e.engineOptions(), loadCtx)
	if err != nil {
		return err
	}
	impl, ok := eng.(*engine.EngineImpl)
	if !ok {
		return fmt.Errorf("engine is not *EngineImpl")
	}
	briefs := map[string]*meta2.DatabaseBriefInfo{retDB: {Name: retDB, EnableTagArray: false}}
	if err := impl.Open(nil, briefs, e.cli); err != nil {
		return fmt.Errorf("engine open: %w", err)
	}
	for pt := 0; pt < e.c.SPG; pt++ {
		e.mu.Lock()
		durs := e.data.GetShardDurationsByDbPtForRetention(retDB, uint32(pt))
		e.mu.Unlock()
		if err := impl.Assign(uint64(e.clock), 1, retDB, uint32(pt), 0, durs, briefs[retDB], e.cli, nil); err != nil {
			return fmt.Errorf("engine assign pt %d: %w", pt, err)
		}
	}
	e.eng = impl
	return nil
}

func (e *retEnv) stopEngine() error {
	err := e.eng.Close()
	close(e.stop)
	return err
}

func (e *retEnv) engShard(pt uint32, id uint64) engine.Shard {
	pts := e.eng.DBPartitions[retDB]
	if pts == nil || pts[pt] == nil {
		return nil
	}
	return pts[pt].Shard(id)
}

// directories of the shard in the data and wal trees
func (e *retEnv) shardDirs(id uint64) []string {
	var out []string
	prefix := fmt.Sprintf("%d_", id)
	_ = filepath.Walk(e.dir, func(p string, fi os.FileInfo, err error) error {
		if err != nil {
			return nil
		}
		if fi.IsDir() {
			if fi.Name() == "logs" || fi.Name() == config.IndexFileDirectory {
				return filepath.SkipDir
			}
			if strings.HasPrefix(fi.Name(), prefix) && filepath.Base(filepath.Dir(p)) == retRP {
				out = append(out, p)
				return filepath.SkipDir
			}
		}
		return nil
	})
	return out
}

// ---- set-up ---------------------------------------------------------------------------------------------------

func (e *retEnv) setup(pol0 int64) error {
	e.data = &meta2.Data{PtNumPerNode: uint32(e.c.SPG)}
	if _, err := e.data.CreateDataNode("127.0.0.1:8400", "127.0.0.1:8401", "", ""); err != nil {
		return err
	}
	rpi := meta2.NewRetentionPolicyInfo(retRP)
	rpi.Duration = e.conc.dur(pol0)
	rpi.ShardGroupDuration = e.conc.sgd
	// index groups are out of scope: one index group (a multiple of the shard-group duration, as in production
	// where the index duration exceeds the shard duration) covers every slot of the case and ends in the future
	rpi.IndexGroupDuration = e.conc.indexGroupDuration()
	if err := e.data.CreateDatabase(retDB, rpi, nil, false, 1, nil); err != nil {
		return err
	}
	if _, err := e.data.CreateDBPtView(retDB); err != nil {
		return err
	}
	for i := range e.data.PtView[retDB] {
		e.data.PtView[retDB][i].Status = meta2.Online
	}
	if len(e.data.PtView[retDB]) != e.c.SPG {
		return fmt.Errorf("pt view has %d partitions, want %d", len(e.data.PtView[retDB]), e.c.SPG)
	}
	sk := &proto2.ShardKeyInfo{Type: proto.String(influxql.HASH)}
	if err := e.data.CreateMeasurement(retDB, retRP, retMst, sk, 0, nil, config.TSSTORE, nil, nil, nil); err != nil {
		return err
	}
	rp, err := e.data.RetentionPolicy(retDB, retRP)
	if err != nil {
		return err
	}
	if rp.ShardGroupDuration != e.conc.sgd || rp.Duration != e.conc.dur(pol0) {
		return fmt.Errorf("catalogue normalised the policy: duration %v shard group duration %v", rp.Duration, rp.ShardGroupDuration)
	}
	msti, err := e.data.Measurement(retDB, retRP, retMst)
	if err != nil {
		return err
	}
	// one series per shard position: with an empty shard key the writer hashes "<measurement>,<tags>"
	e.hostOf = make([]string, e.c.SPG)
	for k := 0; k < e.c.SPG; k++ {
		for i := 0; i < 10000; i++ {
			h := fmt.Sprintf("h%d", i)
			if int(xxhash.Sum64String(msti.Name+",host="+h)%uint64(e.c.SPG)) == k {
				e.hostOf[k] = h
				break
			}
		}
	}
	e.cli = metaclient.NewClient("", false, 0)
	e.cli.SetCacheData(e.data)
	e.pwm = &rtMeta{Client: e.cli, data: e.data}
	e.pw = coordinator.NewPointsWriter(5 * time.Second)
	e.pw.MetaClient = e.pwm
	e.pw.TSDBStore = &retStore{e: e}
	if err := e.startEngine(); err != nil {
		return err
	}
	e.svc = retention.NewService(time.Hour)
	e.svc.MetaClient = &retMetaAdapter{e: e}
	e.svc.Engine = &retEngAdapter{e: e}
	// the loop body registered by NewService (services.Base.handle); Base.run calls it on every tick of the
	// check interval
	f := reflect.ValueOf(&e.svc.Base).Elem().FieldByName("handle")
	if !f.IsValid() {
		return fmt.Errorf("services.Base has no field handle")
	}
	h, ok := reflect.NewAt(f.Type(), unsafe.Pointer(f.UnsafeAddr())).Elem().Interface().(func())
	if !ok || h == nil {
		return fmt.Errorf("services.Base.handle is not a func()")
	}
	e.handle = h
	e.gate = newRetGate()
	e.groupOf = map[uint64]int{}
	e.shardIDs = map[int64]uint64{}
	e.sidOf = map[uint64]int64{}
	e.ptsOf = map[int64][]int64{}
	return nil
}

// ---- driving the service ---------------------------------------------------------------------------------------

// advance lets the service goroutine run to its next parking place ("end" = handle returned)
func (e *retEnv) advance() (string, error) {
	g := e.gate
	if !g.running {
		g.running = true
		g.abort.Store(false)
		g.doneCh = make(chan struct{})
		go func(done chan struct{}) {
			defer close(done)
			e.handle()
		}(g.doneCh)
	} else {
		g.goCh <- struct{}{}
	}
	select {
	case name := <-g.parkCh:
		g.at = name
		return name, nil
	case <-g.doneCh:
		g.running = false
		g.at = ""
		return "end", nil
	case <-time.After(100 * time.Second):
		return "", fmt.Errorf("the retention service neither reached its next step nor returned within 100 s")
	}
}

// abortLoop: the store process goes away in the middle of an iteration
func (e *retEnv) abortLoop() error {
	g := e.gate
	if !g.running {
		return nil
	}
	g.abort.Store(true)
	g.goCh <- struct{}{}
	select {
	case <-g.doneCh:
	case name := <-g.parkCh:
		return fmt.Errorf("service parked at %s after abort", name)
	case <-time.After(150 * time.Second):
		return fmt.Errorf("service did not return after abort")
	}
	g.running = false
	g.at = ""
	e.expired = e.expired[:0]
	return nil
}

// the service is parked BEFORE the call named by the gate: the specification's pc says which call comes next
var retPcOf = map[string]string{"": "idle", "pre-check": "refreshed", "pre-mark": "checked", "pre-end": "checked", "pre-delete": "marked", "pre-prune": "deleted"}

// ---- reading --------------------------------------------------------------------------------------------------

func (e *retEnv) readShard(sh engine.Shard) ([]int64, error) {
	e.reads++
	var opt query.ProcessorOptions
	name := retMst + "_0000"
	opt.Name = name
	opt.Dimensions = []string{"host"}
	opt.Ascending = true
	opt.MaxParallel = 1
	opt.ChunkSize = 1024
	opt.StartTime = influxql.MinTime
	opt.EndTime = influxql.MaxTime
	opt.Sources = influxql.Sources{&influxql.Measurement{Database: retDB, RetentionPolicy: retRP, Name: name, EngineType: config.TSSTORE}}
	opt.FieldAux = []influxql.VarRef{{Val: "v", Type: influxql.Integer}}
	qf := influxql.Fields{&influxql.Field{Expr: &opt.FieldAux[0]}}
	schema := executor.NewQuerySchema(qf, []string{"v"}, &opt, nil)
	info, err := sh.CreateCursor(context.Background(), schema)
	if err != nil {
		return nil, err
	}
	if info == nil {
		return nil, nil
	}
	defer info.Unref()
	var out []int64
	for _, cur := range info.GetCursors() {
		cur.SinkPlan(executor.NewLogicalTagSubset(executor.NewLogicalSeries(schema), schema))
		for {
			rec, _, err := cur.Next()
			if err != nil {
				cur.Close()
				return nil, err
			}
			if rec == nil {
				break
			}
			c := rec.FieldIndexs("val0")
			if c < 0 {
				continue
			}
			cv := &rec.ColVals[c]
			for r := 0; r < rec.RowNums(); r++ {
				if cv.IsNil(r) {
					continue
				}
				v, _ := cv.IntegerValue(r)
				out = append(out, v)
			}
		}
		cur.Close()
	}
	sort.Slice(out, func(i, j int) bool { return out[i] < out[j] })
	return out, nil
}

func retIndexFlush(sh engine.Shard) {
	ib := sh.GetIndexBuilder()
	if ib == nil {
		return
	}
	if idx, ok := ib.GetPrimaryIndex().(*tsi.MergeSetIndex); ok {
		idx.DebugFlush()
	}
}

func retSettle(sh engine.Shard) {
	st := sh.GetTableStore()
	if st == nil {
		return
	}
	for i := 0; i < 5000; i++ {
		sq := st.Sequencer()
		l := sq.IsLoading()
		sq.UnRef()
		if !l {
			return
		}
		time.Sleep(200 * time.Microsecond)
	}
}

// what a query over slot sl returns: the coordinator maps the time range to the catalogue's live shard groups
// (Data.ShardGroupsByTimeRange skips groups with DeletedAt) and the store reads each of their shards
// (Engine.GetShard opens a lazily loaded shard)
func (e *retEnv) querySlot(sl int64) ([]int64, error) {
	tmin := e.conc.tick((sl - 1) * 2)
	tmax := e.conc.tick(sl * 2).Add(-time.Nanosecond)
	e.mu.Lock()
	groups, err := e.data.ShardGroupsByTimeRange(retDB, retRP, tmin, tmax)
	e.mu.Unlock()
	if err != nil {
		return nil, err
	}
	var out []int64
	for _, g := range groups {
		for _, si := range g.Shards {
			sh, err := e.eng.GetShard(retDB, si.Owners[0], si.ID)
			if err != nil {
				if errno.Equal(err, errno.ShardNotFound) {
					continue // never written: the store has nothing for it
				}
				return nil, err
			}
			if sh == nil {
				continue
			}
			ids, err := e.readShard(sh)
			if err != nil {
				return nil, err
			}
			out = append(out, ids...)
		}
	}
	sort.Slice(out, func(i, j int) bool { return out[i] < out[j] })
	return out, nil
}

// ---- observation ------------------------------------------------------------------------------------------------

func (e *retEnv) learnGroups() {
	rp, err := e.data.RetentionPolicy(retDB, retRP)
	if err != nil {
		return
	}
	var fresh []*meta2.ShardGroupInfo
	for i := range rp.ShardGroups {
		if _, ok := e.groupOf[rp.ShardGroups[i].ID]; !ok {
			fresh = append(fresh, &rp.ShardGroups[i])
		}
	}
	sort.Slice(fresh, func(i, j int) bool { return fresh[i].ID < fresh[j].ID })
	for _, sg := range fresh {
		g := len(e.groupIDs) + 1
		e.groupIDs = append(e.groupIDs, sg.ID)
		e.groupOf[sg.ID] = g
		for pos, si := range sg.Shards {
			sid := int64((g-1)*e.c.SPG + pos + 1)
			e.shardIDs[sid] = si.ID
			e.sidOf[si.ID] = sid
		}
	}
}

func (e *retEnv) observe(slotsOf map[int]int64) (retObs, string) {
	var o retObs
	e.mu.Lock()
	defer e.mu.Unlock()
	e.learnGroups()
	rp, err := e.data.RetentionPolicy(retDB, retRP)
	if err != nil {
		return o, "catalogue: " + err.Error()
	}
	o.Pol = e.conc.inv(rp.Duration)
	if o.Pol == -99 {
		return o, fmt.Sprintf("the policy's duration is %v, which no ALTER of this case asked for", rp.Duration)
	}
	if rp.ShardGroupDuration != e.conc.sgd {
		return o, fmt.Sprintf("the policy's shard group duration changed to %v", rp.ShardGroupDuration)
	}
	live := map[uint64]*meta2.ShardGroupInfo{}
	for i := range rp.ShardGroups {
		live[rp.ShardGroups[i].ID] = &rp.ShardGroups[i]
	}
	for g := 1; g <= len(e.groupIDs); g++ {
		sg := live[e.groupIDs[g-1]]
		go_ := retGroupObs{Slot: slotsOf[g]}
		if sg == nil {
			go_.Pruned = true
			go_.Marked = true // a pruned group was marked (the specification keeps the flag)
		} else {
			off := sg.StartTime.Sub(e.conc.base)
			if off%e.conc.sgd != 0 || !sg.EndTime.Equal(sg.StartTime.Add(e.conc.sgd)) {
				return o, fmt.Sprintf("shard group %d spans [%v,%v): not a slot of this case", sg.ID, sg.StartTime, sg.EndTime)
			}
			go_.Slot = int64(off/e.conc.sgd) + 1
			slotsOf[g] = go_.Slot
			go_.Marked = sg.Deleted()
			if len(sg.Shards) != e.c.SPG {
				return o, fmt.Sprintf("shard group %d has %d shards, want %d", sg.ID, len(sg.Shards), e.c.SPG)
			}
		}
		o.Groups = append(o.Groups, go_)
		for k := 1; k <= e.c.SPG; k++ {
			sid := int64((g-1)*e.c.SPG + k)
			id := e.shardIDs[sid]
			so := retShardObs{Cd: -1}
			if sg != nil {
				so.Md = sg.Shards[k-1].MarkDelete
			}
			sh := e.engShard(uint32(k-1), id)
			dirs := e.shardDirs(id)
			var ids []int64
			switch {
			case sh != nil && sh.IsOpened():
				so.Eng = "open"
			case sh != nil:
				so.Eng = "lazy"
			case len(dirs) > 0:
				so.Eng = "orphan"
			default:
				so.Eng = "none"
			}
			if sh != nil {
				if len(dirs) == 0 {
					return o, fmt.Sprintf("shard %d (real id %d) is loaded in the engine but has no directory", sid, id)
				}
				so.Cd = e.conc.inv(sh.GetDuration().Duration)
				if so.Cd == -99 {
					return o, fmt.Sprintf("shard %d caches the duration %v, which no ALTER of this case asked for", sid, sh.GetDuration().Duration)
				}
				if !sh.GetEndTime().Equal(e.conc.tick(slotsOf[g] * 2)) {
					return o, fmt.Sprintf("shard %d ends at %v, its group at %v", sid, sh.GetEndTime(), e.conc.tick(slotsOf[g]*2))
				}
				if so.Eng == "open" {
					var err error
					ids, err = e.readShard(sh)
					if err != nil {
						return o, fmt.Sprintf("reading shard %d: %v", sid, err)
					}
				}
			}
			if ids == nil {
				ids = []int64{}
			}
			o.Shards = append(o.Shards, so)
			o.Data = append(o.Data, ids)
		}
	}
	// a group of the catalogue the harness has not numbered cannot exist (learnGroups numbers all)
	o.Pc = retPcOf[e.gate.at]
	from := len(e.expired)
	switch e.gate.at {
	case "pre-mark":
		from = e.cursor // the entry the service is about to mark
	case "pre-delete", "pre-prune":
		from = e.cursor - 1 // the entry being processed
	}
	for i := from; i >= 0 && i < len(e.expired); i++ {
		o.Todo = append(o.Todo, e.sidOf[e.expired[i]])
	}
	return o, ""
}

func retNormEng(s string) string {
	if s == "absent" || s == "deleted" {
		return "none"
	}
	return s
}

func retEqIDs(a, b []int64) bool {
	if len(a) != len(b) {
		return false
	}
	for i := range a {
		if a[i] != b[i] {
			return false
		}
	}
	return true
}

// compare returns "" when the real observation equals the expected one
func retCompare(exp, got *retObs) string {
	if exp.Pol != got.Pol {
		return fmt.Sprintf("policy duration: specification %d ticks, catalogue %d ticks", exp.Pol, got.Pol)
	}
	if len(exp.Groups) != len(got.Groups) {
		return fmt.Sprintf("specification has %d shard groups, the catalogue has seen %d", len(exp.Groups), len(got.Groups))
	}
	for i := range exp.Groups {
		x, y := exp.Groups[i], got.Groups[i]
		if x.Pruned != y.Pruned {
			return fmt.Sprintf("group %d: specification pruned=%v, catalogue pruned=%v", i+1, x.Pruned, y.Pruned)
		}
		if x.Slot != y.Slot {
			return fmt.Sprintf("group %d: specification slot %d, catalogue slot %d", i+1, x.Slot, y.Slot)
		}
		if !x.Pruned && x.Marked != y.Marked {
			return fmt.Sprintf("group %d: specification marked-deleted=%v, catalogue DeletedAt set=%v", i+1, x.Marked, y.Marked)
		}
	}
	if len(exp.Shards) != len(got.Shards) {
		return fmt.Sprintf("specification has %d shards, observed %d", len(exp.Shards), len(got.Shards))
	}
	spg := 1
	if len(exp.Groups) > 0 {
		spg = len(exp.Shards) / len(exp.Groups)
	}
	for i := range exp.Shards {
		x, y := exp.Shards[i], got.Shards[i]
		if retNormEng(x.Eng) != y.Eng {
			return fmt.Sprintf("shard %d: specification %s, store %s", i+1, x.Eng, y.Eng)
		}
		if !exp.Groups[i/spg].Pruned && x.Md != y.Md {
			return fmt.Sprintf("shard %d: specification MarkDelete=%v, catalogue MarkDelete=%v", i+1, x.Md, y.Md)
		}
		if x.Cd != y.Cd {
			return fmt.Sprintf("shard %d: specification caches duration %d ticks, store caches %d ticks", i+1, x.Cd, y.Cd)
		}
		if x.Eng == "open" && !exp.Groups[i/spg].Marked && !exp.Groups[i/spg].Pruned && !retEqIDs(exp.Data[i], got.Data[i]) {
			return fmt.Sprintf("shard %d: specification holds points %v, a read of the shard returns %v", i+1, exp.Data[i], got.Data[i])
		}
	}
	if exp.Pc != got.Pc {
		return fmt.Sprintf("service: specification at %q, real service at %q", exp.Pc, got.Pc)
	}
	if !retEqIDs(exp.Todo, got.Todo) {
		return fmt.Sprintf("service: specification still has to process shards %v, the real list is %v", exp.Todo, got.Todo)
	}
	return ""
}

// ---- one case ---------------------------------------------------------------------------------------------------

func (e *retEnv) lateBefore(limit time.Time, slack time.Duration) bool {
	return time.Now().After(limit.Add(-slack))
}

func runRetentionCase(c retCase) (res retResult) {
	res = retResult{ID: c.ID}
	if c.SPG <= 0 {
		c.SPG = 1
	}
	if len(c.Hist) == 0 {
		res.OK = true
		return
	}
	// initial clock reading and policy
	n0 := c.Hist[0].Exp.Now
	if c.Hist[0].A == "Tick" {
		n0--
	}
	pol0 := c.Hist[0].Exp.Pol
	if c.Hist[0].A == "AlterDuration" {
		pol0 = c.Hist[0].Args["prev"]
	}
	ticks := 0
	for _, s := range c.Hist {
		if s.A == "Tick" {
			ticks++
		}
	}
	if ticks > 1 {
		res.Infra = "behaviours with more than one Tick cannot be mapped onto the wall clock"
		return
	}
	rng := rand.New(rand.NewSource(c.Seed*1000003 + int64(c.ID)*7919 + 11))
	conc, err := chooseRetConc(rng, n0, ticks > 0, c.Class)
	if err != nil {
		res.Infra = err.Error()
		return
	}
	res.Class, res.Conc = conc.class, conc.String()
	base := "/dev/shm"
	if _, err := os.Stat(base); err != nil {
		base = os.TempDir()
	}
	dir, err := os.MkdirTemp(base, "verif-c14-")
	if err != nil {
		res.Infra = err.Error()
		return
	}
	defer os.RemoveAll(dir)
	e := &retEnv{c: c, conc: conc, dir: dir}
	engx.GlobalInit(retLogDir())
	cpu.SetCpuNum(2, 1)
	if err := e.setup(pol0); err != nil {
		res.Infra = "setup: " + err.Error()
		return
	}
	defer func() {
		_ = e.abortLoop()
		_ = e.stopEngine()
	}()
	slotsOf := map[int]int64{}
	ticked := false
	fail := func(i int, msg string) retResult {
		res.OK, res.Step, res.Action = false, i, c.Hist[i].A
		res.Detail = fmt.Sprintf("step %d %s%v: %s   [%s]", i, c.Hist[i].A, c.Hist[i].Args, msg, conc)
		return res
	}
	known := map[string]bool{}
	for i := range c.Hist {
		st := &c.Hist[i]
		res.Steps++
		// the wall clock must still be inside the planned tick interval
		limit := conc.boundary
		if ticked {
			limit = conc.boundary.Add(conc.delta)
		}
		if e.lateBefore(limit, 1500*time.Millisecond) {
			res.Late = true
			res.Detail = fmt.Sprintf("step %d: the wall clock is within 1.5 s of %v", i, limit)
			return
		}
		switch st.A {
		case "Tick":
			wait := time.Until(conc.boundary.Add(retTickPast))
			if wait > retTickLead+6*time.Second {
				res.Infra = fmt.Sprintf("a Tick would have to wait %v", wait)
				return
			}
			if wait > 0 {
				time.Sleep(wait)
			}
			ticked = true
		case "AlterDuration":
			d := conc.dur(st.Args["d"])
			// ALTER RETENTION POLICY: statement executor -> MetaClient.UpdateRetentionPolicy -> UpdateRetentionPolicyCommand
			err := e.applyCmd(proto2.Command_UpdateRetentionPolicyCommand, proto2.E_UpdateRetentionPolicyCommand_Command,
				&proto2.UpdateRetentionPolicyCommand{Database: proto.String(retDB), Name: proto.String(retRP),
					Duration: meta2.GetInt64Duration(&d), MakeDefault: proto.Bool(false)}, meta2.ApplyUpdateRetentionPolicy)
			if st.Res.R == "ok" && err != nil {
				return fail(i, fmt.Sprintf("ALTER .. DURATION %v was refused: %v", d, err))
			}
			if st.Res.R == "rejected" && err == nil {
				return fail(i, fmt.Sprintf("ALTER .. DURATION %v (below the shard group duration %v) was accepted", d, conc.sgd))
			}
		case "Write":
			sl, k, sub, id := st.Args["sl"], st.Args["k"], st.Args["sub"], st.Args["id"]
			ts := conc.ptime((sl-1)*2+sub, id)
			r := influx.Row{Name: retMst, Timestamp: ts.UnixNano()}
			r.Tags = append(r.Tags, influx.Tag{Key: "host", Value: e.hostOf[k-1]})
			r.Fields = append(r.Fields, influx.Field{Key: "v", NumValue: float64(id), Type: influx.Field_Type_Int})
			e.sent = e.sent[:0]
			if st.Res.R == "rejected" {
				// the write path reads a one-second clock kept by a background goroutine (fasttime); on a loaded
				// machine it can lag: the point must be older than THAT clock minus the duration before the
				// refusal can be demanded
				due := ts.Add(conc.dur(c.histPolBefore(i))).UnixNano()
				for w := 0; int64(fasttime.UnixTimestamp())*1e9 <= due; w++ {
					if w > 200 {
						res.Late = true
						res.Detail = fmt.Sprintf("step %d: the coarse clock of the write path lags more than 10 s", i)
						return
					}
					time.Sleep(50 * time.Millisecond)
				}
			}
			werr := e.pw.RetryWritePointRows(retDB, retRP, []influx.Row{r})
			if st.Res.R == "rejected" {
				if werr == nil || len(e.sent) != 0 {
					return fail(i, fmt.Sprintf("a point at %v (older than now - %v) was accepted: err=%v, sent to shards %v", ts, conc.dur(c.histPolBefore(i)), werr, e.sent))
				}
				if !strings.Contains(werr.Error(), "point time is expired") {
					return fail(i, fmt.Sprintf("a point at %v was refused with an unexpected error: %v", ts, werr))
				}
			} else {
				if werr != nil {
					return fail(i, fmt.Sprintf("a point at %v inside the retention window (duration %v) was refused: %v", ts, conc.dur(c.histPolBefore(i)), werr))
				}
				if len(e.sent) != 1 {
					return fail(i, fmt.Sprintf("the point was sent to shards %v, want exactly one", e.sent))
				}
				e.mu.Lock()
				e.learnGroups()
				e.mu.Unlock()
				sid, ok := e.sidOf[e.sent[0]]
				if !ok {
					return fail(i, fmt.Sprintf("the point was sent to shard %d, which the catalogue does not know", e.sent[0]))
				}
				if int64((sid-1)%int64(c.SPG))+1 != k {
					res.Infra = fmt.Sprintf("series %s was routed to position %d, planned %d", e.hostOf[k-1], (sid-1)%int64(c.SPG)+1, k)
					return
				}
				if sh := e.engShard(uint32(k-1), e.sent[0]); sh != nil {
					retIndexFlush(sh)
					retSettle(sh)
				}
				e.ptsOf[sid] = append(e.ptsOf[sid], id)
			}
		case "Query":
			got, err := e.querySlot(st.Args["sl"])
			if err != nil {
				return fail(i, "query failed: "+err.Error())
			}
			if got == nil {
				got = []int64{}
			}
			if !retEqIDs(st.Res.Ids, got) {
				return fail(i, fmt.Sprintf("a query over slot %d returns points %v, the specification expects %v", st.Args["sl"], got, st.Res.Ids))
			}
		case "Restart":
			if err := e.abortLoop(); err != nil {
				res.Infra = err.Error()
				return
			}
			if err := e.stopEngine(); err != nil {
				return fail(i, "engine close failed: "+err.Error())
			}
			if err := e.startEngine(); err != nil {
				return fail(i, "engine restart failed: "+err.Error())
			}
		case "LoopRefresh", "LoopExpireCheck", "LoopMarkDelete", "LoopDeleteShard", "LoopDeleteShardFail", "LoopPrune", "LoopEnd":
			if st.A == "LoopMarkDelete" && st.Res.R == "kept" {
				res.Infra = "behaviour of the design (revalidating mark) cannot be replayed: generate with the as-implemented deviations"
				return
			}
			if st.A == "LoopDeleteShardFail" {
				e.failNextDel = true
			}
			at, err := e.advance()
			if err != nil {
				res.Hang = true
				return fail(i, err.Error())
			}
			// where the specification's state after this action leaves the service
			want := map[string]string{"idle": "end", "refreshed": "pre-check", "marked": "pre-delete", "deleted": "pre-prune"}[st.Exp.Pc]
			if st.Exp.Pc == "checked" {
				want = "pre-end"
				if len(st.Exp.Todo) > 0 {
					want = "pre-mark"
				}
			}
			if at != want {
				return fail(i, fmt.Sprintf("after %s the specification's service is at %q (next call %s), the real service went on to %q (last call %s(%d))", st.A, st.Exp.Pc, want, at, e.lastCall, e.lastID))
			}
			switch st.A {
			case "LoopExpireCheck":
				if e.lastCall != "ExpiredShards" {
					return fail(i, fmt.Sprintf("service called %s(%d), the specification evaluates Engine.ExpiredShards", e.lastCall, e.lastID))
				}
				var got []int64
				for _, id := range e.expired {
					got = append(got, e.sidOf[id])
				}
				sort.Slice(got, func(a, b int) bool { return got[a] < got[b] })
				if !retEqIDs(st.Res.Expired, got) {
					return fail(i, fmt.Sprintf("Engine.ExpiredShards returned shards %v, the specification expects %v", got, st.Res.Expired))
				}
			case "LoopMarkDelete":
				g := int((st.Args["sid"]-1)/int64(c.SPG)) + 1
				if e.lastCall != "DeleteShardGroup" || g > len(e.groupIDs) || e.lastID != e.groupIDs[g-1] {
					return fail(i, fmt.Sprintf("service called %s(%d), the specification marks the group of shard %d", e.lastCall, e.lastID, st.Args["sid"]))
				}
			case "LoopDeleteShard", "LoopDeleteShardFail":
				if e.lastCall != "DeleteShard" || e.lastID != e.shardIDs[st.Args["sid"]] {
					return fail(i, fmt.Sprintf("service called %s(%d), the specification deletes shard %d", e.lastCall, e.lastID, st.Args["sid"]))
				}
			case "LoopPrune":
				if e.lastCall != "PruneGroups" || e.lastID != e.shardIDs[st.Args["sid"]] {
					return fail(i, fmt.Sprintf("service called %s(%d), the specification prunes shard %d", e.lastCall, e.lastID, st.Args["sid"]))
				}
			}
		default:
			res.Infra = "unknown action " + st.A
			return
		}
		got, msg := e.observe(slotsOf)
		if msg != "" {
			return fail(i, msg)
		}
		if d := retCompare(&st.Exp, &got); d != "" {
			return fail(i, d)
		}
		if st.Res.Fired != "" {
			// the real code did exactly what the named deviation of the specification predicts, in a step where
			// that deviation departs from the design
			if id, ok := retFindingOf[st.Res.Fired]; ok {
				known[id] = true
			} else {
				return fail(i, "the behaviour carries the unknown deviation "+st.Res.Fired)
			}
		}
	}
	// after the last step: what queries over every slot return
	last := c.Hist[len(c.Hist)-1].Exp
	for sl := int64(1); sl <= int64(len(last.Q)); sl++ {
		got, err := e.querySlot(sl)
		if err != nil {
			return fail(len(c.Hist)-1, fmt.Sprintf("final query over slot %d failed: %v", sl, err))
		}
		if got == nil {
			got = []int64{}
		}
		if !retEqIDs(last.Q[sl-1], got) {
			return fail(len(c.Hist)-1, fmt.Sprintf("after the last step a query over slot %d returns points %v, the specification expects %v", sl, got, last.Q[sl-1]))
		}
	}
	limit := conc.boundary
	if ticked {
		limit = conc.boundary.Add(conc.delta)
	}
	if e.lateBefore(limit, 1500*time.Millisecond) {
		res.Late = true
		return
	}
	res.OK = true
	for id := range known {
		res.Known = append(res.Known, id)
	}
	sort.Strings(res.Known)
	res.Reads = e.reads
	return
}

// the policy duration in force before step i (for messages)
func (c *retCase) histPolBefore(i int) int64 {
	if i == 0 {
		if c.Hist[0].A == "AlterDuration" {
			return c.Hist[0].Args["prev"]
		}
		return c.Hist[0].Exp.Pol
	}
	return c.Hist[i-1].Exp.Pol
}

// the logger is initialised once per process: its directory outlives the cases and is removed when the process ends
var retLogs string

func retLogDir() string {
	if retLogs == "" {
		base := "/dev/shm"
		if _, err := os.Stat(base); err != nil {
			base = os.TempDir()
		}
		d, err := os.MkdirTemp(base, "verif-c14-logs-")
		if err != nil {
			d = filepath.Join(base, fmt.Sprintf("verif-c14-logs-%d", os.Getpid()))
		}
		retLogs = d
	}
	return retLogs
}

func retCleanLogs() {
	if retLogs != "" {
		_ = os.RemoveAll(retLogs)
	}
}

func replayRetention(args []string) int {
	defer retCleanLogs()
	in := bufio.NewReaderSize(os.Stdin, 1<<20)
	out := bufio.NewWriter(os.Stdout)
	defer out.Flush()
	bad := 0
	for {
		line, err := in.ReadBytes('\n')
		if len(line) > 1 {
			var c retCase
			if jerr := json.Unmarshal(line, &c); jerr != nil {
				fmt.Fprintf(out, "{\"id\":-1,\"ok\":false,\"infra\":%q}\n", "bad case: "+jerr.Error())
				bad++
			} else {
				r := runRetentionWatched(c)
				if !r.OK {
					bad++
				}
				b, _ := json.Marshal(r)
				out.Write(b)
				out.WriteByte('\n')
				out.Flush()
			}
		}
		if err != nil {
			break
		}
	}
	if bad > 0 {
		return 1
	}
	return 0
}

func runRetentionWatched(c retCase) retResult {
	done := make(chan retResult, 1)
	go func() { done <- runRetentionCase(c) }()
	select {
	case r := <-done:
		return r
	case <-time.After(240 * time.Second):
		fmt.Fprintf(os.Stderr, "WATCHDOG: retention case %d did not finish within 240 s\n", c.ID)
		return retResult{ID: c.ID, Infra: "case did not finish within 240 s", Hang: true}
	}
}

// ==== the pure form ================================================================================================

type retPureCase struct {
	Kind string `json:"kind"`
	E    int64  `json:"e"`
	D    int64  `json:"d"`
	Tz   string `json:"tz"`
	Exp  bool   `json:"exp"`
}

type retPureBatch struct {
	ID    int           `json:"id"`
	Seed  int64         `json:"seed"`
	Unit  string        `json:"unit"` // Go duration of one tick
	Now   int64         `json:"now"`  // the specification's clock reading (PureNow)
	Cases []retPureCase `json:"cases"`
}

type retPureResult struct {
	ID     int    `json:"id"`
	OK     bool   `json:"ok"`
	Detail string `json:"detail,omitempty"`
	Infra  string `json:"infra,omitempty"`
	Evals  int    `json:"evals"`
	Unit   string `json:"unit"`
}

func retLoc(tz string) *time.Location {
	switch tz {
	case "east":
		return time.FixedZone("east", 8*3600)
	case "west":
		return time.FixedZone("west", -5*3600)
	}
	return time.UTC
}

func runRetentionPure(b retPureBatch) (res retPureResult) {
	res = retPureResult{ID: b.ID, Unit: b.Unit}
	unit, err := time.ParseDuration(b.Unit)
	if err != nil || unit < 2*time.Second {
		res.Infra = "bad unit " + b.Unit
		return
	}
	base := "/dev/shm"
	if _, err := os.Stat(base); err != nil {
		base = os.TempDir()
	}
	dir, err := os.MkdirTemp(base, "verif-c14p-")
	if err != nil {
		res.Infra = err.Error()
		return
	}
	defer os.RemoveAll(dir)
	e := &retEnv{c: retCase{SPG: 1, Lazy: true}, dir: dir}
	engx.GlobalInit(retLogDir())
	cpu.SetCpuNum(2, 1)
	e.data = &meta2.Data{PtNumPerNode: 1}
	if _, err := e.data.CreateDataNode("127.0.0.1:8400", "127.0.0.1:8401", "", ""); err != nil {
		res.Infra = err.Error()
		return
	}
	rpi := meta2.NewRetentionPolicyInfo(retRP)
	rpi.ShardGroupDuration = time.Hour
	if err := e.data.CreateDatabase(retDB, rpi, nil, false, 1, nil); err != nil {
		res.Infra = err.Error()
		return
	}
	e.cli = metaclient.NewClient("", false, 0)
	e.cli.SetCacheData(e.data)
	if err := e.startEngine(); err != nil {
		res.Infra = err.Error()
		return
	}
	defer func() { _ = e.stopEngine() }()
	// anchor: tick t is the instant anchor + t*unit; the clock reading Now means "now in (Now-1, Now)": the
	// anchor puts the present in the middle of that interval; later evaluations add the elapsed time to the
	// duration, so every end+duration keeps its distance to the present
	now0 := time.Now().UTC()
	anchor := now0.Add(-time.Duration(b.Now)*unit + unit/2)
	// one real shard per (end, zone) for the open and lazy kinds
	type key struct {
		e  int64
		tz string
	}
	shardOf := map[key]uint64{}
	next := uint64(1)
	mkInfo := func(id uint64, end time.Time, d time.Duration) *meta2.ShardDurationInfo {
		return &meta2.ShardDurationInfo{
			Ident:        meta2.ShardIdentifier{ShardID: id, ShardGroupID: id, Policy: retRP, OwnerDb: retDB, OwnerPt: 0, StartTime: end.Add(-time.Hour), EndTime: end},
			DurationInfo: meta2.DurationDescriptor{Tier: util.Hot, Duration: d},
		}
	}
	needShards := false
	for _, c := range b.Cases {
		if c.Kind != "nil" {
			needShards = true
			k := key{c.E, c.Tz}
			if _, ok := shardOf[k]; !ok {
				shardOf[k] = next
				next++
			}
		}
	}
	for k, id := range shardOf {
		end := anchor.Add(time.Duration(k.e) * unit).In(retLoc(k.tz))
		tr := meta2.TimeRangeInfo{StartTime: end.Add(-time.Hour), EndTime: end}
		tri := &meta2.ShardTimeRangeInfo{TimeRange: tr, OwnerIndex: meta2.IndexDescriptor{IndexID: 1, IndexGroupID: 1, TimeRange: meta2.TimeRangeInfo{StartTime: anchor.Add(-1000 * time.Hour), EndTime: anchor.Add(1000 * time.Hour)}},
			ShardDuration: mkInfo(id, end, 0)}
		if err := e.eng.CreateShard(retDB, retRP, 0, id, tri, &meta2.MeasurementInfo{EngineType: config.TSSTORE}); err != nil {
			res.Infra = fmt.Sprintf("create shard: %v", err)
			return
		}
	}
	eval := func(kind string) string {
		for _, c := range b.Cases {
			if c.Kind != kind {
				continue
			}
			end := anchor.Add(time.Duration(c.E) * unit).In(retLoc(c.Tz))
			drift := time.Since(now0)
			d := time.Duration(0)
			switch {
			case c.D == 98: // a very long finite duration: about 250 years
				d = 250 * 365 * 24 * time.Hour
			case c.D == 99: // the longest duration an int64 of nanoseconds holds (about 292 years), minus a margin
				d = time.Duration(math.MaxInt64) - 1000*time.Hour
			case c.D != 0:
				d = time.Duration(c.D)*unit + drift
			}
			empty := map[uint64]*meta2.ShardDurationInfo{}
			var got bool
			var id uint64
			if kind == "nil" {
				id = 100000 + uint64(res.Evals)
				nm := map[uint64]*meta2.ShardDurationInfo{id: mkInfo(id, end, d)}
				for _, s := range e.eng.ExpiredShards(&nm) {
					if s.ShardID == id {
						got = true
					}
				}
			} else {
				id = shardOf[key{c.E, c.Tz}]
				sh := e.engShard(0, id)
				if sh == nil {
					return fmt.Sprintf("shard %d is not loaded", id)
				}
				if kind == "lazy" && sh.IsOpened() {
					return fmt.Sprintf("shard %d should be lazily loaded but is open", id)
				}
				if err := e.eng.UpdateShardDurationInfo(mkInfo(id, end, d), &empty); err != nil {
					return fmt.Sprintf("UpdateShardDurationInfo: %v", err)
				}
				if len(empty) != 0 {
					return fmt.Sprintf("shard %d (%s) was put into the nil-shard map by UpdateShardDurationInfo", id, kind)
				}
				for _, s := range e.eng.ExpiredShards(&empty) {
					if s.ShardID == id {
						got = true
					}
				}
				// back to unlimited so that it does not show up in other evaluations
				_ = e.eng.UpdateShardDurationInfo(mkInfo(id, end, 0), &empty)
			}
			res.Evals++
			if time.Since(now0)-drift > unit/4 {
				return "INFRA evaluation took too long for the unit"
			}
			if got != c.Exp {
				return fmt.Sprintf("%s shard ending at now%+v (zone %s) with duration %v (%d ticks of %v): Engine.ExpiredShards says expired=%v, the specification says %v",
					kind, time.Until(end).Round(time.Millisecond), c.Tz, d, c.D, unit, got, c.Exp)
			}
		}
		return ""
	}
	for _, kind := range []string{"nil", "open"} {
		if msg := eval(kind); msg != "" {
			if strings.HasPrefix(msg, "INFRA") {
				res.Infra = msg
			} else {
				res.Detail = msg
			}
			return
		}
	}
	if needShards {
		// register the shards in the catalogue's answer for a restarting store, then restart lazily
		if err := e.stopEngine(); err != nil {
			res.Infra = "close: " + err.Error()
			return
		}
		durs := map[uint64]*meta2.ShardDurationInfo{}
		for k, id := range shardOf {
			end := anchor.Add(time.Duration(k.e) * unit).In(retLoc(k.tz))
			durs[id] = mkInfo(id, end, 0)
		}
		if err := e.startEngineWith(durs); err != nil {
			res.Infra = "restart: " + err.Error()
			return
		}
		if msg := eval("lazy"); msg != "" {
			if strings.HasPrefix(msg, "INFRA") {
				res.Infra = msg
			} else {
				res.Detail = msg
			}
			return
		}
	}
	res.OK = true
	return
}

// startEngineWith: like startEngine, with an explicit shard list for partition 0
func (e *retEnv) startEngineWith(durs map[uint64]*meta2.ShardDurationInfo) error {
	e.clock++
	metaclient.LogicClock = e.clock
	loadCtx := &metaclient.LoadCtx{LoadCh: make(chan *metaclient.DBPTCtx, 16)}
	e.stop = make(chan struct{})
	go func(stop chan struct{}) {
		for {
			select {
			case <-stop:
				return
			case <-loadCtx.LoadCh:
			}
		}
	}(e.stop)
	eng, err := engine.NewEngine(filepath.Join(e.dir, "data"), filepath.Join(e.dir, "wal"), e.engineOptions(), loadCtx)
	if err != nil {
		return err
	}
	impl := eng.(*engine.EngineImpl)
	briefs := map[string]*meta2.DatabaseBriefInfo{retDB: {Name: retDB}}
	if err := impl.Open(nil, briefs, e.cli); err != nil {
		return err
	}
	if err := impl.Assign(uint64(e.clock), 1, retDB, 0, 0, durs, briefs[retDB], e.cli, nil); err != nil {
		return err
	}
	e.eng = impl
	return nil
}

func retentionPure(args []string) int {
	defer retCleanLogs()
	in := bufio.NewReaderSize(os.Stdin, 1<<22)
	out := bufio.NewWriter(os.Stdout)
	defer out.Flush()
	bad := 0
	for {
		line, err := in.ReadBytes('\n')
		if len(line) > 1 {
			var b retPureBatch
			if jerr := json.Unmarshal(line, &b); jerr != nil {
				fmt.Fprintf(out, "{\"id\":-1,\"ok\":false,\"infra\":%q}\n", "bad batch: "+jerr.Error())
				bad++
			} else {
				r := runRetentionPure(b)
				if !r.OK {
					bad++
				}
				jb, _ := json.Marshal(r)
				out.Write(jb)
				out.WriteByte('\n')
				out.Flush()
			}
		}
		if err != nil {
			break
		}
	}
	if bad > 0 {
		return 1
	}
	return 0
}
