//go:build verif

package main

// C01 helpers for the series index and for automatic (ticker-started) memtable flushes.
//
// Series index. A write of a new series puts the series key into the in-memory pending items of the
// merge-set index (lib/util/lifted/vm/mergeset: rawItems). They reach the disk when the raw items
// are flushed: synchronously by indexBuilder.Flush() -> Table.DebugFlush() (writeSnapshot calls it
// between the log switch and the first data file) or by the index's own rawItemsFlusher (1 s ticker).
// A flush of raw items writes a new part under <index>/mergeset/tmp/ and then creates the
// transaction file <index>/mergeset/txn/<id> with fs.WriteFileAtomically, i.e. with a
// fileops.RenameFile of <id>.tmp.<n> to <id>: from that rename on, the part survives a kill (Open runs
// pending transactions). The rename goes through lib/fileops, so the recorder sees it. A
// transaction of a raw-items flush has the single line "tmp -> dst"; a merge of existing file parts
// (which makes nothing new durable) also lists the parts it removes.

import (
	"fmt"
	"os"
	"path/filepath"
	"strings"
	"sync"
	"sync/atomic"
	"time"

	"github.com/openGemini/openGemini/lib/statisticsPusher/statistics"
	"verifharness/internal/crashfs"
	"verifharness/internal/engx"
)

// walIndexTxnCommit reports whether ev is the creation of a merge-set transaction file (the durable
// point of an index flush or merge) and, when the file can still be read, whether the transaction
// only adds a part built from in-memory items (a flush of raw items).
func walIndexTxnCommit(root string, ev crashfs.Event) (commit bool, rawFlush bool) {
	if ev.Class != "index" || ev.Op != "rename" || !strings.Contains(ev.To, "/txn/") {
		return false, false
	}
	if strings.Contains(filepath.Base(ev.To), ".tmp.") {
		return false, false
	}
	p := ev.To
	if !filepath.IsAbs(p) || !strings.HasPrefix(p, root) {
		p = filepath.Join(root, ev.To)
	}
	b, err := os.ReadFile(p)
	if err != nil {
		return true, true // cannot tell: treat as a flush (the optimistic reading never invents a violation)
	}
	lines := strings.Split(strings.TrimRight(string(b), "\n"), "\n")
	return true, len(lines) == 1
}

type coldSetter interface {
	SetWriteColdDuration(time.Duration)
}

// Automatic flush. walAutoStart lets the production background path flush the memtable: the shard is
// declared write-cold (SetWriteColdDuration(0)), so that the next tick of shard.Snapshot() (100 ms
// ticker) finds shouldSnapshot() -> timeToSnapshot() true and calls storage.writeSnapshot(s) itself -
// not ForceFlush, no forceFlush flag. The cold duration must go back up as soon as the flush has
// begun (begun(), called from the recorder hook at the flush's first file-system mutation): with
// writes arriving inside the flush the ticker would otherwise start a second snapshot right after
// this one. Completion (wait) is observed through the engine's own counter
// statistics.PerfStat.FlushSnapshotCount, which writeSnapshot increments after the log files are
// removed and the snapshot table is dropped.
type walAuto struct {
	cs     coldSetter
	before int64
	mu     sync.Mutex
	armed  bool
}

func walAutoStart(e *engx.Env) (*walAuto, error) {
	cs, ok := e.Shard().(coldSetter)
	if !ok {
		return nil, fmt.Errorf("shard has no SetWriteColdDuration")
	}
	a := &walAuto{cs: cs, before: atomic.LoadInt64(&statistics.PerfStat.FlushSnapshotCount), armed: true}
	cs.SetWriteColdDuration(0)
	return a, nil
}

// begun is called (from the recorder hook) at the first file-system mutation of the flush
func (a *walAuto) begun() {
	a.mu.Lock()
	if a.armed {
		a.armed = false
		a.cs.SetWriteColdDuration(24 * time.Hour)
	}
	a.mu.Unlock()
}

func (a *walAuto) wait(d time.Duration) error {
	defer a.begun()
	deadline := time.Now().Add(d)
	for atomic.LoadInt64(&statistics.PerfStat.FlushSnapshotCount) == a.before {
		if time.Now().After(deadline) {
			return fmt.Errorf("the background snapshot goroutine did not flush the memtable within %v", d)
		}
		time.Sleep(500 * time.Microsecond)
	}
	return nil
}

func walAutoFlush(e *engx.Env, d time.Duration) error {
	a, err := walAutoStart(e)
	if err != nil {
		return err
	}
	return a.wait(d)
}
