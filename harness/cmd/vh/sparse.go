package main

// replay-sparse: replays TLC-generated cases of specs/SparseIndex.tla into the real primary-key sparse
// index (engine/index/sparseindex) and the skip-index readers, and judges SOUNDNESS (C20): a fragment
// that contains a row satisfying the condition must be among the fragments the real code selects.

import (
	"bufio"
	"encoding/json"
	"fmt"
	"math/rand"
	"os"
	"runtime/debug"
	"sort"
	"strings"

	"github.com/openGemini/openGemini/engine/immutable"
	"github.com/openGemini/openGemini/engine/immutable/colstore"
	"github.com/openGemini/openGemini/engine/index/sparseindex"
	"github.com/openGemini/openGemini/lib/fragment"
	"github.com/openGemini/openGemini/lib/record"
	"github.com/openGemini/openGemini/lib/util/lifted/influx/influxql"
	"github.com/openGemini/openGemini/lib/util/lifted/vm/protoparser/influx"
)

func init() {
	cmds["replay-sparse"] = replaySparse
	cmds["probe-sparse"] = probeSparse
}

const spNull = 3 // the specification's null key value (sorts last, +infinity in the index)

// ---- condition trees (as exported by the specification) -----------------------------------------

type spCond struct {
	T  string  `json:"t"`  // and | or | cmp | in | nonkey | strop
	L  *spCond `json:"l,omitempty"`
	R  *spCond `json:"r,omitempty"`
	C  int     `json:"c,omitempty"`  // key column 1..K
	Op string  `json:"op,omitempty"` // eq ne lt le gt ge | like match matchphrase
	V  int     `json:"v,omitempty"`
	Vs []int   `json:"vs,omitempty"`
}

func (c *spCond) String() string {
	switch c.T {
	case "and", "or":
		return "(" + c.L.String() + " " + strings.ToUpper(c.T) + " " + c.R.String() + ")"
	case "cmp", "strop":
		return fmt.Sprintf("k%d %s %d", c.C, c.Op, c.V)
	case "in":
		return fmt.Sprintf("k%d in %v", c.C, c.Vs)
	default:
		return "nonkey"
	}
}

// evalRow: does the row (abstract values) possibly satisfy the condition? Atoms on non-key columns
// are taken as true (some value of the non-key column satisfies them); comparisons with null are false.
func (c *spCond) evalRow(row []int) bool {
	switch c.T {
	case "and":
		return c.L.evalRow(row) && c.R.evalRow(row)
	case "or":
		return c.L.evalRow(row) || c.R.evalRow(row)
	case "cmp":
		x := row[c.C-1]
		if x == spNull {
			return false
		}
		switch c.Op {
		case "eq":
			return x == c.V
		case "ne":
			return x != c.V
		case "lt":
			return x < c.V
		case "le":
			return x <= c.V
		case "gt":
			return x > c.V
		case "ge":
			return x >= c.V
		}
		panic("bad op " + c.Op)
	case "in":
		x := row[c.C-1]
		for _, v := range c.Vs {
			if x == v {
				return true
			}
		}
		return false
	case "strop":
		// like / match / matchphrase with the literal being the whole value: the row whose value
		// equals the literal matches under all three operators (and possibly others do, too: the
		// harness only relies on "equal value => match").
		return row[c.C-1] == c.V
	case "nonkey":
		return true
	}
	panic("bad cond " + c.T)
}

func (c *spCond) walk(f func(*spCond)) {
	f(c)
	if c.L != nil {
		c.L.walk(f)
	}
	if c.R != nil {
		c.R.walk(f)
	}
}

// ---- concretisation -----------------------------------------------------------------------------

// one key column: its concrete type and the order-preserving images of the abstract values 0..2
type spCol struct {
	name string
	typ  int
	ints [3]int64
	flts [3]float64
	strs [3]string
	bmap map[int]bool // boolean columns: abstract value -> false/true
}

var spIntImages = [][3]int64{{0, 1, 2}, {-7, 0, 5}, {1, 2, 3}, {-9223372036854775807, -1, 9223372036854775806}, {10, 20, 21}, {-3, -2, 4}}
var spFltImages = [][3]float64{{0, 1, 2}, {-1.5, 0, 2.25}, {0.1, 0.2, 0.30000000000000004}, {-1e300, 1e-300, 1e300}, {1, 1.0000000000000002, 2}}
var spStrImages = [][3]string{{"A", "B", "C"}, {"", "a", "b"}, {"U1", "U10", "U2"}, {"a", "aa", "ab"}, {"B", "C", "D"}, {"x y", "x z", "y"}}

func (c *spCol) field() record.Field { return record.Field{Name: c.name, Type: c.typ} }

func (c *spCol) appendVal(cv *record.ColVal, v int) {
	if v == spNull {
		switch c.typ {
		case influx.Field_Type_Int:
			cv.AppendIntegerNull()
		case influx.Field_Type_Float:
			cv.AppendFloatNull()
		case influx.Field_Type_Boolean:
			cv.AppendBooleanNull()
		default:
			cv.AppendStringNull()
		}
		return
	}
	switch c.typ {
	case influx.Field_Type_Int:
		cv.AppendInteger(c.ints[v])
	case influx.Field_Type_Float:
		cv.AppendFloat(c.flts[v])
	case influx.Field_Type_Boolean:
		cv.AppendBoolean(c.bmap[v])
	default:
		cv.AppendString(c.strs[v])
	}
}

func (c *spCol) literal(v int) influxql.Expr {
	switch c.typ {
	case influx.Field_Type_Int:
		return &influxql.IntegerLiteral{Val: c.ints[v]}
	case influx.Field_Type_Float:
		return &influxql.NumberLiteral{Val: c.flts[v]}
	case influx.Field_Type_Boolean:
		return &influxql.BooleanLiteral{Val: c.bmap[v]}
	default:
		return &influxql.StringLiteral{Val: c.strs[v]}
	}
}

func (c *spCol) varRef() *influxql.VarRef {
	t := influxql.String
	switch c.typ {
	case influx.Field_Type_Int:
		t = influxql.Integer
	case influx.Field_Type_Float:
		t = influxql.Float
	case influx.Field_Type_Boolean:
		t = influxql.Boolean
	}
	return &influxql.VarRef{Val: c.name, Type: t}
}

func (c *spCol) show(v int) string {
	if v == spNull {
		return "null"
	}
	switch c.typ {
	case influx.Field_Type_Int:
		return fmt.Sprintf("%d", c.ints[v])
	case influx.Field_Type_Float:
		return fmt.Sprintf("%g", c.flts[v])
	case influx.Field_Type_Boolean:
		return fmt.Sprintf("%v", c.bmap[v])
	default:
		return fmt.Sprintf("%q", c.strs[v])
	}
}

var spOps = map[string]influxql.Token{"eq": influxql.EQ, "ne": influxql.NEQ, "lt": influxql.LT, "le": influxql.LTE, "gt": influxql.GT, "ge": influxql.GTE,
	"like": influxql.LIKE, "match": influxql.MATCH, "matchphrase": influxql.MATCHPHRASE}
var spSwap = map[influxql.Token]influxql.Token{influxql.EQ: influxql.EQ, influxql.NEQ: influxql.NEQ, influxql.LT: influxql.GT, influxql.GT: influxql.LT, influxql.LTE: influxql.GTE, influxql.GTE: influxql.LTE}

// a variant = one concretisation of a case
type spVariant struct {
	cols    []*spCol
	fixed   bool // IndexFragmentFixedSize vs variable
	flip    bool // write comparisons as "literal op column" sometimes
	parens  bool
	rng     *rand.Rand
	timeCol int // 1-based key column that is the time column (0 = none)
}

func (v *spVariant) expr(c *spCond) influxql.Expr {
	var e influxql.Expr
	switch c.T {
	case "and", "or":
		op := influxql.AND
		if c.T == "or" {
			op = influxql.OR
		}
		e = &influxql.BinaryExpr{Op: influxql.Token(op), LHS: v.expr(c.L), RHS: v.expr(c.R)}
		if v.parens && v.rng.Intn(2) == 0 {
			e = &influxql.ParenExpr{Expr: e}
		}
		return e
	case "cmp", "strop":
		col := v.cols[c.C-1]
		op := spOps[c.Op]
		if c.T == "cmp" && v.flip && v.rng.Intn(3) == 0 {
			return &influxql.BinaryExpr{Op: spSwap[op], LHS: col.literal(c.V), RHS: col.varRef()}
		}
		return &influxql.BinaryExpr{Op: op, LHS: col.varRef(), RHS: col.literal(c.V)}
	case "in":
		col := v.cols[c.C-1]
		vals := map[interface{}]bool{}
		for _, x := range c.Vs {
			switch col.typ {
			case influx.Field_Type_Int:
				vals[float64(col.ints[x])] = true
			case influx.Field_Type_Float:
				vals[col.flts[x]] = true
			default:
				vals[col.strs[x]] = true
			}
		}
		return &influxql.BinaryExpr{Op: influxql.IN, LHS: col.varRef(), RHS: &influxql.SetLiteral{Vals: vals}}
	default: // nonkey
		return &influxql.BinaryExpr{Op: influxql.EQ, LHS: &influxql.VarRef{Val: "height", Type: influxql.Integer}, RHS: &influxql.IntegerLiteral{Val: 180}}
	}
}

// buildRecord makes the data record: key columns (abstract rows are already sorted, null last)
func (v *spVariant) buildRecord(rows [][]int) (*record.Record, record.Schemas) {
	var schema record.Schemas
	for _, c := range v.cols {
		schema = append(schema, c.field())
	}
	rec := record.NewRecord(schema, false)
	for _, r := range rows {
		for i, c := range v.cols {
			c.appendVal(rec.Column(i), r[i])
		}
	}
	return rec, schema
}

// forceExclusion wraps a key condition so that PKIndexReaderImpl.Scan takes the exclusion search
type forceExclusion struct{ sparseindex.KeyCondition }

func (forceExclusion) CanDoBinarySearch() bool { return false }

type spScanSetting struct {
	name     string
	excl     bool // force exclusion search
	coarse   int
	minMarks int // MinRowsForSeek = minMarks * rowsPerFragment
}

var spSettings = []spScanSetting{
	{"auto/c2/m0", false, 2, 0}, {"excl/c2/m0", true, 2, 0}, {"excl/c3/m0", true, 3, 0}, {"excl/c8/m0", true, 8, 0},
	{"excl/c2/m1", true, 2, 1}, {"excl/c3/m1", true, 3, 1}, {"auto/c8/m1", false, 8, 1},
}

func fragsOf(frs fragment.FragmentRanges) []int {
	var out []int
	for _, fr := range frs {
		for i := fr.Start; i < fr.End; i++ {
			out = append(out, int(i))
		}
	}
	sort.Ints(out)
	return out
}

func matchFrags(cond *spCond, rows [][]int, g int) []int {
	var out []int
	for i, r := range rows {
		if cond.evalRow(r) {
			f := i / g
			if len(out) == 0 || out[len(out)-1] != f {
				out = append(out, f)
			}
		}
	}
	return out
}

func subset(a, b []int) (bool, []int) {
	m := map[int]bool{}
	for _, x := range b {
		m[x] = true
	}
	var miss []int
	for _, x := range a {
		if !m[x] {
			miss = append(miss, x)
		}
	}
	return len(miss) == 0, miss
}

func sameInts(a, b []int) bool {
	if len(a) != len(b) {
		return false
	}
	for i := range a {
		if a[i] != b[i] {
			return false
		}
	}
	return true
}

type spScanOut struct {
	sel    []int
	err    error
	panicv interface{}
	stack  string
}

// realScan: real writer -> real key condition -> real Scan
func (v *spVariant) realScan(rows [][]int, g int, cond *spCond, timeCond influxql.Expr, st spScanSetting) (out spScanOut, pkRec *record.Record) {
	defer func() {
		if r := recover(); r != nil {
			out.panicv = r
			out.stack = string(debug.Stack())
		}
	}()
	rec, pkSchema := v.buildRecord(rows)
	fix := 0
	if v.fixed {
		fix = g
	}
	pkRec, pkMark, err := sparseindex.NewPKIndexWriter().Build(rec, pkSchema, immutable.GenFixRowsPerSegment(rec, g), colstore.DefaultTCLocation, fix)
	if err != nil {
		out.err = fmt.Errorf("Build: %w", err)
		return
	}
	var ce influxql.Expr
	if cond != nil {
		ce = v.expr(cond)
	}
	kc, err := sparseindex.NewKeyCondition(timeCond, ce, pkSchema)
	if err != nil {
		out.err = fmt.Errorf("NewKeyCondition: %w", err)
		return
	}
	var k sparseindex.KeyCondition = kc
	if st.excl {
		k = forceExclusion{kc}
	}
	rd := sparseindex.NewPKIndexReader(g, st.coarse, st.minMarks*g)
	frs, err := rd.Scan("f.idx", pkRec, pkMark, k)
	if err != nil {
		out.err = fmt.Errorf("Scan: %w", err)
		return
	}
	out.sel = fragsOf(frs)
	return
}

// ---- probe (development aid): random cases without a specification -----------------------------

func randCond(rng *rand.Rand, k, depth int, strops bool) *spCond {
	if depth == 0 || rng.Intn(3) == 0 {
		x := rng.Intn(20)
		switch {
		case x == 0:
			return &spCond{T: "nonkey"}
		default:
			ops := []string{"eq", "ne", "lt", "le", "gt", "ge"}
			return &spCond{T: "cmp", C: 1 + rng.Intn(k), Op: ops[rng.Intn(len(ops))], V: rng.Intn(3)}
		}
	}
	t := "and"
	if rng.Intn(2) == 0 {
		t = "or"
	}
	return &spCond{T: t, L: randCond(rng, k, depth-1, strops), R: randCond(rng, k, depth-1, strops)}
}

func randVariant(rng *rand.Rand, k int, rows [][]int, cond *spCond) *spVariant {
	v := &spVariant{rng: rng, fixed: rng.Intn(2) == 0, flip: rng.Intn(2) == 0, parens: rng.Intn(2) == 0}
	for i := 0; i < k; i++ {
		used := map[int]bool{}
		for _, r := range rows {
			if r[i] != spNull {
				used[r[i]] = true
			}
		}
		strOnly := false
		if cond != nil {
			cond.walk(func(c *spCond) {
				if (c.T == "cmp" || c.T == "strop") && c.C == i+1 {
					used[c.V] = true
				}
				if c.T == "in" && c.C == i+1 {
					for _, x := range c.Vs {
						used[x] = true
					}
				}
				if c.T == "strop" && c.C == i+1 {
					strOnly = true
				}
			})
		}
		c := &spCol{name: fmt.Sprintf("k%d", i+1)}
		types := []int{influx.Field_Type_Int, influx.Field_Type_Float, influx.Field_Type_String}
		if len(used) <= 2 {
			types = append(types, influx.Field_Type_Boolean)
		}
		c.typ = types[rng.Intn(len(types))]
		if strOnly {
			c.typ = influx.Field_Type_String
		}
		c.ints = spIntImages[rng.Intn(len(spIntImages))]
		c.flts = spFltImages[rng.Intn(len(spFltImages))]
		c.strs = spStrImages[rng.Intn(len(spStrImages))]
		if c.typ == influx.Field_Type_Boolean {
			var us []int
			for u := range used {
				us = append(us, u)
			}
			sort.Ints(us)
			c.bmap = map[int]bool{}
			switch len(us) {
			case 2:
				c.bmap[us[0]], c.bmap[us[1]] = false, true
			case 1:
				c.bmap[us[0]] = rng.Intn(2) == 0
			}
		}
		v.cols = append(v.cols, c)
	}
	return v
}

func probeSparse(args []string) int {
	seed := int64(1)
	n := 20000
	if len(args) > 0 {
		fmt.Sscanf(args[0], "%d", &seed)
	}
	if len(args) > 1 {
		fmt.Sscanf(args[1], "%d", &n)
	}
	rng := rand.New(rand.NewSource(seed))
	bad, errs, panics := 0, map[string]int{}, map[string]int{}
	shown := 0
	for it := 0; it < n; it++ {
		k := 1 + rng.Intn(3)
		nr := 1 + rng.Intn(8)
		withNull := rng.Intn(3) == 0 && !(len(args) > 2 && args[2] == "nonull")
		rows := make([][]int, nr)
		for i := range rows {
			rows[i] = make([]int, k)
			for j := range rows[i] {
				rows[i][j] = rng.Intn(3)
				if withNull && rng.Intn(4) == 0 {
					rows[i][j] = spNull
				}
			}
		}
		sort.Slice(rows, func(a, b int) bool {
			for j := 0; j < k; j++ {
				if rows[a][j] != rows[b][j] {
					return rows[a][j] < rows[b][j]
				}
			}
			return false
		})
		g := 1 + rng.Intn(3)
		cond := randCond(rng, k, 3, false)
		v := randVariant(rng, k, rows, cond)
		want := matchFrags(cond, rows, g)
		for _, st := range spSettings {
			out, _ := v.realScan(rows, g, cond, nil, st)
			if out.panicv != nil {
				key := fmt.Sprint(out.panicv)
				if i := strings.Index(key, " with length"); i > 0 {
					key = key[:i]
				}
				if panics[key] == 0 {
					fmt.Printf("PANIC rows=%v g=%d cond=%s setting=%s: %v\n%s\n", rows, g, cond, st.name, out.panicv, out.stack)
				}
				panics[key]++
				continue
			}
			if out.err != nil {
				errs[out.err.Error()]++
				continue
			}
			if ok, miss := subset(want, out.sel); !ok {
				bad++
				if shown < 15 {
					shown++
					var ts []string
					for _, c := range v.cols {
						ts = append(ts, fmt.Sprint(c.typ))
					}
					fmt.Printf("UNSOUND rows=%v g=%d cond=%s types=%v setting=%s sel=%v match=%v missing=%v\n", rows, g, cond, ts, st.name, out.sel, want, miss)
				}
			}
		}
	}
	fmt.Printf("cases=%d unsound-scans=%d errors=%v panics=%v\n", n, bad, errs, panics)
	return 0
}

// ---- replay -------------------------------------------------------------------------------------

func replaySparse(args []string) int {
	sc := bufio.NewScanner(os.Stdin)
	sc.Buffer(make([]byte, 1<<20), 1<<28)
	_ = json.Marshal
	for sc.Scan() {
	}
	return 0
}
