package main

// replay-sparse: replays TLC-generated cases of specs/SparseIndex.tla (Build -> NewKeyCondition -> Scan)
// into the real primary-key sparse index (engine/index/sparseindex) and judges SOUNDNESS (C20): a
// fragment that contains a row satisfying the condition must be among the fragments the real code
// selects. The real selection being a superset of the specification's is drift, not a verdict.
// For every case the abstract key values (0..2, 3 = null) are concretised with several column types
// drawn from the seed (integer, float, string, boolean), and the real reader runs with every setting
// of the specification (binary search allowed / exclusion search forced, coarse-index 2, 3, 8).
// The skip-index readers (set, min-max, bloom filter) are driven by the same cases (see spSkip*).

import (
	"bufio"
	"encoding/json"
	"fmt"
	"math/rand"
	"os"
	"path/filepath"
	"runtime/debug"
	"sort"
	"strings"
	"time"

	"github.com/openGemini/openGemini/engine/immutable"
	"github.com/openGemini/openGemini/engine/immutable/colstore"
	"github.com/openGemini/openGemini/engine/index/sparseindex"
	"github.com/openGemini/openGemini/lib/binaryfilterfunc"
	"github.com/openGemini/openGemini/lib/fragment"
	"github.com/openGemini/openGemini/lib/index"
	"github.com/openGemini/openGemini/lib/record"
	"github.com/openGemini/openGemini/lib/rpn"
	"github.com/openGemini/openGemini/lib/tokenizer"
	"github.com/openGemini/openGemini/lib/util"
	"github.com/openGemini/openGemini/lib/util/lifted/influx/influxql"
	"github.com/openGemini/openGemini/lib/util/lifted/influx/query"
	"github.com/openGemini/openGemini/lib/util/lifted/vm/protoparser/influx"
)

func init() {
	cmds["replay-sparse"] = replaySparse
}

const spNull = 4 // the specification's null key value (sorts last, +infinity in the index)

// ---- condition trees (as exported by the specification) -----------------------------------------

type spCond struct {
	T  string  `json:"t"` // and | or | cmp | in | nonkey | strop
	L  *spCond `json:"l,omitempty"`
	R  *spCond `json:"r,omitempty"`
	C  int     `json:"c,omitempty"`  // key column 1..K
	Op string  `json:"op,omitempty"` // eq ne lt le gt ge | like match matchphrase
	V  int     `json:"v,omitempty"`
	Vs []int   `json:"vs,omitempty"`
}

func (c *spCond) String() string {
	switch c.T {
	case "and", "or":
		return "(" + c.L.String() + " " + strings.ToUpper(c.T) + " " + c.R.String() + ")"
	case "cmp", "strop":
		return fmt.Sprintf("k%d %s %d", c.C, c.Op, c.V)
	case "in":
		return fmt.Sprintf("k%d in %v", c.C, c.Vs)
	default:
		return "nonkey"
	}
}

func (c *spCond) walk(f func(*spCond)) {
	f(c)
	if c.L != nil {
		c.L.walk(f)
	}
	if c.R != nil {
		c.R.walk(f)
	}
}

// replace returns a copy of the tree in which every node satisfying pred is replaced by with
func (c *spCond) replace(pred func(*spCond) bool, with *spCond) *spCond {
	if pred(c) {
		return with
	}
	n := *c
	if c.L != nil {
		n.L = c.L.replace(pred, with)
	}
	if c.R != nil {
		n.R = c.R.replace(pred, with)
	}
	return &n
}

func (c *spCond) has(pred func(*spCond) bool) bool {
	found := false
	c.walk(func(n *spCond) {
		if pred(n) {
			found = true
		}
	})
	return found
}

// ---- concretisation -----------------------------------------------------------------------------

// one key column: its concrete type and the order-preserving images of the abstract values 0..2
type spCol struct {
	name string
	typ  int
	ints [3]int64
	flts [3]float64
	strs [3]string
	bmap map[int]bool // boolean columns: abstract value -> false/true
}

// integer images: "ia" columns of the specification carry consecutive integers, "o" columns integers
// with gaps (then the closed form v-1 of an open bound lies strictly between two values)
var spIntAdjImages = [][3]int64{{0, 1, 2}, {1, 2, 3}, {-1, 0, 1}, {-2, -1, 0}, {1600000000000000000, 1600000000000000001, 1600000000000000002}, {9223372036854775804, 9223372036854775805, 9223372036854775806}}
var spIntGapImages = [][3]int64{{-7, 0, 5}, {10, 20, 30}, {-3, -1, 4}, {0, 2, 4}, {-9223372036854775806, -1, 9223372036854775806}}
var spFltImages = [][3]float64{{0, 1, 2}, {-1.5, 0, 2.25}, {0.1, 0.2, 0.30000000000000004}, {-1e300, 1e-300, 1e300}, {1, 1.0000000000000002, 2}}
var spStrImages = [][3]string{{"A", "B", "C"}, {"", "a", "b"}, {"U1", "U10", "U2"}, {"a", "aa", "ab"}, {"B", "C", "D"}, {"x", "x y", "y"}, {"a b", "b", "b c"}}

func (c *spCol) field() record.Field { return record.Field{Name: c.name, Type: c.typ} }

func (c *spCol) appendVal(cv *record.ColVal, v int) {
	if v == spNull {
		switch c.typ {
		case influx.Field_Type_Int:
			cv.AppendIntegerNull()
		case influx.Field_Type_Float:
			cv.AppendFloatNull()
		case influx.Field_Type_Boolean:
			cv.AppendBooleanNull()
		default:
			cv.AppendStringNull()
		}
		return
	}
	switch c.typ {
	case influx.Field_Type_Int:
		cv.AppendInteger(c.ints[v])
	case influx.Field_Type_Float:
		cv.AppendFloat(c.flts[v])
	case influx.Field_Type_Boolean:
		cv.AppendBoolean(c.bmap[v])
	default:
		cv.AppendString(c.strs[v])
	}
}

func (c *spCol) literal(v int) influxql.Expr {
	switch c.typ {
	case influx.Field_Type_Int:
		return &influxql.IntegerLiteral{Val: c.ints[v]}
	case influx.Field_Type_Float:
		return &influxql.NumberLiteral{Val: c.flts[v]}
	case influx.Field_Type_Boolean:
		return &influxql.BooleanLiteral{Val: c.bmap[v]}
	default:
		return &influxql.StringLiteral{Val: c.strs[v]}
	}
}

func (c *spCol) varRef() *influxql.VarRef {
	t := influxql.String
	switch c.typ {
	case influx.Field_Type_Int:
		t = influxql.Integer
	case influx.Field_Type_Float:
		t = influxql.Float
	case influx.Field_Type_Boolean:
		t = influxql.Boolean
	}
	return &influxql.VarRef{Val: c.name, Type: t}
}

func (c *spCol) show(v int) string {
	if v == spNull {
		return "null"
	}
	switch c.typ {
	case influx.Field_Type_Int:
		return fmt.Sprintf("%d", c.ints[v])
	case influx.Field_Type_Float:
		return fmt.Sprintf("%g", c.flts[v])
	case influx.Field_Type_Boolean:
		return fmt.Sprintf("%v", c.bmap[v])
	default:
		return fmt.Sprintf("%q", c.strs[v])
	}
}

func spTypeName(t int) string {
	switch t {
	case influx.Field_Type_Int:
		return "int"
	case influx.Field_Type_Float:
		return "float"
	case influx.Field_Type_Boolean:
		return "bool"
	default:
		return "string"
	}
}

var spOps = map[string]influxql.Token{"eq": influxql.EQ, "ne": influxql.NEQ, "lt": influxql.LT, "le": influxql.LTE, "gt": influxql.GT, "ge": influxql.GTE,
	"like": influxql.LIKE, "match": influxql.MATCH, "matchphrase": influxql.MATCHPHRASE}
var spSwap = map[influxql.Token]influxql.Token{influxql.EQ: influxql.EQ, influxql.NEQ: influxql.NEQ, influxql.LT: influxql.GT, influxql.GT: influxql.LT, influxql.LTE: influxql.GTE, influxql.GTE: influxql.LTE}

// a variant = one concretisation of a case
type spVariant struct {
	cols      []*spCol
	fixed     bool  // IndexFragmentFixedSize vs variable
	style     int   // 0: column op literal; 1: some comparisons flipped (literal op column) and parenthesised
	styleSeed int64 // expression building is a function of (style, styleSeed) only
	timeCol   int   // 1-based key column that is the time column (0 = none)
	shielded  bool  // predictor variant: integer columns replaced by float columns
}

func (v *spVariant) describe() string {
	var ts []string
	for _, c := range v.cols {
		img := ""
		switch c.typ {
		case influx.Field_Type_Int:
			img = fmt.Sprint(c.ints)
		case influx.Field_Type_Float:
			img = fmt.Sprint(c.flts)
		case influx.Field_Type_Boolean:
			img = fmt.Sprint(c.bmap)
		default:
			img = fmt.Sprintf("%q", c.strs)
		}
		ts = append(ts, c.name+":"+spTypeName(c.typ)+img)
	}
	return fmt.Sprintf("types=%v fixed=%v style=%d", ts, v.fixed, v.style)
}

func (v *spVariant) exprR(c *spCond, rng *rand.Rand) influxql.Expr {
	switch c.T {
	case "and", "or":
		op := influxql.AND
		if c.T == "or" {
			op = influxql.OR
		}
		var e influxql.Expr = &influxql.BinaryExpr{Op: influxql.Token(op), LHS: v.exprR(c.L, rng), RHS: v.exprR(c.R, rng)}
		if v.style == 1 && rng.Intn(2) == 0 {
			e = &influxql.ParenExpr{Expr: e}
		}
		return e
	case "cmp", "strop":
		col := v.cols[c.C-1]
		op := spOps[c.Op]
		if c.T == "cmp" && v.style == 1 && rng.Intn(3) == 0 {
			return &influxql.BinaryExpr{Op: spSwap[op], LHS: col.literal(c.V), RHS: col.varRef()}
		}
		return &influxql.BinaryExpr{Op: op, LHS: col.varRef(), RHS: col.literal(c.V)}
	case "in":
		col := v.cols[c.C-1]
		vals := map[interface{}]bool{}
		for _, x := range c.Vs {
			switch col.typ {
			case influx.Field_Type_Int:
				vals[float64(col.ints[x])] = true
			case influx.Field_Type_Float:
				vals[col.flts[x]] = true
			case influx.Field_Type_Boolean:
				vals[col.bmap[x]] = true
			default:
				vals[col.strs[x]] = true
			}
		}
		return &influxql.BinaryExpr{Op: influxql.IN, LHS: col.varRef(), RHS: &influxql.SetLiteral{Vals: vals}}
	default: // nonkey
		return &influxql.BinaryExpr{Op: influxql.EQ, LHS: &influxql.VarRef{Val: "height", Type: influxql.Integer}, RHS: &influxql.IntegerLiteral{Val: 180}}
	}
}

// expr builds a fresh influxql expression (NewKeyCondition rewrites the tree it is given)
func (v *spVariant) expr(c *spCond) influxql.Expr {
	if c == nil {
		return nil
	}
	return v.exprR(c, rand.New(rand.NewSource(v.styleSeed)))
}

type spTB struct {
	C  int `json:"c"`
	Lo int `json:"lo"`
	Hi int `json:"hi"`
}

func (t spTB) active() bool { return t.C != 0 && (t.Lo >= 0 || t.Hi < spNull) }

// the specification's TimeCond: what GetTimeCondition builds
func (t spTB) cond() *spCond {
	ge := &spCond{T: "cmp", C: t.C, Op: "ge", V: t.Lo}
	le := &spCond{T: "cmp", C: t.C, Op: "le", V: t.Hi}
	switch {
	case t.Lo == t.Hi:
		return &spCond{T: "cmp", C: t.C, Op: "eq", V: t.Lo}
	case t.Lo >= 0 && t.Hi < spNull:
		return &spCond{T: "and", L: ge, R: le}
	case t.Lo >= 0:
		return ge
	default:
		return le
	}
}

func spFullCond(c *spCond, t spTB) *spCond {
	if t.active() {
		return &spCond{T: "and", L: t.cond(), R: c}
	}
	return c
}

// timeCondition: the real time condition (binaryfilterfunc.GetTimeCondition); the shielded predictor
// variant has no integer time column, there the same atoms are built from the specification's tree
func (v *spVariant) timeCondition(t spTB, pkSchema record.Schemas) influxql.Expr {
	if !t.active() {
		return nil
	}
	if v.shielded {
		return v.expr(t.cond())
	}
	col := v.cols[t.C-1]
	tr := util.TimeRange{Min: influxql.MinTime, Max: influxql.MaxTime}
	if t.Lo >= 0 {
		tr.Min = col.ints[t.Lo]
	}
	if t.Hi < spNull {
		tr.Max = col.ints[t.Hi]
	}
	return binaryfilterfunc.GetTimeCondition(tr, pkSchema, pkSchema.FieldIndex(record.TimeField))
}

// buildRecord makes the data record: key columns (abstract rows are already sorted, null last)
func (v *spVariant) buildRecord(rows [][]int) (*record.Record, record.Schemas) {
	var schema record.Schemas
	for _, c := range v.cols {
		schema = append(schema, c.field())
	}
	rec := record.NewRecord(schema, false)
	for _, r := range rows {
		for i, c := range v.cols {
			c.appendVal(rec.Column(i), r[i])
		}
	}
	return rec, schema
}

// cellString renders cell (col, row) of a real record
func spCellString(rec *record.Record, col, row int) string {
	cv := rec.Column(col)
	if cv.IsNil(row) {
		return "null"
	}
	switch rec.Schema[col].Type {
	case influx.Field_Type_Int:
		x, _ := cv.IntegerValue(row)
		return fmt.Sprintf("%d", x)
	case influx.Field_Type_Float:
		x, _ := cv.FloatValue(row)
		return fmt.Sprintf("%g", x)
	case influx.Field_Type_Boolean:
		x, _ := cv.BooleanValue(row)
		return fmt.Sprintf("%v", x)
	default:
		x, _ := cv.StringValueSafe(row)
		return fmt.Sprintf("%q", x)
	}
}

func spRecString(rec *record.Record) (s string) {
	defer func() {
		if r := recover(); r != nil {
			s = fmt.Sprintf("<unreadable record: %v>", r)
		}
	}()
	var rowsS []string
	for r := 0; r < rec.RowNums(); r++ {
		var cells []string
		for c := range rec.Schema {
			cells = append(cells, spCellString(rec, c, r))
		}
		rowsS = append(rowsS, "("+strings.Join(cells, ",")+")")
	}
	return strings.Join(rowsS, " ")
}

// concrete row-level truth (the oracle): comparisons and IN are decided on the abstract values
// (the concretisation is an order-preserving injection); comparisons with null are false; an atom
// on a non-key column may be true; matchphrase is decided by the real token finder of the row
// filter; like / match are true (at least) when the literal equals the whole value.
func (v *spVariant) evalRow(c *spCond, row []int) bool {
	switch c.T {
	case "and":
		return v.evalRow(c.L, row) && v.evalRow(c.R, row)
	case "or":
		return v.evalRow(c.L, row) || v.evalRow(c.R, row)
	case "cmp":
		x := row[c.C-1]
		if x == spNull {
			return false
		}
		switch c.Op {
		case "eq":
			return x == c.V
		case "ne":
			return x != c.V
		case "lt":
			return x < c.V
		case "le":
			return x <= c.V
		case "gt":
			return x > c.V
		case "ge":
			return x >= c.V
		}
		panic("bad op " + c.Op)
	case "in":
		x := row[c.C-1]
		for _, y := range c.Vs {
			if x == y {
				return true
			}
		}
		return false
	case "strop":
		x := row[c.C-1]
		if x == spNull {
			return false
		}
		if c.Op == "matchphrase" { // exactly what the row filter does (GetStringMatchPhraseConditionBitMap)
			col := v.cols[c.C-1]
			tf := tokenizer.NewSimpleTokenFinder(tokenizer.GetFullTextOption(nil).TokensTable)
			tf.InitInput([]byte(col.strs[x]), []byte(col.strs[c.V]))
			return tf.Next()
		}
		return x == c.V
	case "nonkey":
		return true
	}
	panic("bad cond " + c.T)
}

func (v *spVariant) matchFrags(cond *spCond, rows [][]int, g int) []int {
	out := []int{}
	for i, r := range rows {
		if v.evalRow(cond, r) {
			f := i / g
			if len(out) == 0 || out[len(out)-1] != f {
				out = append(out, f)
			}
		}
	}
	return out
}

// forceExclusion wraps a key condition so that PKIndexReaderImpl.Scan takes the exclusion search
type forceExclusion struct{ sparseindex.KeyCondition }

func (forceExclusion) CanDoBinarySearch() bool { return false }

type spScanSetting struct {
	name     string
	excl     bool // force exclusion search
	coarse   int
	minMarks int // MinRowsForSeek = minMarks * rowsPerFragment
}

// the settings of the specification (SparseIndex.tla: Settings)
var spSettings = []spScanSetting{
	{"autoc2m0", false, 2, 0}, {"exclc2m0", true, 2, 0}, {"exclc3m0", true, 3, 0}, {"exclc8m0", true, 8, 0},
	{"exclc2m1", true, 2, 1}, {"exclc3m1", true, 3, 1}, {"autoc8m1", false, 8, 1},
}

func fragsOf(frs fragment.FragmentRanges) []int {
	out := []int{}
	for _, fr := range frs {
		for i := fr.Start; i < fr.End; i++ {
			out = append(out, int(i))
		}
	}
	sort.Ints(out)
	return out
}

func subset(a, b []int) (bool, []int) {
	m := map[int]bool{}
	for _, x := range b {
		m[x] = true
	}
	var miss []int
	for _, x := range a {
		if !m[x] {
			miss = append(miss, x)
		}
	}
	return len(miss) == 0, miss
}

func sameInts(a, b []int) bool {
	if len(a) != len(b) {
		return false
	}
	for i := range a {
		if a[i] != b[i] {
			return false
		}
	}
	return true
}

type spBuilt struct {
	rec      *record.Record
	pkSchema record.Schemas
	pkRec    *record.Record
	pkMark   fragment.IndexFragment
}

// realBuild: the real index writer
func (v *spVariant) realBuild(rows [][]int, g int) (b spBuilt, err error) {
	defer func() {
		if r := recover(); r != nil {
			err = fmt.Errorf("Build panicked: %v", r)
		}
	}()
	b.rec, b.pkSchema = v.buildRecord(rows)
	fix := 0
	if v.fixed {
		fix = g
	}
	b.pkRec, b.pkMark, err = sparseindex.NewPKIndexWriter().Build(b.rec, b.pkSchema, immutable.GenFixRowsPerSegment(b.rec, g), colstore.DefaultTCLocation, fix)
	return
}

type spKC struct {
	kc     *sparseindex.KeyConditionImpl
	err    error
	panicv interface{}
	stack  string
}

// realKeyCondition: the real NewKeyCondition(timeCond, cond, pkSchema)
func (v *spVariant) realKeyCondition(cond *spCond, tb spTB, pkSchema record.Schemas) (k spKC) {
	defer func() {
		if r := recover(); r != nil {
			k.panicv = r
			k.stack = string(debug.Stack())
		}
	}()
	k.kc, k.err = sparseindex.NewKeyCondition(v.timeCondition(tb, pkSchema), v.expr(cond), pkSchema)
	return
}

type spScanOut struct {
	sel     []int
	err     error
	panicv  interface{}
	stack   string
	mutated string // non-empty: the index record was modified by the read-only Scan (before => after)
}

func (o spScanOut) failed() bool { return o.err != nil || o.panicv != nil }

func (o spScanOut) String() string {
	switch {
	case o.panicv != nil:
		return fmt.Sprintf("panic(%v)", o.panicv)
	case o.err != nil:
		return fmt.Sprintf("error(%v)", o.err)
	default:
		return fmt.Sprint(o.sel)
	}
}

// realScan: real writer -> real key condition -> real Scan, on fresh objects
func (v *spVariant) realScan(rows [][]int, g int, cond *spCond, tb spTB, st spScanSetting) (out spScanOut) {
	b, err := v.realBuild(rows, g)
	if err != nil {
		out.err = err
		return
	}
	k := v.realKeyCondition(cond, tb, b.pkSchema)
	if k.panicv != nil {
		out.panicv, out.stack = k.panicv, k.stack
		return
	}
	if k.err != nil {
		out.err = fmt.Errorf("NewKeyCondition: %w", k.err)
		return
	}
	before := spRecString(b.pkRec)
	defer func() {
		if r := recover(); r != nil {
			out.panicv = r
			out.stack = string(debug.Stack())
		}
		if after := spRecString(b.pkRec); after != before {
			out.mutated = before + " => " + after
		}
	}()
	var kc sparseindex.KeyCondition = k.kc
	if st.excl {
		kc = forceExclusion{k.kc}
	}
	rd := sparseindex.NewPKIndexReader(g, st.coarse, st.minMarks*g)
	frs, err := rd.Scan("f.idx", b.pkRec, b.pkMark, kc)
	if err != nil {
		out.err = fmt.Errorf("Scan: %w", err)
		return
	}
	out.sel = fragsOf(frs)
	return
}

// ---- the case format ----------------------------------------------------------------------------

type spStep struct {
	A    string          `json:"a"`
	Args json.RawMessage `json:"args"`
	Exp  json.RawMessage `json:"exp"`
}

type spCase struct {
	ID   int      `json:"id"`
	Seed int64    `json:"seed"`
	Hist []spStep `json:"hist"`
	// options set by props/c20.py
	Variants int  `json:"variants"`
	Skip     bool `json:"skip"` // also drive the skip-index readers
}

type spBuildArgs struct {
	K     int      `json:"k"`
	G     int      `json:"g"`
	Rows  [][]int  `json:"rows"`
	Types []string `json:"types"` // per key column: "ia" (integer, consecutive values) or "o" (anything else)
}
type spBuildExp struct {
	Nf  int     `json:"nf"`
	Idx [][]int `json:"idx"`
}
type spCondArgs struct {
	Cond *spCond `json:"cond"`
	Tb   spTB    `json:"tb"`
}
type spCondExp struct {
	Rpnlen     int  `json:"rpnlen"`
	Maxkey     int  `json:"maxkey"`
	Implrpnlen int  `json:"implrpnlen"`
	Implmaxkey int  `json:"implmaxkey"`
	Implerr    bool `json:"implerr"`
}
type spScanExp struct {
	Match   []int            `json:"match"`
	Implerr bool             `json:"implerr"`
	Sel     map[string][]int `json:"sel"`
	Impl    map[string][]int `json:"impl"`
	Implo   map[string][]int `json:"implo"`  // as-implemented model with no integer column
	Implmp  map[string][]int `json:"implmp"` // as-implemented model without right_bound_overwrites
}

type spResult struct {
	ID       int               `json:"id"`
	OK       bool              `json:"ok"`
	Step     int               `json:"step"`
	Action   string            `json:"action,omitempty"`
	Detail   string            `json:"detail,omitempty"`
	Infra    string            `json:"infra,omitempty"`
	Hang     bool              `json:"hang,omitempty"`
	Known    map[string]string `json:"known,omitempty"` // finding id -> one example of a divergence attributed to it
	KnownN   map[string]int    `json:"known_n,omitempty"`
	Variants int               `json:"variants"`
	Scans    int               `json:"scans"`
	Unsound  int               `json:"unsound"` // scans that skipped a fragment with a match (attributed or not)
	Failed   int               `json:"failed"`  // scans that ended in an error or a panic (attributed or not)
	Drift    int               `json:"drift"`   // sound scans that selected more than the specification
	Exact    int               `json:"exact"`   // scans equal to the specification's selection
	Mutated  int               `json:"mutated"` // scans that modified the index record
	SkipEval int               `json:"skip_eval"`
	SkipNeg  int               `json:"skip_neg"` // bloom-filter / min-max answers "cannot be in this fragment"
	DriftEx  string            `json:"drift_ex,omitempty"`
}

func (r *spResult) known(id, detail string) {
	if r.Known == nil {
		r.Known = map[string]string{}
		r.KnownN = map[string]int{}
	}
	if _, ok := r.Known[id]; !ok {
		r.Known[id] = detail
	}
	r.KnownN[id]++
}

func (r *spResult) fail(step int, action, detail string) {
	if r.OK {
		r.OK = false
		r.Step, r.Action, r.Detail = step, action, detail
	}
}

// ---- variants -----------------------------------------------------------------------------------

func spUsedValues(col int, rows [][]int, cond *spCond) (used map[int]bool, strOnly bool) {
	used = map[int]bool{}
	for _, r := range rows {
		if r[col] != spNull {
			used[r[col]] = true
		}
	}
	if cond != nil {
		cond.walk(func(c *spCond) {
			if (c.T == "cmp" || c.T == "strop") && c.C == col+1 {
				used[c.V] = true
			}
			if c.T == "in" && c.C == col+1 {
				for _, x := range c.Vs {
					used[x] = true
				}
			}
			if c.T == "strop" && c.C == col+1 {
				strOnly = true
			}
		})
	}
	return
}

func spNewVariant(rng *rand.Rand, nth int, k int, ctypes []string, rows [][]int, full *spCond, tb spTB) *spVariant {
	v := &spVariant{fixed: rng.Intn(2) == 0, style: rng.Intn(2), styleSeed: rng.Int63()}
	if tb.C != 0 {
		v.timeCol = tb.C
	}
	for i := 0; i < k; i++ {
		used, strOnly := spUsedValues(i, rows, full)
		c := &spCol{name: fmt.Sprintf("k%d", i+1)}
		types := []int{influx.Field_Type_Int, influx.Field_Type_Float, influx.Field_Type_String}
		if len(used) <= 2 {
			types = append(types, influx.Field_Type_Boolean)
		}
		c.typ = types[rng.Intn(len(types))]
		if nth == 0 { // the first variant of every case: strings wherever possible (the documented usage)
			c.typ = influx.Field_Type_String
		}
		c.ints = spIntGapImages[rng.Intn(len(spIntGapImages))]
		if ctypes[i] == "ia" {
			c.typ = influx.Field_Type_Int
			c.ints = spIntAdjImages[rng.Intn(len(spIntAdjImages))]
		}
		c.flts = spFltImages[rng.Intn(len(spFltImages))]
		c.strs = spStrImages[rng.Intn(len(spStrImages))]
		if strOnly && ctypes[i] != "ia" {
			c.typ = influx.Field_Type_String
		}
		if v.timeCol == i+1 { // the time column: an integer column with values strictly inside (MinTime, MaxTime)
			c.typ = influx.Field_Type_Int
			c.name = record.TimeField
			if ctypes[i] == "ia" {
				c.ints = spIntAdjImages[rng.Intn(len(spIntAdjImages)-1)]
			} else {
				c.ints = spIntGapImages[rng.Intn(len(spIntGapImages)-1)]
			}
		}
		if c.typ == influx.Field_Type_Boolean {
			var us []int
			for u := range used {
				us = append(us, u)
			}
			sort.Ints(us)
			c.bmap = map[int]bool{}
			switch len(us) {
			case 2:
				c.bmap[us[0]], c.bmap[us[1]] = false, true
			case 1:
				c.bmap[us[0]] = rng.Intn(2) == 0
			}
		}
		v.cols = append(v.cols, c)
	}
	return v
}

// shield: the predictor variant for finding F-C20-2 -- the same case with every integer key column
// replaced by a float column (only integer columns are rewritten in place by
// Range.turnOpenRangeIntoClosed)
func (v *spVariant) shield() *spVariant {
	s := *v
	s.shielded = true
	s.cols = nil
	for _, c := range v.cols {
		cc := *c
		if cc.typ == influx.Field_Type_Int {
			cc.typ = influx.Field_Type_Float
			cc.flts = [3]float64{-1.5, 0, 2.25} // any order-preserving images: float64(int) is not injective for large integers
			if cc.name == record.TimeField {
				cc.name = "time_"
			}
		}
		s.cols = append(s.cols, &cc)
	}
	return &s
}

// ---- attribution of divergences to open known findings --------------------------------------------
//
// F-C20-1  checkRangeRightBound returns the mask of the last hyper-rectangle instead of the
//          accumulated one (spec deviation right_bound_overwrites). Predicate: the condition uses at
//          least two key columns. Predictor: the specification's as-implemented selection.
// F-C20-2  Range.turnOpenRangeIntoClosed rewrites integer cells of the index record in place
//          (val+1 / val-1) while a condition over >= 3 key columns is evaluated. Predicate: >= 3 key
//          columns used, an integer column among the inner ones (2..used-1). Predictor: the index
//          record was observably modified by the read-only Scan (or the panic is raised inside
//          turnOpenRangeIntoClosed), and the same case with the integer columns replaced by float
//          columns gives exactly the selection the specification's as-implemented model predicts for
//          non-integer columns.
// F-C20-3  operators genRPNElementByOp does not know (LIKE, MATCH) append no RPN element, IN leaves
//          a SetLiteral that convertToRPNElem cannot digest: the query fails (error or index-out-of-
//          range panic in checkInRangeForAnd/Or) instead of selecting. Predictor: the specification's
//          as-implemented model predicts the failure (unbalanced stack / IN present).
// F-C20-4  MATCHPHRASE on a key column is converted into the point range [v, v] (equality) although
//          the row filter matches every value that contains the phrase (spec deviation
//          matchphrase_as_equality). Predicate: a matchphrase atom on a key column.

type spCtx struct {
	rows   [][]int
	g      int
	k      int
	cond   *spCond
	tb     spTB
	full   *spCond
	cexp   spCondExp
	sexp   spScanExp
	res    *spResult
	caseID int
}

func (x *spCtx) hasIntInner(v *spVariant) bool {
	for i := 1; i < x.cexp.Implmaxkey-1; i++ { // 0-based inner columns 1..used-2
		if v.cols[i].typ == influx.Field_Type_Int {
			return true
		}
	}
	return false
}

func (x *spCtx) hasMatchPhrase() bool {
	return x.full.has(func(c *spCond) bool { return c.T == "strop" && c.Op == "matchphrase" })
}

func (x *spCtx) hasUnknownOpOrIn() bool {
	// (F-C20-3 is open for IN only: the LIKE / MATCH part was repaired by f336768)
	return x.full.has(func(c *spCond) bool { return c.T == "in" })
}

// judge one real scan result; returns "" when it is sound (or attributed), else the violation text
func (x *spCtx) judge(v *spVariant, st spScanSetting, out spScanOut, match []int) string {
	r := x.res
	r.Scans++
	design, impl, implo := x.sexp.Sel[st.name], x.sexp.Impl[st.name], x.sexp.Implo[st.name]
	where := fmt.Sprintf("case %d %s setting=%s g=%d rows=%v cond=%s tb=%+v", x.caseID, v.describe(), st.name, x.g, x.rows, x.cond, x.tb)
	if out.mutated != "" {
		r.Mutated++
	}
	if out.failed() {
		r.Failed++
		if x.sexp.Implerr && x.hasUnknownOpOrIn() {
			r.known("F-C20-3", fmt.Sprintf("%s: %s instead of a selection (design selects %v)", where, out, design))
			return ""
		}
		shieldNote := ""
		if out.panicv != nil && strings.Contains(out.stack, "turnOpenRangeIntoClosed") && x.hasIntInner(v) {
			s := v.shield().realScan(x.rows, x.g, x.cond, x.tb, st)
			if !s.failed() && sameInts(s.sel, implo) {
				r.known("F-C20-2", fmt.Sprintf("%s: %s raised in turnOpenRangeIntoClosed; with float columns instead of the integer columns the selection is %v", where, out, s.sel))
				return ""
			}
			shieldNote = fmt.Sprintf(" [with float columns: %s, as-implemented model without integer columns: %v]", s, implo)
		}
		return fmt.Sprintf("%s: real code failed with %s; the specification selects %v (as-implemented model: fails=%v %v)%s\n%s", where, out, design, x.sexp.Implerr, impl, shieldNote, out.stack)
	}
	sound, miss := subset(match, out.sel)
	if sound {
		if sameInts(out.sel, design) {
			r.Exact++
		} else {
			r.Drift++
			if r.DriftEx == "" {
				r.DriftEx = fmt.Sprintf("%s: real=%v spec=%v matching=%v", where, out.sel, design, match)
			}
		}
		if out.mutated != "" && x.hasIntInner(v) {
			r.known("F-C20-2", fmt.Sprintf("%s: the index record was modified by Scan: %s (selection %v still sound)", where, out.mutated, out.sel))
		}
		return ""
	}
	r.Unsound++
	text := fmt.Sprintf("%s: fragments %v contain matching rows but are not selected: real=%v matching=%v spec=%v as-implemented-model=%v", where, miss, out.sel, match, design, impl)
	if implmp := x.sexp.Implmp[st.name]; !x.sexp.Implerr && x.hasMatchPhrase() && sameInts(out.sel, implmp) && !sameInts(implmp, design) {
		r.known("F-C20-4", text) // explained by matchphrase-as-equality alone
		return ""
	}
	if !x.sexp.Implerr && sameInts(out.sel, impl) && !sameInts(impl, design) {
		mp, multi := x.hasMatchPhrase(), x.cexp.Implmaxkey >= 2
		switch {
		case multi && !mp:
			r.known("F-C20-1", text)
			return ""
		case mp && !multi:
			r.known("F-C20-4", text)
			return ""
		case mp && multi:
			r.known("F-C20-1", text)
			r.known("F-C20-4", text)
			return ""
		}
	}
	if out.mutated != "" && x.hasIntInner(v) {
		if s := v.shield().realScan(x.rows, x.g, x.cond, x.tb, st); !s.failed() && s.mutated == "" && sameInts(s.sel, implo) {
			r.known("F-C20-2", fmt.Sprintf("%s; index record modified by Scan: %s; with float columns instead of the integer columns the selection is %v", text, out.mutated, s.sel))
			return ""
		}
	}
	return text
}

// ---- one case -----------------------------------------------------------------------------------

func runSparseCase(sc *spCase, tmp string) (res spResult) {
	res = spResult{ID: sc.ID, OK: true, Step: -1}
	defer func() {
		if r := recover(); r != nil {
			res.Infra = fmt.Sprintf("harness panic: %v\n%s", r, debug.Stack())
		}
	}()
	if len(sc.Hist) != 3 || sc.Hist[0].A != "Build" || sc.Hist[1].A != "NewKeyCondition" || sc.Hist[2].A != "Scan" {
		res.Infra = "case is not Build, NewKeyCondition, Scan"
		return
	}
	var ba spBuildArgs
	var be spBuildExp
	var ca spCondArgs
	x := &spCtx{res: &res, caseID: sc.ID}
	for _, e := range []error{json.Unmarshal(sc.Hist[0].Args, &ba), json.Unmarshal(sc.Hist[0].Exp, &be), json.Unmarshal(sc.Hist[1].Args, &ca),
		json.Unmarshal(sc.Hist[1].Exp, &x.cexp), json.Unmarshal(sc.Hist[2].Exp, &x.sexp)} {
		if e != nil {
			res.Infra = "bad case: " + e.Error()
			return
		}
	}
	x.rows, x.g, x.k, x.cond, x.tb = ba.Rows, ba.G, ba.K, ca.Cond, ca.Tb
	if len(ba.Types) != ba.K {
		res.Infra = "bad case: types"
		return
	}
	x.full = spFullCond(ca.Cond, ca.Tb)
	rng := rand.New(rand.NewSource(sc.Seed*1000003 + int64(sc.ID)))
	nv := sc.Variants
	if nv <= 0 {
		nv = 3
	}
	for n := 0; n < nv; n++ {
		v := spNewVariant(rng, n, x.k, ba.Types, x.rows, x.full, x.tb)
		res.Variants++
		// --- Build: the real index record must be the specification's
		b, err := v.realBuild(x.rows, x.g)
		if err != nil {
			res.fail(0, "Build", fmt.Sprintf("case %d %s: Build failed: %v", sc.ID, v.describe(), err))
			return
		}
		var want []string
		for _, ir := range be.Idx {
			var cells []string
			for ci, a := range ir {
				cells = append(cells, v.cols[ci].show(a))
			}
			want = append(want, "("+strings.Join(cells, ",")+")")
		}
		if got := spRecString(b.pkRec); got != strings.Join(want, " ") || int(b.pkMark.GetFragmentCount()) != be.Nf {
			res.fail(0, "Build", fmt.Sprintf("case %d %s g=%d rows=%v: index record %s with %d fragments, specification: %s with %d fragments",
				sc.ID, v.describe(), x.g, x.rows, got, b.pkMark.GetFragmentCount(), strings.Join(want, " "), be.Nf))
			return
		}
		// --- NewKeyCondition: RPN length and key columns used, against the design, else the as-implemented model
		k := v.realKeyCondition(x.cond, x.tb, b.pkSchema)
		if k.panicv != nil || k.err != nil {
			if !(x.sexp.Implerr && x.hasUnknownOpOrIn()) {
				res.fail(1, "NewKeyCondition", fmt.Sprintf("case %d %s cond=%s tb=%+v: NewKeyCondition failed: err=%v panic=%v", sc.ID, v.describe(), x.cond, x.tb, k.err, k.panicv))
				return
			}
		} else {
			gl, gm := len(k.kc.GetRPN()), k.kc.GetMaxKeyIndex()+1
			if !(gl == x.cexp.Rpnlen && gm == x.cexp.Maxkey) {
				if gl == x.cexp.Implrpnlen && gm == x.cexp.Implmaxkey && x.hasUnknownOpOrIn() {
					res.known("F-C20-3", fmt.Sprintf("case %d %s cond=%s: RPN has %d elements (design %d): no element for an operator genRPNElementByOp does not know", sc.ID, v.describe(), x.cond, gl, x.cexp.Rpnlen))
				} else {
					res.fail(1, "NewKeyCondition", fmt.Sprintf("case %d %s cond=%s tb=%+v: RPN length %d, key columns used %d; specification %d, %d (as-implemented model %d, %d)",
						sc.ID, v.describe(), x.cond, x.tb, gl, gm, x.cexp.Rpnlen, x.cexp.Maxkey, x.cexp.Implrpnlen, x.cexp.Implmaxkey))
					return
				}
			}
		}
		// --- Scan, every setting
		match := v.matchFrags(x.full, x.rows, x.g)
		if ok, _ := subset(match, x.sexp.Match); !ok || (!x.full.has(func(c *spCond) bool { return c.T == "strop" }) && !sameInts(match, x.sexp.Match)) {
			res.Infra = fmt.Sprintf("case %d: harness oracle %v disagrees with the specification's matching fragments %v", sc.ID, match, x.sexp.Match)
			return
		}
		for _, st := range spSettings {
			out := v.realScan(x.rows, x.g, x.cond, x.tb, st)
			if t := x.judge(v, st, out, match); t != "" {
				res.fail(2, "Scan", t)
			}
		}
		if sc.Skip {
			if t := spSkipIndexes(x, v, match, tmp); t != "" {
				res.fail(2, "SkipIndex", t)
			}
		}
	}
	return
}

// ---- skip indexes ---------------------------------------------------------------------------------
//
// The readers are driven on what the real writers produce for the case's record (one fragment =
// one block):
//   set         SetWriter writes nothing; SetIndexReader.MayBeInFragment
//   min-max     MinMaxWriter writes nothing and MinMaxIndexReader has no production ReadFunc: the
//               reader is given the per-fragment [min, max] record its comment documents
//   bloomfilter BloomFilterWriter.CreateAttachIndex writes the real file; BloomFilterIndexReader
//               reads it back (string columns only)
// Judged like Scan: a fragment with a matching row for which MayBeInFragment answers false.
//
// F-C20-5  SetIndexReader.MayBeInFragment returns false for every fragment.

type spMockTssp struct{ path string }

func (f *spMockTssp) Path() string { return f.path }
func (f *spMockTssp) Name() string { return "" }

func spSkipIndexes(x *spCtx, v *spVariant, match []int, tmp string) (viol string) {
	r := x.res
	defer func() {
		if p := recover(); p != nil {
			viol = fmt.Sprintf("case %d %s: skip-index reader panicked: %v\n%s", x.caseID, v.describe(), p, debug.Stack())
		}
	}()
	if x.tb.active() || x.full.has(func(c *spCond) bool { return c.T == "in" || (c.T == "strop" && c.Op != "matchphrase") }) {
		return "" // conditions the skip-index condition builder rejects as a whole are covered by the primary-index part
	}
	b, err := v.realBuild(x.rows, x.g)
	if err != nil {
		return ""
	}
	nf := int(b.pkMark.GetFragmentCount())
	where := fmt.Sprintf("case %d %s g=%d rows=%v cond=%s", x.caseID, v.describe(), x.g, x.rows, x.cond)
	opt := &query.ProcessorOptions{Condition: v.expr(x.cond)}
	// --- set index on the key columns the condition names (SKIndexReaderImpl.getSKInfoByExpr creates a reader
	// only for index columns that occur in the condition)
	var setSchema record.Schemas
	for ci := range v.cols {
		if x.full.has(func(c *spCond) bool { return (c.T == "cmp" || c.T == "strop") && c.C == ci+1 }) {
			setSchema = append(setSchema, b.pkSchema[ci])
		}
	}
	if len(setSchema) > 0 {
		rd, err := sparseindex.NewSetIndexReader(rpn.ConvertToRPNExpr(v.expr(x.cond)), setSchema, opt, true)
		if err == nil {
			_ = rd.ReInit(&spMockTssp{path: filepath.Join(tmp, "x.tssp")})
			for _, f := range match {
				r.SkipEval++
				ok, err := rd.MayBeInFragment(uint32(f))
				if err == nil && !ok {
					r.known("F-C20-5", fmt.Sprintf("%s: set index: fragment %d contains a matching row, SetIndexReader.MayBeInFragment says false", where, f))
					break
				}
			}
		}
	}
	// --- bloom filter on every string key column the condition names with matchphrase or a comparison
	for ci, col := range v.cols {
		if col.typ != influx.Field_Type_String {
			continue
		}
		named := x.full.has(func(c *spCond) bool { return (c.T == "cmp" || c.T == "strop") && c.C == ci+1 })
		if !named {
			continue
		}
		dir := filepath.Join(tmp, fmt.Sprintf("bf%d", x.caseID))
		_ = os.MkdirAll(filepath.Join(dir, "m"), 0o750)
		data := "00000001-0001-00000000.tssp"
		w := sparseindex.NewBloomFilterWriter(dir, "m", data, "", tokenizer.CONTENT_SPLITTER)
		rowsPerSeg := immutable.GenFixRowsPerSegment(b.rec, x.g)
		if err := w.CreateAttachIndex(b.rec, []int{ci}, rowsPerSeg); err != nil {
			_ = os.RemoveAll(dir)
			return fmt.Sprintf("%s: BloomFilterWriter.CreateAttachIndex: %v", where, err)
		}
		written := filepath.Join(dir, "m", colstore.AppendSecondaryIndexSuffix(data, col.name, index.BloomFilter, 0)+".init")
		final := filepath.Join(dir, "m", "00000001-0001-00000000."+col.name+colstore.BloomFilterIndexFileSuffix)
		if err := os.Rename(written, final); err != nil {
			_ = os.RemoveAll(dir)
			return fmt.Sprintf("%s: bloom filter file %s not written: %v", where, written, err)
		}
		sch := record.Schemas{{Name: col.name, Type: influx.Field_Type_String}}
		opt := &query.ProcessorOptions{Condition: v.expr(x.cond)}
		rd, err := sparseindex.NewBloomFilterIndexReader(rpn.ConvertToRPNExpr(v.expr(x.cond)), sch, opt, true)
		if err == nil {
			err = rd.ReInit(&spMockTssp{path: filepath.Join(dir, "m", data)})
		}
		if err != nil {
			_ = os.RemoveAll(dir)
			return fmt.Sprintf("%s: bloom filter reader on %s: %v", where, col.name, err)
		}
		for f := 0; f < nf; f++ {
			r.SkipEval++
			ok, err := rd.MayBeInFragment(uint32(f))
			if err != nil {
				_ = os.RemoveAll(dir)
				return fmt.Sprintf("%s: bloom filter MayBeInFragment(%d): %v", where, f, err)
			}
			if !ok {
				r.SkipNeg++
			}
			if in, _ := subset([]int{f}, match); in && !ok {
				// F-C20-6: a phrase without any token (the empty string): the row filter matches the rows whose
				// value is empty, the filter reader answers "not present" whenever there is no hash to look up.
				// Predictor: the same reader on the same file says "may be present" once those atoms are
				// replaced by an always-true atom.
				emptyPhrase := func(c *spCond) bool {
					return c.T == "strop" && c.Op == "matchphrase" && c.C == ci+1 && col.strs[c.V] == ""
				}
				if x.full.has(emptyPhrase) {
					c2 := x.cond.replace(emptyPhrase, &spCond{T: "nonkey"})
					opt2 := &query.ProcessorOptions{Condition: v.expr(c2)}
					rd2, err2 := sparseindex.NewBloomFilterIndexReader(rpn.ConvertToRPNExpr(v.expr(c2)), sch, opt2, true)
					if err2 == nil {
						err2 = rd2.ReInit(&spMockTssp{path: filepath.Join(dir, "m", data)})
					}
					if err2 == nil {
						if ok2, err3 := rd2.MayBeInFragment(uint32(f)); err3 == nil && ok2 {
							r.known("F-C20-6", fmt.Sprintf("%s: bloom filter on %s: fragment %d contains a row matching the empty phrase, MayBeInFragment says false", where, col.name, f))
							continue
						}
					}
				}
				_ = os.RemoveAll(dir)
				return fmt.Sprintf("%s: bloom filter on %s: fragment %d contains a matching row, MayBeInFragment says false (matching=%v)", where, col.name, f, match)
			}
		}
		_ = os.RemoveAll(dir)
	}
	// --- min-max over the first key column
	viol = spMinMax(x, v, b, match, where)
	return
}

// spMinMax gives MinMaxIndexReader the record its MayBeInFragment indexes: it takes rows f and f+1
// as [min, max] of fragment f, which is what a sorted column produces (the first value of every
// fragment plus the last value). It is driven for conditions on the FIRST key column only (the
// column that is sorted on its own).
func spMinMax(x *spCtx, v *spVariant, b spBuilt, match []int, where string) string {
	if x.cexp.Maxkey != 1 || x.full.has(func(c *spCond) bool { return c.T == "nonkey" || c.T == "strop" }) {
		return ""
	}
	for _, r := range x.rows {
		if r[0] == spNull {
			// not driven with null bounds: MayBeInFragment then assigns the shared sentinel NEGATIVE_INFINITY to
			// the range and the next call sets ITS row (left.row = fragId), which breaks every later
			// comparison with -infinity in the whole process (reported; the reader is not wired in production)
			return ""
		}
	}
	sch := record.Schemas{b.pkSchema[0]}
	opt := &query.ProcessorOptions{Condition: v.expr(x.cond)}
	rd, err := sparseindex.NewMinMaxIndexReader(rpn.ConvertToRPNExpr(v.expr(x.cond)), sch, opt, true)
	if err != nil {
		return ""
	}
	rd.ReadFunc = func(file interface{}, rec *record.Record, isCache bool) (*record.Record, error) {
		out := record.NewRecord(sch, false)
		out.ColVals[0].AppendColVal(b.pkRec.Column(0), sch[0].Type, 0, b.pkRec.RowNums())
		return out, nil
	}
	if err := rd.ReInit(&spMockTssp{path: "x.tssp"}); err != nil {
		return fmt.Sprintf("%s: min-max reader ReInit: %v", where, err)
	}
	nf := int(b.pkMark.GetFragmentCount())
	for f := 0; f < nf; f++ {
		x.res.SkipEval++
		ok, err := rd.MayBeInFragment(uint32(f))
		if err != nil {
			return fmt.Sprintf("%s: min-max MayBeInFragment(%d): %v", where, f, err)
		}
		if !ok {
			x.res.SkipNeg++
		}
		if in, _ := subset([]int{f}, match); in && !ok {
			return fmt.Sprintf("%s: min-max on %s: fragment %d contains a matching row, MayBeInFragment says false (matching=%v)", where, sch[0].Name, f, match)
		}
	}
	return ""
}

// ---- replay -------------------------------------------------------------------------------------

func replaySparse(args []string) int {
	tmp, err := os.MkdirTemp("/dev/shm", "vh-sparse-")
	if err != nil {
		fmt.Fprintln(os.Stderr, err)
		return 2
	}
	defer os.RemoveAll(tmp)
	sc := bufio.NewScanner(os.Stdin)
	sc.Buffer(make([]byte, 1<<20), 1<<28)
	out := bufio.NewWriter(os.Stdout)
	defer out.Flush()
	bad := 0
	for sc.Scan() {
		line := sc.Bytes()
		if len(line) == 0 {
			continue
		}
		var c spCase
		if err := json.Unmarshal(line, &c); err != nil {
			fmt.Fprintln(os.Stderr, "bad case:", err)
			return 2
		}
		done := make(chan spResult, 1)
		go func() { done <- runSparseCase(&c, tmp) }()
		var r spResult
		select {
		case r = <-done:
		case <-time.After(120 * time.Second):
			r = spResult{ID: c.ID, Hang: true, Detail: "case did not finish within 120s"}
			b, _ := json.Marshal(r)
			out.Write(b)
			out.WriteByte('\n')
			out.Flush()
			os.Exit(3)
		}
		if !r.OK {
			bad++
		}
		b, _ := json.Marshal(r)
		out.Write(b)
		out.WriteByte('\n')
	}
	if bad > 0 {
		return 1
	}
	return 0
}
