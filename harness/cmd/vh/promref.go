package main

// vh prom-ref: C18 spec validation.  The upstream Prometheus query engine (github.com/prometheus/prometheus/promql,
// the version required by /repo/go.mod) evaluates the same (sample set, expression, time) cases that TLC evaluated with
// specs/PromSem.tla, over a tiny in-memory storage.Queryable.  The answers are printed; props/c18.py compares them
// with the specification's expected vectors (a disagreement is a SPECIFICATION bug, exit 2, never a finding).
//
// stdin : one JSON case per line
//   {"id":n,"lookback_ms":L,
//    "series":[{"labels":{"__name__":"ma","job":"a"},"samples":[[t_ms,"1.5"],[t_ms,"stale"]]}],
//    "queries":[{"qid":k,"expr":"rate(ma[5s])","time_ms":T} | {"qid":k,"expr":..,"start_ms":S,"end_ms":E,"step_ms":P}]}
// stdout: one JSON result per line
//   {"id":n,"results":[{"qid":k,"type":"vector|matrix|scalar","error":"","series":[{"labels":{..},"points":[[t_ms,"v"]]}]}]}
// values are decimal strings (strconv 'g', -1) so that NaN and +-Inf survive JSON.

import (
	"bufio"
	"context"
	"encoding/json"
	"fmt"
	"math"
	"os"
	"sort"
	"strconv"
	"time"

	"github.com/prometheus/prometheus/model/histogram"
	"github.com/prometheus/prometheus/model/labels"
	"github.com/prometheus/prometheus/model/value"
	"github.com/prometheus/prometheus/promql"
	"github.com/prometheus/prometheus/storage"
	"github.com/prometheus/prometheus/tsdb/chunkenc"
	"github.com/prometheus/prometheus/tsdb/chunks"
	"github.com/prometheus/prometheus/util/annotations"
)

func init() { cmds["prom-ref"] = promRef }

type promRefSeries struct {
	Labels  map[string]string `json:"labels"`
	Samples [][]interface{}   `json:"samples"`
}

type promRefQuery struct {
	Qid     int    `json:"qid"`
	Expr    string `json:"expr"`
	TimeMs  *int64 `json:"time_ms,omitempty"`
	StartMs *int64 `json:"start_ms,omitempty"`
	EndMs   *int64 `json:"end_ms,omitempty"`
	StepMs  *int64 `json:"step_ms,omitempty"`
}

type promRefCase struct {
	ID         int             `json:"id"`
	LookbackMs int64           `json:"lookback_ms"`
	Series     []promRefSeries `json:"series"`
	Queries    []promRefQuery  `json:"queries"`
}

type promRefOutSeries struct {
	Labels map[string]string `json:"labels"`
	Points [][]interface{}   `json:"points"`
}

type promRefOutResult struct {
	Qid    int                `json:"qid"`
	Type   string             `json:"type"`
	Error  string             `json:"error"`
	Series []promRefOutSeries `json:"series"`
}

type promRefOut struct {
	ID      int                `json:"id"`
	Results []promRefOutResult `json:"results"`
}

// ---- storage

type prSample struct {
	t int64
	f float64
}

func (s prSample) T() int64                      { return s.t }
func (s prSample) F() float64                    { return s.f }
func (s prSample) H() *histogram.Histogram       { return nil }
func (s prSample) FH() *histogram.FloatHistogram { return nil }
func (s prSample) Type() chunkenc.ValueType      { return chunkenc.ValFloat }

type prStore struct {
	series []storage.Series
}

func (s *prStore) Querier(mint, maxt int64) (storage.Querier, error) { return &prQuerier{s}, nil }

type prQuerier struct{ s *prStore }

func (q *prQuerier) LabelValues(ctx context.Context, name string, matchers ...*labels.Matcher) ([]string, annotations.Annotations, error) {
	return nil, nil, nil
}
func (q *prQuerier) LabelNames(ctx context.Context, matchers ...*labels.Matcher) ([]string, annotations.Annotations, error) {
	return nil, nil, nil
}
func (q *prQuerier) Close() error { return nil }
func (q *prQuerier) Select(ctx context.Context, sortSeries bool, hints *storage.SelectHints, matchers ...*labels.Matcher) storage.SeriesSet {
	var out []storage.Series
	for _, s := range q.s.series {
		ok := true
		for _, m := range matchers {
			if !m.Matches(s.Labels().Get(m.Name)) {
				ok = false
				break
			}
		}
		if ok {
			out = append(out, s)
		}
	}
	sort.Slice(out, func(i, j int) bool { return labels.Compare(out[i].Labels(), out[j].Labels()) < 0 })
	return &prSeriesSet{series: out, idx: -1}
}

type prSeriesSet struct {
	series []storage.Series
	idx    int
}

func (s *prSeriesSet) Next() bool                        { s.idx++; return s.idx < len(s.series) }
func (s *prSeriesSet) At() storage.Series                { return s.series[s.idx] }
func (s *prSeriesSet) Err() error                        { return nil }
func (s *prSeriesSet) Warnings() annotations.Annotations { return nil }

func promRefParseValue(x interface{}) (float64, error) {
	switch v := x.(type) {
	case float64:
		return v, nil
	case string:
		if v == "stale" {
			return math.Float64frombits(value.StaleNaN), nil
		}
		return strconv.ParseFloat(v, 64)
	}
	return 0, fmt.Errorf("bad sample value %v", x)
}

func promRefStore(c *promRefCase) (*prStore, error) {
	st := &prStore{}
	for _, s := range c.Series {
		var smp []chunks.Sample
		for _, p := range s.Samples {
			if len(p) != 2 {
				return nil, fmt.Errorf("bad sample %v", p)
			}
			t, ok := p[0].(float64)
			if !ok {
				return nil, fmt.Errorf("bad sample time %v", p[0])
			}
			f, err := promRefParseValue(p[1])
			if err != nil {
				return nil, err
			}
			smp = append(smp, prSample{int64(t), f})
		}
		sort.SliceStable(smp, func(i, j int) bool { return smp[i].T() < smp[j].T() })
		st.series = append(st.series, storage.NewListSeries(labels.FromMap(s.Labels), smp))
	}
	return st, nil
}

func promRefFmt(f float64) string { return strconv.FormatFloat(f, 'g', -1, 64) }

func promRefRun(eng *promql.Engine, st *prStore, c *promRefCase, q promRefQuery) promRefOutResult {
	out := promRefOutResult{Qid: q.Qid, Series: []promRefOutSeries{}}
	ctx, cancel := context.WithTimeout(context.Background(), 30*time.Second)
	defer cancel()
	opts := promql.NewPrometheusQueryOpts(false, time.Duration(c.LookbackMs)*time.Millisecond)
	var qry promql.Query
	var err error
	if q.TimeMs != nil {
		qry, err = eng.NewInstantQuery(ctx, st, opts, q.Expr, time.UnixMilli(*q.TimeMs))
	} else if q.StartMs != nil && q.EndMs != nil && q.StepMs != nil {
		qry, err = eng.NewRangeQuery(ctx, st, opts, q.Expr, time.UnixMilli(*q.StartMs), time.UnixMilli(*q.EndMs),
			time.Duration(*q.StepMs)*time.Millisecond)
	} else {
		err = fmt.Errorf("query without time")
	}
	if err != nil {
		out.Error = err.Error()
		return out
	}
	defer qry.Close()
	res := qry.Exec(ctx)
	if res.Err != nil {
		out.Error = res.Err.Error()
		return out
	}
	switch v := res.Value.(type) {
	case promql.Vector:
		out.Type = "vector"
		for _, s := range v {
			out.Series = append(out.Series, promRefOutSeries{Labels: s.Metric.Map(), Points: [][]interface{}{{s.T, promRefFmt(s.F)}}})
		}
	case promql.Matrix:
		out.Type = "matrix"
		for _, s := range v {
			os := promRefOutSeries{Labels: s.Metric.Map(), Points: [][]interface{}{}}
			for _, p := range s.Floats {
				os.Points = append(os.Points, []interface{}{p.T, promRefFmt(p.F)})
			}
			out.Series = append(out.Series, os)
		}
	case promql.Scalar:
		out.Type = "scalar"
		out.Series = append(out.Series, promRefOutSeries{Labels: map[string]string{}, Points: [][]interface{}{{v.T, promRefFmt(v.V)}}})
	default:
		out.Error = fmt.Sprintf("unsupported result type %T", res.Value)
	}
	return out
}

func promRef(args []string) int {
	eng := promql.NewEngine(promql.EngineOpts{
		MaxSamples:           50000000,
		Timeout:              60 * time.Second,
		LookbackDelta:        5 * time.Minute,
		EnableAtModifier:     true,
		EnableNegativeOffset: true,
	})
	in := bufio.NewReaderSize(os.Stdin, 1<<20)
	w := bufio.NewWriter(os.Stdout)
	defer w.Flush()
	dec := json.NewDecoder(in)
	enc := json.NewEncoder(w)
	for dec.More() {
		var c promRefCase
		if err := dec.Decode(&c); err != nil {
			fmt.Fprintln(os.Stderr, "prom-ref: bad input:", err)
			return 2
		}
		st, err := promRefStore(&c)
		if err != nil {
			fmt.Fprintln(os.Stderr, "prom-ref: case", c.ID, err)
			return 2
		}
		out := promRefOut{ID: c.ID, Results: []promRefOutResult{}}
		for _, q := range c.Queries {
			out.Results = append(out.Results, promRefRun(eng, st, &c, q))
		}
		if err := enc.Encode(out); err != nil {
			return 2
		}
	}
	return 0
}
