//go:build verif

package main

import (
	"encoding/json"
	"fmt"
	"os"
	"path/filepath"
	"time"

	"verifharness/internal/crashfs"
	"verifharness/internal/engx"
)

func init() { cmds["dump-wal-events"] = dumpWalEvents }

// dump-wal-events <case.json>: runs one history with the recorder and prints the data events
func dumpWalEvents(args []string) int {
	b, err := os.ReadFile(args[0])
	if err != nil {
		return 2
	}
	var c walCase
	if err := json.Unmarshal(b, &c); err != nil {
		return 2
	}
	root, _ := os.MkdirTemp("/dev/shm", "vh-walev-")
	defer os.RemoveAll(root)
	dir := filepath.Join(root, "d")
	rec := crashfs.Install()
	parts := c.Parts
	if parts == 0 {
		parts = 2
	}
	e, err := engx.Open(dir, engx.Options{WalParts: parts})
	if err != nil {
		fmt.Println(err)
		return 2
	}
	r := &walRunner{c: &c, cells: map[string]cellConc{}}
	for i, k := range []string{"k1", "k2", "k3"} {
		r.cells[k] = cellMaps[0][i]
	}
	rec.Start(dir)
	for i, st := range c.Hist {
		fmt.Printf("-- step %d %s %s\n", i, st.A, st.K)
		mark := len(rec.Events)
		switch st.A {
		case "Write":
			_ = e.Write([]engx.Pt{r.point(st.K, st.W)})
		case "Flush":
			if st.Kind == "auto" {
				if err := walAutoFlush(e, 10*time.Second); err != nil {
					fmt.Println(err)
				}
			} else {
				e.Flush()
			}
		case "Sleep":
			time.Sleep(time.Duration(st.W) * time.Millisecond)
		}
		for _, ev := range rec.Events[mark:] {
			if ev.N > 0 {
				fmt.Printf("   %3d %-8s %-5s %s %s\n", ev.N, ev.Op, ev.Class, ev.Path, ev.To)
			} else if ev.Class == "index" && len(args) > 1 {
				fmt.Printf("   x%-3d %-8s %-5s %s %s\n", ev.X, ev.Op, ev.Class, ev.Path, ev.To)
			}
		}
	}
	rec.Stop()
	e.Abandon()
	return 0
}
