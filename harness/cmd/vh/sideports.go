//go:build verif

package main

// Side ports (C19, server roles): the HTTP ports of the meta and the store role.
//
//	vh side-routes -role meta|store -src <tree under verification>
//
// The handlers of these ports (app/ts-meta/meta/handler.go, app/ts-store/run/handler.go) dispatch with a
// `switch r.Method { case .. : switch r.URL.Path { case .. } }` inside ServeHTTP: there is no table that
// reflection or an add-only accessor could return. The route list is therefore taken by WALKING THE
// REGISTERING CODE of the tree under verification at run time (unless the hook of selftest/hooks/c19-meta-route-table.diff
// is in the tree: then the meta port's table is read from the handler through (*meta.Service).VerifHTTPRoutes): the Go syntax tree of ServeHTTP is walked and
// every (method case, path case) pair is reported together with whether its body goes through WrapHandler.
// Every construct of ServeHTTP's dispatch that the walker does not understand is reported under "opaque"
// (the Python side then fails the run: exit 2), and every string literal of the package that looks like a
// path is reported under "candidates": the Python side asks the RUNNING port for each of them (and for the
// routes of the SQL port) and requires that the set of paths the port really dispatches equals this table.
//
// Output: one line "SIDEROUTES " + JSON {"role","file","routes":[{"pattern","methods","wrapped"}],
// "other_methods":"..","opaque":[..],"candidates":[..]}.
//
//	vh sideport-store -addr 127.0.0.1:PORT -users users.json
//
// opens the REAL HTTP service of the store role (run.NewService / Init / Open: the exported constructor chain
// of app/ts-store/run/service.go; ts-store never calls Open in this tree, so the port does not exist in a
// running server) with a real metaclient.Client whose user table is the one of the live catalogue (users.json =
// the "Users" array of the meta port's /getdata). Prints "READY", serves until stdin is closed.

import (
	"encoding/json"
	"flag"
	"fmt"
	"go/ast"
	"go/parser"
	"go/token"
	"io"
	"os"
	"path/filepath"
	"reflect"
	"sort"
	"strconv"
	"strings"
	"time"

	"github.com/influxdata/influxdb/toml"
	metasrv "github.com/openGemini/openGemini/app/ts-meta/meta"
	storerun "github.com/openGemini/openGemini/app/ts-store/run"
	"github.com/openGemini/openGemini/lib/config"
	"github.com/openGemini/openGemini/lib/logger"
	"github.com/openGemini/openGemini/lib/metaclient"
	"github.com/openGemini/openGemini/lib/statisticsPusher"
	"github.com/openGemini/openGemini/lib/util/lifted/influx/meta"
)

func init() {
	cmds["side-routes"] = sideRoutesCmd
	cmds["sideport-store"] = sideportStoreCmd
}

type sideRoute struct {
	Pattern string   `json:"pattern"`
	Methods []string `json:"methods"`
	Wrapped bool     `json:"wrapped"`
}

var sideFiles = map[string]string{
	"meta":  "app/ts-meta/meta",
	"store": "app/ts-store/run",
}

func lit(e ast.Expr) (string, bool) {
	b, ok := e.(*ast.BasicLit)
	if !ok || b.Kind != token.STRING {
		return "", false
	}
	s, err := strconv.Unquote(b.Value)
	return s, err == nil
}

func sel(e ast.Expr) string {
	switch x := e.(type) {
	case *ast.SelectorExpr:
		return sel(x.X) + "." + x.Sel.Name
	case *ast.Ident:
		return x.Name
	}
	return "?"
}

func sideRoutesCmd(args []string) int {
	fs := flag.NewFlagSet("side-routes", flag.ContinueOnError)
	role := fs.String("role", "meta", "meta | store")
	src := fs.String("src", "/repo", "the tree under verification")
	if err := fs.Parse(args); err != nil {
		return 2
	}
	dir, ok := sideFiles[*role]
	if !ok {
		fmt.Fprintln(os.Stderr, "side-routes: unknown role", *role)
		return 2
	}
	fset := token.NewFileSet()
	pkgs, err := parser.ParseDir(fset, filepath.Join(*src, dir), func(fi os.FileInfo) bool {
		return !strings.HasSuffix(fi.Name(), "_test.go")
	}, 0)
	if err != nil {
		fmt.Fprintln(os.Stderr, "side-routes:", err)
		return 2
	}
	out := struct {
		Role     string      `json:"role"`
		File     string      `json:"file"`
		Routes   []sideRoute `json:"routes"`
		Other    string      `json:"other_methods"`
		Opaque   []string    `json:"opaque"`
		Cands    []string    `json:"candidates"`
		Wrappers []string    `json:"wrapper_calls"`
	}{Role: *role}
	byPat := map[string]*sideRoute{}
	cands := map[string]bool{}
	found := 0
	for _, pkg := range pkgs {
		for fname, f := range pkg.Files {
			ast.Inspect(f, func(n ast.Node) bool {
				if s, ok := n.(*ast.BasicLit); ok && s.Kind == token.STRING {
					if v, err := strconv.Unquote(s.Value); err == nil && strings.HasPrefix(v, "/") && len(v) > 1 && len(v) < 60 && !strings.ContainsAny(v, " %\n") {
						cands[v] = true
					}
				}
				return true
			})
			for _, d := range f.Decls {
				fd, ok := d.(*ast.FuncDecl)
				if !ok || fd.Name.Name != "ServeHTTP" || fd.Recv == nil || len(fd.Recv.List) != 1 {
					continue
				}
				if st, ok := fd.Recv.List[0].Type.(*ast.StarExpr); !ok || sel(st.X) != "httpHandler" {
					continue
				}
				found++
				out.File = strings.TrimPrefix(fname, *src+"/")
				for _, stmt := range fd.Body.List {
					sw, ok := stmt.(*ast.SwitchStmt)
					if !ok || sw.Tag == nil || sel(sw.Tag) != "r.Method" {
						if es, ok := stmt.(*ast.ExprStmt); ok {
							if c, ok := es.X.(*ast.CallExpr); ok && strings.HasPrefix(sel(c.Fun), "h.logger.") {
								continue // logging after the dispatch
							}
						}
						out.Opaque = append(out.Opaque, fmt.Sprintf("%s: statement %T outside `switch r.Method`", fset.Position(stmt.Pos()), stmt))
						continue
					}
					for _, cc := range sw.Body.List {
						mc := cc.(*ast.CaseClause)
						if mc.List == nil { // default:
							var b strings.Builder
							for _, s := range mc.Body {
								b.WriteString(fmt.Sprintf("%T;", s))
								if es, ok := s.(*ast.ExprStmt); ok {
									if c, ok := es.X.(*ast.CallExpr); ok {
										b.WriteString(sel(c.Fun))
										for _, a := range c.Args {
											b.WriteString(" " + sel(a))
										}
									}
								}
							}
							out.Other = b.String()
							continue
						}
						var methods []string
						for _, e := range mc.List {
							m, ok := lit(e)
							if !ok {
								out.Opaque = append(out.Opaque, fmt.Sprintf("%s: method case is not a string literal", fset.Position(e.Pos())))
								continue
							}
							methods = append(methods, m)
						}
						for _, s := range mc.Body {
							psw, ok := s.(*ast.SwitchStmt)
							if !ok || psw.Tag == nil || sel(psw.Tag) != "r.URL.Path" {
								out.Opaque = append(out.Opaque, fmt.Sprintf("%s: statement %T in a method case is not `switch r.URL.Path`", fset.Position(s.Pos()), s))
								continue
							}
							for _, pc := range psw.Body.List {
								pcc := pc.(*ast.CaseClause)
								if pcc.List == nil {
									out.Opaque = append(out.Opaque, fmt.Sprintf("%s: default path case (a catch-all route)", fset.Position(pcc.Pos())))
									continue
								}
								wrapped := false
								for _, bs := range pcc.Body {
									ast.Inspect(bs, func(n ast.Node) bool {
										if c, ok := n.(*ast.CallExpr); ok && sel(c.Fun) == "h.WrapHandler" {
											wrapped = true
										}
										return true
									})
								}
								for _, e := range pcc.List {
									p, ok := lit(e)
									if !ok {
										out.Opaque = append(out.Opaque, fmt.Sprintf("%s: path case is not a string literal", fset.Position(e.Pos())))
										continue
									}
									r := byPat[p]
									if r == nil {
										r = &sideRoute{Pattern: p, Wrapped: true}
										byPat[p] = r
									}
									r.Methods = append(r.Methods, methods...)
									r.Wrapped = r.Wrapped && wrapped
								}
							}
						}
					}
				}
			}
			// which wrapper WrapHandler calls
			for _, d := range f.Decls {
				if fd, ok := d.(*ast.FuncDecl); ok && fd.Name.Name == "WrapHandler" {
					ast.Inspect(fd.Body, func(n ast.Node) bool {
						if c, ok := n.(*ast.CallExpr); ok {
							if s := sel(c.Fun); strings.Contains(s, "Authenticate") {
								var as []string
								for _, a := range c.Args[1:] {
									as = append(as, sel(a))
								}
								out.Wrappers = append(out.Wrappers, s+"(.., "+strings.Join(as, ", ")+")")
							}
						}
						return true
					})
				}
			}
		}
	}
	// With the hook selftest/hooks/c19-meta-route-table.diff in the tree (the dispatch is a table and
	// (*meta.Service).VerifHTTPRoutes returns it) the list comes from the running handler; the syntax tree then only
	// supplies the probe candidates.
	if *role == "meta" {
		if m := reflect.ValueOf(&metasrv.Service{}).MethodByName("VerifHTTPRoutes"); m.IsValid() {
			res := m.Call(nil)[0]
			byPat = map[string]*sideRoute{}
			for i := 0; i < res.Len(); i++ {
				p := res.Index(i).FieldByName("Path").String()
				if byPat[p] == nil {
					byPat[p] = &sideRoute{Pattern: p, Wrapped: true}
				}
				byPat[p].Methods = append(byPat[p].Methods, res.Index(i).FieldByName("Method").String())
			}
			out.Opaque = nil
			out.File = "hook (*meta.Service).VerifHTTPRoutes"
			found = 1
		}
	}
	if found != 1 {
		fmt.Fprintf(os.Stderr, "side-routes: %d methods (*httpHandler).ServeHTTP in %s (the handler moved?)\n", found, dir)
		return 2
	}
	var pats []string
	for p := range byPat {
		pats = append(pats, p)
	}
	sort.Strings(pats)
	for _, p := range pats {
		sort.Strings(byPat[p].Methods)
		out.Routes = append(out.Routes, *byPat[p])
	}
	for c := range cands {
		out.Cands = append(out.Cands, c)
	}
	sort.Strings(out.Cands)
	b, _ := json.Marshal(out)
	fmt.Println("SIDEROUTES " + string(b))
	return 0
}

func sideportStoreCmd(args []string) int {
	fs := flag.NewFlagSet("sideport-store", flag.ContinueOnError)
	addr := fs.String("addr", "", "listen address")
	usersFile := fs.String("users", "", "JSON array of the catalogue's users ({Name, Hash, Admin, Rwuser})")
	auth := fs.Bool("auth", true, "[data.ops-monitor] auth-enabled")
	if err := fs.Parse(args); err != nil || *addr == "" {
		return 2
	}
	var users []meta.UserInfo
	if *usersFile != "" {
		b, err := os.ReadFile(*usersFile)
		if err != nil {
			fmt.Fprintln(os.Stderr, "sideport-store:", err)
			return 2
		}
		if err := json.Unmarshal(b, &users); err != nil {
			fmt.Fprintln(os.Stderr, "sideport-store: users:", err)
			return 2
		}
	}
	dir, err := os.MkdirTemp("/dev/shm", "vh-sideport-")
	if err != nil {
		fmt.Fprintln(os.Stderr, "sideport-store:", err)
		return 2
	}
	defer os.RemoveAll(dir)
	cli := metaclient.NewClient(filepath.Join(dir, "weak"), false, 20)
	data := &meta.Data{Users: users}
	for _, u := range users {
		if u.Admin {
			data.AdminUserExists = true
		}
	}
	cli.SetCacheData(data)

	c := config.NewStore()
	c.OpsMonitor.HttpAddress = *addr
	c.OpsMonitor.AuthEnabled = *auth
	svc := storerun.NewService(&c)
	if svc == nil {
		fmt.Fprintln(os.Stderr, "sideport-store: run.NewService returned nil")
		return 2
	}
	mon := config.NewMonitor(config.AppStore)
	mon.StoreEnabled = true
	mon.Pushers = ""
	mon.StoreInterval = toml.Duration(time.Hour)
	pusher := statisticsPusher.NewStatisticsPusher(&mon, logger.NewLogger(0))
	svc.Init(cli, pusher)
	if err := svc.Open(); err != nil {
		fmt.Fprintln(os.Stderr, "sideport-store: Open:", err)
		return 2
	}
	fmt.Println("READY")
	_, _ = io.Copy(io.Discard, os.Stdin)
	_ = svc.Close()
	return 0
}
