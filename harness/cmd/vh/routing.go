package main

// replay-routing: replays TLC-generated behaviours of specs/Routing.tla (C11) into the real coordinator.
//
//   Setup      builds REAL meta (meta.Data: data node, database, retention policy, measurement with the
//              shard key, shard groups created at the specification's times, RANGE re-sharding), puts
//              it behind a real metaclient.Client (SetCacheData) and writes every row of the
//              specification through the real coordinator.PointsWriter (RetryWritePointRows ->
//              updateShardGroupAndShardKey -> ShardFor / DestShard); a capturing TSDBStore records
//              the shard each row is sent to.
//   ProbeCond  renders the condition tree as InfluxQL text, parses it (influxql.ParseExpr), takes the
//              time range out (influxql.ConditionExpr), rewrites regexes (RewriteRegexConditions) -
//              the steps of query/compile.go - and asks the real coordinator.ClusterShardMapper
//              (MapShards -> ShardGroupsByTimeRange -> TargetShards) which shards the query consults.
//
// Verdicts (real code only):
//   * an accepted row must be sent to exactly one shard, of a group whose [start,end) contains its
//     timestamp (the span the specification expects), at the position given by the row's shard key
//     (xxhash of the specification's key sequence / the RANGE interval), the same in every batch;
//   * a row that satisfies the condition (evaluated by the harness on the row's concrete tags, field
//     and time) must have its shard in the consulted set.
// A pruning divergence is attributed to known findings only if the consulted set equals exactly the
// prediction of a deviation model exported by the specification (smallest deviation set first).

import (
	"bufio"
	"encoding/json"
	"fmt"
	"math/rand"
	"os"
	"regexp"
	"runtime/pprof"
	"sort"
	"strings"
	"sync"
	"time"

	"github.com/cespare/xxhash/v2"
	"github.com/openGemini/openGemini/coordinator"
	"github.com/openGemini/openGemini/lib/config"
	"github.com/openGemini/openGemini/lib/errno"
	"github.com/openGemini/openGemini/lib/logger"
	"github.com/openGemini/openGemini/lib/metaclient"
	"github.com/openGemini/openGemini/lib/netstorage"
	"github.com/openGemini/openGemini/lib/util"
	"github.com/openGemini/openGemini/lib/util/lifted/influx/influxql"
	meta2 "github.com/openGemini/openGemini/lib/util/lifted/influx/meta"
	proto2 "github.com/openGemini/openGemini/lib/util/lifted/influx/meta/proto"
	"github.com/openGemini/openGemini/lib/util/lifted/influx/query"
	"github.com/openGemini/openGemini/lib/util/lifted/protobuf/proto"
	"github.com/openGemini/openGemini/lib/util/lifted/vm/protoparser/influx"
	"go.uber.org/zap"
)

func init() { cmds["replay-routing"] = replayRouting }

// ---- case format (ToJson of Routing.tla's hist) ---------------------------------------------------

type rtPair [2]string

type rtSetupArgs struct {
	Type     string     `json:"type"`
	Sk       []string   `json:"sk"`
	Sk2      []string   `json:"sk2"`
	Alter    int64      `json:"alter"`
	M        int        `json:"m"`
	Pt       int        `json:"pt"`
	Created  []int64    `json:"created"`
	Split    int64      `json:"split"`
	Bounds   [][]rtPair `json:"bounds"`
	Dur      int64      `json:"dur"`
	SplitOff int64      `json:"splitoff"`
}

type rtRowExp struct {
	Tags map[string]string `json:"tags"`
	U    int64             `json:"u"`
	T    int64             `json:"t"`
	Acc  int               `json:"acc"`
	Gs   int64             `json:"gs"`
	Ge   int64             `json:"ge"`
	Slot int               `json:"slot"`
	Wkey []rtPair          `json:"wkey"`
	Sk   []string          `json:"sk"` // the shard key in force for the row's shard group
}

type rtGroupExp struct {
	Start  int64      `json:"start"`
	End    int64      `json:"end"`
	M      int        `json:"m"`
	Bounds [][]rtPair `json:"bounds"`
	Sk     []string   `json:"sk"`
}

type rtSetupExp struct {
	Rows   []rtRowExp   `json:"rows"`
	Groups []rtGroupExp `json:"groups"`
}

type rtCond struct {
	K    string   `json:"k"`
	Key  string   `json:"key"`
	Val  string   `json:"val"`
	Vals []string `json:"vals"`
	Num  int64    `json:"num"`
	T    int64    `json:"t"`
	L    *rtCond  `json:"l"`
	R    *rtCond  `json:"r"`
	E    *rtCond  `json:"e"`
}

type rtPrune struct {
	All  bool       `json:"all"`
	Keys [][]rtPair `json:"keys"`
}

type rtModel struct {
	Dev []string `json:"dev"`
	P1  rtPrune  `json:"p1"` // key sets under the original shard key
	P2  rtPrune  `json:"p2"` // key sets under the altered shard key
}

type rtProbeArgs struct {
	Cond *rtCond `json:"cond"`
}

type rtProbeExp struct {
	Tr     [2]int64  `json:"tr"`
	Match  []int     `json:"match"`
	Models []rtModel `json:"models"`
}

type rtStep struct {
	A    string          `json:"a"`
	Args json.RawMessage `json:"args"`
	Exp  json.RawMessage `json:"exp"`
}

type rtCase struct {
	ID   int      `json:"id"`
	Seed int64    `json:"seed"`
	Hist []rtStep `json:"hist"`
}

type rtKnown struct {
	Finding string `json:"finding"`
	Count   int    `json:"count"`
	Example string `json:"example"`
}

type rtResult struct {
	ID      int       `json:"id"`
	OK      bool      `json:"ok"`
	Step    int       `json:"step"`
	Action  string    `json:"action,omitempty"`
	Detail  string    `json:"detail,omitempty"`
	Infra   string    `json:"infra,omitempty"`
	Known   string    `json:"known,omitempty"` // "+"-joined finding ids every divergence of this case was attributed to
	Knowns  []rtKnown `json:"knowns,omitempty"`
	Hang    bool      `json:"hang,omitempty"`
	Rows    int       `json:"rows"`    // rows written through the points writer
	Conds   int       `json:"conds"`   // conditions mapped through the shard mapper
	Checks  int       `json:"checks"`  // (row, condition) pairs with the row satisfying the condition
	Narrow  int       `json:"narrow"`  // conditions for which the real code consulted fewer shards than all
	AsSpec  int       `json:"as_spec"` // conditions whose consulted set equals the specification's sound rule
	Diverge int       `json:"diverge"` // conditions with at least one matching row outside the consulted set
	f4      string
	f4n     int
}

var rtFindingOf = map[string]string{
	"or_keeps_other_side": "F-C11-1",
	"paren_unknown":       "F-C11-2",
	"buffer_not_reset":    "F-C11-3",
	"sticky_shard_key":    "F-C11-5",
}

// ---- concretisation -------------------------------------------------------------------------------

var rtValTables = [][]string{
	{"web01", "web02", "web03", "web04"},
	{"a1", "b1", "c1", "d1"},
	{"hα1", "hβ2", "hγ3", "hδ4"},
	{"srv-a", "srv-b", "srv-c", "srv-d"},
}
var rtKeyTables = [][2]string{{"host", "region"}, {"dc", "dc2"}, {"Host", "host"}, {"a", "b"}}
var rtNoiseTags = []string{"", "0pre", "zzlast", "e"} // extra tag on every row: none / sorts first / last / between
var rtDurations = []time.Duration{time.Hour, 24 * time.Hour, 7 * 24 * time.Hour}

type rtConc struct {
	keys     map[string]string // abstract tag key -> concrete
	vals     map[string]string // abstract tag value -> concrete
	noise    string
	mst      string
	dur      time.Duration
	base     time.Time
	absDur   int64
	floatFld bool
	timeFmt  int // 0 integer ns, 1 RFC3339Nano string
}

func (c *rtConc) t(abs int64) time.Time {
	if c.absDur != 4 {
		panic("replay-routing expects GroupDur = 4")
	}
	g, o := abs/c.absDur, abs%c.absDur
	if o < 0 {
		g, o = g-1, o+c.absDur
	}
	off := []time.Duration{0, time.Nanosecond, c.dur / 2, c.dur - time.Nanosecond}[o]
	return c.base.Add(time.Duration(g) * c.dur).Add(off)
}

// start of a group: group boundaries are concrete boundaries; a re-sharded group starts one
// nanosecond after the split time (the abstract time before its abstract start)
func (c *rtConc) groupStart(abs int64) time.Time {
	if abs%c.absDur == 0 {
		return c.t(abs)
	}
	return c.t(abs - 1).Add(time.Nanosecond)
}

func (c *rtConc) keyString(ks []rtPair) string {
	var sb strings.Builder
	for i, p := range ks {
		if i > 0 {
			sb.WriteByte(',')
		}
		sb.WriteString(c.keys[p[0]])
		sb.WriteByte('=')
		sb.WriteString(c.vals[p[1]])
	}
	return sb.String()
}

// ---- meta client: the real client over real meta.Data; commands that would go to ts-meta are
// applied to the data directly (what the meta FSM does with them) -----------------------------------

type rtMeta struct {
	*metaclient.Client
	mu   sync.Mutex
	data *meta2.Data
}

func (m *rtMeta) CreateShardGroup(database, policy string, ts time.Time, version uint32, et config.EngineType) (*meta2.ShardGroupInfo, error) {
	m.mu.Lock()
	defer m.mu.Unlock()
	sg, tier, err := m.data.GetTierOfShardGroup(database, policy, ts, util.Hot, et)
	if err != nil {
		return nil, err
	}
	if sg == nil {
		if err := m.data.CreateShardGroup(database, policy, ts, tier, et, version); err != nil {
			return nil, err
		}
		rpi, err := m.data.RetentionPolicy(database, policy)
		if err != nil {
			return nil, err
		}
		sg = rpi.ShardGroupByTimestampAndEngineType(ts, et)
		if sg == nil {
			return nil, fmt.Errorf("no shard group for %v after CreateShardGroup", ts)
		}
	}
	c := *sg
	return &c, nil
}

func (m *rtMeta) UpdateSchema(database, rp, mst string, f []*proto2.FieldSchema) error {
	m.mu.Lock()
	defer m.mu.Unlock()
	return m.data.UpdateSchema(database, rp, mst, f)
}

func (m *rtMeta) UpdateSchemaByCmd(cmd *proto2.UpdateSchemaCommand) error {
	return m.UpdateSchema(cmd.GetDatabase(), cmd.GetRpName(), cmd.GetMeasurement(), cmd.GetFieldToCreate())
}

func (m *rtMeta) CreateMeasurement(database, rp, mst string, shardKey *meta2.ShardKeyInfo, numOfShards int32, indexR *influxql.IndexRelation,
	et config.EngineType, colStoreInfo *meta2.ColStoreInfo, schemaInfo []*proto2.FieldSchema, options *meta2.Options) (*meta2.MeasurementInfo, error) {
	m.mu.Lock()
	defer m.mu.Unlock()
	var pb *proto2.ShardKeyInfo
	if shardKey != nil {
		pb = shardKey.Marshal()
	}
	if err := m.data.CreateMeasurement(database, rp, mst, pb, numOfShards, nil, et, nil, schemaInfo, nil); err != nil {
		return nil, err
	}
	return m.data.Measurement(database, rp, mst)
}

// ---- capturing store ------------------------------------------------------------------------------

type rtStore struct {
	mu   sync.Mutex
	sent map[int64][]uint64 // row id -> shard ids it was sent to
}

func (s *rtStore) WriteRows(ctx *netstorage.WriteContext, nodeID uint64, pt uint32, database, rp string, timeout time.Duration) error {
	s.mu.Lock()
	defer s.mu.Unlock()
	for i := range ctx.Rows {
		for _, f := range ctx.Rows[i].Fields {
			if f.Key == "rid" {
				id := int64(f.NumValue)
				s.sent[id] = append(s.sent[id], ctx.Shard.ID)
			}
		}
	}
	return nil
}

// ---- environment of one case ----------------------------------------------------------------------

const rtDB, rtRP = "db0", "rp0"

type rtEnv struct {
	args  rtSetupArgs
	exp   rtSetupExp
	conc  *rtConc
	data  *meta2.Data
	mc    *rtMeta
	pw    *coordinator.PointsWriter
	store *rtStore
	csm   *coordinator.ClusterShardMapper
	// per row: the shard it was written to (0 = rejected); extra: other shards the same row reached
	// in the batch write (only through known finding F-C11-4)
	wshard []uint64
	extra  map[int]uint64
	crow   []rtCRow
}

type rtCRow struct {
	tags map[string]string // concrete key -> concrete value (absent tags missing)
	u    int64
	t    int64 // ns
}

func newRtConc(seed int64, id int, a *rtSetupArgs) *rtConc {
	rng := rand.New(rand.NewSource(seed*7919 + int64(id)*104729 + 17))
	c := &rtConc{keys: map[string]string{}, vals: map[string]string{}, absDur: a.Dur}
	kt := rtKeyTables[rng.Intn(len(rtKeyTables))]
	c.keys["host"], c.keys["region"] = kt[0], kt[1]
	vt := rtValTables[rng.Intn(len(rtValTables))]
	for i, v := range []string{"a", "b", "c", "d"} {
		c.vals[v] = vt[i]
	}
	c.noise = rtNoiseTags[rng.Intn(len(rtNoiseTags))]
	c.mst = []string{"m", "cpu", "mst_x"}[rng.Intn(3)]
	c.dur = rtDurations[rng.Intn(len(rtDurations))]
	c.base = time.Unix(1700000000+int64(rng.Intn(1000))*86400, 0).UTC().Truncate(c.dur)
	c.floatFld = rng.Intn(2) == 0
	c.timeFmt = rng.Intn(2)
	return c
}

func (e *rtEnv) concSk(abs []string) []string {
	var sk []string
	for _, k := range abs {
		sk = append(sk, e.conc.keys[k])
	}
	return sk
}

func (e *rtEnv) sortedSk() []string { return e.concSk(e.args.Sk) }

func (e *rtEnv) skDesc() string {
	if e.args.Alter >= 99 {
		return fmt.Sprint(e.sortedSk())
	}
	return fmt.Sprintf("%v altered to %v before group %d", e.sortedSk(), e.concSk(e.args.Sk2), e.args.Alter)
}

func sameStrings(a, b []string) bool {
	if len(a) != len(b) {
		return false
	}
	for i := range a {
		if a[i] != b[i] {
			return false
		}
	}
	return true
}

func (e *rtEnv) mstInfo() (*meta2.MeasurementInfo, error) {
	return e.data.Measurement(rtDB, rtRP, e.conc.mst)
}

func (e *rtEnv) boundStrings(name string) []string {
	var out []string
	for _, b := range e.args.Bounds {
		out = append(out, name+","+e.conc.keyString(b))
	}
	return out
}

func (e *rtEnv) setup(seed int64, id int) error {
	a := &e.args
	c := e.conc
	for _, sk := range [][]string{a.Sk, a.Sk2} {
		if len(sk) > 1 && !(c.keys[sk[0]] < c.keys[sk[1]]) {
			return fmt.Errorf("key table does not preserve the order of the shard key")
		}
	}
	if a.Alter < 99 && a.Type != "hash" {
		return fmt.Errorf("shard key alteration is only set up for HASH")
	}
	rng := rand.New(rand.NewSource(seed*31 + int64(id)))
	data := &meta2.Data{PtNumPerNode: uint32(a.Pt)}
	if _, err := data.CreateDataNode("127.0.0.1:8400", "127.0.0.1:8401", "", ""); err != nil {
		return err
	}
	rpi := meta2.NewRetentionPolicyInfo(rtRP)
	rpi.ShardGroupDuration = c.dur
	rpi.IndexGroupDuration = c.dur
	skType := influxql.HASH
	if a.Type == "range" {
		skType = influxql.RANGE
	}
	sk := e.sortedSk() // the parser sorts the shard key of CREATE MEASUREMENT / CREATE DATABASE
	dbLevel := a.Type == "hash" && len(sk) > 0 && a.M == a.Pt && a.Alter >= 99 && rng.Intn(3) == 0
	var dbSk *proto2.ShardKeyInfo
	if dbLevel {
		dbSk = &proto2.ShardKeyInfo{ShardKey: sk, Type: proto.String(skType)}
	}
	if err := data.CreateDatabase(rtDB, rpi, dbSk, false, 1, nil); err != nil {
		return err
	}
	if _, err := data.CreateDBPtView(rtDB); err != nil {
		return err
	}
	for i := range data.PtView[rtDB] {
		data.PtView[rtDB][i].Status = meta2.Online
	}
	if len(data.PtView[rtDB]) != a.Pt {
		return fmt.Errorf("pt view has %d partitions, want %d", len(data.PtView[rtDB]), a.Pt)
	}
	mstSk := &proto2.ShardKeyInfo{ShardKey: sk, Type: proto.String(skType)} // nil ShardKey when empty, as after the protobuf round trip
	if dbLevel {
		mstSk = &proto2.ShardKeyInfo{Type: proto.String(influxql.HASH)} // what write_helper.go:createMeasurementBase registers
	}
	nsh := int32(0)
	if a.Type == "hash" && a.M < a.Pt {
		nsh = int32(a.M)
	}
	if err := data.CreateMeasurement(rtDB, rtRP, c.mst, mstSk, nsh, nil, config.TSSTORE, nil, nil, nil); err != nil {
		return err
	}
	e.data = data
	msti, err := e.mstInfo()
	if err != nil {
		return err
	}
	// groups created before the first write, each at some instant inside its span
	created := append([]int64(nil), a.Created...)
	sort.Slice(created, func(i, j int) bool { return created[i] < created[j] })
	altered := a.Alter >= 99
	alter := func() error {
		// ALTER MEASUREMENT .. SHARDKEY: statement_executor -> MetaClient.AlterShardKey -> meta Data.AlterShardKey
		altered = true
		return data.AlterShardKey(rtDB, rtRP, c.mst, &proto2.ShardKeyInfo{ShardKey: e.concSk(a.Sk2), Type: proto.String(skType)})
	}
	for _, g := range created {
		if !altered && g >= a.Alter {
			if err := alter(); err != nil {
				return fmt.Errorf("AlterShardKey: %w", err)
			}
		}
		at := c.t(g*a.Dur + int64(rng.Intn(int(a.Dur))))
		if err := data.CreateShardGroup(rtDB, rtRP, at, util.Hot, config.TSSTORE, 0); err != nil {
			return fmt.Errorf("CreateShardGroup(%v): %w", at, err)
		}
		if a.Type == "range" && g == a.Split {
			rp, _ := data.RetentionPolicy(rtDB, rtRP)
			last := rp.ShardGroups[len(rp.ShardGroups)-1]
			info := &meta2.ReShardingInfo{Database: rtDB, Rp: rtRP, ShardGroupID: last.ID,
				SplitTime: c.t(g*a.Dur + a.SplitOff - 1).UnixNano(), Bounds: e.boundStrings(msti.Name)}
			if err := data.ReSharding(info); err != nil {
				return fmt.Errorf("ReSharding: %w", err)
			}
		}
	}
	if !altered {
		if err := alter(); err != nil {
			return fmt.Errorf("AlterShardKey: %w", err)
		}
	}
	if a.Type == "range" && a.Split >= 0 {
		found := false
		for _, g := range created {
			found = found || g == a.Split
		}
		if !found {
			return fmt.Errorf("setup re-shards a group that is not created")
		}
	}
	cli := metaclient.NewClient("", false, 0)
	cli.SetCacheData(data)
	e.mc = &rtMeta{Client: cli, data: data}
	e.store = &rtStore{sent: map[int64][]uint64{}}
	e.pw = coordinator.NewPointsWriter(5 * time.Second)
	e.pw.MetaClient = e.mc
	e.pw.TSDBStore = e.store
	e.csm = &coordinator.ClusterShardMapper{Logger: logger.NewLogger(errno.ModuleCoordinator), Timeout: time.Second}
	e.csm.MetaClient = e.mc
	return nil
}

func (e *rtEnv) buildRow(i int) influx.Row {
	x := e.exp.Rows[i]
	c := e.conc
	r := influx.Row{Name: c.mst, Timestamp: c.t(x.T).UnixNano()}
	cr := rtCRow{tags: map[string]string{}, u: x.U, t: r.Timestamp}
	for k, v := range x.Tags {
		if v == "" {
			continue
		}
		r.Tags = append(r.Tags, influx.Tag{Key: c.keys[k], Value: c.vals[v]})
		cr.tags[c.keys[k]] = c.vals[v]
	}
	if c.noise != "" {
		r.Tags = append(r.Tags, influx.Tag{Key: c.noise, Value: "n"})
		cr.tags[c.noise] = "n"
	}
	sort.Sort(&r.Tags) // line protocol rows reach the writer with tags sorted by key
	if c.floatFld {
		r.Fields = append(r.Fields, influx.Field{Key: "usage", NumValue: float64(x.U), Type: influx.Field_Type_Float})
	} else {
		r.Fields = append(r.Fields, influx.Field{Key: "usage", NumValue: float64(x.U), Type: influx.Field_Type_Int})
	}
	r.Fields = append(r.Fields, influx.Field{Key: "rid", NumValue: float64(i), Type: influx.Field_Type_Int})
	sort.Sort(&r.Fields)
	e.crow[i] = cr
	return r
}

// locate a shard id in the real meta: group and position
func (e *rtEnv) locate(id uint64) (*meta2.ShardGroupInfo, int) {
	rp, _ := e.data.RetentionPolicy(rtDB, rtRP)
	for gi := range rp.ShardGroups {
		for si := range rp.ShardGroups[gi].Shards {
			if rp.ShardGroups[gi].Shards[si].ID == id {
				return &rp.ShardGroups[gi], si
			}
		}
	}
	return nil, -1
}

// the modulus domain of a HASH group, read from the real meta
func (e *rtEnv) shardIdxes(sg *meta2.ShardGroupInfo) []int {
	msti, _ := e.mstInfo()
	if msti.InitNumOfShards != 0 {
		return msti.ShardIdexes[sg.ID]
	}
	idx := make([]int, len(sg.Shards))
	for i := range idx {
		idx[i] = i
	}
	return idx
}

// expected hash key of a row: the specification's key sequence; with an empty shard key every tag
// of the row (including the harness's extra tag) in key order
func (e *rtEnv) hashKey(i int) string {
	if len(e.exp.Rows[i].Sk) > 0 {
		return e.conc.keyString(e.exp.Rows[i].Wkey)
	}
	var ks []string
	for k := range e.crow[i].tags {
		ks = append(ks, k)
	}
	sort.Strings(ks)
	var parts []string
	for _, k := range ks {
		parts = append(parts, k+"="+e.crow[i].tags[k])
	}
	return strings.Join(parts, ",")
}

// deviation model "stale_group_cache": the shard each row of a batch reaches when the writer keeps the
// previous row's shard group as long as it contains the timestamp (0 = rejected / not predicted)
func (e *rtEnv) staleCachePrediction(order []int) map[int]uint64 {
	out := map[int]uint64{}
	if e.args.Type != "range" {
		return out
	}
	rp, _ := e.data.RetentionPolicy(rtDB, rtRP)
	msti, _ := e.mstInfo()
	var pre *meta2.ShardGroupInfo
	for _, i := range order {
		ts := time.Unix(0, e.crow[i].t).UTC()
		if pre == nil || !pre.Contains(ts) {
			pre = nil
			for gi := len(rp.ShardGroups) - 1; gi >= 0; gi-- { // the latest group containing ts
				if rp.ShardGroups[gi].Contains(ts) {
					pre = &rp.ShardGroups[gi]
					break
				}
			}
		}
		if pre == nil || e.exp.Rows[i].Acc == 0 {
			continue
		}
		key := msti.Name + "," + e.conc.keyString(e.exp.Rows[i].Wkey)
		if len(e.exp.Rows[i].Sk) == 0 {
			key = msti.Name + "," + e.hashKey(i)
		}
		for _, sh := range pre.Shards {
			if sh.Min <= key && (sh.Max == "" || key < sh.Max) {
				out[i] = sh.ID
				break
			}
		}
	}
	return out
}

func (e *rtEnv) writeRows(res *rtResult, seed int64, id int) string {
	n := len(e.exp.Rows)
	e.crow = make([]rtCRow, n)
	e.wshard = make([]uint64, n)
	// pass 1: one row per request
	for i := 0; i < n; i++ {
		rows := []influx.Row{e.buildRow(i)}
		err := e.pw.RetryWritePointRows(rtDB, rtRP, rows)
		x := e.exp.Rows[i]
		sent := e.store.sent[int64(i)]
		res.Rows++
		if x.Acc == 0 {
			if err == nil || len(sent) != 0 {
				return fmt.Sprintf("row %d %v lacks a shard-key tag (shard key %v) but was accepted: err=%v sent to shards %v", i, e.crow[i].tags, e.concSk(x.Sk), err, sent)
			}
			continue
		}
		if err != nil {
			return fmt.Sprintf("row %d %v t=%d rejected: %v", i, e.crow[i].tags, x.T, err)
		}
		if len(sent) != 1 {
			return fmt.Sprintf("row %d %v t=%d was sent to %d shards %v, want exactly one", i, e.crow[i].tags, x.T, len(sent), sent)
		}
		e.wshard[i] = sent[0]
	}
	msti, err := e.mstInfo()
	if err != nil {
		return "measurement: " + err.Error()
	}
	// where each row landed
	for i := 0; i < n; i++ {
		x := e.exp.Rows[i]
		if x.Acc == 0 {
			continue
		}
		sg, pos := e.locate(e.wshard[i])
		if sg == nil {
			return fmt.Sprintf("row %d was sent to shard %d which is in no shard group", i, e.wshard[i])
		}
		ts := time.Unix(0, e.crow[i].t).UTC()
		ws, we := e.conc.groupStart(x.Gs), e.conc.t(x.Ge)
		if !sg.StartTime.Equal(ws) || !sg.EndTime.Equal(we) {
			return fmt.Sprintf("row %d t=%d(%v) was sent to shard %d of group [%v,%v), the specification expects the group [%v,%v)",
				i, x.T, ts, e.wshard[i], sg.StartTime, sg.EndTime, ws, we)
		}
		if ts.Before(sg.StartTime) || !ts.Before(sg.EndTime) {
			return fmt.Sprintf("row %d t=%v was sent to shard %d of group [%v,%v) which does not contain it", i, ts, e.wshard[i], sg.StartTime, sg.EndTime)
		}
		// no other (unshadowed) group may contain the row
		rp, _ := e.data.RetentionPolicy(rtDB, rtRP)
		for gi := range rp.ShardGroups {
			g := &rp.ShardGroups[gi]
			if g.ID != sg.ID && g.Contains(ts) && !(g.EndTime.Equal(sg.EndTime) && g.StartTime.Before(sg.StartTime)) {
				return fmt.Sprintf("row %d t=%v is covered by two shard groups: %d [%v,%v) and %d [%v,%v)", i, ts, sg.ID, sg.StartTime, sg.EndTime, g.ID, g.StartTime, g.EndTime)
			}
		}
		if e.args.Type == "hash" {
			idx := e.shardIdxes(sg)
			if len(idx) != e.args.M {
				return fmt.Sprintf("group %d hashes over %d shards, the setup says %d", sg.ID, len(idx), e.args.M)
			}
			key := e.hashKey(i)
			if len(x.Sk) == 0 {
				// points_writer.go strips the measurement name from the key only when a shard key is defined
				key = msti.Name + "," + key
			}
			want := idx[xxhash.Sum64String(key)%uint64(len(idx))]
			if pos != want {
				return fmt.Sprintf("row %d %v: shard position %d, but xxhash(%q) mod %d selects position %d", i, e.crow[i].tags, pos, key, len(idx), want)
			}
		} else {
			key := msti.Name + "," + e.conc.keyString(x.Wkey)
			if len(x.Sk) == 0 {
				key = msti.Name + "," + e.hashKey(i)
			}
			sh := sg.Shards[pos]
			if !(sh.Min <= key && (sh.Max == "" || key < sh.Max)) {
				return fmt.Sprintf("row %d key %q was sent to shard %d with range [%q,%q)", i, key, sh.ID, sh.Min, sh.Max)
			}
			if pos != x.Slot {
				return fmt.Sprintf("row %d key %q: shard position %d, the specification expects interval %d (bounds %v)", i, key, pos, x.Slot, e.boundStrings(msti.Name))
			}
		}
	}
	// pass 2: every row again in one shuffled batch; the shard must not depend on the batch
	rng := rand.New(rand.NewSource(seed*131 + int64(id)))
	perm := rng.Perm(n)
	var batch []influx.Row
	for _, i := range perm {
		batch = append(batch, e.buildRow(i))
	}
	e.store.sent = map[int64][]uint64{}
	_ = e.pw.RetryWritePointRows(rtDB, rtRP, batch) // partial-write error when rows are rejected
	e.extra = map[int]uint64{}
	stale := e.staleCachePrediction(perm)
	for i := 0; i < n; i++ {
		sent := e.store.sent[int64(i)]
		if e.exp.Rows[i].Acc == 0 {
			if len(sent) != 0 {
				return fmt.Sprintf("row %d lacks a shard-key tag but was sent to shards %v in a batch", i, sent)
			}
			continue
		}
		if len(sent) == 1 && sent[0] == e.wshard[i] {
			continue
		}
		d := fmt.Sprintf("row %d %v t=%d: written alone it goes to shard %d, in a batch of %d rows to %v", i, e.crow[i].tags, e.exp.Rows[i].T, e.wshard[i], n, sent)
		// deviation model "stale_group_cache" (F-C11-4): write_helper.go:createShardGroup keeps the previous row's
		// group while it Contains() the timestamp, although a re-sharded group hides it
		if len(sent) == 1 && stale[i] == sent[0] && stale[i] != 0 {
			e.extra[i] = sent[0]
			if res.f4 == "" {
				res.f4 = d + " = the shard of the hidden pre-split group that the previous row of the batch had selected"
			}
			res.f4n++
			continue
		}
		return d
	}
	// the shard groups that now exist are the ones the specification lists
	rp, _ := e.data.RetentionPolicy(rtDB, rtRP)
	var got, want []string
	for gi := range rp.ShardGroups {
		g := &rp.ShardGroups[gi]
		got = append(got, fmt.Sprintf("[%d,%d)x%d", g.StartTime.UnixNano(), g.EndTime.UnixNano(), len(g.Shards)))
	}
	for _, g := range e.exp.Groups {
		nsh := g.M
		if e.args.Type == "hash" {
			nsh = e.args.Pt
		}
		want = append(want, fmt.Sprintf("[%d,%d)x%d", e.conc.groupStart(g.Start).UnixNano(), e.conc.t(g.End).UnixNano(), nsh))
	}
	for gi := range rp.ShardGroups {
		g := &rp.ShardGroups[gi]
		for _, x := range e.exp.Groups {
			if e.conc.groupStart(x.Start).Equal(g.StartTime) {
				ski := msti.GetShardKey(g.ID)
				if dbi := e.data.Database(rtDB); dbi != nil && len(dbi.ShardKey.ShardKey) > 0 {
					ski = &dbi.ShardKey // a database-level shard key takes precedence (points_writer.go, shard_mapper.go)
				}
				if ski == nil || !sameStrings(ski.ShardKey, e.concSk(x.Sk)) {
					return fmt.Sprintf("group %d [%v,%v): the measurement's shard key is %+v, the specification expects %v", g.ID, g.StartTime, g.EndTime, ski, e.concSk(x.Sk))
				}
			}
		}
	}
	sort.Strings(got)
	sort.Strings(want)
	if strings.Join(got, " ") != strings.Join(want, " ") {
		return fmt.Sprintf("shard groups after the writes: %v, the specification expects %v", got, want)
	}
	return ""
}

// ---- conditions -----------------------------------------------------------------------------------

type rtCCond struct {
	k       string
	key     string
	vals    []string
	re      *regexp.Regexp
	num     int64
	t       int64
	l, r, e *rtCCond
}

func quoteIdent(s string) string { return `"` + s + `"` }

func (e *rtEnv) timeLit(ns int64) string {
	if e.conc.timeFmt == 1 {
		return "'" + time.Unix(0, ns).UTC().Format(time.RFC3339Nano) + "'"
	}
	return fmt.Sprintf("%d", ns)
}

// render returns the InfluxQL text and the concrete tree
func (e *rtEnv) render(c *rtCond) (string, *rtCCond, error) {
	cv := func(vs []string) []string {
		var out []string
		for _, v := range vs {
			out = append(out, e.conc.vals[v])
		}
		return out
	}
	switch c.K {
	case "teq", "tneq":
		op := "="
		if c.K == "tneq" {
			op = "!="
		}
		k, v := e.conc.keys[c.Key], e.conc.vals[c.Val]
		return fmt.Sprintf("%s %s '%s'", quoteIdent(k), op, v), &rtCCond{k: c.K, key: k, vals: []string{v}}, nil
	case "tre", "tnre", "tany":
		k, vs := e.conc.keys[c.Key], cv(c.Vals)
		var pat string
		switch {
		case c.K == "tany":
			var alts []string
			for _, v := range vs {
				alts = append(alts, "^"+regexp.QuoteMeta(v)+"$")
			}
			pat = strings.Join(alts, "|")
		case len(vs) == 1:
			pat = "^" + regexp.QuoteMeta(vs[0]) + "$"
		default:
			var alts []string
			for _, v := range vs {
				alts = append(alts, regexp.QuoteMeta(v))
			}
			pat = "^(" + strings.Join(alts, "|") + ")$"
		}
		re, err := regexp.Compile(pat)
		if err != nil {
			return "", nil, err
		}
		op := "=~"
		if c.K == "tnre" {
			op = "!~"
		}
		return fmt.Sprintf("%s %s /%s/", quoteIdent(k), op, pat), &rtCCond{k: c.K, key: k, vals: vs, re: re}, nil
	case "fgt", "flt":
		op := ">"
		if c.K == "flt" {
			op = "<"
		}
		return fmt.Sprintf("usage %s %d", op, c.Num), &rtCCond{k: c.K, num: c.Num}, nil
	case "tge", "tgt", "tle", "tlt":
		op := map[string]string{"tge": ">=", "tgt": ">", "tle": "<=", "tlt": "<"}[c.K]
		ns := e.conc.t(c.T).UnixNano()
		return fmt.Sprintf("time %s %s", op, e.timeLit(ns)), &rtCCond{k: c.K, t: ns}, nil
	case "and", "or":
		if c.L == nil || c.R == nil {
			return "", nil, fmt.Errorf("binary node without operands")
		}
		lt, lc, err := e.render(c.L)
		if err != nil {
			return "", nil, err
		}
		rt, rc, err := e.render(c.R)
		if err != nil {
			return "", nil, err
		}
		return lt + " " + strings.ToUpper(c.K) + " " + rt, &rtCCond{k: c.K, l: lc, r: rc}, nil
	case "par":
		it, ic, err := e.render(c.E)
		if err != nil {
			return "", nil, err
		}
		return "(" + it + ")", &rtCCond{k: "par", e: ic}, nil
	}
	return "", nil, fmt.Errorf("unknown condition node %q", c.K)
}

// shape of a parsed expression, to make sure the text means the tree the specification chose
func rtShape(x influxql.Expr) string {
	switch x := x.(type) {
	case *influxql.BinaryExpr:
		if x.Op == influxql.AND || x.Op == influxql.OR {
			return "[" + rtShape(x.LHS) + " " + strings.ToLower(x.Op.String()) + " " + rtShape(x.RHS) + "]"
		}
		return "leaf"
	case *influxql.ParenExpr:
		return "(" + rtShape(x.Expr) + ")"
	}
	return "leaf"
}

func rtTreeShape(c *rtCond) string {
	switch c.K {
	case "and", "or":
		return "[" + rtTreeShape(c.L) + " " + c.K + " " + rtTreeShape(c.R) + "]"
	case "par":
		return "(" + rtTreeShape(c.E) + ")"
	}
	return "leaf"
}

// time bounds are intersected wherever they stand (they only occur under AND); lo/hi inclusive ns
func (c *rtCCond) timeRange(lo, hi int64) (int64, int64) {
	switch c.k {
	case "tge":
		if c.t > lo {
			lo = c.t
		}
	case "tgt":
		if c.t+1 > lo {
			lo = c.t + 1
		}
	case "tle":
		if c.t < hi {
			hi = c.t
		}
	case "tlt":
		if c.t-1 < hi {
			hi = c.t - 1
		}
	case "and", "or":
		lo, hi = c.l.timeRange(lo, hi)
		lo, hi = c.r.timeRange(lo, hi)
	case "par":
		lo, hi = c.e.timeRange(lo, hi)
	}
	return lo, hi
}

func (c *rtCCond) eval(r *rtCRow) bool {
	switch c.k {
	case "teq":
		return r.tags[c.key] == c.vals[0]
	case "tneq":
		return r.tags[c.key] != c.vals[0]
	case "tre", "tany":
		return c.re.MatchString(r.tags[c.key])
	case "tnre":
		return !c.re.MatchString(r.tags[c.key])
	case "fgt":
		return r.u > c.num
	case "flt":
		return r.u < c.num
	case "and":
		return c.l.eval(r) && c.r.eval(r)
	case "or":
		return c.l.eval(r) || c.r.eval(r)
	case "par":
		return c.e.eval(r)
	}
	return true // time bounds are judged through the time range
}

// the shards the real coordinator consults for a condition
func (e *rtEnv) realPrune(text string) (map[uint64]bool, int64, int64, string, error) {
	expr, err := influxql.ParseExpr(text)
	if err != nil {
		return nil, 0, 0, "", fmt.Errorf("ParseExpr(%s): %w", text, err)
	}
	shape := rtShape(expr)
	// query/compile.go: preprocess (ConditionExpr), Compile (RewriteRegexConditions), Prepare (MapShards)
	valuer := influxql.NowValuer{Now: time.Now()}
	cond, tr, err := influxql.ConditionExpr(expr, &valuer)
	if err != nil {
		return nil, 0, 0, shape, fmt.Errorf("ConditionExpr(%s): %w", text, err)
	}
	stmt := &influxql.SelectStatement{
		Sources:   influxql.Sources{&influxql.Measurement{Database: rtDB, RetentionPolicy: rtRP, Name: e.conc.mst}},
		Condition: cond,
	}
	stmt.RewriteRegexConditions(nil)
	sg, err := e.csm.MapShards(stmt, tr, query.SelectOptions{}, stmt.Condition)
	if err != nil {
		return nil, 0, 0, shape, fmt.Errorf("MapShards(%s): %w", text, err)
	}
	m, ok := sg.(*coordinator.ClusterShardMapping)
	if !ok {
		return nil, 0, 0, shape, fmt.Errorf("MapShards returned %T", sg)
	}
	out := map[uint64]bool{}
	for _, byPt := range m.ShardMap {
		for _, shs := range byPt {
			for _, s := range shs {
				out[s.ID] = true
			}
		}
	}
	return out, tr.MinTimeNano(), tr.MaxTimeNano(), shape, nil
}

// may the shard [min,max) hold a key equal to prefix p or extending it (the rule of ShardInfo.ContainPrefix)
func rtContainsPrefix(min, max, p string) bool {
	gtMin := min == ""
	if len(min) > len(p) {
		gtMin = min[:len(p)] <= p
	} else {
		gtMin = gtMin || min <= p
	}
	ltMax := max == "" || p < max
	return gtMin && ltMax
}

// shards predicted by a model of the specification: per overlapping group the key set of the group's
// shard key (p1 original, p2 altered); with deviation sticky_shard_key the first group's choice for all
func (e *rtEnv) predict(m *rtModel, lo, hi int64) map[uint64]bool {
	out := map[uint64]bool{}
	rp, _ := e.data.RetentionPolicy(rtDB, rtRP)
	msti, _ := e.mstInfo()
	sticky := false
	for _, d := range m.Dev {
		sticky = sticky || d == "sticky_shard_key"
	}
	classOf := func(g *meta2.ShardGroupInfo) *rtPrune {
		for _, x := range e.exp.Groups {
			if e.conc.groupStart(x.Start).Equal(g.StartTime) {
				if sameStrings(x.Sk, e.args.Sk) {
					return &m.P1
				}
				return &m.P2
			}
		}
		return &m.P1
	}
	var first *rtPrune
	for gi := range rp.ShardGroups {
		g := &rp.ShardGroups[gi]
		if !(g.StartTime.UnixNano() <= hi && g.EndTime.UnixNano() > lo) {
			continue
		}
		p := classOf(g)
		if first == nil {
			first = p
		}
		if sticky {
			p = first
		}
		if p.All {
			for _, s := range g.Shards {
				out[s.ID] = true
			}
			continue
		}
		for _, ks := range p.Keys {
			key := e.conc.keyString(ks)
			if e.args.Type == "hash" {
				idx := e.shardIdxes(g)
				out[g.Shards[idx[xxhash.Sum64String(key)%uint64(len(idx))]].ID] = true
			} else {
				pfx := msti.Name
				if key != "" {
					pfx += "," + key
				}
				for _, s := range g.Shards {
					if rtContainsPrefix(s.Min, s.Max, pfx) {
						out[s.ID] = true
					}
				}
			}
		}
	}
	return out
}

func rtSetEq(a, b map[uint64]bool) bool {
	if len(a) != len(b) {
		return false
	}
	for k := range a {
		if !b[k] {
			return false
		}
	}
	return true
}

func rtSetStr(a map[uint64]bool) string {
	var ids []uint64
	for k := range a {
		ids = append(ids, k)
	}
	sort.Slice(ids, func(i, j int) bool { return ids[i] < ids[j] })
	return fmt.Sprint(ids)
}

func (e *rtEnv) allShards() map[uint64]bool {
	out := map[uint64]bool{}
	rp, _ := e.data.RetentionPolicy(rtDB, rtRP)
	for gi := range rp.ShardGroups {
		for _, s := range rp.ShardGroups[gi].Shards {
			out[s.ID] = true
		}
	}
	return out
}

type rtProbeOutcome struct {
	violation string
	infra     string
	known     string // finding ids, "+"-joined
	example   string
}

func (e *rtEnv) probe(res *rtResult, pa *rtProbeArgs, pe *rtProbeExp) rtProbeOutcome {
	text, cc, err := e.render(pa.Cond)
	if err != nil {
		return rtProbeOutcome{infra: "render: " + err.Error()}
	}
	real, tmin, tmax, shape, err := e.realPrune(text)
	if err != nil {
		return rtProbeOutcome{infra: err.Error()}
	}
	if want := rtTreeShape(pa.Cond); shape != want {
		return rtProbeOutcome{infra: fmt.Sprintf("text %q parses as %s, the specification's tree is %s", text, shape, want)}
	}
	res.Conds++
	lo, hi := cc.timeRange(influxql.MinTime, influxql.MaxTime)
	if lo != tmin || hi != tmax {
		// the time range the coordinator derives is part of what is replayed; it has to be the intersection
		return rtProbeOutcome{violation: fmt.Sprintf("condition %s: the coordinator derives the time range [%d,%d], the bounds intersect to [%d,%d]", text, tmin, tmax, lo, hi)}
	}
	if len(pe.Match) != len(e.exp.Rows) {
		return rtProbeOutcome{infra: "match vector length"}
	}
	var missing []int
	matching := 0
	for i := range e.exp.Rows {
		if e.exp.Rows[i].Acc == 0 {
			continue
		}
		r := &e.crow[i]
		m := r.t >= lo && r.t <= hi && cc.eval(r)
		if m != (pe.Match[i] == 1) {
			return rtProbeOutcome{infra: fmt.Sprintf("harness and specification disagree on whether row %d %v u=%d satisfies %s (harness %v)", i, r.tags, r.u, text, m)}
		}
		if !m {
			continue
		}
		res.Checks++
		matching++
		if !real[e.wshard[i]] {
			missing = append(missing, i)
		} else if x, ok := e.extra[i]; ok && !real[x] {
			missing = append(missing, i)
		}
	}
	if !rtSetEq(real, e.allShards()) {
		res.Narrow++
	}
	var design *rtModel
	for mi := range pe.Models {
		if len(pe.Models[mi].Dev) == 0 {
			design = &pe.Models[mi]
		}
	}
	if design == nil {
		return rtProbeOutcome{infra: "no design model in the probe"}
	}
	if rtSetEq(real, e.predict(design, lo, hi)) {
		res.AsSpec++
	}
	if len(missing) == 0 {
		return rtProbeOutcome{}
	}
	res.Diverge++
	i := missing[0]
	what := fmt.Sprintf("shard key %s (%s, %d shards per group): condition %s consults shards %s; row %v usage=%d t=%d satisfies it and was written to shard %d (%d of %d matching rows are outside the consulted set)",
		e.skDesc(), e.args.Type, e.args.M, text, rtSetStr(real), e.crow[i].tags, e.crow[i].u, e.exp.Rows[i].T, e.wshard[i], len(missing), matching)
	// attribution: smallest deviation set whose model predicts exactly the consulted set
	models := append([]rtModel(nil), pe.Models...)
	sort.SliceStable(models, func(a, b int) bool { return len(models[a].Dev) < len(models[b].Dev) })
	for _, m := range models {
		if len(m.Dev) == 0 {
			continue
		}
		if rtSetEq(real, e.predict(&m, lo, hi)) {
			var ids []string
			for _, d := range m.Dev {
				f, ok := rtFindingOf[d]
				if !ok {
					return rtProbeOutcome{violation: what + "; equals the model of unknown deviation " + d}
				}
				ids = append(ids, f)
			}
			sort.Strings(ids)
			return rtProbeOutcome{known: strings.Join(ids, "+"), example: what}
		}
	}
	return rtProbeOutcome{violation: what + "; no deviation model predicts this set"}
}

func runRoutingCase(rc *rtCase) (res rtResult) {
	res = rtResult{ID: rc.ID, OK: true, Step: -1}
	defer func() {
		if r := recover(); r != nil {
			res.OK = false
			res.Detail = fmt.Sprintf("panic at step %d: %v", res.Step, r)
		}
	}()
	if len(rc.Hist) == 0 || rc.Hist[0].A != "Setup" {
		res.Infra = "behaviour does not start with Setup"
		return
	}
	env := &rtEnv{}
	known := map[string]*rtKnown{}
	for i, st := range rc.Hist {
		res.Step, res.Action = i, st.A
		switch st.A {
		case "Setup":
			if err := json.Unmarshal(st.Args, &env.args); err != nil {
				res.Infra = "bad setup args: " + err.Error()
				return
			}
			if err := json.Unmarshal(st.Exp, &env.exp); err != nil {
				res.Infra = "bad setup exp: " + err.Error()
				return
			}
			env.conc = newRtConc(rc.Seed, rc.ID, &env.args)
			if err := env.setup(rc.Seed, rc.ID); err != nil {
				res.Infra = "setup: " + err.Error()
				return
			}
			if d := env.writeRows(&res, rc.Seed, rc.ID); d != "" {
				res.OK = false
				res.Detail = fmt.Sprintf("write side (shard key %s %s, %d partitions, measurement %s, group duration %v): %s",
					env.skDesc(), env.args.Type, env.args.Pt, env.conc.mst, env.conc.dur, d)
				return
			}
		case "ProbeCond":
			var pa rtProbeArgs
			var pe rtProbeExp
			if err := json.Unmarshal(st.Args, &pa); err != nil {
				res.Infra = "bad probe args: " + err.Error()
				return
			}
			if err := json.Unmarshal(st.Exp, &pe); err != nil {
				res.Infra = "bad probe exp: " + err.Error()
				return
			}
			o := env.probe(&res, &pa, &pe)
			switch {
			case o.infra != "":
				res.Infra = o.infra
				return
			case o.violation != "":
				res.OK = false
				res.Detail = o.violation
				return
			case o.known != "":
				k := known[o.known]
				if k == nil {
					k = &rtKnown{Finding: o.known, Example: o.example}
					known[o.known] = k
				}
				k.Count++
			}
		default:
			res.Infra = "unknown action " + st.A
			return
		}
	}
	if res.f4n > 0 {
		known["F-C11-4"] = &rtKnown{Finding: "F-C11-4", Count: res.f4n, Example: fmt.Sprintf("shard key %v range, bounds %v: %s", env.sortedSk(), env.args.Bounds, res.f4)}
	}
	ids := map[string]bool{}
	for f, k := range known {
		res.Knowns = append(res.Knowns, *k)
		for _, id := range strings.Split(f, "+") {
			ids[id] = true
		}
	}
	sort.Slice(res.Knowns, func(i, j int) bool { return res.Knowns[i].Finding < res.Knowns[j].Finding })
	var all []string
	for id := range ids {
		all = append(all, id)
	}
	sort.Strings(all)
	res.Known = strings.Join(all, "+")
	return
}

func replayRouting(args []string) int {
	logger.SetLogger(zap.NewNop())
	meta2.DataLogger = zap.NewNop()
	sc := bufio.NewScanner(os.Stdin)
	sc.Buffer(make([]byte, 1<<20), 1<<28)
	out := bufio.NewWriter(os.Stdout)
	defer out.Flush()
	bad := 0
	for sc.Scan() {
		line := sc.Bytes()
		if len(line) == 0 {
			continue
		}
		var rc rtCase
		if err := json.Unmarshal(line, &rc); err != nil {
			fmt.Fprintln(os.Stderr, "bad case:", err)
			return 2
		}
		done := make(chan rtResult, 1)
		go func() { done <- runRoutingCase(&rc) }()
		var r rtResult
		select {
		case r = <-done:
		case <-time.After(120 * time.Second):
			fmt.Fprintf(os.Stderr, "WATCHDOG: routing case %d did not finish\n", rc.ID)
			_ = pprof.Lookup("goroutine").WriteTo(os.Stderr, 1)
			fmt.Printf("{\"id\":%d,\"ok\":false,\"hang\":true,\"detail\":\"case did not finish within 120s\"}\n", rc.ID)
			os.Exit(3)
		}
		if !r.OK {
			bad++
		}
		b, _ := json.Marshal(r)
		out.Write(b)
		out.WriteByte('\n')
		out.Flush()
	}
	if bad > 0 {
		return 1
	}
	return 0
}
