package main

import (
	"fmt"
	"math"
	"os"

	"github.com/openGemini/openGemini/lib/raftlog"
	"go.etcd.io/etcd/raft/v3/raftpb"
)

func ents(lo, hi, term uint64) []raftpb.Entry {
	var es []raftpb.Entry
	for i := lo; i <= hi; i++ {
		es = append(es, raftpb.Entry{Index: i, Term: term, Data: []byte(fmt.Sprintf("d%d-%d", term, i))})
	}
	return es
}

func show(s *raftlog.RaftDiskStorage, tag string, terms []uint64) {
	f, _ := s.FirstIndex()
	l, _ := s.LastIndex()
	fmt.Printf("[%s] first=%d last=%d", tag, f, l)
	for _, i := range terms {
		t, err := s.Term(i)
		fmt.Printf(" T(%d)=%d,%v", i, t, err)
	}
	sn, _ := s.Snapshot()
	fmt.Printf(" snap=%d/%d\n", sn.Metadata.Index, sn.Metadata.Term)
}

func main() {
	dir, _ := os.MkdirTemp("/dev/shm", "c17probe-")
	defer os.RemoveAll(dir)
	s, err := raftlog.Init(dir, 0)
	if err != nil {
		panic(err)
	}
	show(s, "empty", []uint64{0, 1})
	e, err := s.Entries(1, 1, 100)
	fmt.Println("Entries(1,1) on empty:", len(e), err)
	s.Save(&raftpb.HardState{Term: 1, Vote: 1, Commit: 5}, ents(1, 70000, 1), nil)
	show(s, "70000", []uint64{0, 1, 30000, 30001, 70000, 70001})
	fmt.Println("CreateSnapshot(40000):", s.CreateSnapshot(40000, &raftpb.ConfState{Voters: []uint64{1, 2}}, []byte("S")))
	show(s, "snap40000", []uint64{39999, 40000})
	fmt.Println("CreateSnapshot(35000) stale:", s.CreateSnapshot(35000, &raftpb.ConfState{Voters: []uint64{1}}, []byte("S2")))
	show(s, "snap35000", []uint64{39999, 40000})
	fmt.Println("DeleteBefore(65000):", s.DeleteBefore(65000))
	show(s, "del65000", []uint64{29999, 30000, 59999, 60000, 60001})
	e, err = s.Entries(60000, 60002, math.MaxUint64)
	fmt.Println("Entries(60000,60002):", len(e), err)
	e, err = s.Entries(60001, 60003, 0)
	fmt.Println("Entries(60001,60003,0):", len(e), err)
	e, err = s.Entries(69999, 70002, 0)
	fmt.Println("Entries(69999,70002,0):", len(e), err)
	fmt.Println("DeleteBefore(100):", s.DeleteBefore(100))
	fmt.Println("DeleteBefore(80000):", s.DeleteBefore(80000))
	show(s, "del80000", []uint64{60000, 60001})
	s.Close()
	s, err = raftlog.Init(dir, 0)
	fmt.Println("reopen", err)
	show(s, "reopen", []uint64{34999, 35000, 60000, 60001})
	hs, cs, _ := s.InitialState()
	fmt.Println(hs, cs)
	// install snapshot beyond the log
	err = s.Save(nil, nil, &raftpb.Snapshot{Data: []byte("X"), Metadata: raftpb.SnapshotMetadata{Index: 90000, Term: 3, ConfState: raftpb.ConfState{Voters: []uint64{1}}}})
	fmt.Println("install", err)
	show(s, "installed", []uint64{60000, 60001, 70000, 89999, 90000, 90001})
	s.Save(nil, ents(90001, 90005, 3), nil)
	show(s, "after append 90001..", []uint64{70000, 70001, 90000, 90001, 90005})
	e, err = s.Entries(69999, 90003, math.MaxUint64)
	fmt.Println("Entries(69999,90003):", len(e), err)
	s.Close()
}
