#!/usr/bin/env python3
"""idempotent: adds / refreshes the open C19 findings F-C19-8, -9, -10 in /verif/known_findings.json (load-modify-write)"""
import json, os, fcntl
P = "/verif/known_findings.json"
NEW = [
 {"id": "F-C19-8", "property": "C19", "status": "open", "deviation": "cache_hit_skips_authz", "dev": "cache_hit_skips_authz",
  "what": "With the result cache on ([http.result-cache] result-cache-enabled = true) a Prometheus range query "
          "(/api/v1/query_range, /prometheus/{metric_store}/api/v1/query_range, GET and POST) that is a FULL hit of the cache is answered by "
          "ResultsCache.handleHit without any authorisation decision: checkAuthorization sits in Handler.execQuery, which only a miss or a "
          "partial hit reaches. The cache key is the request (metric store, database, retention policy, query text, step, time bucket), not "
          "the user. Any authenticated user - without a privilege on the database, or after his READ was revoked - receives the "
          "answer a privileged user's request left in the cache. Requests without valid credentials are still refused (401) by the wrapper; "
          "instant queries do not consult the cache.",
  "predicate": "request of route class cread (range query over a time range older than max-cache-freshness) whose credentials "
               "authenticate a live user lacking READ on the database, while the cache holds an answer for the same request (hit = TRUE in the "
               "exported step: an earlier authorised request of the behaviour filled it)",
  "signature": "answered 200 with the cached rows instead of 403 - exactly Outcome of Auth.tla with Dev = {cache_hit_skips_authz}; a request "
               "whose key is not in the cache, a request with Cache-Control: no-store and every unauthenticated request get the design's answer",
  "reproduction": "ts-server with [http] auth-enabled = true and [http.result-cache] result-cache-enabled = true, max-cache-freshness = \"1m\", "
                  "split-queries-by-interval = \"24h\"; as admin: CREATE DATABASE cdb; CREATE USER usera ..; GRANT READ ON cdb TO usera; CREATE USER "
                  "nopriv ..; remote-write samples of metric cmetric two hours old; Q='http://H/api/v1/query_range?db=cdb&query=cmetric&start=T0&end=T0+3540&step=60'; "
                  "curl -u nopriv:.. $Q -> 403; curl -u usera:.. $Q -> 200 (fills); curl -u nopriv:.. $Q -> 200 with the series",
  "fix_candidate": "selftest/fixes/c19-result-cache-authorizes-first.diff (servePromBaseQuery authorises a READ on the database before "
                   "ResultCache.Do; fixcheck lost: 0 on lib/util/lifted/influx/httpd)",
  "anchors": ["lib/util/lifted/influx/httpd/handler_prom.go:servePromBaseQuery", "lib/util/lifted/influx/httpd/results_cache.go:Do/handleHit"]},
 {"id": "F-C19-9", "property": "C19", "status": "open", "deviation": "reject_then_continue", "dev": "reject_then_continue",
  "what": "lib/httpserver.Authenticate - the authentication wrapper of the HTTP ports of ts-meta ([meta] auth-enabled) and ts-store "
          "([data.ops-monitor] auth-enabled) - has a `default:` branch for credentials that are not user name + password: it writes 401 "
          "'unsupported authentication' and then falls through to inner(w, r). Any request with `Authorization: Bearer <anything>` and no "
          "other credentials is answered 401 AND executed: GET /getdata returns the whole catalogue with the password hashes after the error "
          "object, POST /takeover?open=false switches take-over off, POST /balance, /movePt, /userSnapshot, /metaRecover, /recoverMeta .. run.",
  "predicate": "request of a side-port route class (m_internals, m_control, m_stats, s_stats) whose credentials travel as a Bearer header "
               "(any token: valid, expired, wrongly signed, garbage)",
  "signature": "status 401 with the wrapper's error object, and the handler ran: the answer goes on after the error object and / or the effect "
               "is there (switch of the meta node changed, snapshot taken) - exactly Outcome of Auth.tla with Dev = {reject_then_continue} "
               "(st = unauthenticated, acted = TRUE). Requests without credentials or with a wrong password are refused and nothing runs.",
  "reproduction": "ts-server with [meta] auth-enabled = true and an administrator; curl -i -H 'Authorization: Bearer x' 'http://META_HTTP/getdata?parts=Users' "
                  "-> 401 {\"error\":\"unsupported authentication\"}{\"Users\":[{\"Name\":\"admin\",\"Hash\":..; curl -XPOST -H 'Authorization: Bearer x' "
                  "'http://META_HTTP/takeover?open=false' -> 401 ..{\"OK\":true,..} and /getdata shows TakeOverEnabled false",
  "fix_candidate": "selftest/fixes/c19-sideport-reject-returns.diff (`return` after the 401; fixcheck lost: 0 on lib/httpserver, app/ts-meta/meta, app/ts-store/run)",
  "anchors": ["lib/httpserver/handler.go:Authenticate", "app/ts-meta/meta/handler.go:WrapHandler", "app/ts-store/run/handler.go:WrapHandler"]},
 {"id": "F-C19-10", "property": "C19", "status": "open", "deviation": "noauthz_sideport", "dev": "noauthz_sideport",
  "what": "The HTTP ports of the meta and the store role authenticate (lib/httpserver.Authenticate) but never authorise: the handlers have no "
          "user parameter. Any user - also one without a single privilege - reads GET /getdata (whole catalogue, password hashes of every user "
          "including the administrator), /debug, /analysisCache and runs every POST route (take-over / balancer switches, movePt, snapshots, "
          "metaRecover, recoverMeta, specialCtlData, leadershiptransfer ..) of the meta port and reads /debug/vars of both ports.",
  "predicate": "request of a side-port route class whose credentials (Basic / Token / URL parameters) authenticate a live user that is not the administrator",
  "signature": "answered and carried out as for the administrator - exactly Outcome of Auth.tla with Dev = {noauthz_sideport} (HandlerNeeds = {authn})",
  "reproduction": "ts-server with [meta] auth-enabled = true; CREATE USER nopriv ..; curl -u nopriv:.. 'http://META_HTTP/getdata?parts=Users' -> 200 with "
                  "the administrator's hash; curl -u nopriv:.. -XPOST 'http://META_HTTP/balance?open=false' -> 200 {\"OK\":true}",
  "fix_candidate": "selftest/fixes/c19-sideport-needs-admin.diff (the wrapper requires AuthorizeUnrestricted; fixcheck lost: 0; "
                   "selftest/fixes/c19-sideport-both.diff = this one and c19-sideport-reject-returns.diff together)",
  "anchors": ["lib/httpserver/handler.go:Authenticate", "app/ts-meta/meta/handler.go:ServeHTTP"]},
]
with open(P, "r+") as f:
    fcntl.flock(f, fcntl.LOCK_EX)
    k = json.load(f)
    ids = {x["id"] for x in NEW}
    fixed_txt = " ".join(x if isinstance(x, str) else json.dumps(x) for x in k.get("fixed", []))
    k["findings"] = [x for x in k["findings"] if x.get("id") not in ids] + [x for x in NEW if x["id"] + " " not in fixed_txt + " "]
    f.seek(0); f.truncate()
    json.dump(k, f, indent=1, ensure_ascii=False)
    f.write("\n")
print("open C19 findings:", [x["id"] for x in json.load(open(P))["findings"] if x.get("property") == "C19"])
