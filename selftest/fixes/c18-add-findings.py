#!/usr/bin/env python3
"""idempotent: adds / refreshes the open findings F-C18-10 and F-C18-11 in /verif/known_findings.json (load - modify - write)"""
import json, os
P = "/verif/known_findings.json"
NEW = [
 {"id": "F-C18-10", "property": "C18", "status": "open",
  "deviation": "nan_passes_comparison",
  "dev": "nan_passes_comparison",
  "what": "an ordinary NaN sample (value.NormalNaN 0x7FF8000000000001, not the staleness marker; it reaches the store through "
          "remote write) passes the FILTER form of < <= > >= between a plain selector and a scalar: `m > 3`, `3 < m`, `m <= 3` return "
          "the elements whose value is NaN together with the ones that satisfy the comparison (Prometheus: every comparison with NaN "
          "is false, the element is dropped). The transpiler turns the comparison into the WHERE condition of a statement over the "
          "measurement; the condition is pushed down to the store, whose float filters drop a row when the NEGATED comparison holds "
          "(lib/binaryfilterfunc/eval_generator.gen.go GetFloatGTConditionBitMapWithoutNull: `if values[i] <= cmpData { drop }`, "
          "likewise LT / GTE / LTE, with and without nulls) - NaN satisfies neither the comparison nor its negation, so the row is "
          "kept. Under an aggregation the error becomes a wrong number: count(m > 3) counts the NaN elements, sum(m > 3) is NaN. "
          "== and != , the bool form, comparisons over a range function or an aggregation (evaluated by the executor, not the store) "
          "and vector-vector comparisons are right. The same filters serve InfluxQL (select v from m where v > 3 returns NaN rows).",
  "predicate": "the expression contains a comparison < <= > >= without bool between a plain (instant) selector and a scalar, and a "
               "selected series has a NaN sample as its latest sample in the look-back window",
  "signature": "answer == Eval with the NaN elements of the selector passing that filter (PromSem.tla BinVS nanPass, Dev "
               "nan_passes_comparison), exactly - also in combination with F-C18-1/2/4",
  "reproduction": "remote write m{job=a}: (t0, NaN 0x7FF8000000000001), m{job=b}: (t0, 5), m{job=c}: (t0, 1); GET /api/v1/query?"
                  "query=m > 3&time=t0 returns {job=a} NaN and {job=b} 5 (Prometheus: only {job=b}); m < 3 returns {job=a} and {job=c}; "
                  "m > bool 3 and m == 3 are right; count(m > 3) returns 2 (Prometheus: 1)",
  "fix_candidate": "selftest/fixes/c18-float-filter-drops-nan.diff (the eight float order filters of lib/binaryfilterfunc keep a row "
                   "only if the comparison itself holds: `if !(values[i] > cmpData)`; template and generated file; go test "
                   "./lib/binaryfilterfunc/ ./engine/... pass, tools/fixcheck.py lost: 0; with it the check no longer re-observes the finding)"},
 {"id": "F-C18-11", "property": "C18", "status": "open",
  "deviation": "minmax_sentinel_leaks",
  "dev": "minmax_sentinel_leaks",
  "what": "min / max aggregations that the executor evaluates by hash aggregation - the operand is an arithmetic or comparison "
          "expression or another aggregation over instant selectors: min by (job) (m * 2), max(m != 3), max(sum without (inst) (m)) - "
          "answer +1.7976931348623157e308 (min) / -1.7976931348623157e308 (max) for a group whose elements are all NaN (Prometheus: "
          "NaN). engine/executor/hash_agg_func_prom.go minPromOperator / maxPromOperator start from +-math.MaxFloat64 instead of the "
          "first element of the group: `if vs[i] < s.val || math.IsNaN(s.val)` never replaces the start value when every element is "
          "NaN (the same start value answers for a group of +Inf under min and of -Inf under max). A silently wrong, absurdly large "
          "finite number where Prometheus says NaN; instant and range queries alike. min / max directly over a selector or over a "
          "range function (evaluated by the store-side reducers) are right.",
  "predicate": "the expression contains min / max whose operand is a binary expression or an aggregation all of whose leaves are "
               "instant selectors, and at the evaluation time a group of that aggregation has NaN elements only",
  "signature": "answer == Eval with +-MaxFloat64 for the all-NaN groups of such an aggregation (PromSem.tla AggVal sentinel / "
               "HashAggPath, Dev minmax_sentinel_leaks), exactly; the sentinel is only ever predicted as an answer (expressions in "
               "which it would flow into a further operator are not generated)",
  "reproduction": "remote write m{job=a}: (t0, NaN 0x7FF8000000000001), m{job=b}: (t0, 5); GET /api/v1/query?query=max by (job) (m * 1)"
                  "&time=t0 returns {job=a} -1.7976931348623157e+308 (Prometheus: NaN), min by (job) (m * 1) returns "
                  "+1.7976931348623157e+308; max by (job) (m) returns NaN (right)",
  "fix_candidate": "selftest/fixes/c18-minmax-agg-first-value.diff (the first element of a group replaces the start value; go test "
                   "./engine/executor/ passes, tools/fixcheck.py lost: 0; with it the check no longer re-observes the finding)"},
]
d = json.load(open(P))
ids = {f["id"]: n for n, f in enumerate(d["findings"])}
for f in NEW:
    if f["id"] in ids:
        d["findings"][ids[f["id"]]] = f
    else:
        # keep the C18 entries together: after the last C18 entry
        pos = max([n for n, x in enumerate(d["findings"]) if x.get("property") == "C18"] + [len(d["findings"]) - 1]) + 1
        d["findings"].insert(pos, f)
tmp = P + ".tmp-c18"
open(tmp, "w").write(json.dumps(d, indent=1))
os.replace(tmp, P)
print("known_findings.json: C18 open =", [f["id"] for f in d["findings"] if f.get("property") == "C18" and f.get("status") == "open"])
