#!/usr/bin/env python3
"""idempotent: adds / refreshes the open finding F-C18-10 in /verif/known_findings.json (load - modify - write)"""
import json, os
P = "/verif/known_findings.json"
NEW = [
 {"id": "F-C18-10", "property": "C18", "status": "open",
  "deviation": "nan_passes_comparison",
  "dev": "nan_passes_comparison",
  "what": "an ordinary NaN sample (value.NormalNaN 0x7FF8000000000001, not the staleness marker; it reaches the store through "
          "remote write) passes the FILTER form of < <= > >= between a plain selector and a scalar: `m > 3`, `3 < m`, `m <= 3` return "
          "the elements whose value is NaN together with the ones that satisfy the comparison (Prometheus: every comparison with NaN "
          "is false, the element is dropped). The transpiler turns the comparison into the WHERE condition of a statement over the "
          "measurement; the condition is pushed down to the store, whose float filters drop a row when the NEGATED comparison holds "
          "(lib/binaryfilterfunc/eval_generator.gen.go GetFloatGTConditionBitMapWithoutNull: `if values[i] <= cmpData { drop }`, "
          "likewise LT / GTE / LTE, with and without nulls) - NaN satisfies neither the comparison nor its negation, so the row is "
          "kept. Under an aggregation the error becomes a wrong number: count(m > 3) counts the NaN elements, sum(m > 3) is NaN. "
          "== and != , the bool form, comparisons over a range function or an aggregation (evaluated by the executor, not the store) "
          "and vector-vector comparisons are right. The same filters serve InfluxQL (select v from m where v > 3 returns NaN rows).",
  "predicate": "the expression contains a comparison < <= > >= without bool between a plain (instant) selector and a scalar, and a "
               "selected series has a NaN sample as its latest sample in the look-back window",
  "signature": "answer == Eval with the NaN elements of the selector passing that filter (PromSem.tla BinVS nanPass, Dev "
               "nan_passes_comparison), exactly - also in combination with F-C18-1/2/4",
  "reproduction": "remote write m{job=a}: (t0, NaN 0x7FF8000000000001), m{job=b}: (t0, 5), m{job=c}: (t0, 1); GET /api/v1/query?"
                  "query=m > 3&time=t0 returns {job=a} NaN and {job=b} 5 (Prometheus: only {job=b}); m < 3 returns {job=a} and {job=c}; "
                  "m > bool 3 and m == 3 are right; count(m > 3) returns 2 (Prometheus: 1)",
  "fix_candidate": "selftest/fixes/c18-float-filter-drops-nan.diff (the eight float order filters of lib/binaryfilterfunc keep a row "
                   "only if the comparison itself holds: `if !(values[i] > cmpData)`; template and generated file; go test "
                   "./lib/binaryfilterfunc/ ./engine/... pass, tools/fixcheck.py lost: 0; with it the check no longer re-observes the finding)"},
]
d = json.load(open(P))
ids = {f["id"]: n for n, f in enumerate(d["findings"])}
for f in NEW:
    if f["id"] in ids:
        d["findings"][ids[f["id"]]] = f
    else:
        # keep the C18 entries together: after the last C18 entry
        pos = max([n for n, x in enumerate(d["findings"]) if x.get("property") == "C18"] + [len(d["findings"]) - 1]) + 1
        d["findings"].insert(pos, f)
tmp = P + ".tmp-c18"
open(tmp, "w").write(json.dumps(d, indent=1))
os.replace(tmp, P)
print("known_findings.json: C18 open =", [f["id"] for f in d["findings"] if f.get("property") == "C18" and f.get("status") == "open"])
