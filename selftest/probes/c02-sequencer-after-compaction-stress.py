import json,subprocess,concurrent.futures as cf,sys,os
o=json.load(open("/verif/selftest/histories/c02-sequencer-after-compaction.json"))
c=o["case"]
env=dict(os.environ)
for kv in sys.argv[2:]:
    k,v=kv.split("="); env[k]=v
vh=sys.argv[1]
def run(i):
    bad=0
    for k in range(20):
        p=subprocess.run([vh,"replay-layout"],input=json.dumps(c)+"\n",capture_output=True,text=True,env=env)
        for line in p.stdout.splitlines():
            if line.startswith("{") and not json.loads(line)["ok"]: bad+=1
    return bad
with cf.ThreadPoolExecutor(16) as ex:
    print(sys.argv[2:], sum(ex.map(run, range(16))), "failures of 320")
