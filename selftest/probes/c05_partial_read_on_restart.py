"""F-C05-3 probe: on a real 3-store cluster (REPLICAS 3) write new series, kill the store of the master partition 0.1 s after the
acknowledgement, restart it 0.5 s later and query every 20 ms: prints the 200-answers with fewer rows than acknowledged.
    GOFLAGS=-mod=mod GOPROXY=off python3 selftest/probes/c05_partial_read_on_restart.py"""
import sys, os, time, json, urllib.request
sys.path.insert(0, "/verif/tools"); sys.path.insert(0, "/verif/props")
import vlib, vcluster, c05
cl = vcluster.Cluster(name="c05x-probe3", seed=777)
try:
    cl.start()
    print(cl.query("CREATE DATABASE db0 REPLICAS 3", method="POST"), flush=True)
    drv = c05.Driver(cl, 5)
    T0 = 1700000000
    lines = "\n".join(f"m,host=s{k} v=1i {T0 + j}" for k in range(1, 4) for j in range(4))
    for _ in range(100):
        st, b = cl.write("db0", lines, precision="s")
        if st == 204: break
        time.sleep(0.5)
    for _ in range(100):
        st, b = cl.query("select count(v) from m", db="db0")
        try:
            if b["results"][0]["series"][0]["values"][0][1] == 12: break
        except Exception: pass
        time.sleep(0.3)
    print("rows visible", flush=True)
    for rnd in range(10):
        mm = f"p{rnd}"
        lines = "\n".join(f"{mm},host=s{k} v=1i {T0 + j}" for k in range(1, 4) for j in range(4))
        for _ in range(100):
            st, b = cl.write("db0", lines, precision="s")
            if st == 204: break
            time.sleep(0.5)
        for _ in range(200):
            st, b = cl.query(f"select count(v) from {mm}", db="db0")
            try:
                if b["results"][0]["series"][0]["values"][0][1] == 12: break
            except Exception: pass
            time.sleep(0.1)
        st, b = cl.write("db0", f"{mm},host=s1 v=2i {T0 + 50}\n{mm},host=s1 v=2i {T0 + 1}", precision="s")
        time.sleep(0.1)
        ms = drv.master_store()
        tk = time.time()
        cl.kill_store(ms)
        time.sleep(0.5)
        cl.start_store(ms)
        tr = time.time()
        seen = []
        while time.time() - tr < 5.0:
            tq = time.time()
            try:
                st, b = cl.query(f"select * from {mm}", db="db0", epoch="s", timeout=10)
                res = (b.get("results") or [{}])[0]
                n = sum(len(s["values"]) for s in res.get("series", []) or [])
                err = res.get("error")
            except Exception as ex:
                st, n, err = -1, -1, str(ex)[:60]
            seen.append((round(tq - tr, 3), round(time.time() - tr, 3), st, n, err))
            time.sleep(0.02)
        part = [x for x in seen if x[2] == 200 and not x[4] and 0 <= x[3] < 13]
        print(f"round {rnd}: master store {ms}; {len(seen)} queries; partial 200-answers: {part[:8]}; errors: {len([x for x in seen if x[4] or x[2] != 200])}; master now {drv.master_store()}", flush=True)
        time.sleep(6)
finally:
    cl.stop()
