#!/usr/bin/env python3
"""idempotent: adds / refreshes the open findings F-C13-9 .. F-C13-14 in /verif/known_findings.json (load - modify - write)"""
import json, os, sys
P = "/verif/known_findings.json"
NEW = [
 {"id": "F-C13-9", "property": "C13", "status": "open",
  "deviation": "late_index_unwired (DropSem.tla ImplDev; world fields ig / wired / delidx / zomb / zmem; replay: imp.inst[].live, cause unwired)",
  "what": "The deleted-series set of a retention policy (the mergeset table index/18446744073709551615_0_0, one per database partition and policy) is handed only to the index groups that exist when the set is created: DBPTInfo.OpenIndexes at start and handler storeTsids at the first DROP SERIES call SetDelMergeSetForEachMergeSet over the index builders that exist at that moment; DBPTInfo.NewMergeSetIndex (engine/partition.go), which creates the index of a NEW index group when a write opens a new shard group, never calls SetDeleteMergeSet. MergeSetIndex.GetDeletedTSIDs of such an index returns an empty set. Consequences: (1) a DROP SERIES acknowledged later records the series ids of that index group in the deleted set but every read shape and listing keeps returning them (the dropped data stays readable); (2) the write path (getSeriesIdBySeriesKey) of that index group does not see the deletion either, so writes to the dropped series keep going to the dropped id; (3) the next start hands the set to every index group: the dropped rows disappear then, together with every row written to the series after the drop that has been flushed (acknowledged writes to a fresh series are lost); rows still in the write-ahead log are replayed into a new series and survive. Any server that was restarted once has a deleted set, so every shard group created since the last start is affected.",
  "signature": "DropSeries(i, p): rows of matching series whose index group is not in wired[rp] stay in the as-implemented world; Restart: those rows minus the ones written since and still in the write-ahead log disappear; real answers == shapes of the as-implemented world wi",
  "example": "create database d with duration 0s replication 1 shard duration 1h name rp1; write m,host=a v=1 at T; restart the server; write m,host=a v=3 at T+1 week (new shard group, new index group); drop series from m where host='a' -> 200; select * from m -> still the row v=3 (also show series); restart -> the row is gone",
  "fix_candidate": "selftest/fixes/c13-new-index-gets-deleted-set.diff (NewMergeSetIndex hands the policy's deleted set to the index it creates)"},
 {"id": "F-C13-10", "property": "C13", "status": "open",
  "deviation": "drop_series_time_ignored (DropSem.tla ImplDev; action DropSeriesTime; cause timedrop)",
  "what": "DROP SERIES FROM m WHERE <tag condition> AND time < t (or only a time condition) is acknowledged and removes the WHOLE matching series - every row, also those outside the time range and in other shard groups: DropSeries.Process passes the time range to the series search, which ignores it, and series are deleted as a whole. InfluxQL refuses the statement (\"DROP SERIES doesn't support time in WHERE clause\"); a user trimming old data with it loses everything. drop series from m where time > <far future> empties the measurement.",
  "signature": "DropSeriesTime(i, p, op, t): acknowledged; as-implemented world == DropSeries(i, p); design: refused, nothing changes",
  "example": "m holds host=a at T and T+1 week, host=b at T; drop series from m where host='a' and time < T+5s -> 200; select * from m -> only host=b (the row of host=a at T+1 week is gone too)",
  "fix_candidate": "selftest/fixes/c13-drop-series-refuses-time.diff (the executor refuses a condition that names time, as InfluxDB does)"},
 {"id": "F-C13-11", "property": "C13", "status": "open",
  "deviation": "create_busy_acked (DropSem.tla ImplDev; action CreateRPBusy; imp.rp[].ackc)",
  "what": "CREATE RETENTION POLICY rp ON db (same parameters) issued while the background deletion of the dropped policy rp is still under way (mark-deleted in the catalogue, ~0.1-1 s after DROP RETENTION POLICY was acknowledged) is acknowledged without error and has no effect: Data.CheckCanCreateRetentionPolicy finds the mark-deleted entry, sees equal parameters and returns ErrRetentionPolicyExists, which CreateRetentionPolicy turns into success. The background deletion then removes the entry: the acknowledged policy does not exist, writes to it fail with 'retention policy not found'. CREATE DATABASE in the same situation is refused correctly ('is being delete').",
  "signature": "CreateRPBusy(rp): acknowledged; after the deletion has finished the policy is absent (the replay looks at the catalogue once no deletion of that name is under way)",
  "example": "drop retention policy rp2 on d; create retention policy rp2 on d duration 0s replication 1 (within ~100 ms) -> 200 no error; 3 s later show retention policies on d lists no rp2 (2 of 3 attempts)",
  "fix_candidate": "selftest/fixes/c13-create-rp-refused-while-deleting.diff (CheckCanCreateRetentionPolicy returns ErrRetentionPolicyIsBeingDelete for a mark-deleted entry)"},
 {"id": "F-C13-13", "property": "C13", "status": "open",
  "deviation": "drop_series_volatile (DropSem.tla ImplDev; world field pre, UndoLast at RestartKill; cause volatile)",
  "what": "DROP SERIES is acknowledged as soon as the series ids are in the MEMORY of the policy's deleted-set table (MergeSetIndex.WriteDeleteTsids -> mergeset Table.AddItems); the table writes its pending items out on a 1 s ticker (rawItemsFlushInterval, up to ~2 s). A kill (SIGKILL, power loss) inside that window loses the record: after the start every series the statement dropped is back, with all its rows, in every read shape and listing. There is no log the record could be replayed from (the rows themselves were flushed by the statement). A clean stop writes the table out.",
  "signature": "DropSeries directly followed by RestartKill (the replay issues the statement milliseconds before the SIGKILL): the as-implemented world is the one BEFORE the statement; real answers == its shapes. Elsewhere the replay kills no sooner than 3 s after the last DROP SERIES.",
  "example": "write n,host=a and n,host=b; flush; drop series from n where host != 'c' -> 200; SIGKILL at once; start: select * from n returns both rows again, show series lists both series (with >= 0.3 s between acknowledgement and kill the drop held in the probe)",
  "fix_candidate": "none offered: flushing the deleted-set table inside WriteDeleteTsids (idx.tb.DebugFlush() after AddItems) closes the window, but with it the tests of app/ts-store/transport/handler panic in a background part merge of that table after a test has removed its directory (tools/fixcheck.py: 34 stable tests lost); a repair needs the statement to wait for the table's flush without leaving extra parts to merge, or a log for the deleted set"},
 {"id": "F-C13-14", "property": "C13", "status": "open",
  "deviation": "none in DropSem.tla: attributed by predicate (read shapes prom / promb)",
  "what": "A PromQL selector that matches SEVERAL series (GET /api/v1/query?query=m[540s], m{host=~\"a|b|c\"}[540s], the instant query m, query_range) sometimes returns only part of the live series of the measurement - in the cases seen only the series written last - while selectors matching one series (m{host=\"c\"}[540s]), /api/v1/series and every InfluxQL selection return all of them at the same moment; count(m) is sometimes right, sometimes not. The state lasts until the next memtable flush. Seen in behaviours with a SIGKILL restart followed by a write of a new series with an older timestamp (replays/C13-6d3b4ef9471c.json reproduces it in about two of three runs); not reproduced by a hand-made sequence, root cause not found. It never returns dropped data; a PromQL read-path matter (C18) recorded here because the C13 matrix reads the measurement through the Prometheus API. Consequence for C13: the PromQL route is judged for what it returns (only live samples, right values); an incomplete answer is attributed to this entry.",
  "signature": "prom / promb: every returned sample is an expected one (series, time, value), some are missing, while the plain selection equals the expectation in the same reading",
  "example": "replays/C13-6d3b4ef9471c.json step 5: m_cpu[540s] -> only {host=a,region=x}; m_cpu{host=\"c\"}[540s] and m_cpu{region=\"y\"}[540s] -> their series; select * from rp2.m_cpu -> all three rows"},
 {"id": "F-C13-12", "property": "C13", "status": "open",
  "deviation": "slimit_ignored (DropSem.tla ImplDev flag; read shape slim)",
  "what": "SLIMIT and SOFFSET are parsed and shipped (query.ProcessorOptions.SLimit/SOffset) but no executor transform applies them: SELECT value FROM m GROUP BY * SLIMIT 1 returns every series. Not a drop defect - recorded because the read-shape matrix of C13 contains the SLIMIT shape (specified as the first series in tag order); the check still verifies that the answer holds live rows only.",
  "signature": "slim: real == all live rows (grouped by series) instead of the rows of the first series",
  "example": "m holds host=a and host=b; select value from m group by host slimit 1 -> both series; slimit 1 soffset 1 -> both series"},
]
d = json.load(open(P))
ids = {f["id"]: n for n, f in enumerate(d["findings"])}
for f in NEW:
    if f["id"] in ids:
        d["findings"][ids[f["id"]]] = f
    else:
        # keep the C13 entries together: after the last C13 entry
        pos = max([n for n, x in enumerate(d["findings"]) if x.get("property") == "C13"] + [len(d["findings"]) - 1]) + 1
        d["findings"].insert(pos, f)
tmp = P + ".tmp-c13"
open(tmp, "w").write(json.dumps(d, indent=1))

os.replace(tmp, P)
print("known_findings.json: C13 open =", [f["id"] for f in d["findings"] if f.get("property") == "C13" and f.get("status") == "open"])
