#!/usr/bin/env python3
"""Idempotent load-modify-write: adds / refreshes the C03 findings in /verif/known_findings.json."""
import json, os, sys
P = sys.argv[1] if len(sys.argv) > 1 else "/verif/known_findings.json"
kf = json.load(open(P))
NEW = [
 {
  "id": "F-C03-2",
  "property": "C03",
  "also_observed_by": ["C02"],
  "status": "open",
  "deviation": "compaction_scheduler_closed_by_pause",
  "what": "MmsTables builds its compaction scheduler with scheduler.NewTaskScheduler(store.Listen, compLimiter) (engine/immutable/mms_tables.go NewTableStore); MmsTables.Listen (merge_out_of_order.go) parks a goroutine on <-m.closed / <-m.stopCompMerge and answers either with TaskScheduler.CloseAll. shard.DisableCompAndMerge (MmsTables.disableCompAndMerge) closes stopCompMerge, so pausing reorganisations closes the scheduler for good; EnableCompAndMerge only creates a new stopCompMerge channel. From then on TaskScheduler.addTaskMutex refuses every task: MmsTables.LevelCompact and FullCompact return nil and do nothing (no log line) until the shard is re-opened; only the out-of-order merge, which does not go through the scheduler, keeps running. Production callers of the pause/resume pair: hierarchical-storage move (shard.go doShardMove), MergeToDstShard, DBPTInfo.setEnableShardsBgr (offload roll-back). The listener reads m.stopCompMerge when its goroutine is first scheduled, so a pause issued in the first microseconds after NewTableStore can slip through (nil channel) - the outcome is racy, which is how it stayed unnoticed. Liveness, not contents: no row is lost, but the shard is never compacted again (file count and read amplification grow). Before this round the C02/C03/C04 harness opened shards with DisableCompAndMerge, so most replayed LevelCompact / FullCompact steps were silently no-ops; replay-layout now switches reorganisations with the store's enable flags (CompactionEnable/Disable, MergeEnable/Disable), which do not touch the channel.",
  "signature": "directed reproduction `vh probe-compaction-after-disable`: two level-0 files, LeveLMinGroupFiles = 2; LevelCompact(0) merges them into one file on a fresh shard ({\"files_after_compaction\":1}) and leaves both after shard.DisableCompAndMerge(); shard.EnableCompAndMerge() ({\"files_after_pause_resume_and_compaction\":2}); any other pair of numbers is a violation",
  "example": "engx.Open(..., Background:true); 2 x (write, flush); sleep 200 ms; DisableCompAndMerge; EnableCompAndMerge; LevelCompact(0); Wait -> still 2 ordered files",
  "fix_candidate": "/verif/selftest/fixes/c03-scheduler-survives-disable.diff"
 },
 {
  "id": "F-C03-3",
  "property": "C03",
  "status": "open",
  "deviation": "downsample_window_judged_on_unkicked_record",
  "what": "Down-sampling (engine/record_plan.go FileSequenceAggregator) aggregates one column of one series segment by segment. AggregateSameSchema drops the rows without a value for the column (KickNilRow) from the CURRENT record only, then inNextWindow decides whether the current record's last window continues in the next record by looking at the first row of the NEXT record as read from the file - null rows included. When the next segment starts with rows that have no value for the column and lie in the window of the current record's last value, the reducer is told sameWindow=true and holds that window back; the next record, once its null rows are dropped, starts in a later window (its first value is then merged into the held-back window: the later window is lost and the earlier one may take the wrong first/last/min/max/count) or is empty (the held-back window is never emitted: its aggregate is lost). The written files then miss values that the raw data had: the down-sampled contents are not the aggregate of the raw contents. Needs a chunk (series in one file) of at least two segments (more rows than max-rows-per-segment) and a sparse column; dense columns and single-segment chunks are aggregated correctly (all generated behaviours of the check, which therefore keeps chunks with sparse columns in one segment whenever a behaviour down-samples).",
  "signature": "directed reproduction selftest/histories/c03-downsample-sparse-multisegment.probe.json (max-rows-per-segment 2; series s1 with rows t=0 {f1,f2}, t=1 {f3}, t=3 {f2,f3} in one compacted file = segments [0,1],[3]; down-sample interval 4, min(f1)): the real contents after the down-sample equal the specification's except min_f1 of (s1, window 0), which is null instead of the value written at t=0 - exactly the `wrong` contents stored in the probe; equal to the specification = the finding no longer reproduces; anything else is a violation",
  "example": "f1 of s1: segment 1 = [v, null], segment 2 = [null], all three timestamps in one window: record 1 is kicked to [v], the un-kicked record 2 starts in the same window -> sameWindow, v is held back; record 2 is kicked to nothing and skipped; the next record belongs to another column -> the held-back value is dropped",
  "fix_candidate": "/verif/selftest/fixes/c03-downsample-kick-nil-before-window.diff"
 },
]
NEW.append({
  "id": "F-C02-3",
  "property": "C02",
  "also_observed_by": ["C03", "C04"],
  "status": "open",
  "deviation": "sequencer_load_after_compaction_drops_a_file",
  "what": "Schedule-dependent (C04 class), found when the replayed level compactions became real: on a shard that was re-opened and has not been written to yet the Sequencer (per-series last flush times, engine/immutable/sequencer.go) is not loaded. If a level compaction runs in that state and the first write afterwards triggers the load (shard.writeRows -> MmsTables.LoadSequencer -> idTimesLoader.Load, one goroutine per data file), the loaded Sequencer now and then lacks the contribution of one whole file although every file's id-time block is intact (read back through TSSPFile.LoadIdTimes: correct). When the dropped file is the compacted ordered file, the series' last flush time falls back to the maximum of its out-of-order files; the next flush classifies rows older than already flushed data as in-order and writes an ordered file that overlaps the compacted one in time: queries return rows out of order / twice. About 1 run in 20 on a loaded 16-core machine, never when the Sequencer was loaded before the compaction, never without the compaction. Root cause not pinned (the per-file updates go through Sequencer.BatchUpdateCheckTime under the measurement's lock; the loss must happen before that). Production relevance: after a restart the compaction worker compacts cold shards before any write arrives. replay-layout loads the Sequencer right after every open (MmsTables.LoadSequencer + wait), as it already waits for the load after a write; VH_NO_PRELOAD_SEQ=1 switches that off.",
  "signature": "not re-observed by the checks (the replay removes the schedule); reproduction: VH_NO_PRELOAD_SEQ=1 python3 selftest/probes/c02-sequencer-after-compaction-stress.py .bin/vh VH_NO_PRELOAD_SEQ=1 -> 10-25 failures of 320 runs of selftest/histories/c02-sequencer-after-compaction.json ('rows of series ... not strictly sorted by time', two ordered files overlapping in time, Sequencer lastFlush of the series below the compacted file's maximum); without the variable 0 of 320",
  "example": "Reopen; writes + flushes giving ordered files A (s1: t=2,4,6) and B (s2: t=2) and three out-of-order files; Reopen; LevelCompact(0) -> A+B compacted; Write(s1 t=5) triggers the Sequencer load: s1 lastFlush=3 rows=2 (only the out-of-order file) instead of 6 / 5; Flush puts s1 t=5 into a new ORDERED file [3,5] next to the compacted file [2,6]"
})
ids = {f["id"] for f in NEW}
kf["findings"] = [f for f in kf["findings"] if f.get("id") not in ids] + NEW
tmp = P + ".tmp.%d" % os.getpid()
json.dump(kf, open(tmp, "w"), indent=1, ensure_ascii=False)
os.replace(tmp, P)
print("known findings:", len(kf["findings"]), "entries;", sorted(ids), "present")
