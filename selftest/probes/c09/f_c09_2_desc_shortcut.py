from plib import *
p = P(seg=None)
try:
    lines = [f"m,h=a x=false,y=1i {B+5}", f"m,h=a x=true,y=2i {B+10}", f"m,h=a x=true,y=3i {B+17}", f"m,h=b x=false,y=7i {B+0}"]
    print(p.srv.write("db0", lines)); time.sleep(2)
    p.flush(); time.sleep(0.5)
    for fld in ["x", "y"]:
      for f in ["first", "last"]:
        for rg in [(-1, 5), (6, 12), (6,20)]:
            for tail in ["", " group by h", " order by time desc", " group by h order by time desc"]:
                p.q(f"select {f}({fld}) from m where {p.rng(*rg)}{tail}")
            p.q(f"select /*+ Exact_Statistic_Query */ {f}({fld}) from m where {p.rng(*rg)} group by h order by time desc")
finally:
    p.stop()
