from plib import *
p = P(seg=2)
try:
    # two series in one group; series a: segs (1,2),(3,5),(6,7); series b: point at 2
    p.w("m", [("a",1,5),("a",2,3),("a",3,9),("a",5,1),("a",6,7),("a",7,2),("b",0,100),("b",4,50), ("b", 9, 70)])
    time.sleep(2); p.flush(); time.sleep(0.5)
    p.q("select x from m")
    for lo,hi in [(3,5),(3,8),(2,5)]:
        for f in ["first","last"]:
            p.q(f"select {f}(x) from m where {p.rng(lo,hi)}")
            p.q(f"select /*+ Exact_Statistic_Query */ {f}(x) from m where {p.rng(lo,hi)}")
            p.q(f"select {f}(x) from m where {p.rng(lo,hi)} group by h")
    # cross generation overwrite
    p.w("n", [("a",1,5),("a",2,3),("a",3,9)])
    time.sleep(2); p.flush()
    p.w("n", [("a",2,30),("a",4,1)])
    time.sleep(0.5)
    for f in ["count","sum","min","max","first","last"]:
        p.q(f"select {f}(x) from n")
        p.q(f"select /*+ Exact_Statistic_Query */ {f}(x) from n")
    p.flush(); p.files()
    for f in ["count","sum","min","max","first","last"]:
        p.q(f"select {f}(x) from n")
        p.q(f"select /*+ Exact_Statistic_Query */ {f}(x) from n")
    p.q("select x from n")
finally:
    p.stop()
