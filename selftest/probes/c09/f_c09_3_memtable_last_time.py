from plib import *
p = P(seg=None)
try:
    L = lambda s, t, fa, fb: f"m,h={s} " + ",".join(x for x in [f"fa={fa}" if fa is not None else "", f"fb={fb}i" if fb is not None else ""] if x) + f" {B+t}"
    print(p.srv.write("db0", [L("a", 9, 2.0, 2), L("a", 15, -1.0, -1)])); time.sleep(2)
    p.flush(); time.sleep(0.5)
    print(p.srv.write("db0", [L("a", 12, 2.0, -1), L("a", 14, 1.0, 1), L("a", 18, None, 1)])); time.sleep(1)
    p.q("select fa, fb from m")
    for q in ["last(fa)", "last(fa), count(fa)", "first(fb), last(fa)", "last(fa), first(fb)", "max(fa)", "last(fb)", "first(fa)", "last(fa), last(fb)"]:
        p.q(f"select {q} from m")
        p.q(f"select /*+ Exact_Statistic_Query */ {q} from m")
    print("--- all in memtable (other measurement)")
    print(p.srv.write("db0", [L("a", 9, 2.0, 2).replace("m,", "n,"), L("a", 15, -1.0, -1).replace("m,", "n,"), L("a", 18, None, 1).replace("m,", "n,")])); time.sleep(2)
    for q in ["last(fa)", "first(fb), last(fa)"]:
        p.q(f"select {q} from n")
    print("--- file only: mem flushed")
    p.flush(); time.sleep(0.5)
    for q in ["last(fa)", "first(fb), last(fa)"]:
        p.q(f"select {q} from m")
        p.q(f"select {q} from n")
finally:
    p.stop()
