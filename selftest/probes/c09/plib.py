import sys, os, json, time
import os as _os
_R = _os.path.dirname(_os.path.dirname(_os.path.dirname(_os.path.dirname(_os.path.abspath(__file__)))))
sys.path.insert(0, _os.path.join(_R, "tools")); sys.path.insert(0, _os.path.join(_R, "props"))
import vlib, vserver
NO_AUTO_FLUSH = {"write-cold-duration": '"1h"', "force-snapShot-duration": '"1h"'}
B = 1700000000 * 10**9
class P:
    def __init__(self, seg=2, extra=None):
        conf = {"data.memtable": NO_AUTO_FLUSH}
        if seg: conf["data"] = {"max-rows-per-segment": seg}
        conf.update(extra or {})
        self.srv = vserver.Server(extra_conf=conf, name="c09p")
        print(self.srv.query("create database db0 with duration 0s shard duration 100000h name rp0", method="POST"))
        self.ctrl(mod="compen", allshards="false"); self.ctrl(mod="merge", allshards="false")
    def ctrl(self, **p):
        return self.srv.http("POST", "/debug/ctrl", p)
    def w(self, mst, pts, field="x"):
        # pts: (series, t, v) v None skip
        lines = []
        for p in pts:
            s, t, v = p[0], p[1], p[2]
            fs = f"{field}={v}i" if not isinstance(v, dict) else ",".join(f"{k}={x}i" for k, x in v.items())
            lines.append(f"{mst},h={s} {fs} {B+t}")
        r = self.srv.write("db0", lines)
        if r[0] != 204: print("WRITE", r)
    def flush(self): self.srv.flush()
    def q(self, s, show=True):
        s = s.replace("$B+", "").replace("T(", "(")
        st, b = self.srv.http("GET", "/query", {"db": "db0", "epoch": "ns", "q": s})
        try:
            d = json.loads(b)
            out = []
            for r in d["results"]:
                if "error" in r: out.append(("ERR", r["error"]))
                for se in r.get("series", []):
                    out.append((se.get("tags"), [[v[0]-B if isinstance(v[0], int) and v[0] >= B else v[0]] + v[1:] for v in se["values"]]))
        except Exception as e:
            out = b
        if show: print(s.replace(str(B)[:10], "B+"), "->", out)
        return out
    def rng(self, lo, hi): return f"time >= {B+lo} and time <= {B+hi}"
    def files(self):
        for root, d, fs in os.walk(self.srv.dir + "/data"):
            for f in sorted(fs):
                if f.endswith(".tssp"): print("  FILE", root.split("/tssp/")[-1], f)
    def stop(self): self.srv.stop()
