------------------------------ MODULE TraceAgg ------------------------------
(***************************************************************************)
(* C09, Mode C with the specification as the judge.                        *)
(*                                                                         *)
(* Every line of trace.ndjson is one PAIR of real answers taken from the   *)
(* same server state: the answer of `SELECT f(x).. FROM m WHERE c GROUP BY *)
(* dims[, time(w)]` (agg) and the rows of the plain `SELECT x FROM m WHERE *)
(* c GROUP BY dims` (rows), per tag group, mapped back to the abstract     *)
(* values of the specification by the driver.  TLC evaluates the function  *)
(* over the RETURNED rows with the evaluator of QuerySem (AggEval: count   *)
(* sum mean min max first last, buckets, fill, time stamp rules, ties) and *)
(* accepts the line iff the aggregate answer is what the evaluator yields: *)
(*        f_returned = Agg(f, rows_returned).                              *)
(* A line that is not accepted is compared with the answers predicted by   *)
(* the as-implemented deviation models of open findings (preds, exported   *)
(* by PreAgg for this very state and query, and QuerySem's firstlast_any   *)
(* for F-C08-2); it is attributed only if it equals one of them.           *)
(* One verdict per line is printed: <<"JUDGE", id, "ok" | finding | "bad">>*)
(*                                                                         *)
(* Encoding (Json module: no null, no floats): null = -99; a cell of agg   *)
(* is [k |-> "n"] | [k |-> "i", v |-> int] | [k |-> "r", n |-> num, d |->  *)
(* den] (a mean as an exact rational; d = 0: not representable);           *)
(* a row of rows is <<time, fa, fb>>; a row of agg is <<time, cell, ...>>. *)
(***************************************************************************)
EXTENDS QuerySem, Json

Trace == ndJsonDeserialize("trace.ndjson")
TNoChoices1(x) == {}
TNoChoices2(D, x) == {}

VARIABLE l
tvars == <<data, cur, hist, cm, l>>

FieldPos == [f \in {"fa", "fb", "fc"} |-> CASE f = "fa" -> 2 [] f = "fb" -> 3 [] OTHER -> 4]

\* the rows the plain select returned for one tag group, as a QuerySem data set (every row its own "series":
\* rows of different series with equal time stamps stay distinct points)
DataOfGroup(ln, g) ==
  [kinds |-> ln.kinds,
   rows  |-> {[s |-> i, t |-> g.rows[i][1], v |-> [f \in FieldSet |-> g.rows[i][FieldPos[f]]]] : i \in 1..Len(g.rows)}]

\* the aggregate query of the pair, over rows that are already filtered and grouped
QueryOf(ln) == MkAgg(ln.calls, <<>>, ln.tlo, ln.thi, NoTag, NoFld, "and", ln.w, ln.fill, 0)

CellMatch(e, a) ==
  CASE e[1] = "n" -> a.k = "n"
    \* (whether an empty count under fill(null) is shown as 0 or as null is fill semantics - C08 -, not a difference
    \* between the statistics and the rows)
    [] e[1] = "c" -> (a.k = "i" /\ a.v = e[2]) \/ (e[2] = 0 /\ a.k = "n")
    [] e[1] = "v" -> a.k = "i" /\ a.v \in {e[i] : i \in 2..Len(e)}
    [] e[1] = "m" -> a.k = "r" /\ a.d > 0 /\ a.n * e[3] = e[2] * a.d
    [] e[1] = "w" -> TRUE
    [] OTHER      -> FALSE

RowMatch(e, a) ==
  /\ Len(a) = Len(e.c) + 1
  /\ a[1] \in {e.t[i] : i \in 1..Len(e.t)}
  /\ \A c \in 1..Len(e.c) : CellMatch(e.c[c], a[c + 1])

RowsMatch(erows, agg) == Len(agg) = Len(erows) /\ \A i \in 1..Len(agg) : RowMatch(erows[i], agg[i])

\* f_returned = Agg(f, rows_returned), group by group
GroupOk(ln, g, dv) ==
  LET E == AggEval(DataOfGroup(ln, g), QueryOf(ln), ln.desc, dv)
  IN IF E = <<>> THEN g.agg = <<>> ELSE RowsMatch(E[1].rows, g.agg)

LineOk(ln, dv) == \A i \in 1..Len(ln.groups) : GroupOk(ln, ln.groups[i], dv)

\* the aggregate answer equals a predicted answer (a sequence of series [tags, rows]) exactly
PredMatch(ln, ans) ==
  /\ \A i \in 1..Len(ln.groups) :
        LET g  == ln.groups[i]
            ss == SelectSeq(ans, LAMBDA s : s.tags = g.tags)
        IN IF ss = <<>> THEN g.agg = <<>> ELSE RowsMatch(ss[1].rows, g.agg)
  /\ \A j \in 1..Len(ans) : \E i \in 1..Len(ln.groups) : ln.groups[i].tags = ans[j].tags

Verdict(ln) ==
  IF LineOk(ln, {}) THEN "ok"
  ELSE LET ps == SelectSeq(ln.preds, LAMBDA p : PredMatch(ln, p.ans))
       IN IF ps # <<>> THEN ps[1].id
          \* F-C08-2: descending first()/last() return some point of the window
          ELSE IF ln.desc /\ LineOk(ln, {"firstlast_any"}) THEN "F-C08-2"
          ELSE "bad"

TraceInit == /\ data = NoData /\ cur = NoQ /\ hist = <<>> /\ cm = [on |-> FALSE] /\ l = 1 /\ TLCSet(1, 1)

TraceNext ==
  /\ l <= Len(Trace)
  /\ PrintT(<<"JUDGE", Trace[l].id, Verdict(Trace[l])>>)
  /\ l' = l + 1
  /\ UNCHANGED <<data, cur, hist, cm>>

TraceSpec == TraceInit /\ [][TraceNext]_tvars

HighWater == IF l > TLCGet(1) THEN TLCSet(1, l) ELSE TRUE
TraceAccepted == TLCGet(1) = Len(Trace) + 1
=============================================================================
