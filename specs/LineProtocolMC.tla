--------------------------- MODULE LineProtocolMC ---------------------------
EXTENDS LineProtocol, Json, SequencesExt
\* Export for replay (Mode B): one JSON object per finished line: the class sequence, the precision,
\* the design outcome and the outcomes of the as-implemented automata that differ from it.
OutJ(a) == [kind |-> IF a.st = "Accept" THEN "Accept" ELSE "Reject", why |-> a.why, mst |-> a.mst, tags |-> a.tags,
            fields |-> a.fields, ts |-> a.ts, tsvia |-> a.tsvia, amb |-> SetToSeq(a.amb)]
Case == LET DS == SetToSeq({X \in DevSets : Out(m[X]) # Out(d)})
        IN [line |-> line, prec |-> prec, exp |-> OutJ(d),
            imp |-> [j \in 1..Len(DS) |-> [dev |-> SetToSeq(DS[j]), out |-> OutJ(m[DS[j]])]]]
Export == done => PrintT(<<"TRACE", ToJson(Case)>>)
=============================================================================
