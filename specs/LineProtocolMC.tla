--------------------------- MODULE LineProtocolMC ---------------------------
EXTENDS LineProtocol, Json, SequencesExt
\* Export for replay (Mode B): one JSON object per finished line: the class sequence, the precision,
\* the design outcome and the outcomes of the as-implemented automata that differ from it.
OutJ(a) == [kind |-> IF a.st = "Accept" THEN "Accept" ELSE "Reject", why |-> a.why, mst |-> a.mst, tags |-> a.tags,
            fields |-> a.fields, ts |-> a.ts, tsvia |-> a.tsvia, amb |-> SetToSeq(a.amb), used |-> SetToSeq(a.used)]
Case == LET DS == SetToSeq({X \in DevSets : Out(m[X]) # Out(d)})
        IN [line |-> line, prec |-> prec, exp |-> OutJ(d),
            imp |-> [j \in 1..Len(DS) |-> [dev |-> SetToSeq(DS[j]), out |-> OutJ(m[DS[j]])]]]
\* simulation: three times out of four offer only classes that keep the design automaton out of Reject, so that
\* long valid lines (several tags and fields, escapes, strings) are reached; parameterised by the state so
\* that TLC does not cache the random choice
KeepsValid(c) == Step(d, Append(line, c), c, "", Len(line) + 1, Dev).st # "Reject"
SimOfferP(h) == LET good == {c \in BaseOffer : KeepsValid(c)}
                IN IF d.st = "Reject" \/ good = {} \/ RandomElement(1..4) = 1 THEN BaseOffer ELSE good
SimOffer == SimOfferP(line)
SimEolP(h) == d.st \in {"FieldValEnd", "Timestamp", "TimestampEnd", "Reject"} \/ RandomElement(1..12) = 1
SimEol == SimEolP(line)
Export == done => PrintT(<<"TRACE", ToJson(Case)>>)
=============================================================================
