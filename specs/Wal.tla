-------------------------------- MODULE Wal --------------------------------
(***************************************************************************)
(* Write path, memtable flush and crash recovery of one shard, at the      *)
(* granularity of the file-system steps the code performs.                 *)
(*                                                                         *)
(*  WriteMem / WriteWal / Ack   shard.writeRows: memtable, then WAL record *)
(*                               to partition (writeReq++ mod N), both     *)
(*                               under the shared snapshotLock; then 204   *)
(*  FlushSwitch(kind)            tsstoreImpl.writeSnapshot under the       *)
(*                               exclusive lock: WAL.Switch + table swap;  *)
(*                               kind = "forced" (ForceFlush: close, drop, *)
(*                               replay, admin) or "auto" (started by the  *)
(*                               100 ms ticker of shard.Snapshot() when    *)
(*                               the table is full or write-cold)          *)
(*  FlushIndex                   indexBuilder.Flush (synchronous flush of  *)
(*                               the series index's in-memory items)       *)
(*  IndexBgFlush(S)              the merge-set index's own rawItemsFlusher *)
(*                               (1 s ticker), independent of everything   *)
(*  FlushInit / FlushRename      commitSnapshot: *.tssp.init, rename       *)
(*  FlushRemoveWal(f) / FlushEnd RemoveWalFiles (one file at a time), drop *)
(*                               the snapshot table                        *)
(*  Crash                        kill -9 at any instant (also in recovery) *)
(*  RecOpen / RecReplay          restoreLogs + Replay (consumeRecordSerial)*)
(*                               the log record carries the series key:    *)
(*                               replay re-creates missing index entries   *)
(*  RecIndex / RecInit / RecRename  ForceFlush of the replayed rows        *)
(*  RecRemoveWal(f) / RecEnd     wal.Remove, shard opens for writes        *)
(*                                                                         *)
(* Dev = {} is the design that satisfies C01. The deviations              *)
(*   "rr_from_0"            replay one record per partition in turn,       *)
(*                          starting at partition 0 (as implemented),      *)
(*                          instead of in the global append order          *)
(*   "wal_remove_one_by_one" old log files are removed one at a time       *)
(*                          (as implemented) instead of atomically         *)
(* are what the pinned code does; each violates Durable (known findings    *)
(* F-C01-1, F-C01-2). The remaining names are mutation seeds:              *)
(*   "auto_flush_skips_index"       only forced flushes run FlushIndex     *)
(*   "index_flush_after_wal_remove" the index is flushed at the end of the *)
(*                                  flush, after the log files are gone    *)
(*   "ack_before_wal", "remove_wal_before_rename", "reset_writereq_at_switch"*)
(* and "drop_files_after_log" is the order of DROP MEASUREMENT as          *)
(* implemented (open finding F-C01-3).                                     *)
(*                                                                         *)
(* Series index. A cell belongs to a series (serOf). The first write of a  *)
(* series puts its key into the index's in-memory items (idxMem): lost by  *)
(* a crash. FlushIndex / IndexBgFlush move them to disk (idxDisk). A row   *)
(* is readable only through the index: Read(k) = 0 when serOf[k] is in     *)
(* neither. So a log file may only go when the series of all its rows are  *)
(* in idxDisk (IndexBeforeWalRemove).                                      *)
(***************************************************************************)
EXTENDS Integers, Sequences, FiniteSets, TLC, SequencesExt, FiniteSetsExt

CONSTANTS N,          \* number of WAL partitions
          Keys,       \* (series,time,field) cells
          MaxW,       \* writes
          MaxFlush,   \* flushes started
          MaxCrash,   \* crashes
          MaxInits,   \* data files written by one flush
          DropKeys,   \* cells of the measurement that DROP MEASUREMENT removes (subset of Keys)
          MaxDrop,    \* drops
          SeriesOpts, \* set of partitions of Keys: which cells share a series (one is chosen at Init)
          Dev

VARIABLES wal,       \* [1..N -> Seq(file)], file = [id, recs: Seq(write id), open: BOOLEAN]
          nfile,     \* next WAL file id
          writeReq,  \* WAL.writeReq
          mem,       \* active memtable: write ids in arrival order
          snap,      \* memtable being flushed
          pend,      \* ids of WAL files owned by the running flush
          files,     \* committed data files, oldest first: each a Seq(write id)
          inits,     \* *.tssp.init files (invisible to readers and to recovery)
          fpc,       \* flush program counter
          fkind,     \* how the running flush was started: "none" | "forced" | "auto"
          serOf,     \* cell -> series (name = one of its cells); fixed at Init
          idxMem,    \* series whose key is only in the index's in-memory items
          idxDisk,   \* series whose key is in an index part on disk
          wat,       \* <<fpc, fkind>> when the write in progress entered the memtable (export only)
          pendF,     \* export only: kind of a flush that started while a logged write was not yet acknowledged
                     \* ("none" otherwise); its Flush entry follows that write's entry, whose rows it flushes
          mode,      \* "run" | "down" | "rec"
          rpc,       \* recovery program counter
          keyOf,     \* write id -> key
          nw,        \* writes started
          wst,       \* write id -> "mem" | "logged" | "acked"
          acked,     \* Seq(write id) in acknowledgement order
          nflush, ncrash,
          dpc,       \* DROP MEASUREMENT program counter: "none" | "marked" | "removed"
          ndrop,
          hist       \* client-visible history (export)

ivars == <<fkind, serOf, idxMem, idxDisk>>
vars == <<wal, nfile, writeReq, mem, snap, pend, files, inits, fpc, mode, rpc, keyOf, nw, wst, acked,
          nflush, ncrash, dpc, ndrop, ivars, wat, pendF, hist>>
view == <<wal, nfile, writeReq, mem, snap, pend, files, inits, fpc, mode, rpc, keyOf, nw, wst, acked,
          nflush, ncrash, dpc, ndrop, ivars>>

Parts == 1..N
W     == 1..MaxW

\* value read for key k from a sequence of write ids (later wins; the value of a write is its id)
LastOn(seq, k) == LET idx == {i \in 1..Len(seq) : keyOf[seq[i]] = k}
                  IN IF idx = {} THEN 0 ELSE seq[Max(idx)]

\* data files: a later file shadows an earlier one (replayed stale rows land in a new out-of-order
\* file, which readers prefer over older files)
RECURSIVE ReadFiles(_, _)
ReadFiles(fs, k) == IF fs = <<>> THEN 0
                    ELSE LET v == LastOn(fs[Len(fs)], k)
                         IN IF v # 0 THEN v ELSE ReadFiles(SubSeq(fs, 1, Len(fs) - 1), k)

\* a query finds rows through the series index only
Indexed(k) == serOf[k] \in idxMem \cup idxDisk

Read(k) == LET a == LastOn(mem, k) b == LastOn(snap, k)
           IN IF ~Indexed(k) THEN 0
              ELSE IF a # 0 THEN a ELSE IF b # 0 THEN b ELSE ReadFiles(files, k)

\* the latest acknowledged write that has not been dropped since
LastAcked(k) == LastOn(SelectSeq(acked, LAMBDA w : wst[w] = "acked"), k)

AllFiles == UNION {{wal[p][i].id : i \in 1..Len(wal[p])} : p \in Parts}

-----------------------------------------------------------------------------
SerMap(P) == [k \in Keys |-> CHOOSE r \in (CHOOSE c \in P : k \in c) : TRUE]

Init ==
  /\ fkind = "none" /\ idxMem = {} /\ idxDisk = {} /\ wat = <<"idle", "none">> /\ pendF = "none"
  /\ serOf \in {SerMap(P) : P \in SeriesOpts}
  /\ wal = [p \in Parts |-> <<>>] /\ nfile = 1 /\ writeReq = 0
  /\ mem = <<>> /\ snap = <<>> /\ pend = {} /\ files = <<>> /\ inits = 0
  /\ fpc = "idle" /\ mode = "run" /\ rpc = "none"
  /\ keyOf = [w \in W |-> CHOOSE k \in Keys : TRUE] /\ nw = 0
  /\ wst = [w \in W |-> "none"] /\ acked = <<>>
  /\ nflush = 0 /\ ncrash = 0 /\ dpc = "none" /\ ndrop = 0 /\ hist = <<>>

DropAsImpl == "drop_files_after_log" \in Dev   \* see DropBegin

Unlogged == {w \in W : wst[w] = "mem"}
Unacked  == {w \in W : wst[w] \in {"mem", "logged"}}

\* shard.writeRowsToTable: storage.WriteIndex (a new series gets its index entry, in memory) and then the memtable
WriteMem(k) ==
  /\ mode = "run" /\ nw < MaxW /\ Unacked = {}       \* one sequential client: acknowledgement order is well defined
  /\ dpc = "none"
  /\ nw' = nw + 1
  /\ keyOf' = [keyOf EXCEPT ![nw + 1] = k]
  /\ mem' = Append(mem, nw + 1)
  /\ wst' = [wst EXCEPT ![nw + 1] = "mem"]
  /\ idxMem' = IF Indexed(k) THEN idxMem ELSE idxMem \cup {serOf[k]}
  /\ wat' = <<fpc, fkind>>
  /\ UNCHANGED <<wal, nfile, writeReq, snap, pend, files, inits, fpc, mode, rpc, acked, nflush, ncrash, dpc, ndrop, hist,
                 fkind, serOf, idxDisk, pendF>>

\* append the record to the partition's open file, creating one if needed
AppendRec(p, w) ==
  IF wal[p] # <<>> /\ wal[p][Len(wal[p])].open
    THEN /\ wal' = [wal EXCEPT ![p][Len(wal[p])].recs = Append(@, w)]
         /\ nfile' = nfile
    ELSE /\ wal' = [wal EXCEPT ![p] = Append(@, [id |-> nfile, recs |-> <<w>>, open |-> TRUE])]
         /\ nfile' = nfile + 1

WriteWal(w) ==
  /\ mode = "run" /\ wst[w] = "mem"
  /\ IF "ack_before_wal" \in Dev
       THEN UNCHANGED <<wal, nfile, writeReq>>          \* mutation seed: no log record at all
       ELSE /\ AppendRec((writeReq % N) + 1, w)
            /\ writeReq' = writeReq + 1
  /\ wst' = [wst EXCEPT ![w] = "logged"]
  /\ UNCHANGED <<mem, snap, pend, files, inits, fpc, mode, rpc, keyOf, nw, acked, nflush, ncrash, dpc, ndrop, hist, ivars, wat, pendF>>

\* the exported client history: a Write carries the series of its cell and where the flush in progress (if any)
\* stood when the write started ("at"); a Flush is exported when it starts, with its kind
FlushEntry(kind) == [a |-> "Flush", w |-> 0, k |-> "-", s |-> "-", kind |-> kind, at |-> "-"]

Ack(w) ==
  /\ mode = "run" /\ wst[w] = "logged"
  /\ wst' = [wst EXCEPT ![w] = "acked"]
  /\ acked' = Append(acked, w)
  /\ hist' = Append(hist, [a |-> "Write", w |-> w, k |-> keyOf[w], s |-> serOf[keyOf[w]], kind |-> wat[2], at |-> wat[1]])
              \o (IF pendF = "none" THEN <<>> ELSE <<FlushEntry(pendF)>>)
  /\ pendF' = "none"
  /\ UNCHANGED <<wal, nfile, writeReq, mem, snap, pend, files, inits, fpc, mode, rpc, keyOf, nw, nflush, ncrash, dpc, ndrop, ivars, wat>>

CloseAll(ws) == [p \in Parts |-> [i \in 1..Len(ws[p]) |-> [ws[p][i] EXCEPT !.open = FALSE]]]

\* Two ways into writeSnapshot. "forced": tsstoreImpl.ForceFlush (sets shard.forceFlush, waits for a running snapshot).
\* "auto": shard.Snapshot()'s ticker finds shouldSnapshot() true (table not empty and full or write-cold, no snapshot
\* running, no forced flush pending). DROP MEASUREMENT forces a flush of its own.
FlushSwitch(kind) ==
  /\ mode = "run" /\ fpc = "idle" /\ mem # <<>> /\ Unlogged = {}
  /\ (nflush < MaxFlush \/ dpc # "none")               \* DROP MEASUREMENT forces a flush of its own:
  /\ dpc \in {"none", IF DropAsImpl THEN "marked" ELSE "removed"}   \* before (as implemented) / after its files go
  /\ (kind = "auto" => dpc = "none")
  /\ snap' = mem /\ mem' = <<>>
  /\ wal' = CloseAll(wal)
  /\ pend' = AllFiles
  /\ writeReq' = IF "reset_writereq_at_switch" \in Dev THEN 0 ELSE writeReq
  /\ fpc' = "switched" /\ nflush' = nflush + 1 /\ fkind' = kind
  /\ hist' = IF dpc = "none" /\ Unacked = {} THEN Append(hist, FlushEntry(kind)) ELSE hist
  /\ pendF' = IF dpc = "none" /\ Unacked # {} THEN kind ELSE "none"
  /\ UNCHANGED <<nfile, files, inits, mode, rpc, keyOf, nw, wst, acked, ncrash, dpc, ndrop, serOf, idxMem, idxDisk, wat>>

\* the index's in-memory items reach the disk (one merge-set transaction: atomic)
IndexToDisk(S) == /\ idxDisk' = idxDisk \cup S /\ idxMem' = idxMem \ S

\* writeSnapshot: s.indexBuilder.Flush() -> Table.DebugFlush(): every pending item, also those of series created
\* by writes that arrived after the switch
FlushIndex ==
  /\ mode = "run" /\ fpc = "switched" /\ fpc' = "indexed"
  /\ IF \/ ("auto_flush_skips_index" \in Dev /\ fkind = "auto")     \* mutation seed: only forced flushes flush the index
        \/ "index_flush_after_wal_remove" \in Dev                   \* mutation seed: see FlushEnd
       THEN UNCHANGED <<idxMem, idxDisk>>
       ELSE IndexToDisk(idxMem)
  /\ UNCHANGED <<wal, nfile, writeReq, mem, snap, pend, files, inits, mode, rpc, keyOf, nw, wst, acked, nflush, ncrash, dpc, ndrop, hist,
                 fkind, serOf, wat, pendF>>

\* mergeset.Table.rawItemsFlusher: every second, the raw-item shards that were not flushed for a second
IndexBgFlush(S) ==
  /\ mode \in {"run", "rec"} /\ S # {} /\ S \subseteq idxMem
  /\ IndexToDisk(S)
  /\ UNCHANGED <<wal, nfile, writeReq, mem, snap, pend, files, inits, fpc, mode, rpc, keyOf, nw, wst, acked, nflush, ncrash, dpc, ndrop, hist,
                 fkind, serOf, wat, pendF>>

\* commitSnapshot skips the rows of a measurement that is being dropped (checkMstDeleting)
Kept(seq) == IF dpc = "none" THEN seq ELSE SelectSeq(seq, LAMBDA w : keyOf[w] \notin DropKeys)

\* commitSnapshot writes one *.tssp.init per data file (ordered / out-of-order, per measurement)
\* and renames each into place; the snapshot's rows become readable from files with the first
\* rename (the log still holds all of them until every rename is done).
FlushInit ==
  /\ mode = "run" /\ fpc \in {"indexed", "committing"} /\ inits < MaxInits
  /\ fpc' = "committing" /\ inits' = inits + 1
  /\ UNCHANGED <<wal, nfile, writeReq, mem, snap, pend, files, mode, rpc, keyOf, nw, wst, acked, nflush, ncrash, dpc, ndrop, hist, ivars, wat, pendF>>

FlushRename ==
  /\ mode = "run" /\ fpc = "committing" /\ inits > 0
  /\ inits' = inits - 1
  /\ files' = IF files # <<>> /\ files[Len(files)] = Kept(snap) THEN files ELSE Append(files, Kept(snap))
  /\ UNCHANGED <<wal, nfile, writeReq, mem, snap, pend, fpc, mode, rpc, keyOf, nw, wst, acked, nflush, ncrash, dpc, ndrop, hist, ivars, wat, pendF>>

\* all data files of the snapshot are in place
FlushCommitted ==
  /\ mode = "run" /\ fpc = "committing" /\ inits = 0
  /\ files # <<>> /\ files[Len(files)] = Kept(snap)
  /\ fpc' = "renamed"
  /\ UNCHANGED <<wal, nfile, writeReq, mem, snap, pend, files, inits, mode, rpc, keyOf, nw, wst, acked, nflush, ncrash, dpc, ndrop, hist, ivars, wat, pendF>>

Without(ws, ids) == [p \in Parts |-> SelectSeq(ws[p], LAMBDA f : f.id \notin ids)]

\* mutation seed "remove_wal_before_rename": the log may go as soon as the table is switched
RemovableAt == IF "remove_wal_before_rename" \in Dev THEN {"switched", "indexed", "committing", "renamed"} ELSE {"renamed"}

FlushRemoveWal ==
  /\ mode = "run" /\ fpc \in RemovableAt /\ pend # {}
  /\ IF "wal_remove_one_by_one" \in Dev
       THEN \E f \in pend : /\ wal' = Without(wal, {f}) /\ pend' = pend \ {f}
       ELSE /\ wal' = Without(wal, pend) /\ pend' = {}
  /\ UNCHANGED <<nfile, writeReq, mem, snap, files, inits, fpc, mode, rpc, keyOf, nw, wst, acked, nflush, ncrash, dpc, ndrop, hist, ivars, wat, pendF>>

FlushEnd ==
  /\ mode = "run" /\ fpc = "renamed" /\ pend = {}
  /\ snap' = <<>> /\ fpc' = "idle" /\ fkind' = "none"
  /\ IF "index_flush_after_wal_remove" \in Dev THEN IndexToDisk(idxMem) ELSE UNCHANGED <<idxMem, idxDisk>>
  /\ UNCHANGED <<wal, nfile, writeReq, mem, pend, files, inits, mode, rpc, keyOf, nw, wst, acked, nflush, ncrash, dpc, ndrop, hist, serOf, wat, pendF>>

\* DROP MEASUREMENT. Design (Dev = {}): mark the measurement as deleting, remove its data files, then force a flush
\* that skips its rows (the log files go away with that flush), acknowledge: at every instant the measurement's cells
\* are intact, or hold their last values (log), or are gone. As implemented (shard.DropMeasurement, deviation
\* "drop_files_after_log", open finding F-C01-3): the flush - which discards the measurement's unflushed rows and
\* their log records - comes first, the data files go afterwards; a crash in between leaves the last FLUSHED values.
\* The series index is not touched either way.
DropBegin ==
  /\ mode = "run" /\ fpc = "idle" /\ dpc = "none" /\ Unacked = {} /\ ndrop < MaxDrop /\ DropKeys # {}
  /\ dpc' = "marked" /\ ndrop' = ndrop + 1
  /\ UNCHANGED <<wal, nfile, writeReq, mem, snap, pend, files, inits, fpc, mode, rpc, keyOf, nw, wst, acked, nflush, ncrash, hist, ivars, wat, pendF>>

DropFiles ==
  /\ mode = "run" /\ dpc = "marked" /\ fpc = "idle"
  /\ (DropAsImpl => mem = <<>>)                         \* as implemented: only after the flush
  /\ files' = [i \in 1..Len(files) |-> SelectSeq(files[i], LAMBDA w : keyOf[w] \notin DropKeys)]
  /\ dpc' = "removed"
  /\ UNCHANGED <<wal, nfile, writeReq, mem, snap, pend, inits, fpc, mode, rpc, keyOf, nw, wst, acked, nflush, ncrash, ndrop, hist, ivars, wat, pendF>>

DropEnd ==
  /\ mode = "run" /\ dpc = "removed" /\ fpc = "idle" /\ mem = <<>>
  /\ wst' = [w \in W |-> IF keyOf[w] \in DropKeys /\ wst[w] \in {"acked", "maybe"} THEN "dropped" ELSE wst[w]]
  /\ dpc' = "none"
  /\ hist' = Append(hist, [a |-> "Drop", w |-> 0, k |-> "-", s |-> "-", kind |-> "-", at |-> "-"])
  /\ UNCHANGED <<wal, nfile, writeReq, mem, snap, pend, files, inits, fpc, mode, rpc, keyOf, nw, acked, nflush, ncrash, ndrop, ivars, wat, pendF>>

\* kill -9: memory and descriptors vanish - memtables and the index's in-memory items alike; the directory tree
\* stays as it is
Crash ==
  /\ mode \in {"run", "rec"} /\ ncrash < MaxCrash
  /\ mode' = "down" /\ ncrash' = ncrash + 1
  /\ mem' = <<>> /\ snap' = <<>> /\ pend' = {} /\ fpc' = "idle" /\ rpc' = "none"
  /\ idxMem' = {} /\ fkind' = "none"
  /\ wal' = CloseAll(wal)
  /\ inits' = 0                                         \* *.init files are ignored (and cleaned) by Open
  \* a write caught before its log append is lost; one caught between log append and
  \* acknowledgement may or may not come back ("maybe": the client never saw the 204)
  /\ wst' = [w \in W |-> CASE wst[w] = "mem" -> "lost" [] wst[w] = "logged" -> "maybe"
                          \* drop in flight: its cells keep their last acknowledged values or are gone - never an older value
                          [] wst[w] = "acked" /\ dpc # "none" /\ keyOf[w] \in DropKeys ->
                               IF w = LastAcked(keyOf[w]) THEN "maybe" ELSE "dropped"
                          [] OTHER -> wst[w]]
  /\ dpc' = "none" /\ pendF' = "none"
  /\ UNCHANGED <<nfile, writeReq, files, keyOf, nw, acked, nflush, ndrop, hist, serOf, idxDisk, wat>>

Recs(p) == LET RECURSIVE Cat(_)
               Cat(fs) == IF fs = <<>> THEN <<>> ELSE Head(fs).recs \o Cat(Tail(fs))
           IN Cat(wal[p])

\* consumeRecordSerial: one record from partition 1, 2, .., N, again and again
RECURSIVE RoundRobin(_)
RoundRobin(qs) ==
  IF \A p \in Parts : qs[p] = <<>> THEN <<>>
  ELSE LET heads == [p \in Parts |-> IF qs[p] = <<>> THEN <<>> ELSE <<Head(qs[p])>>]
           rest  == [p \in Parts |-> IF qs[p] = <<>> THEN <<>> ELSE Tail(qs[p])]
           RECURSIVE Flat(_)
           Flat(p) == IF p > N THEN <<>> ELSE heads[p] \o Flat(p + 1)
       IN Flat(1) \o RoundRobin(rest)

AllRecs == UNION {{Recs(p)[i] : i \in 1..Len(Recs(p))} : p \in Parts}
GlobalOrder == SetToSortSeq(AllRecs, <)

RecOpen ==
  /\ mode = "down" /\ mode' = "rec" /\ rpc' = "opened"
  /\ writeReq' = 0
  /\ UNCHANGED <<wal, nfile, mem, snap, pend, files, inits, fpc, keyOf, nw, wst, acked, nflush, ncrash, dpc, ndrop, hist, ivars, wat, pendF>>

\* every replayed record goes through writeRowsToTable, i.e. through WriteIndex: the series key is part of the
\* record, so a series whose index entry died with the process gets a new one (in memory)
RecReplay ==
  /\ mode = "rec" /\ rpc = "opened"
  /\ mem' = IF "rr_from_0" \in Dev THEN RoundRobin([p \in Parts |-> Recs(p)]) ELSE GlobalOrder
  /\ idxMem' = idxMem \cup ({serOf[keyOf[w]] : w \in AllRecs} \ idxDisk)
  /\ pend' = AllFiles
  /\ rpc' = "replayed"
  /\ UNCHANGED <<wal, nfile, writeReq, snap, files, inits, fpc, mode, keyOf, nw, wst, acked, nflush, ncrash, dpc, ndrop, hist,
                 fkind, serOf, idxDisk, wat, pendF>>

\* the flush that ends the replay is a forced one: index first
RecIndex ==
  /\ mode = "rec" /\ rpc = "replayed" /\ rpc' = "indexed"
  /\ IndexToDisk(idxMem)
  /\ UNCHANGED <<wal, nfile, writeReq, mem, snap, pend, files, inits, fpc, mode, keyOf, nw, wst, acked, nflush, ncrash, dpc, ndrop, hist,
                 fkind, serOf, wat, pendF>>

RecInit ==
  /\ mode = "rec" /\ rpc = "indexed" /\ rpc' = "inited"
  /\ inits' = IF mem = <<>> THEN inits ELSE inits + 1
  /\ UNCHANGED <<wal, nfile, writeReq, mem, snap, pend, files, fpc, mode, keyOf, nw, wst, acked, nflush, ncrash, dpc, ndrop, hist, ivars, wat, pendF>>

RecRename ==
  /\ mode = "rec" /\ rpc = "inited" /\ rpc' = "renamed"
  /\ files' = IF mem = <<>> THEN files ELSE Append(files, mem)
  /\ inits' = 0 /\ mem' = <<>>
  /\ UNCHANGED <<wal, nfile, writeReq, snap, pend, fpc, mode, keyOf, nw, wst, acked, nflush, ncrash, dpc, ndrop, hist, ivars, wat, pendF>>

RecRemoveWal ==
  /\ mode = "rec" /\ rpc = "renamed" /\ pend # {}
  /\ IF "wal_remove_one_by_one" \in Dev
       THEN \E f \in pend : /\ wal' = Without(wal, {f}) /\ pend' = pend \ {f}
       ELSE /\ wal' = Without(wal, pend) /\ pend' = {}
  /\ UNCHANGED <<nfile, writeReq, mem, snap, files, inits, fpc, mode, rpc, keyOf, nw, wst, acked, nflush, ncrash, dpc, ndrop, hist, ivars, wat, pendF>>

RecEnd ==
  /\ mode = "rec" /\ rpc = "renamed" /\ pend = {}
  /\ mode' = "run" /\ rpc' = "none"
  /\ hist' = Append(hist, [a |-> "Restart", w |-> 0, k |-> "-", s |-> "-", kind |-> "-", at |-> "-"])
  /\ UNCHANGED <<wal, nfile, writeReq, mem, snap, pend, files, inits, fpc, keyOf, nw, wst, acked, nflush, ncrash, dpc, ndrop, ivars, wat, pendF>>

Next ==
  \/ \E k \in Keys : WriteMem(k)
  \/ \E w \in W : WriteWal(w) \/ Ack(w)
  \/ FlushSwitch("forced") \/ FlushSwitch("auto")
  \/ FlushIndex \/ FlushInit \/ FlushRename \/ FlushCommitted \/ FlushRemoveWal \/ FlushEnd
  \/ \E S \in SUBSET idxMem : IndexBgFlush(S)
  \/ DropBegin \/ DropFiles \/ DropEnd
  \/ Crash \/ RecOpen \/ RecReplay \/ RecIndex \/ RecInit \/ RecRename \/ RecRemoveWal \/ RecEnd

Spec == Init /\ [][Next]_vars

-----------------------------------------------------------------------------
\* C01. While the shard serves (mode = "run"): every cell shows - through the series index - the latest
\* acknowledged value, or a later value of a write that was logged but whose acknowledgement the crash
\* swallowed; never an older value, never a value nobody wrote.
Durable ==
  mode = "run" =>
    \A k \in Keys : (dpc # "none" /\ k \in DropKeys) \/
      LET r == Read(k) IN
        /\ r >= LastAcked(k)
        /\ r # 0 => (keyOf[r] = k /\ wst[r] \in {"mem", "logged", "acked", "maybe"})
        /\ r > LastAcked(k) => wst[r] \in {"mem", "logged", "maybe"}

\* an acknowledged write is always on disk: in a log record or in a committed data file
InFiles(w) == \E i \in 1..Len(files) : \E j \in 1..Len(files[i]) : files[i][j] = w
WalBeforeAck == \A w \in W : (wst[w] = "acked" /\ ~(dpc # "none" /\ keyOf[w] \in DropKeys)) => (w \in AllRecs \/ InFiles(w))

\* ... and reachable from disk: its series key is in a log record (replay re-creates the index entry) or in an
\* index part on disk
IndexOrLog == \A w \in W : (wst[w] = "acked" /\ ~(dpc # "none" /\ keyOf[w] \in DropKeys)) => (w \in AllRecs \/ serOf[keyOf[w]] \in idxDisk)

\* a committed data file holds only rows of series whose key is in an index part on disk. (The specification gives a
\* series one identity; the code gives a series that replay had to re-create a new id, so rows committed under an id
\* whose index entry was lost would stay unreachable even after the key is back. This invariant is what makes the
\* abstraction sound: FlushIndex precedes the first FlushRename, RecIndex precedes RecRename.)
FilesIndexed == \A i \in 1..Len(files) : \A j \in 1..Len(files[i]) : serOf[keyOf[files[i][j]]] \in idxDisk

\* action property: log files of a flush disappear only after its data file was renamed into place
RemoveAfterRename ==
  [][ (mode = "run" /\ wal' # wal /\ Cardinality(AllFiles') < Cardinality(AllFiles)) => fpc = "renamed" ]_vars

\* action property: no log file is removed while a row it protects belongs to a series that is only in the
\* in-memory index (the record is the only durable copy of the series key)
RecsOfFiles(ids) == UNION {UNION {{wal[p][i].recs[j] : j \in 1..Len(wal[p][i].recs)} : i \in {x \in 1..Len(wal[p]) : wal[p][x].id \in ids}} : p \in Parts}
IndexBeforeWalRemove ==
  [][ \A w \in RecsOfFiles(AllFiles \ AllFiles') : serOf[keyOf[w]] \in idxDisk ]_vars

TypeOK == /\ mode \in {"run", "down", "rec"} /\ dpc \in {"none", "marked", "removed"}
          /\ fpc \in {"idle", "switched", "indexed", "committing", "renamed"}
          /\ fkind \in {"none", "forced", "auto"} /\ (fkind = "none" <=> fpc = "idle")
          /\ rpc \in {"none", "opened", "replayed", "indexed", "inited", "renamed"}
          /\ idxMem \cap idxDisk = {} /\ idxMem \cup idxDisk \subseteq {serOf[k] : k \in Keys}
          /\ writeReq \in Nat /\ inits \in Nat
=============================================================================
