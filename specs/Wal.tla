-------------------------------- MODULE Wal --------------------------------
(***************************************************************************)
(* Write path, memtable flush and crash recovery of one shard, at the      *)
(* granularity of the file-system steps the code performs.                 *)
(*                                                                         *)
(*  WriteMem / WriteWal / Ack   shard.writeRows: memtable, then WAL record *)
(*                               to partition (writeReq++ mod N), both     *)
(*                               under the shared snapshotLock; then 204   *)
(*  FlushSwitch                  tsstoreImpl.writeSnapshot under the       *)
(*                               exclusive lock: WAL.Switch + table swap   *)
(*  FlushIndex                   indexBuilder.Flush                        *)
(*  FlushInit / FlushRename      commitSnapshot: *.tssp.init, rename       *)
(*  FlushRemoveWal(f) / FlushEnd RemoveWalFiles (one file at a time), drop *)
(*                               the snapshot table                        *)
(*  Crash                        kill -9 at any instant (also in recovery) *)
(*  RecOpen / RecReplay          restoreLogs + Replay (consumeRecordSerial)*)
(*  RecInit / RecRename          ForceFlush of the replayed rows           *)
(*  RecRemoveWal(f) / RecEnd     wal.Remove, shard opens for writes        *)
(*                                                                         *)
(* Dev = {} is the design that satisfies C01. The deviations              *)
(*   "rr_from_0"            replay one record per partition in turn,       *)
(*                          starting at partition 0 (as implemented),      *)
(*                          instead of in the global append order          *)
(*   "wal_remove_one_by_one" old log files are removed one at a time       *)
(*                          (as implemented) instead of atomically         *)
(* are what the pinned code does; each violates Durable (known findings    *)
(* F-C01-1, F-C01-2). The remaining names are mutation seeds.              *)
(***************************************************************************)
EXTENDS Integers, Sequences, FiniteSets, TLC, SequencesExt, FiniteSetsExt

CONSTANTS N,          \* number of WAL partitions
          Keys,       \* (series,time,field) cells
          MaxW,       \* writes
          MaxFlush,   \* flushes started
          MaxCrash,   \* crashes
          MaxInits,   \* data files written by one flush
          DropKeys,   \* cells of the measurement that DROP MEASUREMENT removes (subset of Keys)
          MaxDrop,    \* drops
          Dev

VARIABLES wal,       \* [1..N -> Seq(file)], file = [id, recs: Seq(write id), open: BOOLEAN]
          nfile,     \* next WAL file id
          writeReq,  \* WAL.writeReq
          mem,       \* active memtable: write ids in arrival order
          snap,      \* memtable being flushed
          pend,      \* ids of WAL files owned by the running flush
          files,     \* committed data files, oldest first: each a Seq(write id)
          inits,     \* *.tssp.init files (invisible to readers and to recovery)
          fpc,       \* flush program counter
          mode,      \* "run" | "down" | "rec"
          rpc,       \* recovery program counter
          keyOf,     \* write id -> key
          nw,        \* writes started
          wst,       \* write id -> "mem" | "logged" | "acked"
          acked,     \* Seq(write id) in acknowledgement order
          nflush, ncrash,
          dpc,       \* DROP MEASUREMENT program counter: "none" | "marked" | "removed"
          ndrop,
          hist       \* client-visible history (export)

vars == <<wal, nfile, writeReq, mem, snap, pend, files, inits, fpc, mode, rpc, keyOf, nw, wst, acked,
          nflush, ncrash, dpc, ndrop, hist>>
view == <<wal, nfile, writeReq, mem, snap, pend, files, inits, fpc, mode, rpc, keyOf, nw, wst, acked,
          nflush, ncrash, dpc, ndrop>>

Parts == 1..N
W     == 1..MaxW

\* value read for key k from a sequence of write ids (later wins; the value of a write is its id)
LastOn(seq, k) == LET idx == {i \in 1..Len(seq) : keyOf[seq[i]] = k}
                  IN IF idx = {} THEN 0 ELSE seq[Max(idx)]

\* data files: a later file shadows an earlier one (replayed stale rows land in a new out-of-order
\* file, which readers prefer over older files)
RECURSIVE ReadFiles(_, _)
ReadFiles(fs, k) == IF fs = <<>> THEN 0
                    ELSE LET v == LastOn(fs[Len(fs)], k)
                         IN IF v # 0 THEN v ELSE ReadFiles(SubSeq(fs, 1, Len(fs) - 1), k)

Read(k) == LET a == LastOn(mem, k) b == LastOn(snap, k)
           IN IF a # 0 THEN a ELSE IF b # 0 THEN b ELSE ReadFiles(files, k)

\* the latest acknowledged write that has not been dropped since
LastAcked(k) == LastOn(SelectSeq(acked, LAMBDA w : wst[w] = "acked"), k)

AllFiles == UNION {{wal[p][i].id : i \in 1..Len(wal[p])} : p \in Parts}

-----------------------------------------------------------------------------
Init ==
  /\ wal = [p \in Parts |-> <<>>] /\ nfile = 1 /\ writeReq = 0
  /\ mem = <<>> /\ snap = <<>> /\ pend = {} /\ files = <<>> /\ inits = 0
  /\ fpc = "idle" /\ mode = "run" /\ rpc = "none"
  /\ keyOf = [w \in W |-> CHOOSE k \in Keys : TRUE] /\ nw = 0
  /\ wst = [w \in W |-> "none"] /\ acked = <<>>
  /\ nflush = 0 /\ ncrash = 0 /\ dpc = "none" /\ ndrop = 0 /\ hist = <<>>

Unlogged == {w \in W : wst[w] = "mem"}
Unacked  == {w \in W : wst[w] \in {"mem", "logged"}}

WriteMem(k) ==
  /\ mode = "run" /\ nw < MaxW /\ Unacked = {}       \* one sequential client: acknowledgement order is well defined
  /\ dpc = "none"
  /\ nw' = nw + 1
  /\ keyOf' = [keyOf EXCEPT ![nw + 1] = k]
  /\ mem' = Append(mem, nw + 1)
  /\ wst' = [wst EXCEPT ![nw + 1] = "mem"]
  /\ UNCHANGED <<wal, nfile, writeReq, snap, pend, files, inits, fpc, mode, rpc, acked, nflush, ncrash, dpc, ndrop, hist>>

\* append the record to the partition's open file, creating one if needed
AppendRec(p, w) ==
  IF wal[p] # <<>> /\ wal[p][Len(wal[p])].open
    THEN /\ wal' = [wal EXCEPT ![p][Len(wal[p])].recs = Append(@, w)]
         /\ nfile' = nfile
    ELSE /\ wal' = [wal EXCEPT ![p] = Append(@, [id |-> nfile, recs |-> <<w>>, open |-> TRUE])]
         /\ nfile' = nfile + 1

WriteWal(w) ==
  /\ mode = "run" /\ wst[w] = "mem"
  /\ IF "ack_before_wal" \in Dev
       THEN UNCHANGED <<wal, nfile, writeReq>>          \* mutation seed: no log record at all
       ELSE /\ AppendRec((writeReq % N) + 1, w)
            /\ writeReq' = writeReq + 1
  /\ wst' = [wst EXCEPT ![w] = "logged"]
  /\ UNCHANGED <<mem, snap, pend, files, inits, fpc, mode, rpc, keyOf, nw, acked, nflush, ncrash, dpc, ndrop, hist>>

Ack(w) ==
  /\ mode = "run" /\ wst[w] = "logged"
  /\ wst' = [wst EXCEPT ![w] = "acked"]
  /\ acked' = Append(acked, w)
  /\ hist' = Append(hist, [a |-> "Write", w |-> w, k |-> keyOf[w]])
  /\ UNCHANGED <<wal, nfile, writeReq, mem, snap, pend, files, inits, fpc, mode, rpc, keyOf, nw, nflush, ncrash, dpc, ndrop>>

CloseAll(ws) == [p \in Parts |-> [i \in 1..Len(ws[p]) |-> [ws[p][i] EXCEPT !.open = FALSE]]]

FlushSwitch ==
  /\ mode = "run" /\ fpc = "idle" /\ mem # <<>> /\ Unlogged = {}
  /\ (nflush < MaxFlush \/ dpc = "marked")             \* DROP MEASUREMENT forces a flush of its own
  /\ dpc \in {"none", "marked"}
  /\ snap' = mem /\ mem' = <<>>
  /\ wal' = CloseAll(wal)
  /\ pend' = AllFiles
  /\ writeReq' = IF "reset_writereq_at_switch" \in Dev THEN 0 ELSE writeReq
  /\ fpc' = "switched" /\ nflush' = nflush + 1
  /\ UNCHANGED <<nfile, files, inits, mode, rpc, keyOf, nw, wst, acked, ncrash, dpc, ndrop, hist>>

FlushIndex ==
  /\ mode = "run" /\ fpc = "switched" /\ fpc' = "indexed"
  /\ UNCHANGED <<wal, nfile, writeReq, mem, snap, pend, files, inits, mode, rpc, keyOf, nw, wst, acked, nflush, ncrash, dpc, ndrop, hist>>

\* commitSnapshot skips the rows of a measurement that is being dropped (checkMstDeleting)
Kept(seq) == IF dpc = "none" THEN seq ELSE SelectSeq(seq, LAMBDA w : keyOf[w] \notin DropKeys)

\* commitSnapshot writes one *.tssp.init per data file (ordered / out-of-order, per measurement)
\* and renames each into place; the snapshot's rows become readable from files with the first
\* rename (the log still holds all of them until every rename is done).
FlushInit ==
  /\ mode = "run" /\ fpc \in {"indexed", "committing"} /\ inits < MaxInits
  /\ fpc' = "committing" /\ inits' = inits + 1
  /\ UNCHANGED <<wal, nfile, writeReq, mem, snap, pend, files, mode, rpc, keyOf, nw, wst, acked, nflush, ncrash, dpc, ndrop, hist>>

FlushRename ==
  /\ mode = "run" /\ fpc = "committing" /\ inits > 0
  /\ inits' = inits - 1
  /\ files' = IF files # <<>> /\ files[Len(files)] = Kept(snap) THEN files ELSE Append(files, Kept(snap))
  /\ UNCHANGED <<wal, nfile, writeReq, mem, snap, pend, fpc, mode, rpc, keyOf, nw, wst, acked, nflush, ncrash, dpc, ndrop, hist>>

\* all data files of the snapshot are in place
FlushCommitted ==
  /\ mode = "run" /\ fpc = "committing" /\ inits = 0
  /\ files # <<>> /\ files[Len(files)] = Kept(snap)
  /\ fpc' = "renamed"
  /\ UNCHANGED <<wal, nfile, writeReq, mem, snap, pend, files, inits, mode, rpc, keyOf, nw, wst, acked, nflush, ncrash, dpc, ndrop, hist>>

Without(ws, ids) == [p \in Parts |-> SelectSeq(ws[p], LAMBDA f : f.id \notin ids)]

\* mutation seed "remove_wal_before_rename": the log may go as soon as the table is switched
RemovableAt == IF "remove_wal_before_rename" \in Dev THEN {"switched", "indexed", "committing", "renamed"} ELSE {"renamed"}

FlushRemoveWal ==
  /\ mode = "run" /\ fpc \in RemovableAt /\ pend # {}
  /\ IF "wal_remove_one_by_one" \in Dev
       THEN \E f \in pend : /\ wal' = Without(wal, {f}) /\ pend' = pend \ {f}
       ELSE /\ wal' = Without(wal, pend) /\ pend' = {}
  /\ UNCHANGED <<nfile, writeReq, mem, snap, files, inits, fpc, mode, rpc, keyOf, nw, wst, acked, nflush, ncrash, dpc, ndrop, hist>>

FlushEnd ==
  /\ mode = "run" /\ fpc = "renamed" /\ pend = {}
  /\ snap' = <<>> /\ fpc' = "idle"
  /\ hist' = Append(hist, [a |-> "Flush", w |-> 0, k |-> "-"])
  /\ UNCHANGED <<wal, nfile, writeReq, mem, pend, files, inits, mode, rpc, keyOf, nw, wst, acked, nflush, ncrash, dpc, ndrop>>

\* DROP MEASUREMENT (shard.DropMeasurement): mark the measurement as deleting, force a flush (its rows are
\* skipped, the log files go away with that flush), remove its data files, acknowledge.
DropBegin ==
  /\ mode = "run" /\ fpc = "idle" /\ dpc = "none" /\ Unacked = {} /\ ndrop < MaxDrop /\ DropKeys # {}
  /\ dpc' = "marked" /\ ndrop' = ndrop + 1
  /\ UNCHANGED <<wal, nfile, writeReq, mem, snap, pend, files, inits, fpc, mode, rpc, keyOf, nw, wst, acked, nflush, ncrash, hist>>

DropFiles ==
  /\ mode = "run" /\ dpc = "marked" /\ fpc = "idle" /\ mem = <<>>
  /\ files' = [i \in 1..Len(files) |-> SelectSeq(files[i], LAMBDA w : keyOf[w] \notin DropKeys)]
  /\ dpc' = "removed"
  /\ UNCHANGED <<wal, nfile, writeReq, mem, snap, pend, inits, fpc, mode, rpc, keyOf, nw, wst, acked, nflush, ncrash, ndrop, hist>>

DropEnd ==
  /\ mode = "run" /\ dpc = "removed"
  /\ wst' = [w \in W |-> IF keyOf[w] \in DropKeys /\ wst[w] \in {"acked", "maybe"} THEN "dropped" ELSE wst[w]]
  /\ dpc' = "none"
  /\ hist' = Append(hist, [a |-> "Drop", w |-> 0, k |-> "-"])
  /\ UNCHANGED <<wal, nfile, writeReq, mem, snap, pend, files, inits, fpc, mode, rpc, keyOf, nw, acked, nflush, ncrash, ndrop>>

\* kill -9: memory and descriptors vanish; the directory tree stays as it is
Crash ==
  /\ mode \in {"run", "rec"} /\ ncrash < MaxCrash
  /\ mode' = "down" /\ ncrash' = ncrash + 1
  /\ mem' = <<>> /\ snap' = <<>> /\ pend' = {} /\ fpc' = "idle" /\ rpc' = "none"
  /\ wal' = CloseAll(wal)
  /\ inits' = 0                                         \* *.init files are ignored (and cleaned) by Open
  \* a write caught before its log append is lost; one caught between log append and
  \* acknowledgement may or may not come back ("maybe": the client never saw the 204)
  /\ wst' = [w \in W |-> CASE wst[w] = "mem" -> "lost" [] wst[w] = "logged" -> "maybe"
                          [] wst[w] = "acked" /\ dpc # "none" /\ keyOf[w] \in DropKeys -> "maybe"   \* drop in flight: either outcome
                          [] OTHER -> wst[w]]
  /\ dpc' = "none"
  /\ UNCHANGED <<nfile, writeReq, files, keyOf, nw, acked, nflush, ndrop, hist>>

Recs(p) == LET RECURSIVE Cat(_)
               Cat(fs) == IF fs = <<>> THEN <<>> ELSE Head(fs).recs \o Cat(Tail(fs))
           IN Cat(wal[p])

\* consumeRecordSerial: one record from partition 1, 2, .., N, again and again
RECURSIVE RoundRobin(_)
RoundRobin(qs) ==
  IF \A p \in Parts : qs[p] = <<>> THEN <<>>
  ELSE LET heads == [p \in Parts |-> IF qs[p] = <<>> THEN <<>> ELSE <<Head(qs[p])>>]
           rest  == [p \in Parts |-> IF qs[p] = <<>> THEN <<>> ELSE Tail(qs[p])]
           RECURSIVE Flat(_)
           Flat(p) == IF p > N THEN <<>> ELSE heads[p] \o Flat(p + 1)
       IN Flat(1) \o RoundRobin(rest)

AllRecs == UNION {{Recs(p)[i] : i \in 1..Len(Recs(p))} : p \in Parts}
GlobalOrder == SetToSortSeq(AllRecs, <)

RecOpen ==
  /\ mode = "down" /\ mode' = "rec" /\ rpc' = "opened"
  /\ writeReq' = 0
  /\ UNCHANGED <<wal, nfile, mem, snap, pend, files, inits, fpc, keyOf, nw, wst, acked, nflush, ncrash, dpc, ndrop, hist>>

RecReplay ==
  /\ mode = "rec" /\ rpc = "opened"
  /\ mem' = IF "rr_from_0" \in Dev THEN RoundRobin([p \in Parts |-> Recs(p)]) ELSE GlobalOrder
  /\ pend' = AllFiles
  /\ rpc' = "replayed"
  /\ UNCHANGED <<wal, nfile, writeReq, snap, files, inits, fpc, mode, keyOf, nw, wst, acked, nflush, ncrash, dpc, ndrop, hist>>

RecInit ==
  /\ mode = "rec" /\ rpc = "replayed" /\ rpc' = "inited"
  /\ inits' = IF mem = <<>> THEN inits ELSE inits + 1
  /\ UNCHANGED <<wal, nfile, writeReq, mem, snap, pend, files, fpc, mode, keyOf, nw, wst, acked, nflush, ncrash, dpc, ndrop, hist>>

RecRename ==
  /\ mode = "rec" /\ rpc = "inited" /\ rpc' = "renamed"
  /\ files' = IF mem = <<>> THEN files ELSE Append(files, mem)
  /\ inits' = 0 /\ mem' = <<>>
  /\ UNCHANGED <<wal, nfile, writeReq, snap, pend, fpc, mode, keyOf, nw, wst, acked, nflush, ncrash, dpc, ndrop, hist>>

RecRemoveWal ==
  /\ mode = "rec" /\ rpc = "renamed" /\ pend # {}
  /\ IF "wal_remove_one_by_one" \in Dev
       THEN \E f \in pend : /\ wal' = Without(wal, {f}) /\ pend' = pend \ {f}
       ELSE /\ wal' = Without(wal, pend) /\ pend' = {}
  /\ UNCHANGED <<nfile, writeReq, mem, snap, files, inits, fpc, mode, rpc, keyOf, nw, wst, acked, nflush, ncrash, dpc, ndrop, hist>>

RecEnd ==
  /\ mode = "rec" /\ rpc = "renamed" /\ pend = {}
  /\ mode' = "run" /\ rpc' = "none"
  /\ hist' = Append(hist, [a |-> "Restart", w |-> 0, k |-> "-"])
  /\ UNCHANGED <<wal, nfile, writeReq, mem, snap, pend, files, inits, fpc, keyOf, nw, wst, acked, nflush, ncrash, dpc, ndrop>>

Next ==
  \/ \E k \in Keys : WriteMem(k)
  \/ \E w \in W : WriteWal(w) \/ Ack(w)
  \/ FlushSwitch \/ FlushIndex \/ FlushInit \/ FlushRename \/ FlushCommitted \/ FlushRemoveWal \/ FlushEnd
  \/ DropBegin \/ DropFiles \/ DropEnd
  \/ Crash \/ RecOpen \/ RecReplay \/ RecInit \/ RecRename \/ RecRemoveWal \/ RecEnd

Spec == Init /\ [][Next]_vars

-----------------------------------------------------------------------------
\* C01. While the shard serves (mode = "run"): every cell shows the latest acknowledged value, or a
\* later value of a write that was logged but whose acknowledgement the crash swallowed; never an
\* older value, never a value nobody wrote.
Durable ==
  mode = "run" =>
    \A k \in Keys : (dpc # "none" /\ k \in DropKeys) \/
      LET r == Read(k) IN
        /\ r >= LastAcked(k)
        /\ r # 0 => (keyOf[r] = k /\ wst[r] \in {"mem", "logged", "acked", "maybe"})
        /\ r > LastAcked(k) => wst[r] \in {"mem", "logged", "maybe"}

\* an acknowledged write is always on disk: in a log record or in a committed data file
InFiles(w) == \E i \in 1..Len(files) : \E j \in 1..Len(files[i]) : files[i][j] = w
WalBeforeAck == \A w \in W : (wst[w] = "acked" /\ ~(dpc # "none" /\ keyOf[w] \in DropKeys)) => (w \in AllRecs \/ InFiles(w))

\* action property: log files of a flush disappear only after its data file was renamed into place
RemoveAfterRename ==
  [][ (mode = "run" /\ wal' # wal /\ Cardinality(AllFiles') < Cardinality(AllFiles)) => fpc = "renamed" ]_vars

TypeOK == /\ mode \in {"run", "down", "rec"} /\ dpc \in {"none", "marked", "removed"}
          /\ fpc \in {"idle", "switched", "indexed", "committing", "renamed"}
          /\ writeReq \in Nat /\ inits \in Nat
=============================================================================
