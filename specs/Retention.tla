------------------------------ MODULE Retention ------------------------------
(***************************************************************************)
(* Retention of one retention policy of one database on one store node.    *)
(*                                                                         *)
(* Time is counted in HALF shard-group durations (L = 2 ticks per group):  *)
(* slot sl covers the instants [Start(sl), End(sl)) = [(sl-1)L, sl L).     *)
(* The integer clock reading `now = n` stands for a real instant strictly  *)
(* inside (n-1, n): a strict comparison x < now of an integer instant x is *)
(* therefore exact and the equality instant does not exist (it is out of   *)
(* reach of the real code as well, which compares nanosecond clocks).      *)
(*                                                                         *)
(* Catalogue (ts-meta, lib/util/lifted/influx/meta/data.go):               *)
(*   pol          RetentionPolicyInfo.Duration, 0 = unlimited              *)
(*   groups       1..ng in creation order: slot, DeletedAt mark, pruned    *)
(*   md[sid]      ShardInfo.MarkDelete                                     *)
(* Store (engine/engine.go, engine/shard.go):                              *)
(*   eng[sid]     absent  = in the catalogue, never created in storage     *)
(*                open    = loaded and opened                              *)
(*                lazy    = loaded at start-up, not opened yet             *)
(*                          (data.lazy-load-shard-enable, the default)     *)
(*                deleted = removed by Engine.DeleteShard                  *)
(*                orphan  = directory on disk that no start-up loads       *)
(*   cd[sid]      shard.durationInfo.Duration, the store's cached copy     *)
(* Retention service (services/retention/service.go: handle), one action   *)
(* per call it makes, so that every other action can interleave:           *)
(*   LoopRefresh      updateDurationInfo: MetaClient.GetShardDurationInfo  *)
(*                    (snapshot of the catalogue) then                     *)
(*                    Engine.UpdateShardDurationInfo per shard (cached     *)
(*                    copy, or the per-iteration nilShardMap)              *)
(*   LoopExpireCheck  Engine.ExpiredShards: shard.IsExpired /              *)
(*                    nilShardIsExpired:  d # 0 /\ end + d < now           *)
(*   LoopMarkDelete   MetaClient.DeleteShardGroup (DeletedAt := now)       *)
(*   LoopDeleteShard  Engine.DeleteShard (ShardNotFound is ignored)        *)
(*   LoopPrune        MetaClient.PruneGroupsCommand -> Data.PruneGroups    *)
(*   LoopEnd          handle returns                                       *)
(* Environment: Tick, AlterDuration (ALTER RETENTION POLICY ->             *)
(* Data.UpdateRetentionPolicy), Write (coordinator/points_writer.go:       *)
(* rejected up front when older than now - duration, else routed to the    *)
(* live group of its slot, created on demand), Query, Restart (store       *)
(* process restarts: shards are loaded from the catalogue's               *)
(* GetShardDurationsByDbPtForRetention).                                   *)
(*                                                                         *)
(* Dev = {} is the design that satisfies property C14 in its strict        *)
(* reading: the catalogue re-validates the expiry when the group is marked *)
(* (atomically with ALTER), and a shard whose storage delete failed keeps  *)
(* its catalogue entry. The two named deviations                           *)
(*   decision_not_revalidated, prune_after_failed_delete                   *)
(* are what services/retention/service.go does (AsImplemented); the other  *)
(* names are mutation seeds.                                               *)
(***************************************************************************)
EXTENDS Integers, Sequences, FiniteSets, TLC

CONSTANTS NSlots,       \* slots 1..NSlots can be written
          SPG,          \* shards per group (= partitions of the node)
          Durations,    \* durations offered to ALTER, in ticks; 0 = unlimited; 1 < L is "shorter than the group"
          InitNows,     \* initial clock readings
          InitDurs,     \* initial policy durations
          MaxNow, MaxTicks,
          MaxGroups,    \* bound on shard groups ever created
          MaxWrites, MaxAlters, MaxRestarts, MaxFaults, MaxQueries,
          Lazy,         \* TRUE: a restart loads shards without opening them
          Depth,        \* behaviours of this length are exported
          HistOn,       \* FALSE: no history (liveness runs)
          Dev           \* deviations switched on

L == 2
Start(sl) == (sl - 1) * L
End(sl)   == sl * L

Sids == 1..(MaxGroups * SPG)
Gids == 1..MaxGroups
Gid(sid) == ((sid - 1) \div SPG) + 1
Kof(sid) == ((sid - 1) % SPG) + 1
SidsOf(g) == {(g - 1) * SPG + k : k \in 1..SPG}

VARIABLES now, pol,
          ng, gslot, gmark, gpruned,     \* catalogue: groups
          md,                            \* catalogue: ShardInfo.MarkDelete
          eng, cd,                       \* store
          pts,                           \* acknowledged points per shard: set of [id, t] (kept after deletion, as the oracle's memory)
          pc, todo, nilm, dfail,         \* retention service iteration
          nw, nt, na, nr, nf, nq,        \* counters (bounds)
          src, dec, keep, safe, out, badAck, badRej, everLim,   \* ghosts
          hist

cat   == <<ng, gslot, gmark, gpruned, md>>
store == <<eng, cd>>
loop  == <<pc, todo, nilm, dfail>>
cnt   == <<nw, nt, na, nr, nf, nq>>
ghost == <<src, dec, keep, safe, out, badAck, badRej, everLim>>
vars  == <<now, pol, cat, store, pts, loop, cnt, ghost, hist>>
view  == <<now, pol, cat, store, pts, loop, cnt, ghost>>

-----------------------------------------------------------------------------
Loaded(e) == e \in {"open", "lazy"}
InCat(sid) == Gid(sid) <= ng /\ ~gpruned[Gid(sid)]
Slot(sid) == gslot[Gid(sid)]

\* the oracle: what "expired" means in the property (never deviates): a shard whose span ended at instant e
\* is expired under duration d at clock reading n
RawExpired(d, e, n) == d > 0 /\ e + d < n
TrueExpired(d, sl, n) == RawExpired(d, End(sl), n)

\* the predicate the store evaluates (shard.IsExpired / nilShardIsExpired)
ExpiredBy(d, sl, n) ==
  LET ref == IF "expire_from_start" \in Dev THEN Start(sl) ELSE End(sl)
  IN IF d = 0 THEN ("unlimited_is_zero" \in Dev /\ ref < n)
     ELSE IF "expire_le" \in Dev THEN ref + d <= n ELSE ref + d < n

\* a shard whose data a query can reach
Alive(sid) == Gid(sid) <= ng /\ ~gmark[Gid(sid)] /\ ~gpruned[Gid(sid)] /\ Loaded(eng[sid])

LiveGroups(sl) == {g \in 1..ng : gslot[g] = sl /\ ~gmark[g] /\ ~gpruned[g]}
QueryResult(sl) == UNION {{p.id : p \in pts[sid]} : sid \in {s \in Sids : Gid(s) \in LiveGroups(sl) /\ Loaded(eng[s])}}

AllPts == UNION {pts[sid] : sid \in Sids}

RECURSIVE AscSeq(_)
AscSeq(S) == IF S = {} THEN <<>> ELSE LET m == CHOOSE x \in S : \A y \in S : x <= y IN <<m>> \o AscSeq(S \ {m})

\* ---- what the harness observes in the real system after every step ---------------------------------
GroupObs == [g \in 1..ng |-> [slot |-> gslot[g], marked |-> gmark[g], pruned |-> gpruned[g]]]
ShardObs == [sid \in 1..(ng * SPG) |-> [eng |-> eng[sid], md |-> md[sid], cd |-> IF Loaded(eng[sid]) THEN cd[sid] ELSE -1]]
\* data of the reachable shards that are open (a read would open a lazy shard; lazy shards are read by Query only)
DataObs == [sid \in 1..(ng * SPG) |-> IF eng[sid] = "open" /\ Alive(sid) THEN AscSeq({p.id : p \in pts[sid]}) ELSE <<>>]
\* what a query over each slot returns (checked by Query steps and once more after the last step)
QObs == [sl \in 1..NSlots |-> AscSeq(QueryResult(sl))]
Obs == [now |-> now, pol |-> pol, groups |-> GroupObs, shards |-> ShardObs, data |-> DataObs, q |-> QObs, pc |-> pc, todo |-> todo]

Log(a, args, res) ==
  hist' = IF HistOn THEN Append(hist, [a |-> a, args |-> args, res |-> res, exp |-> Obs']) ELSE hist

NoRes == [r |-> "ok", fired |-> ""]

-----------------------------------------------------------------------------
NoDec == [d |-> -1, n |-> -1]

Init ==
  /\ now \in InitNows /\ pol \in InitDurs
  /\ ng = 0
  /\ gslot = [g \in Gids |-> 0] /\ gmark = [g \in Gids |-> FALSE] /\ gpruned = [g \in Gids |-> FALSE]
  /\ md = [s \in Sids |-> FALSE]
  /\ eng = [s \in Sids |-> "absent"] /\ cd = [s \in Sids |-> -1]
  /\ pts = [s \in Sids |-> {}]
  /\ pc = "idle" /\ todo = <<>> /\ nilm = [s \in Sids |-> -1] /\ dfail = FALSE
  /\ nw = 0 /\ nt = 0 /\ na = 0 /\ nr = 0 /\ nf = 0 /\ nq = 0
  /\ src = [s \in Sids |-> -1] /\ dec = [s \in Sids |-> NoDec] /\ keep = {} /\ safe = {} /\ out = {}
  /\ badAck = FALSE /\ badRej = FALSE /\ everLim = (pol # 0)
  /\ hist = <<>>

\* ---- environment -----------------------------------------------------------------------------------
Tick ==
  /\ now < MaxNow /\ nt < MaxTicks
  /\ now' = now + 1 /\ nt' = nt + 1
  /\ UNCHANGED <<pol, cat, store, pts, loop, nw, na, nr, nf, nq, src, dec, keep, badAck, badRej, everLim>>
  /\ Log("Tick", [x |-> 0], NoRes)

\* ALTER RETENTION POLICY .. DURATION d: Data.UpdateRetentionPolicy -> CheckSpecValid refuses a positive
\* duration below the shard-group duration (and below one hour)
AlterDuration(d) ==
  /\ na < MaxAlters
  /\ na' = na + 1
  /\ LET ok == (d = 0 \/ d >= L)
     IN /\ pol' = IF ok THEN d ELSE pol
        /\ everLim' = (everLim \/ (ok /\ d # 0))
        /\ UNCHANGED <<now, cat, store, pts, loop, nw, nt, nr, nf, nq, src, dec, keep, badAck, badRej>>
        /\ Log("AlterDuration", [d |-> d, prev |-> pol], [r |-> IF ok THEN "ok" ELSE "rejected", fired |-> ""])

\* one point with timestamp Start(sl) + sub, routed to shard k of the live group of slot sl
Write(sl, k, sub) ==
  /\ nw < MaxWrites
  /\ LET t      == Start(sl) + sub
         oow    == pol # 0 /\ t + pol < now                 \* out of the retention window
         acc    == IF "write_no_reject" \in Dev THEN TRUE
                   ELSE IF "write_reject_le" \in Dev THEN ~(pol # 0 /\ t + pol <= now)
                   ELSE ~oow
         lg     == LiveGroups(sl)
         g      == IF lg = {} THEN ng + 1 ELSE CHOOSE x \in lg : TRUE
         sid    == (g - 1) * SPG + k
     IN /\ nw' = nw + 1
        /\ IF ~acc
             THEN /\ badRej' = (badRej \/ ~oow)
                  /\ UNCHANGED <<now, pol, cat, store, pts, loop, nt, na, nr, nf, nq, src, dec, keep, badAck, everLim>>
                  /\ Log("Write", [sl |-> sl, k |-> k, sub |-> sub, id |-> nw + 1], [r |-> "rejected", fired |-> ""])
             ELSE /\ lg = {} => ng < MaxGroups
                  /\ Cardinality(lg) <= 1
                  /\ eng[sid] \in {"absent", "open", "lazy"}
                  /\ ng' = IF lg = {} THEN ng + 1 ELSE ng
                  /\ gslot' = IF lg = {} THEN [gslot EXCEPT ![g] = sl] ELSE gslot
                  /\ eng' = [eng EXCEPT ![sid] = "open"]
                  \* a new shard takes the policy's duration from the catalogue (GetShardRangeInfo)
                  /\ cd' = IF eng[sid] = "absent" THEN [cd EXCEPT ![sid] = pol] ELSE cd
                  /\ src' = IF eng[sid] = "absent" THEN [src EXCEPT ![sid] = pol] ELSE src
                  /\ pts' = [pts EXCEPT ![sid] = @ \cup {[id |-> nw + 1, t |-> t]}]
                  /\ badAck' = (badAck \/ oow)
                  /\ UNCHANGED <<now, pol, gmark, gpruned, md, loop, nt, na, nr, nf, nq, dec, keep, badRej, everLim>>
                  /\ Log("Write", [sl |-> sl, k |-> k, sub |-> sub, id |-> nw + 1], [r |-> "accepted", fired |-> ""])

\* a query over slot sl: opens the lazy shards it reaches
Query(sl) ==
  /\ nq < MaxQueries
  /\ nq' = nq + 1
  /\ eng' = [s \in Sids |-> IF Gid(s) \in LiveGroups(sl) /\ eng[s] = "lazy" THEN "open" ELSE eng[s]]
  /\ UNCHANGED <<now, pol, cat, cd, pts, loop, nw, nt, na, nr, nf, src, dec, keep, badAck, badRej, everLim>>
  /\ Log("Query", [sl |-> sl], [r |-> "ok", fired |-> "", ids |-> AscSeq(QueryResult(sl))])

\* the store process restarts (the iteration in progress is lost); ts-meta hands it the shards of
\* GetShardDurationsByDbPtForRetention: every catalogued shard that is not MarkDelete
Restart ==
  /\ nr < MaxRestarts
  /\ nr' = nr + 1
  /\ LET loadable(s) == InCat(s) /\ ~md[s]
         ne == [s \in Sids |-> IF eng[s] \in {"open", "lazy", "orphan"}
                                 THEN (IF loadable(s) THEN (IF Lazy THEN "lazy" ELSE "open") ELSE "orphan")
                                 ELSE eng[s]]
     IN /\ eng' = ne
        /\ cd' = [s \in Sids |-> IF Loaded(ne[s]) THEN pol ELSE cd[s]]
        /\ src' = [s \in Sids |-> IF Loaded(ne[s]) THEN pol ELSE src[s]]
  /\ pc' = "idle" /\ todo' = <<>> /\ nilm' = [s \in Sids |-> -1] /\ dfail' = FALSE /\ keep' = {}
  /\ UNCHANGED <<now, pol, cat, pts, nw, nt, na, nf, nq, dec, badAck, badRej, everLim>>
  /\ Log("Restart", [x |-> 0], NoRes)

\* ---- the retention service -------------------------------------------------------------------------
LoopRefresh ==
  /\ pc = "idle"
  /\ src' = [s \in Sids |-> IF InCat(s) /\ Loaded(eng[s]) THEN pol ELSE src[s]]
  /\ cd' = [s \in Sids |-> IF InCat(s) /\ Loaded(eng[s]) /\ ~("refresh_skips_lazy" \in Dev /\ eng[s] = "lazy")
                             THEN pol ELSE cd[s]]
  /\ nilm' = [s \in Sids |-> IF InCat(s) /\ ~Loaded(eng[s]) THEN pol ELSE -1]
  /\ pc' = "refreshed" /\ keep' = {}
  /\ UNCHANGED <<now, pol, cat, eng, pts, todo, dfail, cnt, dec, badAck, badRej, everLim>>
  /\ Log("LoopRefresh", [x |-> 0], NoRes)

\* ghost: the copies of the policy's duration the store legitimately holds for shard s (src parallels cd
\* without deviations; the nilShardMap entry is this iteration's snapshot), and those under which it is expired
Copies(s) == (IF Loaded(eng[s]) THEN {src[s]} ELSE {}) \cup (IF nilm[s] # -1 THEN {nilm[s]} ELSE {})
GoodCopies(s) == {d \in Copies(s) : RawExpired(d, End(Slot(s)), now)}

LoopExpireCheck ==
  /\ pc = "refreshed"
  /\ LET E1 == {s \in Sids : Loaded(eng[s]) /\ ExpiredBy(cd[s], Slot(s), now)}
         E2 == IF "absent_not_pruned" \in Dev THEN {}
               ELSE {s \in Sids : nilm[s] # -1 /\ ExpiredBy(nilm[s], Slot(s), now)}
         E  == E1 \cup E2
     IN /\ todo' = AscSeq(E)
        /\ dec' = [s \in Sids |-> IF s \in E
                                      THEN [d |-> IF GoodCopies(s) # {} THEN CHOOSE d \in GoodCopies(s) : TRUE ELSE 0, n |-> now]
                                      ELSE dec[s]]
        \* (the mark hides the whole group: a shard is kept if no shard of its group is expired under the copy
        \* of the policy the store took for it)
        /\ keep' = {s \in Sids : Alive(s) /\ \A s2 \in SidsOf(Gid(s)) : GoodCopies(s2) = {}}
        /\ pc' = "checked"
        /\ UNCHANGED <<now, pol, cat, store, pts, nilm, dfail, cnt, src, badAck, badRej, everLim>>
        /\ Log("LoopExpireCheck", [x |-> 0], [r |-> "ok", fired |-> "", expired |-> AscSeq(E)])

\* DeleteShardGroup(db, rp, group of the shard, MarkDelete). In the design the catalogue applies the
\* mark only if the group is (still) expired under the policy it holds at that moment.
LoopMarkDelete ==
  /\ pc = "checked" /\ todo # <<>>
  /\ LET sid   == Head(todo)
         g     == Gid(sid)
         still == TrueExpired(pol, gslot[g], now)
         go    == gmark[g] \/ gpruned[g] \/ still \/ "decision_not_revalidated" \in Dev
         fired == IF ~(gmark[g] \/ gpruned[g] \/ still) /\ go THEN "decision_not_revalidated" ELSE ""
     IN IF go
          THEN /\ gmark' = [gmark EXCEPT ![g] = TRUE]
               /\ pc' = "marked"
               /\ UNCHANGED <<now, pol, ng, gslot, gpruned, md, store, pts, todo, nilm, dfail, cnt, src, dec, keep, badAck, badRej, everLim>>
               /\ Log("LoopMarkDelete", [sid |-> sid], [r |-> "marked", fired |-> fired])
          ELSE /\ todo' = Tail(todo)
               /\ UNCHANGED <<now, pol, cat, store, pts, pc, nilm, dfail, cnt, src, dec, keep, badAck, badRej, everLim>>
               /\ Log("LoopMarkDelete", [sid |-> sid], [r |-> "kept", fired |-> ""])

LoopDeleteShard ==
  /\ pc = "marked"
  /\ LET sid == Head(todo)
     IN /\ eng' = [eng EXCEPT ![sid] = IF Loaded(@) THEN "deleted" ELSE @]
        /\ pc' = "deleted" /\ dfail' = FALSE
        /\ UNCHANGED <<now, pol, cat, cd, pts, todo, nilm, cnt, src, dec, keep, badAck, badRej, everLim>>
        /\ Log("LoopDeleteShard", [sid |-> sid], [r |-> IF Loaded(eng[sid]) THEN "deleted" ELSE "notfound", fired |-> ""])

\* Engine.DeleteShard fails (partition is migrating, close error, deletion timed out): the design retries
\* in the next iteration and leaves the catalogue alone
LoopDeleteShardFail ==
  /\ pc = "marked" /\ nf < MaxFaults
  /\ LET sid == Head(todo)
     IN /\ Loaded(eng[sid])
        /\ nf' = nf + 1
        /\ IF "prune_after_failed_delete" \in Dev
             THEN pc' = "deleted" /\ dfail' = TRUE /\ todo' = todo
             ELSE pc' = "checked" /\ dfail' = FALSE /\ todo' = Tail(todo)
        /\ UNCHANGED <<now, pol, cat, store, pts, nilm, nw, nt, na, nr, nq, src, dec, keep, badAck, badRej, everLim>>
        /\ Log("LoopDeleteShardFail", [sid |-> sid], [r |-> "failed", fired |-> ""])

\* PruneGroupsCommand(true, shard id): Data.pruneShardGroups sets MarkDelete on the shard and removes
\* every marked group all of whose shards are MarkDelete
LoopPrune ==
  /\ pc = "deleted"
  /\ LET sid == Head(todo)
         nmd == [md EXCEPT ![sid] = IF InCat(sid) THEN TRUE ELSE @]
         gone(g) == IF "prune_any_marked" \in Dev THEN \E s \in SidsOf(g) : nmd[s] ELSE \A s \in SidsOf(g) : nmd[s]
     IN /\ md' = nmd
        /\ gpruned' = [g \in Gids |-> gpruned[g] \/ (g <= ng /\ gmark[g] /\ gone(g))]
        /\ todo' = Tail(todo) /\ pc' = "checked" /\ dfail' = FALSE
        /\ UNCHANGED <<now, pol, ng, gslot, gmark, store, pts, nilm, cnt, src, dec, keep, badAck, badRej, everLim>>
        /\ Log("LoopPrune", [sid |-> sid], [r |-> "ok", fired |-> IF dfail THEN "prune_after_failed_delete" ELSE ""])

LoopEnd ==
  /\ pc = "checked" /\ todo = <<>>
  /\ pc' = "idle" /\ nilm' = [s \in Sids |-> -1] /\ keep' = {}
  /\ UNCHANGED <<now, pol, cat, store, pts, todo, dfail, cnt, src, dec, badAck, badRej, everLim>>
  /\ Log("LoopEnd", [x |-> 0], NoRes)

Loop == LoopRefresh \/ LoopExpireCheck \/ LoopMarkDelete \/ LoopDeleteShard \/ LoopDeleteShardFail \/ LoopPrune \/ LoopEnd
LoopProgress == LoopRefresh \/ LoopExpireCheck \/ LoopMarkDelete \/ LoopDeleteShard \/ LoopPrune \/ LoopEnd

Env == \/ Tick
       \/ \E d \in Durations : AlterDuration(d)
       \/ \E sl \in 1..NSlots, k \in 1..SPG, sub \in 0..(L - 1) : Write(sl, k, sub)
       \/ \E sl \in 1..NSlots : Query(sl)
       \/ Restart

\* ---- ghosts that depend on the post-state only -------------------------------------------------------
\* out: points that have been outside the retention window at some moment since they were acknowledged
\* safe: shards that were reachable when the policy was (last) altered and have not been expired under the
\*       policy in force at any moment since
GhostNext ==
  /\ out' = out \cup {p.id : p \in {q \in UNION {pts'[s] : s \in Sids} : pol' # 0 /\ q.t + pol' < now'}}
  /\ safe' = {s \in (safe \cup (IF pol' # pol THEN {x \in Sids : Alive(x)} ELSE {})) :
                 ~TrueExpired(pol', gslot'[Gid(s)], now')}

Next == (Loop \/ Env) /\ GhostNext

Spec == Init /\ [][Next]_vars

\* liveness: the service keeps running; a storage delete that can succeed eventually succeeds
FairSpec == Spec /\ WF_vars(LoopProgress /\ GhostNext)

-----------------------------------------------------------------------------
EngStates == {"absent", "open", "lazy", "deleted", "orphan"}
TypeOK ==
  /\ now \in 0..MaxNow /\ pol \in Nat /\ ng \in 0..MaxGroups
  /\ \A g \in Gids : gslot[g] \in 0..NSlots /\ gmark[g] \in BOOLEAN /\ gpruned[g] \in BOOLEAN
  /\ \A s \in Sids : eng[s] \in EngStates /\ md[s] \in BOOLEAN /\ cd[s] \in Nat \cup {-1} /\ nilm[s] \in Nat \cup {-1}
  /\ pc \in {"idle", "refreshed", "checked", "marked", "deleted"}
  /\ \A i \in 1..Len(todo) : todo[i] \in Sids
  /\ (pc \in {"marked", "deleted"}) => todo # <<>>

\* C14 clause 1 (strict reading): a group is hidden only in a state in which it is expired under the policy
\* in force, and storage is deleted only for hidden groups
OnlyExpiredDeleted ==
  [][ /\ \A g \in Gids : (~gmark[g] /\ gmark'[g]) => TrueExpired(pol, gslot[g], now)
      /\ \A s \in Sids : (Loaded(eng[s]) /\ eng'[s] = "deleted") => (gmark[Gid(s)] \/ gpruned[Gid(s)]) ]_vars

\* C14 clause 1 (decision reading, satisfied by the code as implemented): whatever the service removed was
\* expired under the policy it read from the catalogue at the start of that iteration
LegitDec(s) == dec[s].d > 0 /\ End(Slot(s)) + dec[s].d < dec[s].n
OnlyExpiredAtDecision ==
  /\ \A s \in Sids : (Gid(s) <= ng /\ eng[s] = "deleted") => LegitDec(s)
  /\ \A g \in 1..ng : gmark[g] => \E s \in SidsOf(g) : LegitDec(s)

\* C14 clause 2
UnlimitedNeverDeleted ==
  /\ ~everLim => \A g \in Gids : ~gmark[g]
  /\ \A s \in Sids : (Gid(s) <= ng /\ eng[s] = "deleted") => dec[s].d # 0
UnlimitedNeverMarks ==
  [][ pol = 0 => \A g \in Gids : gmark'[g] = gmark[g] ]_vars

\* C14 clause 3: a point that has been inside the retention window ever since it was acknowledged is reachable
InWindowQueryable == \A s \in Sids : \A p \in pts[s] : p.id \notin out => Alive(s)

\* C14 clause 4 (strict reading): data that was reachable when the policy was raised stays reachable for as
\* long as it is not expired under the policy in force
RaiseBeforeEffectKeeps == \A s \in safe : Alive(s)
\* C14 clause 4 (decision reading): what is not expired under the policy read by this iteration survives it
RaiseBeforeDecisionKeeps == (pc # "idle") => \A s \in keep : Alive(s)

\* write-rejection clause: acknowledged points were inside the window, rejected points outside
AckedInWindow == ~badAck
RejectedOutOfWindow == ~badRej

\* catalogue and storage agree: nothing is forgotten by the catalogue while its storage exists
NoOrphanStorage == \A s \in Sids : eng[s] # "orphan" /\ ((Gid(s) <= ng /\ gpruned[Gid(s)]) => ~Loaded(eng[s]))
CatalogueSane == \A g \in Gids : gpruned[g] => (g <= ng /\ gmark[g] /\ \E s \in SidsOf(g) : md[s])

\* C14 clause 5: an expired shard is eventually gone from storage and catalogue (or stops being expired)
ExpNow(s) == Gid(s) <= ng /\ TrueExpired(pol, Slot(s), now)
Gone(s) == eng[s] \in {"absent", "deleted"} /\ gpruned[Gid(s)]
ExpiredEventuallyGone == \A s \in Sids : (ExpNow(s) ~> (Gone(s) \/ ~ExpNow(s)))
\* the stronger form used with a policy that is no longer altered: eventually nothing expired remains
EventuallyClean == <>[](\A s \in Sids : ExpNow(s) => Gone(s))
=============================================================================
