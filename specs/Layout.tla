------------------------------- MODULE Layout -------------------------------
(***************************************************************************)
(* One shard of the time-series store, seen as a stack of layers:          *)
(*   active memtable  >  out-of-order files (newest first)  >  ordered     *)
(*   files, kept per measurement (every data file belongs to exactly one   *)
(*   measurement; a flush that carries rows of several measurements writes *)
(*   one file per measurement, all with the same sequence number).         *)
(* Actions are the engine's reorganisation entry points:                   *)
(*   Write        = shard.WriteRows        (engine/shard.go)               *)
(*   Flush        = shard.ForceFlush -> tsMemTableImpl.FlushChunks         *)
(*                  (engine/mutable/ts_table.go: SplitRecordByTime by the  *)
(*                  Sequencer's per-series last flush time, only when the  *)
(*                  measurement already has an ordered file)               *)
(*   LevelCompact = MmsTables.LevelCompact: LevelPlan / mmsPlan group, per *)
(*                  measurement, Group consecutive ordered files of the    *)
(*                  level; every group is compacted by the method of the   *)
(*                  action (compactToLevel: streaming = StreamIterators,   *)
(*                  non-streaming = ChunkIterators) into one file of the   *)
(*                  next level                                             *)
(*   FullCompact  = MmsTables.FullCompact (all ordered files of every      *)
(*                  measurement with at least two of them)                 *)
(*   MergeOOO     = MmsTables.MergeOutOfOrder                              *)
(*   DownSample   = Engine.StartDownSampleTask -> shard.StartDownSample:   *)
(*                  every ordered file is replaced by its per-window       *)
(*                  aggregate (one file out per file in)                   *)
(*   Reopen       = Close + Open                                           *)
(* Property C02: what a query reads (Contents) equals the last-write-wins  *)
(* replay of acknowledged writes (lww), in every reachable layout.         *)
(* Property C03 (first half): LevelCompact, FullCompact and MergeOOO leave *)
(* lww - the expected observation - unchanged, whatever the method, the    *)
(* group size, the level and the schemas of the input files; DownSample    *)
(* replaces it by its aggregate, exactly once.                             *)
(***************************************************************************)
EXTENDS Integers, Sequences, FiniteSets, TLC, SequencesExt, FiniteSetsExt

CONSTANTS Series,      \* set of series names (strings)
          Times,       \* set of timestamps (naturals)
          Fields,      \* set of field names (strings)
          MaxBatch,    \* rows per write batch
          Depth,       \* number of actions per behaviour
          MaxWrites,   \* bound on Write actions
          MaxFiles,    \* bound on files per kind and measurement (keeps the space finite)
          Dev,         \* deviations (mutation seeds for self-tests); {} = the design
          Mst2,        \* the series that live in the second measurement "m2" (the others live in "m")
          Group,       \* LeveLMinGroupFiles: number of files in a level-compaction group
          Methods,     \* compaction methods offered to LevelCompact / FullCompact
          DSIntervals  \* down-sample intervals offered to DownSample ({} = no down-sampling)

VARIABLES active,  \* Table: rows of the active memtable
          ord,     \* [Msts -> sequence of ordered files  [seq, lvl, data]]
          unord,   \* [Msts -> sequence of out-of-order files [seq, data]]
          nseq,    \* next file sequence number
          nv,      \* next value to be written (every written cell gets a unique value)
          nw,      \* number of writes so far
          lww,     \* oracle: last-write-wins replay of acknowledged writes (aggregated once down-sampled)
          dsl,     \* 0 = raw shard; I > 0 = down-sampled with interval I
          hist     \* history of actions with expected observation (export only)

vars == <<active, ord, unord, nseq, nv, nw, lww, dsl, hist>>
view == <<active, ord, unord, nseq, nv, nw, lww, dsl>>

Key   == Series \X Times
NoRow == [f \in Fields |-> 0]                 \* 0 = null
Table == [Key -> [Fields -> Nat]]
Empty == [k \in Key |-> NoRow]

MstOf(s) == IF s \in Mst2 THEN "m2" ELSE "m"
Msts     == {MstOf(s) : s \in Series}
MstList  == IF Msts = {"m"} THEN <<"m">> ELSE IF Msts = {"m2"} THEN <<"m2">> ELSE <<"m", "m2">>

IsEmpty(t) == \A k \in Key : t[k] = NoRow
Present(t) == {k \in Key : t[k] # NoRow}
KeysOf(t, m) == {k \in Present(t) : MstOf(k[1]) = m}

\* field-wise replace: the newer layer wins for every field it carries
\* (TLCEval forces TLC to evaluate the function eagerly; without it nested merges are re-evaluated
\* on every access and simulation slows down by orders of magnitude)
Over(new, old) == TLCEval([k \in Key |-> [f \in Fields |-> IF new[k][f] # 0 THEN new[k][f] ELSE old[k][f]]])

RECURSIVE OverAll(_)
\* precedence merge of a sequence of tables, highest precedence first
OverAll(ts) == IF ts = <<>> THEN Empty ELSE Over(Head(ts), OverAll(Tail(ts)))

Datas(files) == [i \in 1..Len(files) |-> files[i].data]

RECURSIVE ConcatM(_, _)
ConcatM(fm, ms) == IF ms = <<>> THEN <<>> ELSE fm[Head(ms)] \o ConcatM(fm, Tail(ms))
\* all files of a kind (keys of different measurements are disjoint, so their relative order is immaterial)
AllOrd   == ConcatM(ord, MstList)
AllUnord == ConcatM(unord, MstList)

\* What a query sees: active > unordered (newest first) > ordered (newest first).
LayerSeq == <<active>> \o Reverse(Datas(AllUnord)) \o Reverse(Datas(AllOrd))
Contents ==
  IF "ordered_over_unordered" \in Dev
    THEN OverAll(<<active>> \o Reverse(Datas(AllOrd)) \o Reverse(Datas(AllUnord)))
    ELSE OverAll(LayerSeq)

SeriesTimes(t, s) == {k[2] : k \in {kk \in Present(t) : kk[1] = s}}
MaxT(t, s) == IF SeriesTimes(t, s) = {} THEN -1 ELSE Max(SeriesTimes(t, s))
MinT(t, s) == IF SeriesTimes(t, s) = {} THEN -1 ELSE Min(SeriesTimes(t, s))

OrdAll == OverAll(Reverse(Datas(AllOrd)))
\* Sequencer: per series, the largest timestamp in any ordered file (-1 = none)
LastFlush(s) == MaxT(OrdAll, s)

-----------------------------------------------------------------------------
\* A written row: key, the non-empty set of fields it carries, and its value.
RowShape == [k : Key, fs : (SUBSET Fields) \ {{}}]

RowTable(r, v) == TLCEval([k \in Key |-> IF k = r.k THEN [f \in Fields |-> IF f \in r.fs THEN v ELSE 0] ELSE NoRow])

RECURSIVE ApplyRows(_, _, _)
ApplyRows(t, rows, v) ==
  IF rows = <<>> THEN t
  ELSE ApplyRows(Over(RowTable(Head(rows), v), t), Tail(rows), v + 1)

RowsJson(rows, v) == [i \in 1..Len(rows) |->
     [s |-> rows[i].k[1], m |-> MstOf(rows[i].k[1]), t |-> rows[i].k[2], fs |-> SetToSeq(rows[i].fs), v |-> v + i - 1]]

\* expected observation = full contents, as a sequence of rows
Obs(t) == LET ks == SetToSeq(Present(t))
          IN [i \in 1..Len(ks) |-> [s |-> ks[i][1], m |-> MstOf(ks[i][1]), t |-> ks[i][2],
                                    v |-> [f \in Fields |-> t[ks[i]][f]]]]

RECURSIVE SumLen(_, _)
SumLen(fm, ms) == IF ms = <<>> THEN 0 ELSE Len(fm[Head(ms)]) + SumLen(fm, Tail(ms))
Shape == [no |-> SumLen(ord, MstList), nu |-> SumLen(unord, MstList), mem |-> Cardinality(Present(active))]

Log(a, args) == hist' = Append(hist, [a |-> a, args |-> args, exp |-> Obs(lww'), shape |-> Shape'])

\* scripted generation (LayoutMC): the k-th action of a behaviour must be of the k-th kind of Sched
Sched == <<>>
Allowed(kind) == Sched = <<>> \/ (Len(hist) < Len(Sched) /\ Sched[Len(hist) + 1] = kind)

-----------------------------------------------------------------------------
Init == /\ active = Empty /\ ord = [m \in Msts |-> <<>>] /\ unord = [m \in Msts |-> <<>>]
        /\ nseq = 1 /\ nv = 1 /\ nw = 0 /\ lww = Empty /\ dsl = 0 /\ hist = <<>>

Write(rows) ==
  /\ nw < MaxWrites /\ dsl = 0
  /\ active' = ApplyRows(active, rows, nv)
  /\ lww'    = ApplyRows(lww, rows, nv)
  /\ nv' = nv + Len(rows)
  /\ nw' = nw + 1
  /\ UNCHANGED <<ord, unord, nseq, dsl>>
  /\ Log("Write", RowsJson(rows, nv))

RestrictT(t, keys) == TLCEval([k \in Key |-> IF k \in keys THEN t[k] ELSE NoRow])

\* rows of measurement m that go to the ordered file of a flush
OKeys(m) == LET hasOrd == ord[m] # <<>>
            IN IF "flush_split_ge" \in Dev
                 THEN {k \in KeysOf(active, m) : (~hasOrd) \/ k[2] >= LastFlush(k[1])}
                 ELSE {k \in KeysOf(active, m) : (~hasOrd) \/ k[2] > LastFlush(k[1])}
UKeys(m) == KeysOf(active, m) \ OKeys(m)

FlushEffect ==
  /\ ord'   = [m \in Msts |-> IF OKeys(m) # {}
                                THEN Append(ord[m], [seq |-> nseq, lvl |-> 0, data |-> RestrictT(active, OKeys(m))])
                                ELSE ord[m]]
  /\ unord' = [m \in Msts |-> IF UKeys(m) # {}
                                THEN Append(unord[m], [seq |-> nseq, data |-> RestrictT(active, UKeys(m))])
                                ELSE unord[m]]
  /\ active' = Empty
  /\ nseq' = nseq + 1

Room == \A m \in Msts : Len(ord[m]) < MaxFiles /\ Len(unord[m]) < MaxFiles

Flush ==
  /\ ~IsEmpty(active) /\ dsl = 0
  /\ Room
  /\ FlushEffect
  /\ UNCHANGED <<nv, nw, lww, dsl>>
  /\ Log("Flush", <<>>)

\* One compaction: the inputs (oldest first) become one file that carries the first input's sequence
\* number. Both methods must produce the field-wise merge of the inputs, the newer input winning.
Merged(run, meth) ==
  IF "compact_drops_newer" \in Dev THEN run[1].data
  ELSE IF "stream_drops_late_column" \in Dev /\ meth = "stream"
    \* a column that the first input does not carry at all is lost by the streaming method
    THEN LET all  == OverAll(Reverse(Datas(run)))
             cols == {f \in Fields : \E k \in Key : run[1].data[k][f] # 0}
         IN TLCEval([k \in Key |-> [f \in Fields |-> IF f \in cols THEN all[k][f] ELSE 0]])
    ELSE OverAll(Reverse(Datas(run)))

\* MmsTables.LevelCompact(level): mmsPlan scans the ordered files of a measurement left to right and
\* collects consecutive files of that level; as soon as Group of them are collected they form a group
\* (LeveLMinGroupFiles[level]; the harness sets it to Group); a file of another level ends the run. The
\* file list stays sorted by sequence number.
RECURSIVE Plan(_, _, _, _, _)
BySeq(fs) == SortSeq(fs, LAMBDA x, y : x.seq < y.seq)
Plan(fs, l, run, skipped, meth) ==
  IF Len(run) = Group
    THEN << [seq |-> run[1].seq, lvl |-> l + 1, data |-> Merged(run, meth)] >> \o skipped \o Plan(fs, l, <<>>, <<>>, meth)
  ELSE IF fs = <<>> THEN BySeq(run \o skipped)
  ELSE IF Head(fs).lvl = l
    THEN IF "group_skips_one" \in Dev /\ Len(run) = 1 /\ skipped = <<>>
           \* the second file of a run is passed over: the group is not made of adjacent files
           THEN Plan(Tail(fs), l, run, << Head(fs) >>, meth)
           ELSE Plan(Tail(fs), l, Append(run, Head(fs)), skipped, meth)
  ELSE BySeq(run \o skipped) \o << Head(fs) >> \o Plan(Tail(fs), l, <<>>, <<>>, meth)
PlanOf(m, l, meth) == Plan(ord[m], l, <<>>, <<>>, meth)

LevelCompact(l, meth) ==
  /\ dsl = 0
  /\ \E m \in Msts : PlanOf(m, l, meth) # ord[m]
  /\ ord' = [m \in Msts |-> PlanOf(m, l, meth)]
  /\ UNCHANGED <<active, unord, nseq, nv, nw, lww, dsl>>
  /\ Log("LevelCompact", <<l, meth, Group>>)

MaxLvl(fs) == Max({fs[i].lvl : i \in 1..Len(fs)})

FullCompact(meth) ==
  /\ dsl = 0
  /\ \E m \in Msts : Len(ord[m]) >= 2
  /\ ord' = [m \in Msts |-> IF Len(ord[m]) >= 2
                              THEN << [seq |-> ord[m][1].seq, lvl |-> MaxLvl(ord[m]) + 1, data |-> Merged(ord[m], meth)] >>
                              ELSE ord[m]]
  /\ UNCHANGED <<active, unord, nseq, nv, nw, lww, dsl>>
  /\ Log("FullCompact", <<meth>>)

\* all out-of-order files of a measurement are merged into the ordered files that cover their rows;
\* at equal timestamps the out-of-order value (written later) wins, field by field
UnordAllOf(m) == OverAll(Reverse(Datas(unord[m])))
Target(m, k) == CHOOSE i \in 1..Len(ord[m]) :
                  /\ MaxT(ord[m][i].data, k[1]) >= k[2]
                  /\ \A j \in 1..(i-1) : MaxT(ord[m][j].data, k[1]) < k[2]
MergeInto(m) ==
  LET u == UnordAllOf(m)
  IN [i \in 1..Len(ord[m]) |->
        LET part == RestrictT(u, {k \in Present(u) : Target(m, k) = i})
        IN [ord[m][i] EXCEPT !.data = IF "merge_ordered_wins" \in Dev THEN Over(@, part) ELSE Over(part, @)]]
Mergeable(m) == unord[m] # <<>> /\ ord[m] # <<>>
MergeOOO ==
  /\ dsl = 0
  /\ \E m \in Msts : Mergeable(m)
  /\ ord'   = [m \in Msts |-> IF Mergeable(m) THEN MergeInto(m) ELSE ord[m]]
  /\ unord' = [m \in Msts |-> IF Mergeable(m) THEN <<>> ELSE unord[m]]
  /\ UNCHANGED <<active, nseq, nv, nw, lww, dsl>>
  /\ Log("MergeOOO", <<>>)

-----------------------------------------------------------------------------
\* Down-sampling (shard.StartDownSample). Time is cut into windows [w, w + I) aligned at 0; for every
\* series and window the rows of ONE FILE are replaced by one row at time w whose field f carries the
\* aggregate calls[f] of the non-null values of f in the window (null if there is none). The stored column
\* is named <call>_<field>; the raw fields are gone. Values are unique write counters, so first / last /
\* min / max select one of them and count yields a small number.
Calls == {"first", "last", "min", "max", "count"}
WinStart(t, I) == (t \div I) * I
WinVals(d, s, w, I, f) == {<<t, d[<<s, t>>][f]>> : t \in {x \in Times : WinStart(x, I) = w /\ d[<<s, x>>][f] # 0}}
Agg(c, vals) ==
  IF vals = {} THEN 0
  ELSE LET ts == {p[1] : p \in vals}
           vs == {p[2] : p \in vals}
       IN CASE c = "first" -> (CHOOSE p \in vals : p[1] = Min(ts))[2]
            [] c = "last"  -> (CHOOSE p \in vals : p[1] = Max(ts))[2]
            [] c = "min"   -> Min(vs)
            [] c = "max"   -> Max(vs)
            [] c = "count" -> Cardinality(vals)
DSTable(d, I, calls) ==
  TLCEval([k \in Key |-> [f \in Fields |->
     IF WinStart(k[2], I) = k[2] THEN Agg(calls[f], WinVals(d, k[1], k[2], I, f)) ELSE 0]])
\* what the down-sample writes for one file (the design: its aggregate)
DSFile(d, I, calls) ==
  IF "ds_window_end_inclusive" \in Dev
    THEN TLCEval([k \in Key |-> [f \in Fields |->
           IF WinStart(k[2], I) = k[2]
             THEN Agg(calls[f], WinVals(d, k[1], k[2], I, f)
                                \cup {<<t, d[<<k[1], t>>][f]>> : t \in {x \in Times : x = k[2] + I /\ d[<<k[1], x>>][f] # 0}})
             ELSE 0]])
    ELSE DSTable(d, I, calls)

Windows(d, s, I) == {WinStart(t, I) : t \in SeriesTimes(d, s)}
\* the aggregation is done file by file: two files of a measurement that hold rows of the same series in
\* the same window would both produce a row for that window
NoSharedWindow(I) ==
  \A m \in Msts : \A i, j \in 1..Len(ord[m]) : \A s \in Series :
     i < j => Windows(ord[m][i].data, s, I) \cap Windows(ord[m][j].data, s, I) = {}

CallsJson(calls) == [f \in Fields |-> calls[f]]

DownSample(I, calls) ==
  /\ dsl = 0 /\ I \in DSIntervals /\ WinStart(Min(Times), I) \in Times
  /\ IsEmpty(active) /\ \A m \in Msts : unord[m] = <<>>
  /\ \E m \in Msts : ord[m] # <<>>
  /\ ("ds_shared_window" \in Dev \/ NoSharedWindow(I))
  /\ ord' = [m \in Msts |-> [i \in 1..Len(ord[m]) |->
                [ord[m][i] EXCEPT !.data = DSFile(@, I, calls), !.seq = nseq + i - 1]]]
  /\ nseq' = nseq + MaxFiles
  /\ lww' = DSTable(lww, I, calls)
  /\ dsl' = I
  /\ UNCHANGED <<active, unord, nv, nw>>
  /\ Log("DownSample", <<I, CallsJson(calls)>>)

\* clean restart: Close flushes the memtable, Open rebuilds the Sequencer from ordered files
Reopen ==
  /\ Room
  /\ IF IsEmpty(active) THEN UNCHANGED <<active, ord, unord, nseq>> ELSE FlushEffect
  /\ UNCHANGED <<nv, nw, lww, dsl>>
  /\ Log("Reopen", <<>>)

\* scripted generation only: a scheduled kind that the state does not enable is passed over (a "Skip" entry of
\* the history: the replay does nothing and compares the reads once more)
CanDo(kind) ==
  CASE kind = "W" -> nw < MaxWrites /\ dsl = 0
    [] kind = "F" -> ~IsEmpty(active) /\ dsl = 0 /\ Room
    [] kind = "L" -> dsl = 0 /\ \E l \in 0..MaxFiles : \E m \in Msts : PlanOf(m, l, "any") # ord[m]
    [] kind = "C" -> dsl = 0 /\ \E m \in Msts : Len(ord[m]) >= 2
    [] kind = "M" -> dsl = 0 /\ \E m \in Msts : Mergeable(m)
    [] kind = "D" -> /\ dsl = 0 /\ IsEmpty(active) /\ \A m \in Msts : unord[m] = <<>>
                     /\ \E m \in Msts : ord[m] # <<>>
                     /\ \E I \in DSIntervals : WinStart(Min(Times), I) \in Times /\ NoSharedWindow(I)
    [] kind = "R" -> Room
    [] OTHER -> FALSE
Skip ==
  /\ Sched # <<>> /\ Len(hist) < Len(Sched) /\ ~CanDo(Sched[Len(hist) + 1])
  /\ UNCHANGED <<active, ord, unord, nseq, nv, nw, lww, dsl>>
  /\ Log("Skip", <<>>)

Batches == UNION {[1..n -> RowShape] : n \in 1..MaxBatch}
\* the batches offered to Write in one step; simulation configs override this with a random sample
BatchChoices == Batches
\* the call assignments offered to DownSample in one step; simulation configs override this
CallChoices == [Fields -> Calls]

Next ==
  /\ Len(hist) < Depth
  /\ \/ Allowed("W") /\ \E b \in BatchChoices : Write(b)
     \/ Allowed("F") /\ Flush
     \/ Allowed("L") /\ \E l \in 0..MaxFiles : \E meth \in Methods : LevelCompact(l, meth)
     \/ Allowed("C") /\ \E meth \in Methods : FullCompact(meth)
     \/ Allowed("M") /\ MergeOOO
     \/ Allowed("D") /\ \E I \in DSIntervals : \E c \in CallChoices : DownSample(I, c)
     \/ Allowed("R") /\ Reopen
     \/ Skip

Spec == Init /\ [][Next]_vars

-----------------------------------------------------------------------------
TypeOK == /\ active \in Table /\ lww \in Table
          /\ \A m \in Msts : \A i \in 1..Len(ord[m]) : ord[m][i].data \in Table
          /\ \A m \in Msts : \A i \in 1..Len(unord[m]) : unord[m][i].data \in Table
          /\ \A m \in Msts : \A i \in 1..Len(ord[m]) : \A k \in Present(ord[m][i].data) : MstOf(k[1]) = m

\* C02: reads equal the last-write-wins replay, in any layout (C03: ... and its aggregate after a down-sample)
ReadEqLWW == Contents = lww

\* per series the ordered files' time ranges strictly increase with position
OrderedDisjoint ==
  \A m \in Msts : \A i, j \in 1..Len(ord[m]) : \A s \in Series :
     (i < j /\ SeriesTimes(ord[m][i].data, s) # {} /\ SeriesTimes(ord[m][j].data, s) # {})
        => MaxT(ord[m][i].data, s) < MinT(ord[m][j].data, s)

\* an out-of-order row never lies beyond the ordered data of its series
UnordBehind ==
  \A m \in Msts : \A i \in 1..Len(unord[m]) : \A k \in Present(unord[m][i].data) : k[2] <= LastFlush(k[1])

NoEmptyFile == /\ \A m \in Msts : \A i \in 1..Len(ord[m]) : ~IsEmpty(ord[m][i].data)
               /\ \A m \in Msts : \A i \in 1..Len(unord[m]) : ~IsEmpty(unord[m][i].data)
=============================================================================
