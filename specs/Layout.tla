------------------------------- MODULE Layout -------------------------------
(***************************************************************************)
(* One shard of the time-series store, seen as a stack of layers:          *)
(*   active memtable  >  out-of-order files (newest first)  >  ordered     *)
(*   files.                                                                *)
(* Actions are the engine's reorganisation entry points:                   *)
(*   Write        = shard.WriteRows        (engine/shard.go)               *)
(*   Flush        = shard.ForceFlush -> tsMemTableImpl.FlushChunks         *)
(*                  (engine/mutable/ts_table.go: SplitRecordByTime by the  *)
(*                  Sequencer's per-series last flush time, only when an   *)
(*                  ordered file already exists)                           *)
(*   LevelCompact = MmsTables.LevelCompact (adjacent ordered files)        *)
(*   FullCompact  = MmsTables.FullCompact                                  *)
(*   MergeOOO     = MmsTables.MergeOutOfOrder                              *)
(*   Reopen       = Close (flushes) + Open                                 *)
(* Property C02: what a query reads (Contents) equals the last-write-wins  *)
(* replay of acknowledged writes (lww), in every reachable layout.         *)
(***************************************************************************)
EXTENDS Integers, Sequences, FiniteSets, TLC, SequencesExt, FiniteSetsExt

CONSTANTS Series,      \* set of series names (strings)
          Times,       \* set of timestamps (naturals)
          Fields,      \* set of field names (strings)
          MaxBatch,    \* rows per write batch
          Depth,       \* number of actions per behaviour
          MaxWrites,   \* bound on Write actions
          MaxFiles,    \* bound on files per kind (keeps the space finite)
          Dev          \* deviations (mutation seeds for self-tests); {} = the design

VARIABLES active,  \* Table: rows of the active memtable
          ord,     \* sequence of ordered files  [seq, lvl, data]
          unord,   \* sequence of out-of-order files [seq, data]
          nseq,    \* next file sequence number
          nv,      \* next value to be written (every written cell gets a unique value)
          nw,      \* number of writes so far
          lww,     \* oracle: last-write-wins replay of acknowledged writes
          hist     \* history of actions with expected observation (export only)

vars == <<active, ord, unord, nseq, nv, nw, lww, hist>>
view == <<active, ord, unord, nseq, nv, nw, lww>>

Key   == Series \X Times
NoRow == [f \in Fields |-> 0]                 \* 0 = null
Table == [Key -> [Fields -> Nat]]
Empty == [k \in Key |-> NoRow]

IsEmpty(t) == \A k \in Key : t[k] = NoRow
Present(t) == {k \in Key : t[k] # NoRow}

\* field-wise replace: the newer layer wins for every field it carries
\* (TLCEval forces TLC to evaluate the function eagerly; without it nested merges are re-evaluated
\* on every access and simulation slows down by orders of magnitude)
Over(new, old) == TLCEval([k \in Key |-> [f \in Fields |-> IF new[k][f] # 0 THEN new[k][f] ELSE old[k][f]]])

RECURSIVE OverAll(_)
\* precedence merge of a sequence of tables, highest precedence first
OverAll(ts) == IF ts = <<>> THEN Empty ELSE Over(Head(ts), OverAll(Tail(ts)))

Datas(files) == [i \in 1..Len(files) |-> files[i].data]

\* What a query sees: active > unordered (newest first) > ordered (newest first).
LayerSeq == <<active>> \o Reverse(Datas(unord)) \o Reverse(Datas(ord))
Contents ==
  IF "ordered_over_unordered" \in Dev
    THEN OverAll(<<active>> \o Reverse(Datas(ord)) \o Reverse(Datas(unord)))
    ELSE OverAll(LayerSeq)

SeriesTimes(t, s) == {k[2] : k \in {kk \in Present(t) : kk[1] = s}}
MaxT(t, s) == IF SeriesTimes(t, s) = {} THEN -1 ELSE Max(SeriesTimes(t, s))
MinT(t, s) == IF SeriesTimes(t, s) = {} THEN -1 ELSE Min(SeriesTimes(t, s))

OrdAll == OverAll(Reverse(Datas(ord)))
\* Sequencer: per series, the largest timestamp in any ordered file (-1 = none)
LastFlush(s) == MaxT(OrdAll, s)

-----------------------------------------------------------------------------
\* A written row: key, the non-empty set of fields it carries, and its value.
RowShape == [k : Key, fs : (SUBSET Fields) \ {{}}]

RowTable(r, v) == TLCEval([k \in Key |-> IF k = r.k THEN [f \in Fields |-> IF f \in r.fs THEN v ELSE 0] ELSE NoRow])

RECURSIVE ApplyRows(_, _, _)
ApplyRows(t, rows, v) ==
  IF rows = <<>> THEN t
  ELSE ApplyRows(Over(RowTable(Head(rows), v), t), Tail(rows), v + 1)

RowsJson(rows, v) == [i \in 1..Len(rows) |->
     [s |-> rows[i].k[1], t |-> rows[i].k[2], fs |-> SetToSeq(rows[i].fs), v |-> v + i - 1]]

\* expected observation = full contents, as a sequence of rows
Obs(t) == LET ks == SetToSeq(Present(t))
          IN [i \in 1..Len(ks) |-> [s |-> ks[i][1], t |-> ks[i][2],
                                    v |-> [f \in Fields |-> t[ks[i]][f]]]]

Shape == [no |-> Len(ord), nu |-> Len(unord), mem |-> Cardinality(Present(active))]

Log(a, args) == hist' = Append(hist, [a |-> a, args |-> args, exp |-> Obs(lww'), shape |-> Shape'])

-----------------------------------------------------------------------------
Init == /\ active = Empty /\ ord = <<>> /\ unord = <<>> /\ nseq = 1 /\ nv = 1 /\ nw = 0
        /\ lww = Empty /\ hist = <<>>

Write(rows) ==
  /\ nw < MaxWrites
  /\ active' = ApplyRows(active, rows, nv)
  /\ lww'    = ApplyRows(lww, rows, nv)
  /\ nv' = nv + Len(rows)
  /\ nw' = nw + 1
  /\ UNCHANGED <<ord, unord, nseq>>
  /\ Log("Write", RowsJson(rows, nv))

RestrictT(t, keys) == TLCEval([k \in Key |-> IF k \in keys THEN t[k] ELSE NoRow])

FlushEffect ==
  LET hasOrd  == ord # <<>>
      okeys   == {k \in Present(active) : (~hasOrd) \/ k[2] > LastFlush(k[1])}
      ukeys   == Present(active) \ okeys
      okeys2  == IF "flush_split_ge" \in Dev
                   THEN {k \in Present(active) : (~hasOrd) \/ k[2] >= LastFlush(k[1])}
                   ELSE okeys
      ofile   == [seq |-> nseq, lvl |-> 0, data |-> RestrictT(active, okeys2)]
      ufile   == [seq |-> nseq, data |-> RestrictT(active, Present(active) \ okeys2)]
  IN /\ ord'   = IF okeys2 # {} THEN Append(ord, ofile) ELSE ord
     /\ unord' = IF Present(active) \ okeys2 # {} THEN Append(unord, ufile) ELSE unord
     /\ active' = Empty
     /\ nseq' = nseq + 1

Flush ==
  /\ ~IsEmpty(active)
  /\ Len(ord) < MaxFiles /\ Len(unord) < MaxFiles
  /\ FlushEffect
  /\ UNCHANGED <<nv, nw, lww>>
  /\ Log("Flush", <<>>)

\* MmsTables.LevelCompact(level): mmsPlan scans the ordered files left to right and groups
\* consecutive files of that level (LeveLMinGroupFiles[level] of them; the harness sets it to 2);
\* each group becomes one file of the next level carrying the first file's sequence number.
RECURSIVE PairUp(_, _)
PairUp(fs, l) ==
  IF Len(fs) < 2 THEN fs
  ELSE IF fs[1].lvl = l /\ fs[2].lvl = l
       THEN << [seq |-> fs[1].seq, lvl |-> l + 1,
                data |-> IF "compact_drops_newer" \in Dev THEN fs[1].data
                         ELSE Over(fs[2].data, fs[1].data)] >> \o PairUp(SubSeq(fs, 3, Len(fs)), l)
       ELSE << fs[1] >> \o PairUp(Tail(fs), l)

LevelCompact(l) ==
  /\ PairUp(ord, l) # ord
  /\ ord' = PairUp(ord, l)
  /\ UNCHANGED <<active, unord, nseq, nv, nw, lww>>
  /\ Log("LevelCompact", <<l>>)

FullCompact ==
  /\ Len(ord) >= 2
  /\ ord' = << [seq |-> ord[1].seq, lvl |-> ord[Len(ord)].lvl + 1, data |-> OrdAll] >>
  /\ UNCHANGED <<active, unord, nseq, nv, nw, lww>>
  /\ Log("FullCompact", <<>>)

\* all out-of-order files are merged into the ordered files that cover their rows
UnordAll == OverAll(Reverse(Datas(unord)))
Target(k) == CHOOSE i \in 1..Len(ord) :
                /\ MaxT(ord[i].data, k[1]) >= k[2]
                /\ \A j \in 1..(i-1) : MaxT(ord[j].data, k[1]) < k[2]
MergeOOO ==
  /\ unord # <<>> /\ ord # <<>>
  /\ ord' = [i \in 1..Len(ord) |->
               [ord[i] EXCEPT !.data =
                   Over(RestrictT(UnordAll, {k \in Present(UnordAll) : Target(k) = i}), @)]]
  /\ unord' = <<>>
  /\ UNCHANGED <<active, nseq, nv, nw, lww>>
  /\ Log("MergeOOO", <<>>)

\* clean restart: Close flushes the memtable, Open rebuilds the Sequencer from ordered files
Reopen ==
  /\ Len(ord) < MaxFiles /\ Len(unord) < MaxFiles
  /\ IF IsEmpty(active) THEN UNCHANGED <<active, ord, unord, nseq>> ELSE FlushEffect
  /\ UNCHANGED <<nv, nw, lww>>
  /\ Log("Reopen", <<>>)

Batches == UNION {[1..n -> RowShape] : n \in 1..MaxBatch}
\* the batches offered to Write in one step; simulation configs override this with a random sample
BatchChoices == Batches

Next ==
  /\ Len(hist) < Depth
  /\ \/ \E b \in BatchChoices : Write(b)
     \/ Flush
     \/ \E l \in 0..MaxFiles : LevelCompact(l)
     \/ FullCompact
     \/ MergeOOO
     \/ Reopen

Spec == Init /\ [][Next]_vars

-----------------------------------------------------------------------------
TypeOK == /\ active \in Table /\ lww \in Table
          /\ \A i \in 1..Len(ord) : ord[i].data \in Table
          /\ \A i \in 1..Len(unord) : unord[i].data \in Table

\* C02: reads equal the last-write-wins replay, in any layout
ReadEqLWW == Contents = lww

\* per series the ordered files' time ranges strictly increase with position
OrderedDisjoint ==
  \A i, j \in 1..Len(ord) : \A s \in Series :
     (i < j /\ SeriesTimes(ord[i].data, s) # {} /\ SeriesTimes(ord[j].data, s) # {})
        => MaxT(ord[i].data, s) < MinT(ord[j].data, s)

\* an out-of-order row never lies beyond the ordered data of its series
UnordBehind ==
  \A i \in 1..Len(unord) : \A k \in Present(unord[i].data) : k[2] <= LastFlush(k[1])

NoEmptyFile == /\ \A i \in 1..Len(ord) : ~IsEmpty(ord[i].data)
               /\ \A i \in 1..Len(unord) : ~IsEmpty(unord[i].data)
=============================================================================
