------------------------------- MODULE WalMC -------------------------------
EXTENDS Wal, Json
\* client-level histories (Write / Flush / Restart) for replay into the real engine
ExportLen == 6
Export == (Len(hist) \in {ExportLen, ExportLen + 1}) => PrintT(<<"TRACE", ToJson(hist)>>)
=============================================================================
