------------------------------- MODULE WalMC -------------------------------
EXTENDS Wal, Json
\* client-level histories (Write / Flush / Restart) for replay into the real engine
ExportLen == 6
Export == (Len(hist) = ExportLen) => PrintT(<<"TRACE", ToJson(hist)>>)
=============================================================================
