---------------------------- MODULE RetentionMC ----------------------------
EXTENDS Retention, Json, SequencesExt
\* Export of behaviours for replay into the real retention service / engine / catalogue (Mode B): one JSON
\* line per behaviour that reached the depth bound.
Export == (Len(hist) = Depth) => PrintT(<<"TRACE", ToJson(hist)>>)
\* export runs stop at the depth bound (state constraint of the export cfgs only; never used with liveness)
DepthBound == Len(hist) <= Depth

\* what services/retention/service.go is believed to do (the two known deviations from the design)
AsImplemented == {"decision_not_revalidated", "prune_after_failed_delete"}


\* ---- black-box layer: the environment acts only when the service has nothing left to do (over HTTP the
\* service's steps cannot be interleaved at will; with a 1 s check interval it runs to completion between
\* any two requests), so every behaviour alternates one environment action and the iterations it causes
WouldExpire == {s \in Sids : \/ (Loaded(eng[s]) /\ ExpiredBy(IF InCat(s) THEN pol ELSE cd[s], Slot(s), now))
                              \/ (InCat(s) /\ ~Loaded(eng[s]) /\ ExpiredBy(pol, Slot(s), now))}
Quiescent == pc = "idle" /\ WouldExpire = {}
BBNext == (IF Quiescent THEN Env ELSE LoopProgress) /\ GhostNext
BBSpec == Init /\ [][BBNext]_vars
\* exported when the environment has used up its actions and the service is idle again
BBDone == Quiescent /\ nw = MaxWrites /\ na = MaxAlters /\ nr = MaxRestarts
BBExport == (Len(hist) = Depth \/ BBDone) => PrintT(<<"TRACE", ToJson(hist)>>)
=============================================================================
