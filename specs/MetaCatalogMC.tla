---------------------------- MODULE MetaCatalogMC ----------------------------
EXTENDS MetaCatalog, Json
\* Export of behaviours for replay into the real catalogue code (Mode B): one JSON line per behaviour
\* that reached the depth bound.
\* constants with negative numbers cannot be written in a cfg file
MinTc == -191          \* models.MinNanoTime: inside the hour [-192, -188)
MaxTc == 189           \* models.MaxNanoTime: inside the hour [188, 192)
TimesExh == {-1, 0, 5, 8}
TimesExh2 == {-1, 0, 4, 9, 189}
TimesBfs == {0, 5}
\* on / around hour and two-hour boundaries, inside windows, far past and far future
TimesSim == {-9, -8, -5, -4, -1, 0, 1, 3, 4, 5, 7, 8, 9, 11, 12, 13, 16, 23, 24, 187, 188, 189, -191}
RpDursU == {0, 2, 4, 16}

Export == (Len(hist) = Depth) => PrintT(<<"TRACE", ToJson(hist)>>)

\* simulation: a few random commands per step instead of all of them. Four times out of five a command
\* type is drawn among the types that currently have a command that succeeds and changes the catalogue
\* (so that rare types are exercised as often as types with many argument tuples) and then such a command
\* of that type; otherwise any command of any type (mostly invalid arguments).
\* (parameterised by the state so that TLC does not cache the choices as constants)
Effective(c, S) == {x \in S : \E r \in {Ap(c, x, Dev)} : r.r = "ok" /\ r.c # c}
SimPick(c, E, j) ==
  IF E # {} /\ RandomElement(1..5) > 1
  THEN LET op == RandomElement({x.op : x \in E}) IN RandomElement({x \in E : x.op = op})
  ELSE RandomElement(CmdsOf(RandomElement(Ops \ {"Snapshot", "UpdateReplication"}), c))
SimCmds == UNION {{SimPick(cat, E, j) : j \in 1..3} : E \in {Effective(cat, AllCmds(cat))}}
SimSnapGate == RandomElement(1..6) = 1 /\ (cat.maxMst > 0 \/ RandomElement(1..4) = 1)
=============================================================================
