---------------------------- MODULE MetaCatalogMC ----------------------------
EXTENDS MetaCatalog, Json, Randomization
\* Export of behaviours for replay into the real catalogue code (Mode B): one JSON line per behaviour
\* that reached the depth bound.
\* constants with negative numbers cannot be written in a cfg file
MinTc == -191          \* models.MinNanoTime: inside the hour [-192, -188)
WrapTc == 999          \* stands for the wrapped-around instant
MaxTc == 189           \* models.MaxNanoTime: inside the hour [188, 192)
TimesExh == {-1, 0, 5, 8}
TimesExh2 == {-1, 0, 4, 9, 189}
TimesBfs == {0, 5}
\* on / around hour and two-hour boundaries, inside windows, far past and far future
TimesSim == {-9, -8, -5, -4, -1, 0, 1, 3, 4, 5, 7, 8, 9, 11, 12, 13, 16, 23, 24, 187, 188, 189, -191}
RpDursU == {0, 2, 4, 16}

Export == (Len(hist) = Depth) => PrintT(<<"TRACE", ToJson(hist)>>)

\* simulation: a few random commands per step instead of all of them. Four times out of five a command
\* type is drawn among the types that currently have a command that succeeds and changes the catalogue
\* (so that rare types are exercised as often as types with many argument tuples) and then such a command
\* of that type; otherwise any command of any type (mostly invalid arguments).
\* (parameterised by the state so that TLC does not cache the choices as constants)
\* (an unmodelled command counts once a database exists: most of them work on one)
Effective(c, S) == {x \in S : (x.op = "Opaque" /\ \E d \in DBs : c.dbs[d].ex) \/
                               (x.op # "Opaque" /\ \E r \in {Ap(c, x, Dev)} : r.r = "ok" /\ r.c # c)}
\* ... or is refused because of the sharding type (the rule that keeps a policy uniform), or is refused or
\* accepted differently by the as-implemented lineage
Refused(c, S) == {x \in S : Ap(c, x, Dev).r \in {"shard_type_conflict", "conflict_with_rep"} \/
                              (Track /\ Ap(catI, x, IDev).r # Ap(c, x, Dev).r)}
\* the as-implemented lineage panics on this command (the real process would stop): offered rarely
Panicky(x) == Track /\ Ap(catI, x, IDev).r = "panic"
OpBag == <<"CreateShardGroup", "CreateShardGroup", "CreateShardGroup", "CreateShardGroup", "CreateShardGroup", "CreateShardGroup",
           "CreateMeasurement", "CreateMeasurement", "CreateMeasurement", "UpdateRetentionPolicy", "UpdateRetentionPolicy",
           "UpdateRetentionPolicy", "DeleteShardGroup", "DeleteShardGroup", "DeleteShardGroup", "PruneGroups", "PruneGroups",
           "PruneGroups", "CreateRetentionPolicy", "CreateRetentionPolicy", "CreateDatabase", "CreateDatabase", "CreateDbPtView",
           "CreateDbPtView", "CreateDataNode", "CreateSqlNode", "UpdateReplication", "MarkDatabaseDelete", "DropDatabase",
           "MarkRetentionPolicyDelete", "DropRetentionPolicy", "SetDefaultRetentionPolicy", "MarkMeasurementDelete",
           "MarkMeasurementDelete", "DropMeasurement", "CreateUser", "DropUser", "SetPrivilege", "SetPrivilege",
           "Opaque", "Opaque", "Opaque">>
SimPick(c, E, j) ==
  IF E # {} /\ RandomElement(1..7) > 1
  THEN LET W  == SelectSeq(OpBag, LAMBDA o : \E x \in E : x.op = o)
           op == IF W = <<>> THEN RandomElement({x.op : x \in E}) ELSE W[RandomElement(1..Len(W))]
       IN RandomElement({x \in E : x.op = op})
  ELSE RandomElement(CmdsOf(RandomElement(Ops \ {"Snapshot", "UpdateReplication"}), c))
\* (the effective commands are looked for in a random sample of at most 10 commands per type)
SimSample(c) == UNION {LET S == CmdsOf(op, c) IN IF Cardinality(S) <= 10 THEN S ELSE RandomSubset(10, S) :
                         op \in Ops \ {"Snapshot"}}
SimCmds == UNION {{y \in {SimPick(cat, E, j) : j \in 1..3} : ~Panicky(y) \/ RandomElement(1..8) = 1} :
                  E \in {LET S == SimSample(cat) IN Effective(cat, S) \cup Refused(cat, S)}}
\* BFS export: every path of effective commands (plus one failing command per type) of a tiny universe,
\* following the set-up prefix, so that paths reach shard groups within the depth bound
BfsCmds == {x \in Effective(cat, AllCmds(cat)) :
               /\ ~(x.op = "CreateDataNode" /\ cat.nodes # <<>>)               \* no bare connection-id bumps
               /\ ~(x.op = "UpdateRetentionPolicy" /\ (x.l[1] = 1 \/ x.b # -1)) \* shard-group duration changes only
               /\ ~(x.op = "CreateDatabase" /\ x.rp = "")}
SimSnapGate == RandomElement(1..6) = 1 /\ (cat.maxMst > 0 \/ RandomElement(1..4) = 1)

\* ---- systematic snapshot families: every path of measurement life-cycle commands (create / mark
\* deleted / drop / re-create, shard groups) with Snapshot / Persist / Restore at EVERY position, after a
\* set-up prefix that is part of the exported history
SkOne == {0}
TimesLife == {0}
TimesLife2 == {0, 5}
PrefixLife1 == <<Cmd("CreateDataNode", "", "", "h1", 0, 0, <<>>),
                 Cmd("CreateDbPtView", "d1", "", "", 1, 0, <<>>),
                 Cmd("CreateDatabase", "d1", "r1", "", 4, 0, <<1>>)>>
PrefixLife2 == <<Cmd("CreateDataNode", "", "", "h1", 0, 0, <<>>),
                 Cmd("CreateDataNode", "", "", "h2", 0, 0, <<>>),
                 Cmd("CreateDbPtView", "d1", "", "", 1, 0, <<>>),
                 Cmd("CreateDatabase", "d1", "r1", "", 4, 0, <<1>>)>>
\* effective commands, and the creations the sharding-type rule refuses
\* (the policy is always named: the default-policy spelling "" doubles every path and is exercised by the
\* other generators)
LifeCmds == LET S == {x \in AllCmds(cat) : x.rp # ""} IN Effective(cat, S) \cup Refused(cat, S)
=============================================================================
