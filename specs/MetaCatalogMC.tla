---------------------------- MODULE MetaCatalogMC ----------------------------
EXTENDS MetaCatalog, Json
\* Export of behaviours for replay into the real catalogue code (Mode B): one JSON line per behaviour
\* that reached the depth bound.
\* constants with negative numbers cannot be written in a cfg file
MinTc == -191          \* models.MinNanoTime: inside the hour [-192, -188)
MaxTc == 189           \* models.MaxNanoTime: inside the hour [188, 192)
TimesExh == {-1, 0, 5, 8}
TimesExh2 == {-1, 0, 4, 9, 189}
TimesBfs == {0, 5}
\* on / around hour and two-hour boundaries, inside windows, far past and far future
TimesSim == {-9, -8, -5, -4, -1, 0, 1, 3, 4, 5, 7, 8, 9, 11, 12, 13, 16, 23, 24, 187, 188, 189, -191}
RpDursU == {0, 2, 4, 16}

Export == (Len(hist) = Depth) => PrintT(<<"TRACE", ToJson(hist)>>)

\* simulation: a few random commands per step instead of all of them. A command type is drawn first (so
\* that rare types are exercised as often as types with many argument tuples); three times out of four
\* the command is drawn among those of that type that succeed and change the catalogue, if any.
\* (parameterised by the state so that TLC does not cache the choice as a constant)
Effective(c, S) == {x \in S : \E r \in {Ap(c, x, Dev)} : r.r = "ok" /\ r.c # c}
SimPick(c, j) ==
  LET S == CmdsOf(RandomElement(Ops \ {"Snapshot"}), c)
      G == IF RandomElement(1..4) > 1 THEN Effective(c, S) ELSE {}
  IN IF S = {} THEN {} ELSE {RandomElement(IF G = {} THEN S ELSE G)}
SimCmds == UNION {SimPick(cat, j) : j \in 1..3}
=============================================================================
