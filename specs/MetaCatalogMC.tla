---------------------------- MODULE MetaCatalogMC ----------------------------
EXTENDS MetaCatalog, Json, Randomization
\* Export of behaviours for replay into the real catalogue code (Mode B): one JSON line per behaviour
\* that reached the depth bound.
\* constants with negative numbers cannot be written in a cfg file
MinTc == -191          \* models.MinNanoTime: inside the hour [-192, -188)
WrapTc == 999          \* stands for the wrapped-around instant
MaxTc == 189           \* models.MaxNanoTime: inside the hour [188, 192)
TimesExh == {-1, 0, 5, 8}
TimesExh2 == {-1, 0, 4, 9, 189}
TimesBfs == {0, 5}
\* on / around hour and two-hour boundaries, inside windows, far past and far future
TimesSim == {-9, -8, -5, -4, -1, 0, 1, 3, 4, 5, 7, 8, 9, 11, 12, 13, 16, 23, 24, 187, 188, 189, -191}
RpDursU == {0, 2, 4, 16}

Export == (Len(hist) = Depth) => PrintT(<<"TRACE", ToJson(hist)>>)

\* simulation: a few random commands per step instead of all of them. Four times out of five a command
\* type is drawn among the types that currently have a command that succeeds and changes the catalogue
\* (so that rare types are exercised as often as types with many argument tuples) and then such a command
\* of that type; otherwise any command of any type (mostly invalid arguments).
\* (parameterised by the state so that TLC does not cache the choices as constants)
Effective(c, S) == {x \in S : \E r \in {Ap(c, x, Dev)} : r.r = "ok" /\ r.c # c}
\* the as-implemented lineage panics on this command (the real process would stop): offered rarely
Panicky(x) == Track /\ Ap(catI, x, IDev).r = "panic"
OpBag == <<"CreateShardGroup", "CreateShardGroup", "CreateShardGroup", "CreateShardGroup", "CreateShardGroup", "CreateShardGroup",
           "CreateMeasurement", "CreateMeasurement", "CreateMeasurement", "UpdateRetentionPolicy", "UpdateRetentionPolicy",
           "UpdateRetentionPolicy", "DeleteShardGroup", "DeleteShardGroup", "DeleteShardGroup", "PruneGroups", "PruneGroups",
           "PruneGroups", "CreateRetentionPolicy", "CreateRetentionPolicy", "CreateDatabase", "CreateDatabase", "CreateDbPtView",
           "CreateDbPtView", "CreateDataNode", "CreateSqlNode", "UpdateReplication", "MarkDatabaseDelete", "DropDatabase",
           "MarkRetentionPolicyDelete", "DropRetentionPolicy", "SetDefaultRetentionPolicy", "MarkMeasurementDelete",
           "MarkMeasurementDelete", "DropMeasurement", "CreateUser", "DropUser", "SetPrivilege", "SetPrivilege">>
SimPick(c, E, j) ==
  IF E # {} /\ RandomElement(1..6) > 1
  THEN LET W  == SelectSeq(OpBag, LAMBDA o : \E x \in E : x.op = o)
           op == IF W = <<>> THEN RandomElement({x.op : x \in E}) ELSE W[RandomElement(1..Len(W))]
       IN RandomElement({x \in E : x.op = op})
  ELSE RandomElement(CmdsOf(RandomElement(Ops \ {"Snapshot", "UpdateReplication"}), c))
\* (the effective commands are looked for in a random sample of at most 10 commands per type)
SimSample(c) == UNION {LET S == CmdsOf(op, c) IN IF Cardinality(S) <= 10 THEN S ELSE RandomSubset(10, S) :
                         op \in Ops \ {"Snapshot"}}
SimCmds == UNION {{y \in {SimPick(cat, E, j) : j \in 1..3} : ~Panicky(y) \/ RandomElement(1..8) = 1} :
                  E \in {Effective(cat, SimSample(cat))}}
\* BFS export: every path of effective commands (plus one failing command per type) of a tiny universe,
\* following the set-up prefix, so that paths reach shard groups within the depth bound
BfsCmds == {x \in Effective(cat, AllCmds(cat)) :
               /\ ~(x.op = "CreateDataNode" /\ cat.nodes # <<>>)               \* no bare connection-id bumps
               /\ ~(x.op = "UpdateRetentionPolicy" /\ (x.l[1] = 1 \/ x.b # -1)) \* shard-group duration changes only
               /\ ~(x.op = "CreateDatabase" /\ x.rp = "")}
SimSnapGate == RandomElement(1..6) = 1 /\ (cat.maxMst > 0 \/ RandomElement(1..4) = 1)
=============================================================================
