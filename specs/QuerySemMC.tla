----------------------------- MODULE QuerySemMC -----------------------------
EXTENDS QuerySem, Json
(***************************************************************************)
(* Generators for the three modes of QuerySem:                             *)
(*   laws   (exhaustive): every data set of a tiny universe x every query  *)
(*          of LawQueries, invariant Laws                                  *)
(*   bfs    (export): fixed data sets x every query of BfsQueries          *)
(*   shape  (export): fixed data sets with deliberate shapes x the query   *)
(*          families that need them: complementary nulls (every window has *)
(*          a value of some field while another field is null there) x     *)
(*          multi-field GROUP BY time() [, tag] x all fill modes x window  *)
(*          aligned ranges (FillQueries); tied newest / oldest points and  *)
(*          tied extreme values across the series of a group x selectors   *)
(*          (TieQueries)                                                   *)
(*   sim    (export): random data sets and random queries of the grammar   *)
(* Export prints one JSON line per behaviour that reached Depth.           *)
(***************************************************************************)

Export == (Len(hist) = Depth) => PrintT(<<"TRACE", ToJson(hist)>>)

TagConds == {NoTag,
             [k |-> "eq", key |-> "t1", val |-> "a", vals |-> {}],
             [k |-> "ne", key |-> "t1", val |-> "a", vals |-> {}],
             [k |-> "eq", key |-> "t2", val |-> "x", vals |-> {}],
             [k |-> "ne", key |-> "t1", val |-> "b", vals |-> {}],
             [k |-> "re", key |-> "t1", val |-> "", vals |-> {"a", "c"}],
             [k |-> "eq", key |-> "t1", val |-> "zz", vals |-> {}]}
DimChoices == {<<>>, <<"t1">>, <<"t2">>, <<"t1", "t2">>}

-----------------------------------------------------------------------------
(* laws: tiny universe, one int field *)
\* fa = the chosen value, fb (if present) = 1 where fa = 1, absent elsewhere: rows with a null cell
NegTimes == {-3, -2, 0}
CVals3 == {NULL, 1, 2}
SimVals == {-1, 0, 1, 2, 3}
LawKinds == [f \in FieldSet |-> "int"]
LawVal(f, x) == IF f = "fa" THEN x ELSE IF x = 1 THEN 1 ELSE NULL
LawData(x) ==
  {[kinds |-> LawKinds, rows |-> {[s |-> p[1], t |-> p[2], v |-> [f \in FieldSet |-> LawVal(f, m[p])]] : p \in {pp \in DOMAIN m : m[pp] # NULL}}] :
     m \in [(1..NS) \X Times -> Vals \cup {NULL}]}

LawFld == {NoFld, [k |-> "gt", f |-> "fa", c |-> 0], [k |-> "ne", f |-> "fa", c |-> 1]}
LawTag == {NoTag, [k |-> "ne", key |-> "t1", val |-> "a", vals |-> {}]}
LawTagQuick == {NoTag}
THiQuick == {NONE}
LawFldQuick == {NoFld, [k |-> "gt", f |-> "fa", c |-> 0]}
TLoQuick == {Min(Times) + 1}
TLo == {NONE, Min(Times) + 1}
THi == {NONE, Max(Times)}
LawDims == {<<>>, <<"t1">>}
LawQueries(D, x) ==
  {MkRaw(<<"fa">>, d, lo, hi, tc, fc, "and", lim, off) :
       d \in {<<>>, <<"t1">>}, lo \in TLo, hi \in THi, tc \in LawTag, fc \in LawFld,
       lim \in {NONE, 1, 2}, off \in {NONE, 1}}
  \cup
  {MkAgg(<<[fn |-> fn, f |-> f]>>, d, lo, hi, tc, fc, "and", NONE, "null", 0) :
       fn \in {"count", "sum", "mean", "min", "max", "first", "last"}, f \in FieldSet, d \in LawDims,
       lo \in TLo, hi \in THi, tc \in LawTag, fc \in LawFld}
  \cup
  {MkAgg(<<[fn |-> fn, f |-> "fa"], [fn |-> "count", f |-> CHOOSE f \in FieldSet : \A g \in FieldSet : g = "fa" \/ f = g]>>, d, Min(Times), Max(Times) + 1, NoTag, fc, "and", w, fl, 7) :
       fn \in {"sum", "max", "first"}, d \in LawDims, fc \in LawFld, w \in {2, 3},
       fl \in {"null", "none", "num", "prev"}}
  \cup
  {MkAgg(<<[fn |-> "count", f |-> "fa"]>>, d, Min(Times) + 1, Max(Times), NoTag, NoFld, "and", w, fl, 0) :
       d \in {<<>>}, w \in {2}, fl \in {"null", "none", "prev"}}

-----------------------------------------------------------------------------
(* bfs: two fixed data sets (gaps, nulls, equal time stamps across series, all four field kinds) *)
R(s, t, a, b, c) == [s |-> s, t |-> t, v |-> [f \in FieldSet |-> CASE f = "fa" -> a [] f = "fb" -> b [] OTHER -> c]]
FixedData(x) == {
  [kinds |-> [f \in FieldSet |-> CASE f = "fa" -> "int" [] f = "fb" -> "float" [] OTHER -> "str"],
   rows |-> {R(1, 1, 1, 3, 1), R(1, 3, 2, 1, NULL), R(1, 7, 3, NULL, 2), R(2, 1, 3, -1, NULL), R(2, 4, NULL, 2, NULL),
             R(2, 10, 2, 0, NULL), R(3, 2, 0, NULL, NULL), R(3, 10, 1, 3, 0), R(4, 1, NULL, 3, 1), R(4, 8, -1, NULL, NULL)}],
  [kinds |-> [f \in FieldSet |-> CASE f = "fa" -> "float" [] f = "fb" -> "bool" [] OTHER -> "int"],
   rows |-> {R(1, 0, 2, 1, NULL), R(1, 5, -1, NULL, 3), R(1, 6, 2, 0, 3), R(2, 0, 2, 0, 1), R(2, 5, NULL, 1, NULL),
             R(2, 11, 0, NULL, 2), R(3, 5, 3, 1, 0), R(3, 6, NULL, NULL, 3), R(3, 9, 1, 0, NULL)}] }

FldConds(D) == {NoFld} \cup UNION {
    IF Numeric(D.kinds[f]) THEN {[k |-> op, f |-> f, c |-> c] : op \in {"gt", "le", "eq", "ne"}, c \in {1}}
    ELSE IF D.kinds[f] = "bool" THEN {[k |-> "eq", f |-> f, c |-> 1]}
    ELSE {[k |-> op, f |-> f, c |-> 1] : op \in {"eq", "ne"}} : f \in {"fa", "fb"} \cap Existing(D)}

Sels(D) == {<<"*">>} \cup {<<f>> : f \in Existing(D)} \cup {<<"fa", "fb">>, <<"fc", "t1">>}
BfsRaw(D) ==
  {MkRaw(sel, d, lo, hi, tc, fc, "and", lim, off) :
       sel \in Sels(D), d \in {<<>>, <<"t1">>}, lo \in {NONE, 2}, hi \in {NONE, 10},
       tc \in {NoTag, [k |-> "ne", key |-> "t1", val |-> "a", vals |-> {}]}, fc \in FldConds(D),
       lim \in {NONE, 3}, off \in {NONE, 2}}
  \cup
  {MkRaw(<<f>>, <<>>, NONE, NONE, tc, fc, "or", NONE, NONE) :
       f \in Existing(D), tc \in TagConds \ {NoTag}, fc \in FldConds(D) \ {NoFld}}
Calls(D) == {[fn |-> fn, f |-> f] : fn \in {"count", "sum", "mean", "min", "max", "first", "last"}, f \in Existing(D)}
BfsAgg(D) ==
  {MkAgg(<<c>>, d, lo, hi, tc, NoFld, "and", NONE, "null", 0) :
       c \in Calls(D), d \in DimChoices, lo \in {NONE, 2}, hi \in {NONE, 10}, tc \in {NoTag, [k |-> "ne", key |-> "t1", val |-> "a", vals |-> {}]}}
  \cup
  {MkAgg(<<c1, c2>>, d, 1, 12, NoTag, fc, "and", w, fl, 7) :
       c1 \in Calls(D), c2 \in {[fn |-> "count", f |-> "fb"], [fn |-> "last", f |-> "fa"]}, d \in {<<>>, <<"t1">>},
       fc \in {NoFld, [k |-> "eq", f |-> "fb", c |-> 1]}, w \in {3, 4}, fl \in {"null", "none", "num", "prev"}}
BfsQueries(D, x) == {q \in BfsRaw(D) \cup BfsAgg(D) : WellFormed(D, q)}
\* every BfsStride-th query of the universe, starting at BfsOff (quick tier: a seeded sample)
CONSTANTS BfsStride, BfsOff
BfsSample(D, x) == LET s == SetToSeq(BfsQueries(D, x))
                   IN {s[i] : i \in {j \in 1..Len(s) : j % BfsStride = BfsOff}}


-----------------------------------------------------------------------------
(* shape: data sets drawn deliberately + the query families that need them *)
\* complementary nulls: series 1 (a,x) has a row at EVERY time, fa always present, fb / fc only now and then, so every
\* window has a value of fa while fb / fc are null there (alone, twice in a row, in the first and in the last window);
\* the other series are sparse (windows missing per tag group, values that join the windows of the ungrouped query)
FillData1 ==
  [kinds |-> [f \in FieldSet |-> CASE f = "fa" -> "int" [] f = "fb" -> "float" [] OTHER -> "int"],
   rows |-> {R(1, 0, 1, 3, NULL), R(1, 1, 2, NULL, 1), R(1, 2, 0, NULL, NULL), R(1, 3, 3, 1, NULL), R(1, 4, 1, NULL, NULL),
             R(1, 5, 2, NULL, NULL), R(1, 6, -1, NULL, NULL), R(1, 7, 0, NULL, 3), R(1, 8, 1, NULL, NULL), R(1, 9, 3, 2, NULL),
             R(1, 10, 2, NULL, NULL), R(1, 11, 1, NULL, 0),
             R(2, 1, NULL, 2, NULL), R(2, 6, 2, NULL, NULL), R(3, 2, 1, NULL, 2), R(3, 10, 0, 2, NULL), R(4, 5, NULL, NULL, 1)}]
FillData2 ==
  [kinds |-> [f \in FieldSet |-> CASE f = "fa" -> "float" [] f = "fb" -> "str" [] OTHER -> "bool"],
   rows |-> {R(1, 0, 2, NULL, 1), R(1, 1, 1, NULL, NULL), R(1, 2, 0, 1, NULL), R(1, 3, 3, NULL, NULL), R(1, 4, -1, NULL, 0),
             R(1, 5, 2, 2, NULL), R(1, 6, 1, NULL, NULL), R(1, 7, 0, NULL, NULL), R(1, 8, 3, 0, 1), R(1, 9, 1, NULL, NULL),
             R(1, 10, 2, NULL, NULL), R(1, 11, 0, NULL, NULL),
             R(2, 0, 1, 1, 0), R(2, 7, NULL, 3, NULL), R(4, 3, NULL, NULL, 1), R(4, 9, 2, NULL, NULL)}]
\* ties: the series of a group share the time stamp of their newest and of their oldest point (greater value first in
\* group x / t1 = a, later in group y), a window in the middle has tied points too, and the extreme values occur twice
TieData1 ==
  [kinds |-> [f \in FieldSet |-> CASE f = "fa" -> "int" [] f = "fb" -> "float" [] OTHER -> "bool"],
   rows |-> {R(1, 1, 3, 0, 1), R(2, 1, 1, 2, 0), R(3, 1, 0, 1, 0), R(4, 1, 2, 3, 1),
             R(1, 5, 2, 2, NULL), R(2, 5, 3, 1, 1), R(3, 6, 3, NULL, 0), R(4, 6, -1, -1, NULL),
             R(1, 9, 3, 1, 0), R(2, 9, 0, 3, 1), R(3, 9, 1, -1, 1), R(4, 9, 2, 3, 0), R(2, 3, -1, 3, NULL)}]
TieData2 ==
  [kinds |-> [f \in FieldSet |-> CASE f = "fa" -> "float" [] f = "fb" -> "str" [] OTHER -> "int"],
   rows |-> {R(1, 0, 0, 3, 2), R(2, 0, 2, 0, 2), R(4, 0, 1, 1, NULL),
             R(1, 4, 2, NULL, 0), R(3, 4, 2, 2, 3), R(2, 7, 1, 2, 3), R(4, 7, 3, 0, 1),
             R(1, 10, 1, 0, 3), R(2, 10, 3, 2, 1), R(3, 10, 2, 1, 3), R(4, 10, 0, 3, 0)}]
ShapeData(x) == {FillData1, FillData2, TieData1, TieData2}

TagA == [k |-> "eq", key |-> "t1", val |-> "a", vals |-> {}]
\* <<width, from, to>>: ranges aligned to the windows; 2, 3, 4, 6 or 12 windows (answers that fit one chunk of 1, 2, 3
\* rows or the default, and answers that do not)
FillRanges == {<<3, 0, 12>>, <<4, 0, 12>>, <<2, 0, 12>>, <<3, 3, 9>>, <<6, 0, 12>>, <<1, 0, 12>>}
FillCalls1(D) == {c \in Calls(D) : c.f = "fa" /\ c.fn \in {"max", "sum", "first"}}
FillCalls2(D) == {c \in Calls(D) : c.f \in {"fb", "fc"} /\ c.fn \in {"count", "last", "min", "mean"}}
FillQueries(D) ==
  {MkAgg(cs, d, rg[2], rg[3], tc, NoFld, "and", rg[1], fl, 7) :
       cs \in {<<c1, c2>> : c1 \in FillCalls1(D), c2 \in FillCalls2(D)} \cup {<<c2, c1>> : c1 \in FillCalls1(D), c2 \in FillCalls2(D)}
              \cup {<<[fn |-> "max", f |-> "fa"], [fn |-> "count", f |-> "fb"], [fn |-> "last", f |-> "fc"]>>},
       d \in {<<>>, <<"t1">>}, rg \in FillRanges, tc \in {NoTag, TagA}, fl \in {"null", "none", "num", "prev"}}
TieCalls(D) == {c \in Calls(D) : c.fn \in Selectors}
TieQueries(D) ==
  {MkAgg(<<c>>, d, rg[2], rg[3], NoTag, NoFld, "and", rg[1], "none", 0) :
       c \in TieCalls(D), d \in {<<>>, <<"t2">>, <<"t1">>}, rg \in {<<NONE, NONE, NONE>>, <<4, 0, 12>>, <<NONE, 2, 10>>}}
  \cup
  {MkAgg(<<c1, c2>>, d, NONE, NONE, NoTag, NoFld, "and", NONE, "null", 0) :
       c1 \in {c \in TieCalls(D) : c.f = "fa" /\ c.fn \in {"first", "last"}},
       c2 \in {c \in TieCalls(D) : c.f # "fa" /\ c.fn \in {"first", "last"}}, d \in {<<>>, <<"t2">>}}
ShapeQueries(D, x) ==
  {q \in (IF D \in {FillData1, FillData2} THEN FillQueries(D) ELSE TieQueries(D)) : WellFormed(D, q)}
\* a seeded sample: about every BfsStride-th query of the fill family and every (BfsStride / 100 + 1)-th of the (smaller)
\* tie family, picked by a scrambled index (a plain stride resonates with the order in which TLC enumerates the family)
Scramble(j) == (j * 7919 + (j \div 7) * 104729 + (j \div 61) * 1299709 + BfsOff * 15485863) % 1000003
ShapeSample(D, x) == LET s  == SetToSeq(ShapeQueries(D, x))
                         st == IF D \in {FillData1, FillData2} THEN BfsStride ELSE (BfsStride \div 100) + 1
                     IN {s[i] : i \in {j \in 1..Len(s) : Scramble(j) % st = 0}}

-----------------------------------------------------------------------------
(* sim: random data sets and queries.  Every random choice is bound by a quantifier over a         *)
(* singleton set ({RandomElement(S)}), so that it is drawn exactly once; function values are forced *)
(* with TLCEval for the same reason.                                                                *)
Dens == 4     \* a (series, time) pair carries a row with probability Dens/10
SimKinds(x) == TLCEval([f \in FieldSet |-> RandomElement(Kinds)])
SimCell(kind, x) == IF RandomElement(1..4) = 1 THEN NULL
                    ELSE IF kind = "bool" THEN RandomElement({0, 1}) ELSE RandomElement(Vals)
SimRows(k, x) ==
  TLCEval({r \in {[s |-> p[1], t |-> p[2], v |-> TLCEval([f \in FieldSet |-> SimCell(k[f], x)])] :
                    p \in {pp \in (1..NS) \X Times : RandomElement(1..10) <= Dens}} :
             \E f \in FieldSet : r.v[f] # NULL})
\* the complementary-null shape: one series has a row at every time with about half of its cells null (every window
\* has a value of some field while another field is null there); the other series are sparse
SimCellC(kind, x) == IF RandomElement(1..2) = 1 THEN NULL
                     ELSE IF kind = "bool" THEN RandomElement({0, 1}) ELSE RandomElement(Vals)
SimRowsC(k, dense, x) ==
  TLCEval({r \in {[s |-> p[1], t |-> p[2], v |-> TLCEval([f \in FieldSet |-> SimCellC(k[f], x)])] :
                    p \in {pp \in (1..NS) \X Times : pp[1] = dense \/ RandomElement(1..10) <= 2}} :
             \E f \in FieldSet : r.v[f] # NULL})
SimData(x) == UNION {{[kinds |-> k, rows |-> rows] :
                        rows \in {IF RandomElement(1..5) <= 2 THEN SimRowsC(k, RandomElement(1..NS), x) ELSE SimRows(k, x)}} :
                     k \in {SimKinds(x)}}

RE(S) == RandomElement(S)
SimTag(x) == IF RE(1..2) = 1 THEN NoTag ELSE RE(TagConds)
SimFld(D, x) ==
  IF RE(1..2) = 1 THEN {NoFld}
  ELSE UNION {{[k |-> op, f |-> f, c |-> IF D.kinds[f] = "bool" THEN RE({0, 1}) ELSE RE(0..Max(Vals))] :
                  op \in {IF Numeric(D.kinds[f]) THEN RE({"gt", "le", "eq", "ne", "lt", "ge"})
                          ELSE IF D.kinds[f] = "bool" THEN "eq" ELSE RE({"eq", "ne"})}} :
              f \in {RE(Existing(D))}}
SimConn(tc, fc) == IF tc.k # "none" /\ fc.k # "none" /\ RE(1..2) = 1 THEN "or" ELSE "and"
SimLo(x) == IF RE(1..2) = 1 THEN NONE ELSE RE(Min(Times)..(Min(Times) + 5))
SimHi(x) == IF RE(1..2) = 1 THEN NONE ELSE RE((Max(Times) - 4)..(Max(Times) + 2))
SimSel(D, x) ==
  LET ef == Existing(D)
  IN RE({<<"*">>} \cup {<<f>> : f \in ef} \cup {fg \in (ef \X (ef \cup {"t1"})) : fg[1] # fg[2]})
\* LIMIT / OFFSET only on ungrouped selections, a selected tag is not a dimension: repaired, so that a simulation does
\* not end for want of a well formed query
FixRaw(q) == [q EXCEPT !.dims = IF q.lim # NONE THEN <<>>
                                ELSE SelectSeq(@, LAMBDA k : \A i \in 1..Len(q.sel) : q.sel[i] # k)]
SimRaw(D, x) ==
  {FixRaw(MkRaw(sel, d, lo, hi, tc, fc, SimConn(tc, fc), lo2[1], lo2[2])) :
     sel \in {SimSel(D, x)}, d \in {IF RE(1..3) = 1 THEN RE(DimChoices) ELSE <<>>},
     lo \in {SimLo(x)}, hi \in {SimHi(x)}, tc \in {SimTag(x)}, fc \in SimFld(D, x),
     lo2 \in {IF RE(1..2) = 1 THEN <<NONE, NONE>> ELSE <<RE({1, 2, 3, 5}), RE({NONE, 1, 2, 4})>>}}
SimCall(D, x) == UNION {{[fn |-> fn, f |-> f] : fn \in {RE(FnsOf(D.kinds[f]))}} : f \in {RE(Existing(D))}}
SimCalls(D, x) ==
  UNION {UNION {{IF n = 1 \/ c2 = c1 THEN <<c1>> ELSE IF n = 2 \/ c3 = c1 \/ c3 = c2 THEN <<c1, c2>> ELSE <<c1, c2, c3>> :
                   c3 \in SimCall(D, x + 2)} : c2 \in SimCall(D, x + 1)} : c1 \in SimCall(D, x), n \in {RE(1..3)}}
SimAgg(D, x) ==
  {IF iv[1] = NONE
     THEN MkAgg(cs, d, lo, hi, tc, fc, SimConn(tc, fc), NONE, "null", 0)
     ELSE MkAgg(cs, d, iv[2], iv[3], tc, fc, SimConn(tc, fc), iv[1],
                IF iv[4] = "num" /\ \E i \in 1..Len(cs) : ~NumResult(D, cs[i]) THEN "prev" ELSE iv[4], iv[5]) :
     cs \in SimCalls(D, x), d \in {RE(DimChoices)}, lo \in {SimLo(x)}, hi \in {SimHi(x)},
     tc \in {SimTag(x)}, fc \in SimFld(D, x),
     iv \in {IF RE(1..3) = 1 THEN <<NONE, 0, 0, "null", 0>>
             ELSE <<RE({2, 3, 4, 5}), RE(Min(Times)..(Min(Times) + 4)), RE((Max(Times) - 3)..(Max(Times) + 3)),
                    RE({"null", "none", "num", "prev"}), RE({0, 7, 2})>>}}
\* multi-field aggregates over window aligned ranges, GROUP BY time() only or with a tag, every fill mode
SimCallOn(D, f, x) == {[fn |-> fn, f |-> f] : fn \in {RE(FnsOf(D.kinds[f]))}}
SimFillCalls(D, x) ==
  UNION {UNION {{IF ff[1] = ff[2] THEN <<c1, [fn |-> "count", f |-> ff[1]]>> ELSE <<c1, c2>> :
                    c2 \in SimCallOn(D, ff[2], x + 1)} : c1 \in SimCallOn(D, ff[1], x)} :
         ff \in {<<RE(Existing(D)), RE(Existing(D))>>}}
SimFillAgg(D, x) ==
  {MkAgg(cs, d, wk[1] * wk[2], IF wk[1] * (wk[2] + wk[3]) > 12 THEN 12 ELSE wk[1] * (wk[2] + wk[3]), tc, NoFld, "and", wk[1],
         IF fl = "num" /\ \E i \in 1..Len(cs) : ~NumResult(D, cs[i]) THEN "prev" ELSE fl, RE({0, 7, 2})) :
     cs \in SimFillCalls(D, x),
     d \in {IF RE(1..2) = 1 THEN <<>> ELSE RE(DimChoices)},
     wk \in {<<RE({2, 3, 4, 6}), IF RE(1..3) = 1 THEN 1 ELSE 0, RE(1..6)>>},
     tc \in {IF RE(1..3) = 1 THEN RE(TagConds) ELSE NoTag}, fl \in {RE({"null", "none", "num", "prev"})}}
SimQueries(D, x) == IF RE(1..5) <= 2 THEN SimRaw(D, x)
                    ELSE IF RE(1..3) = 1 THEN SimFillAgg(D, x) \cup SimFillAgg(D, x + 3)
                    ELSE SimAgg(D, x) \cup SimAgg(D, x + 7)
=============================================================================
