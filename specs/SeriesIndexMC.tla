--------------------------- MODULE SeriesIndexMC ---------------------------
EXTENDS SeriesIndex, Json
CONSTANT M1c, M2c

\* ---- the universes (characters x y z, digits 1 2, s = a separator byte of the index) -----------
vX    == <<"x">>
vXY   == <<"x", "y">>
vXY1  == <<"x", "y", "1">>
vXY12 == <<"x", "y", "1", "2">>
vZXY1 == <<"z", "x", "y", "1">>
vY    == <<"y">>
vXS   == <<"x", "s">>
vS    == <<"s">>

ValsFull  == {<<>>, vX, vXY, vXY1, vXY12, vZXY1, vY, vXS, vS}
ValsMid   == {<<>>, vX, vXY, vXY1, vZXY1, vY}
ValsSmall == {<<>>, vX, vXY}
ValsTiny  == {<<>>, vXY}

\* the regex family: one representative per fast path of tag_filters.go
rLitXY      == << <<"lit", vXY>> >>                                  \* /xy/      pure literal
rLitX       == << <<"lit", vX>> >>                                   \* /x/
rLit1       == << <<"lit", <<"1">>>> >>                              \* /1/
rLitXS      == << <<"lit", vXS>> >>                                  \* /xs/      literal with a separator byte
rAnchXY     == << <<"bol">>, <<"lit", vXY>>, <<"eol">> >>            \* /^xy$/    fully anchored
rAlt        == << <<"alt", {vXY, vY}>> >>                            \* /xy|y/    alternation
rCls        == << <<"cls", {"x", "z"}>> >>                           \* /[xz]/    class
rPreDig     == << <<"lit", vXY>>, <<"dig">> >>                       \* /xy[0-9]/ prefix + class
rDotStar    == << <<"any*">> >>                                      \* /.*/
rDotPlus    == << <<"any+">> >>                                      \* /.+/
rStarX      == << <<"star", "x">> >>                                 \* /x*/      matches the empty string
rEmptyAnch  == << <<"bol">>, <<"eol">> >>                            \* /^$/
rAnchOpt    == << <<"bol">>, <<"opt", vXY>>, <<"eol">> >>            \* /^(xy)?$/
rPre        == << <<"bol">>, <<"lit", vXY>> >>                       \* /^xy/
rSuf        == << <<"lit", vY>>, <<"eol">> >>                        \* /y$/
rPPlus      == << <<"lit", vXY>>, <<"any+">> >>                      \* /xy.+/
rAnchAlt    == << <<"bol">>, <<"alt", {vXY, vY}>>, <<"eol">> >>      \* /^(xy|y)$/
rAnchPreDig == << <<"bol">>, <<"lit", vXY>>, <<"dig">>, <<"eol">> >> \* /^xy[0-9]$/
rLitAnyLit  == << <<"lit", vX>>, <<"any*">>, <<"lit", <<"1">>>> >>   \* /x.*1/
rOpt        == << <<"opt", vXY>> >>                                  \* /(xy)?/
rAltEmpty   == << <<"alt", {vX, <<>>}>> >>                           \* /x|/
rSufCls     == << <<"cls", {"y", "1"}>>, <<"eol">> >>                \* /[y1]$/
rAnchDotXY  == << <<"bol">>, <<"any*">>, <<"lit", vY>>, <<"eol">> >> \* /^.*y$/

RegexesFull  == {rLitXY, rLitX, rLit1, rLitXS, rAnchXY, rAlt, rCls, rPreDig, rDotStar, rDotPlus, rStarX,
                 rEmptyAnch, rAnchOpt, rPre, rSuf, rPPlus, rAnchAlt, rAnchPreDig, rLitAnyLit, rOpt,
                 rAltEmpty, rSufCls, rAnchDotXY}
RegexesSmall == {rLitXY, rAnchXY, rAlt, rCls, rDotStar, rDotPlus, rEmptyAnch, rPre}

\* ---- predicate sets -------------------------------------------------------------------------------
LeavesOf(V, R) == {<<o, k, v>> : o \in {"=", "!="}, k \in TKeys, v \in V}
                  \cup {<<o, k, r>> : o \in {"=~", "!~"}, k \in TKeys, r \in R}
BigMults  == TLCEval(SetToSeq(Mults \ {1}))
XLeaves   == {<<o, j>> : o \in {"n=", "n!="}, j \in XVals}      \* the extra tag of the members
AllLeaves == TLCEval(LeavesOf(Vals, Regexes) \cup XLeaves)
EmptyRes    == TLCEval(SetToSeq(EmptyOK))                  \* expressions that match the empty string
NonEmptyRes == TLCEval(SetToSeq(Regexes \ EmptyOK))

Pairs(L, R)  == {<<o, l, r>> : o \in {"AND", "OR"}, l \in L, r \in R}
Wrapped(S)   == {<<"P", p>> : p \in S}
\* parser-producible nestings of two binary operators (bare where precedence allows, else parenthesised)
Depth3(L) ==
  LET B == Pairs(L, L)
      ands == {p \in B : p[1] = "AND"}
  IN {<<"AND", l, r>> : l \in ands \cup Wrapped(B), r \in L \cup Wrapped(B)}
     \cup {<<"OR", l, r>> : l \in B \cup Wrapped(B), r \in L \cup ands \cup Wrapped(B)}
     \cup {<<"AND", l, r>> : l \in L, r \in Wrapped(B)}

CoreLeaves == TLCEval({<<"=", "a", vXY>>, <<"!=", "a", vXY>>, <<"=", "b", <<>>>>, <<"!=", "b", <<>>>>,
                       <<"=~", "a", rLitXY>>, <<"!~", "b", rLitXY>>, <<"=~", "b", rDotStar>>, <<"!~", "a", rDotPlus>>,
                       <<"=~", "a", rPre>>, <<"=", "b", vX>>, <<"!~", "b", rEmptyAnch>>, <<"=~", "a", rCls>>})
TinyLeaves == TLCEval({<<"=", "a", vXY>>, <<"!=", "b", <<>>>>, <<"!~", "a", rLitXY>>, <<"=~", "b", rDotPlus>>})

\* design check: every leaf, every depth-2 tree over the core leaves (plus parenthesised forms),
\* every producible depth-3 tree over the tiny leaves
DesignPreds2 == TLCEval(AllLeaves \cup {<<"TRUE">>} \cup Pairs(CoreLeaves, CoreLeaves)
                        \cup Wrapped(Pairs(TinyLeaves, TinyLeaves)))
DesignPreds == TLCEval(DesignPreds2 \cup Depth3(TinyLeaves))
LifePreds   == TLCEval(CoreLeaves \cup {<<"TRUE">>} \cup Pairs(TinyLeaves, TinyLeaves))

\* ---- multiplicities and rows: small stand-ins (RowCap = 2) for the design check, the real row size for the replay
XValsRows == {-1, 0, 2}
XValsBig  == {-1, 0, 63, 64, 100}
RowTagLeaves == {<<"=", "a", vXY>>, <<"!=", "a", vXY>>, <<"=", "b", vX>>, <<"=", "b", <<>>>>, <<"=~", "a", rLitXY>>, <<"!~", "b", rDotStar>>}
RowPreds  == TLCEval(XLeaves \cup RowTagLeaves \cup {<<"TRUE">>} \cup Pairs(XLeaves, RowTagLeaves) \cup Pairs(RowTagLeaves, XLeaves)
                     \cup Pairs(XLeaves, XLeaves) \cup Pairs({<<"=", "a", vXY>>, <<"=", "b", vX>>}, {<<"!=", "a", vXY>>, <<"=", "b", <<>>>>}))

\* ---- sequences of searches (history independence) ----------------------------------------------------
\* life-cycle model: single searches that leave the pooled searcher in either state
Q(m, p) == [m |-> m, p |-> p]
LifeBatches == {<<Q(M1c, <<"=~", "a", rDotStar>>)>>, <<Q(M1c, <<"=~", "a", rLitXY>>)>>}
\* conditions of the conditional listings in the runs without multiplicities (rows never fill up there)
ListPredsSmall == TLCEval(TinyLeaves \cup {<<"TRUE">>, <<"=", "b", vX>>})
\* an empty-matching expression, then a non-empty-matching one (positive and negative), repeatedly, so that
\* whatever object served the first serves one of the others; k2 = key of the empty-matching leaf
HistBatch(m, k, k2, rE, rs) ==
  LET one(r) == << Q(m, <<"=~", k2, rE>>), Q(m, <<"=~", k, r>>), Q(m, <<"!~", k2, rE>>), Q(m, <<"!~", k, r>>),
                   Q(m, <<"AND", <<"=~", k2, rE>>, <<"=~", k, r>>>>), Q(m, <<"=~", k, r>>) >>
      f[i \in 0..Len(rs)] == IF i = 0 THEN <<>> ELSE f[i - 1] \o one(rs[i])
  IN f[Len(rs)]

\* ---- initial states for the search design check: any set of <= MaxSeries flushed series ---------------
NormKeys(m) == {k \in RawKeys : k = Norm(k) /\ k.m = m}
OtherKey == [m |-> M2c, t |-> [x \in TKeys |-> vXY]]
SetupFrom(S) ==
  LET q == SetToSeq(S)
      pairs == {<<q[i], 100 + i>> : i \in 1..Len(q)} \cup {<<OtherKey, 100>>}
  IN /\ open' = TRUE /\ pending' = {} /\ cache' = {} /\ nReopen' = 99 /\ hist' = <<>>
     /\ \E f \in [1..Len(q) -> Mults] : mult' = [i \in 100..(100 + Len(q)) |-> IF i = 100 THEN 1 ELSE f[i - 100]]
     /\ sflag' = FALSE
     /\ nextId' = [clock |-> 1, seq |-> 50]
     /\ key2id' = pairs
     /\ id2key' = {<<p[2], p[1]>> : p \in pairs}
     /\ tag2ids' = UNION {TagItems(p[1], p[2]) : p \in pairs}
\* two steps from the empty index to any set of <= MaxSeries flushed series: the first picks a slice
\* (so that the 16 workers share the evaluation of the invariants), the second the set
KeysSeq == TLCEval(SetToSeq(NormKeys(M1c)))
NSlices == 16
\* sets of at most n key indices larger than lo (kSubset is limited to 62 elements)
RECURSIVE IdxSets(_, _)
IdxSets(n, lo) == {{}} \cup (IF n = 0 THEN {}
                             ELSE UNION {{{i} \cup T : T \in IdxSets(n - 1, i)} : i \in (lo + 1)..Len(KeysSeq)})
NextSets ==
  \/ /\ nReopen = 0 /\ key2id = {}
     /\ \E i \in 1..NSlices : nReopen' = i
     /\ UNCHANGED <<open, key2id, id2key, tag2ids, pending, cache, nextId, hist, mult, sflag>>
  \/ /\ nReopen > 0 /\ key2id = {}
     /\ \/ (nReopen = NSlices /\ SetupFrom({}))
        \/ \E j \in {jj \in 1..Len(KeysSeq) : jj % NSlices = nReopen % NSlices} :
             \E T \in IdxSets(MaxSeries - 1, j) : SetupFrom({KeysSeq[l] : l \in {j} \cup T})
SpecSets == Init /\ [][NextSets]_vars

\* ---- simulation: random predicates ---------------------------------------------------------------------
\* (every random draw is bound once through a singleton set: LET definitions are re-evaluated per use)
Shapes == 1..8
MkNode(s, l, r) ==
  LET bin(x) == x[1] \in {"AND", "OR"}
      wl == IF bin(l) THEN <<"P", l>> ELSE l
      wr == IF bin(r) THEN <<"P", r>> ELSE r
  IN CASE s = 1 -> <<"AND", wl, wr>>
       [] s = 2 -> <<"OR", wl, wr>>
       [] s = 3 -> <<"AND", IF bin(l) /\ l[1] = "AND" THEN l ELSE wl, wr>>      \* bare left AND under AND
       [] s = 4 -> <<"OR", l, IF bin(r) /\ r[1] = "AND" THEN r ELSE wr>>         \* bare operands under OR
       [] s = 5 -> <<"P", <<"AND", wl, wr>>>>
       [] s = 6 -> <<"AND", <<"P", l>>, wr>>                                     \* parenthesised operand
       [] s = 7 -> <<"OR", wl, <<"P", r>>>>
       [] s = 8 -> l
RECURSIVE RandTree(_, _)
RandTree(d, x) ==
  IF d <= 1 THEN RandomElement(AllLeaves)
  ELSE CHOOSE t \in {MkNode(s, l, r) : s \in {RandomElement(Shapes)},
                                       l \in {RandTree(d - 1, x + 1)},
                                       r \in {RandTree(d - 1, x + 2)}} : TRUE
BatchLen == 5
SimBase(x) == TLCEval([i \in 1..BatchLen |->
                  [m |-> RandomElement(Msts), p |-> RandTree(RandomElement({1, 2, 2, 3, 3, 3}), x + i)]])
\* random searches, then an empty-matching expression followed by a non-empty-matching one (both signs) and
\* REPEATS of searches made earlier in the sequence: every one has the same expectation as the first time
SimTail(x, b) ==
  CHOOSE t \in {<< Q(m, <<"=~", k2, rE>>), Q(m, <<"=~", k, r>>), Q(m, <<"!~", k, r>>), b[1],
                   Q(m, <<"!~", k2, rE>>), Q(m, <<"!~", k, r>>), b[2], Q(m, <<"=~", k, r>>) >> :
                   m \in {RandomElement(Msts)}, k \in {RandomElement(TKeys)}, k2 \in {RandomElement(TKeys)},
                   rE \in {RandomElement(EmptyOK)}, r \in {RandomElement(Regexes \ EmptyOK)}} : TRUE
SimBatch(x) == CHOOSE s \in {b \o SimTail(x, b) : b \in {SimBase(x)}} : TRUE
SimBatches == {SimBatch(Len(hist) + j) : j \in 1..2}
\* multiplicities: mostly 1, now and then around the row size of the tag->ids items
SimMults == {CHOOSE n \in {IF i > Len(BigMults) THEN 1 ELSE BigMults[i] : i \in {RandomElement(1..(12 * Len(BigMults)))}} : Len(hist) >= 0}
SimCreate  == {[m |-> RandomElement(Msts), t |-> [x \in TKeys |-> RandomElement(RawVals)]] : j \in 1..3}
              \cup {it[1] : it \in {RandomElement(key2id \cup {<<[m |-> M1c, t |-> [x \in TKeys |-> NoTag]], 0>>})}}

\* ---- BFS export: every path of a tiny configuration --------------------------------------------------
BfsKeys == {[m |-> M1c, t |-> [x \in TKeys |-> NoTag]],
            [m |-> M1c, t |-> [x \in TKeys |-> IF x = "a" THEN <<>> ELSE NoTag]],
            [m |-> M1c, t |-> [x \in TKeys |-> IF x = "a" THEN vX ELSE NoTag]],
            [m |-> M1c, t |-> [x \in TKeys |-> IF x = "a" THEN vX ELSE vXY]]}
BfsBatch == << [m |-> M1c, p |-> <<"TRUE">>],
               [m |-> M1c, p |-> <<"=", "a", <<>>>>],
               [m |-> M1c, p |-> <<"!=", "a", vX>>],
               [m |-> M1c, p |-> <<"=~", "a", rCls>>],
               [m |-> M1c, p |-> <<"!~", "b", rDotPlus>>],
               [m |-> M1c, p |-> <<"OR", <<"=", "b", vXY>>, <<"P", <<"AND", <<"=", "a", vX>>, <<"=", "b", <<>>>>>>>>>>],
               [m |-> M2c, p |-> <<"TRUE">>] >>
              \o << Q(M1c, <<"=~", "a", rDotStar>>), Q(M1c, <<"=~", "a", rLitXY>>), Q(M1c, <<"!~", "a", rLitXY>>),
                    Q(M1c, <<"!~", "b", rEmptyAnch>>), Q(M1c, <<"=~", "a", rCls>>), Q(M1c, <<"!~", "b", rDotPlus>>) >>
BfsBatches == {BfsBatch}

\* ---- scripted export: fixed rich series sets, every leaf and the design trees, in chunks -------------
K(m, a, b) == [m |-> m, t |-> [x \in TKeys |-> IF x = "a" THEN a ELSE b]]
Scripts == { << K(M1c, NoTag, NoTag), K(M1c, vX, NoTag), K(M1c, vXY, vY), K(M1c, vXY1, vXY), K(M1c, vZXY1, <<>>), K(M2c, vXY, vXY) >>,
             << K(M1c, vXY12, vX), K(M1c, vY, vXY1), K(M1c, vXS, NoTag), K(M1c, vS, vXY), K(M1c, NoTag, vXY), K(M2c, NoTag, NoTag) >>,
             << K(M1c, vXY, NoTag), K(M1c, NoTag, vXY), K(M1c, vXY, vXY), K(M2c, vXY1, vS), K(M2c, vX, vX), K(M2c, vXS, vY) >> }
ScriptLen == 6
CONSTANT ScriptPredSet
ScriptPreds == TLCEval(SetToSeq(ScriptPredSet))
ChunkLen == 12
NChunks == (Len(ScriptPreds) + ChunkLen - 1) \div ChunkLen
Chunk(c) == LET lo == (c - 1) * ChunkLen + 1
                hi == IF c * ChunkLen < Len(ScriptPreds) THEN c * ChunkLen ELSE Len(ScriptPreds)
                ps == SubSeq(ScriptPreds, lo, hi)
            IN [i \in 1..(2 * Len(ps)) |-> [m |-> IF i % 2 = 1 THEN M1c ELSE M2c, p |-> ps[(i + 1) \div 2]]]
\* history sequences over the scripted sets: every empty-matching expression, followed by a rotating
\* choice of four non-empty-matching ones, on the same and on the other key
Rot(i, j) == NonEmptyRes[((i * 4 + j) % Len(NonEmptyRes)) + 1]
ScriptHist == {HistBatch(m, k, k2, EmptyRes[i], <<Rot(i, 0), Rot(i, 1), Rot(i, 2), Rot(i, 3)>>) :
                 m \in {M1c}, k \in TKeys, k2 \in TKeys, i \in 1..Len(EmptyRes)}
ScriptNext ==
  LET n == Len(hist)
  IN IF n < ScriptLen
       THEN \E s \in Scripts : (\A j \in 1..n : hist[j].args = s[j]) /\ Create(s[n + 1])
     ELSE IF n = ScriptLen THEN IndexFlush
     ELSE IF n = ScriptLen + 1 THEN \/ \E c \in 1..NChunks : SearchBatch(Chunk(c))
                                    \/ \E b \in ScriptHist : SearchBatch(b)
     ELSE FALSE /\ UNCHANGED vars
SpecScript == Init /\ [][ScriptNext]_vars

\* ---- scripted export with LARGE multiplicities: tag->ids rows reach and exceed RowCap ----------------
\* each script: three series with multiplicities; path A = create all, IndexFlush, Close, Reopen (the merge
\* consolidates the rows), Search; path B = create two, IndexFlush, create the third, IndexFlush, ClearCache,
\* Search (rows of one value spread over two parts)
BigScripts == { << <<K(M1c, vXY, vX), 64>>,    <<K(M1c, vXY, vY), 1>>,    <<K(M1c, vX, vY), 1>> >>,
                << <<K(M1c, vXY, NoTag), 130>>, <<K(M1c, vX, vXY), 1>>,   <<K(M2c, vXY, vXY), 65>> >>,
                << <<K(M1c, vXY, vX), 63>>,    <<K(M1c, vXY, vY), 65>>,   <<K(M1c, NoTag, vY), 1>> >>,
                << <<K(M1c, vX, vXY), 65>>,    <<K(M1c, vXY1, vXY), 64>>, <<K(M1c, vZXY1, vXY), 1>> >>,
                << <<K(M1c, vXY, vXY), 1>>,    <<K(M1c, vXY, vX), 130>>,  <<K(M1c, vY, vX), 63>> >> }
BigPredSet == TLCEval(
  LET xl == {<<"n=", -1>>, <<"n=", 0>>, <<"n=", 62>>, <<"n=", 63>>, <<"n=", 64>>, <<"n=", 100>>, <<"n=", 129>>,
             <<"n!=", 0>>, <<"n!=", 64>>, <<"n!=", -1>>}
      tl == {<<"=", "a", vXY>>, <<"=", "b", vY>>, <<"=", "b", vX>>, <<"!=", "b", vX>>, <<"=", "b", <<>>>>,
             <<"!=", "a", vXY>>, <<"=", "a", vX>>, <<"=~", "a", rLitXY>>, <<"=~", "b", rDotStar>>, <<"!~", "a", rLitX>>,
             <<"=~", "b", rCls>>, <<"=", "b", vXY>>, <<"=", "a", vZXY1>>}
  IN {<<"TRUE">>} \cup xl \cup tl
     \cup {<<"AND", t, x>> : t \in {<<"=", "a", vXY>>, <<"=", "b", vXY>>, <<"!=", "b", vX>>}, x \in {<<"n=", 64>>, <<"n=", 100>>, <<"n!=", 0>>}}
     \* conjunctions of a selective member leaf and a regular expression: once the cost of the filters is known,
     \* seriesByTagFilters applies the expensive one by doPrune (matching on the series key) instead of the index scan
     \cup {<<"AND", x, t>> : t \in {<<"=~", "a", rLitXY>>, <<"!~", "a", rLitX>>, <<"=~", "b", rCls>>, <<"=~", "b", rPre>>}, x \in {<<"n=", 64>>, <<"n=", 100>>}}
     \cup {<<"AND", <<"=~", "a", rLitXY>>, <<"n=", 0>>>>, <<"AND", <<"!~", "b", rLitXY>>, <<"n=", 62>>>>}
     \cup {<<"OR", <<"n=", 64>>, <<"=", "b", vY>>>>, <<"OR", <<"=", "a", vX>>, <<"n=", 129>>>>,
           <<"AND", <<"n!=", 0>>, <<"n!=", 64>>>>, <<"OR", <<"n=", 63>>, <<"n=", 64>>>>})
BigPreds == TLCEval(SetToSeq(BigPredSet))
BigChunkLen == 16
BigNChunks == (Len(BigPreds) + BigChunkLen - 1) \div BigChunkLen
BigChunk(c) == LET lo == (c - 1) * BigChunkLen + 1
                   hi == IF c * BigChunkLen < Len(BigPreds) THEN c * BigChunkLen ELSE Len(BigPreds)
                   ps == SubSeq(BigPreds, lo, hi)
               IN [i \in 1..Len(ps) |-> Q(M1c, ps[i])] \o << Q(M2c, <<"TRUE">>), Q(M2c, <<"n=", 64>>), Q(M2c, <<"n!=", 0>>) >>
CreateN(e) == Create(e[1]) /\ hist'[Len(hist')].exp.x.n = e[2]
Agrees(s, n) == \A j \in 1..n : hist[j].a = "Create" => (hist[j].args = s[j][1] /\ hist[j].exp.x.n = s[j][2])
BigNext ==
  LET n == Len(hist)
      pathA == n >= 4 /\ hist[4].a = "IndexFlush"
  IN \/ n < 2 /\ \E s \in BigScripts : Agrees(s, n) /\ CreateN(s[n + 1])
     \/ n = 2 /\ \E s \in BigScripts : Agrees(s, n) /\ CreateN(s[3])                      \* path A
     \/ n = 2 /\ IndexFlush                                                              \* path B
     \/ n = 3 /\ hist[3].a = "Create" /\ IndexFlush
     \/ n = 3 /\ hist[3].a = "IndexFlush" /\ \E s \in BigScripts : Agrees(s, 2) /\ CreateN(s[3])
     \/ n = 4 /\ pathA /\ Close
     \/ n = 4 /\ ~pathA /\ IndexFlush
     \/ n = 5 /\ hist[5].a = "Close" /\ Reopen
     \/ n = 5 /\ hist[5].a = "IndexFlush" /\ ClearCache
     \/ n = 6 /\ \E c \in 1..BigNChunks : SearchBatch(BigChunk(c))
SpecBig == Init /\ [][BigNext]_vars

Export == (Len(hist) = Depth) => PrintT(<<"TRACE", ToJson(hist)>>)
=============================================================================
