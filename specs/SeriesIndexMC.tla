--------------------------- MODULE SeriesIndexMC ---------------------------
EXTENDS SeriesIndex, Json

\* ---- the universes (characters x y z, digits 1 2, s = a separator byte of the index) -----------
vX    == <<"x">>
vXY   == <<"x", "y">>
vXY1  == <<"x", "y", "1">>
vXY12 == <<"x", "y", "1", "2">>
vZXY1 == <<"z", "x", "y", "1">>
vY    == <<"y">>
vXS   == <<"x", "s">>
vS    == <<"s">>

ValsFull  == {<<>>, vX, vXY, vXY1, vXY12, vZXY1, vY, vXS, vS}
ValsMid   == {<<>>, vX, vXY, vXY1, vZXY1, vY}
ValsSmall == {<<>>, vX, vXY}
ValsTiny  == {<<>>, vXY}

\* the regex family: one representative per fast path of tag_filters.go
rLitXY      == << <<"lit", vXY>> >>                                  \* /xy/      pure literal
rLitX       == << <<"lit", vX>> >>                                   \* /x/
rLit1       == << <<"lit", <<"1">>>> >>                              \* /1/
rLitXS      == << <<"lit", vXS>> >>                                  \* /xs/      literal with a separator byte
rAnchXY     == << <<"bol">>, <<"lit", vXY>>, <<"eol">> >>            \* /^xy$/    fully anchored
rAlt        == << <<"alt", {vXY, vY}>> >>                            \* /xy|y/    alternation
rCls        == << <<"cls", {"x", "z"}>> >>                           \* /[xz]/    class
rPreDig     == << <<"lit", vXY>>, <<"dig">> >>                       \* /xy[0-9]/ prefix + class
rDotStar    == << <<"any*">> >>                                      \* /.*/
rDotPlus    == << <<"any+">> >>                                      \* /.+/
rStarX      == << <<"star", "x">> >>                                 \* /x*/      matches the empty string
rEmptyAnch  == << <<"bol">>, <<"eol">> >>                            \* /^$/
rAnchOpt    == << <<"bol">>, <<"opt", vXY>>, <<"eol">> >>            \* /^(xy)?$/
rPre        == << <<"bol">>, <<"lit", vXY>> >>                       \* /^xy/
rSuf        == << <<"lit", vY>>, <<"eol">> >>                        \* /y$/
rPPlus      == << <<"lit", vXY>>, <<"any+">> >>                      \* /xy.+/
rAnchAlt    == << <<"bol">>, <<"alt", {vXY, vY}>>, <<"eol">> >>      \* /^(xy|y)$/
rAnchPreDig == << <<"bol">>, <<"lit", vXY>>, <<"dig">>, <<"eol">> >> \* /^xy[0-9]$/
rLitAnyLit  == << <<"lit", vX>>, <<"any*">>, <<"lit", <<"1">>>> >>   \* /x.*1/
rOpt        == << <<"opt", vXY>> >>                                  \* /(xy)?/
rAltEmpty   == << <<"alt", {vX, <<>>}>> >>                           \* /x|/
rSufCls     == << <<"cls", {"y", "1"}>>, <<"eol">> >>                \* /[y1]$/
rAnchDotXY  == << <<"bol">>, <<"any*">>, <<"lit", vY>>, <<"eol">> >> \* /^.*y$/

RegexesFull  == {rLitXY, rLitX, rLit1, rLitXS, rAnchXY, rAlt, rCls, rPreDig, rDotStar, rDotPlus, rStarX,
                 rEmptyAnch, rAnchOpt, rPre, rSuf, rPPlus, rAnchAlt, rAnchPreDig, rLitAnyLit, rOpt,
                 rAltEmpty, rSufCls, rAnchDotXY}
RegexesSmall == {rLitXY, rAnchXY, rAlt, rCls, rDotStar, rDotPlus, rEmptyAnch, rPre}

\* ---- predicate sets -------------------------------------------------------------------------------
LeavesOf(V, R) == {<<o, k, v>> : o \in {"=", "!="}, k \in TKeys, v \in V}
                  \cup {<<o, k, r>> : o \in {"=~", "!~"}, k \in TKeys, r \in R}
AllLeaves == TLCEval(LeavesOf(Vals, Regexes))

Pairs(L, R)  == {<<o, l, r>> : o \in {"AND", "OR"}, l \in L, r \in R}
Wrapped(S)   == {<<"P", p>> : p \in S}
\* parser-producible nestings of two binary operators (bare where precedence allows, else parenthesised)
Depth3(L) ==
  LET B == Pairs(L, L)
      ands == {p \in B : p[1] = "AND"}
  IN {<<"AND", l, r>> : l \in ands \cup Wrapped(B), r \in L \cup Wrapped(B)}
     \cup {<<"OR", l, r>> : l \in B \cup Wrapped(B), r \in L \cup ands \cup Wrapped(B)}
     \cup {<<"AND", l, r>> : l \in L, r \in Wrapped(B)}

CoreLeaves == TLCEval({<<"=", "a", vXY>>, <<"!=", "a", vXY>>, <<"=", "b", <<>>>>, <<"!=", "b", <<>>>>,
                       <<"=~", "a", rLitXY>>, <<"!~", "b", rLitXY>>, <<"=~", "b", rDotStar>>, <<"!~", "a", rDotPlus>>,
                       <<"=~", "a", rPre>>, <<"=", "b", vX>>, <<"!~", "b", rEmptyAnch>>, <<"=~", "a", rCls>>})
TinyLeaves == TLCEval({<<"=", "a", vXY>>, <<"!=", "b", <<>>>>, <<"!~", "a", rLitXY>>, <<"=~", "b", rDotPlus>>})

\* design check: every leaf, every depth-2 tree over the core leaves (plus parenthesised forms),
\* every producible depth-3 tree over the tiny leaves
DesignPreds2 == TLCEval(AllLeaves \cup {<<"TRUE">>} \cup Pairs(CoreLeaves, CoreLeaves)
                        \cup Wrapped(Pairs(TinyLeaves, TinyLeaves)))
DesignPreds == TLCEval(DesignPreds2 \cup Depth3(TinyLeaves))
LifePreds   == TLCEval(CoreLeaves \cup {<<"TRUE">>} \cup Pairs(TinyLeaves, TinyLeaves))

\* ---- initial states for the search design check: any set of <= MaxSeries flushed series ---------------
CONSTANT M1c, M2c
NormKeys(m) == {k \in RawKeys : k = Norm(k) /\ k.m = m}
OtherKey == [m |-> M2c, t |-> [x \in TKeys |-> vXY]]
SetupFrom(S) ==
  LET q == SetToSeq(S)
      pairs == {<<q[i], 100 + i>> : i \in 1..Len(q)} \cup {<<OtherKey, 100>>}
  IN /\ open' = TRUE /\ pending' = {} /\ cache' = {} /\ nReopen' = 99 /\ hist' = <<>>
     /\ nextId' = [clock |-> 1, seq |-> 50]
     /\ key2id' = pairs
     /\ id2key' = {<<p[2], p[1]>> : p \in pairs}
     /\ tag2ids' = UNION {TagItems(p[1], p[2]) : p \in pairs}
\* two steps from the empty index to any set of <= MaxSeries flushed series: the first picks a slice
\* (so that the 16 workers share the evaluation of the invariants), the second the set
KeysSeq == TLCEval(SetToSeq(NormKeys(M1c)))
NSlices == 16
\* sets of at most n key indices larger than lo (kSubset is limited to 62 elements)
RECURSIVE IdxSets(_, _)
IdxSets(n, lo) == {{}} \cup (IF n = 0 THEN {}
                             ELSE UNION {{{i} \cup T : T \in IdxSets(n - 1, i)} : i \in (lo + 1)..Len(KeysSeq)})
NextSets ==
  \/ /\ nReopen = 0 /\ key2id = {}
     /\ \E i \in 1..NSlices : nReopen' = i
     /\ UNCHANGED <<open, key2id, id2key, tag2ids, pending, cache, nextId, hist>>
  \/ /\ nReopen > 0 /\ key2id = {}
     /\ \/ (nReopen = NSlices /\ SetupFrom({}))
        \/ \E j \in {jj \in 1..Len(KeysSeq) : jj % NSlices = nReopen % NSlices} :
             \E T \in IdxSets(MaxSeries - 1, j) : SetupFrom({KeysSeq[l] : l \in {j} \cup T})
SpecSets == Init /\ [][NextSets]_vars

\* ---- simulation: random predicates ---------------------------------------------------------------------
\* (every random draw is bound once through a singleton set: LET definitions are re-evaluated per use)
Shapes == 1..8
MkNode(s, l, r) ==
  LET bin(x) == x[1] \in {"AND", "OR"}
      wl == IF bin(l) THEN <<"P", l>> ELSE l
      wr == IF bin(r) THEN <<"P", r>> ELSE r
  IN CASE s = 1 -> <<"AND", wl, wr>>
       [] s = 2 -> <<"OR", wl, wr>>
       [] s = 3 -> <<"AND", IF bin(l) /\ l[1] = "AND" THEN l ELSE wl, wr>>      \* bare left AND under AND
       [] s = 4 -> <<"OR", l, IF bin(r) /\ r[1] = "AND" THEN r ELSE wr>>         \* bare operands under OR
       [] s = 5 -> <<"P", <<"AND", wl, wr>>>>
       [] s = 6 -> <<"AND", <<"P", l>>, wr>>                                     \* parenthesised operand
       [] s = 7 -> <<"OR", wl, <<"P", r>>>>
       [] s = 8 -> l
RECURSIVE RandTree(_, _)
RandTree(d, x) ==
  IF d <= 1 THEN RandomElement(AllLeaves)
  ELSE CHOOSE t \in {MkNode(s, l, r) : s \in {RandomElement(Shapes)},
                                       l \in {RandTree(d - 1, x + 1)},
                                       r \in {RandTree(d - 1, x + 2)}} : TRUE
BatchLen == 6
SimBatch(x) == TLCEval([i \in 1..BatchLen |->
                  [m |-> RandomElement(Msts), p |-> RandTree(RandomElement({1, 2, 2, 3, 3, 3}), x + i)]])
SimBatches == {SimBatch(Len(hist) + j) : j \in 1..2}
SimCreate  == {[m |-> RandomElement(Msts), t |-> [x \in TKeys |-> RandomElement(RawVals)]] : j \in 1..3}
              \cup {it[1] : it \in {RandomElement(key2id \cup {<<[m |-> M1c, t |-> [x \in TKeys |-> NoTag]], 0>>})}}

\* ---- BFS export: every path of a tiny configuration --------------------------------------------------
BfsKeys == {[m |-> M1c, t |-> [x \in TKeys |-> NoTag]],
            [m |-> M1c, t |-> [x \in TKeys |-> IF x = "a" THEN <<>> ELSE NoTag]],
            [m |-> M1c, t |-> [x \in TKeys |-> IF x = "a" THEN vX ELSE NoTag]],
            [m |-> M1c, t |-> [x \in TKeys |-> IF x = "a" THEN vX ELSE vXY]]}
BfsBatch == << [m |-> M1c, p |-> <<"TRUE">>],
               [m |-> M1c, p |-> <<"=", "a", <<>>>>],
               [m |-> M1c, p |-> <<"!=", "a", vX>>],
               [m |-> M1c, p |-> <<"=~", "a", rCls>>],
               [m |-> M1c, p |-> <<"!~", "b", rDotPlus>>],
               [m |-> M1c, p |-> <<"OR", <<"=", "b", vXY>>, <<"P", <<"AND", <<"=", "a", vX>>, <<"=", "b", <<>>>>>>>>>>],
               [m |-> M2c, p |-> <<"TRUE">>] >>
BfsBatches == {BfsBatch}

\* ---- scripted export: fixed rich series sets, every leaf and the design trees, in chunks -------------
K(m, a, b) == [m |-> m, t |-> [x \in TKeys |-> IF x = "a" THEN a ELSE b]]
Scripts == { << K(M1c, NoTag, NoTag), K(M1c, vX, NoTag), K(M1c, vXY, vY), K(M1c, vXY1, vXY), K(M1c, vZXY1, <<>>), K(M2c, vXY, vXY) >>,
             << K(M1c, vXY12, vX), K(M1c, vY, vXY1), K(M1c, vXS, NoTag), K(M1c, vS, vXY), K(M1c, NoTag, vXY), K(M2c, NoTag, NoTag) >>,
             << K(M1c, vXY, NoTag), K(M1c, NoTag, vXY), K(M1c, vXY, vXY), K(M2c, vXY1, vS), K(M2c, vX, vX), K(M2c, vXS, vY) >> }
ScriptLen == 6
CONSTANT ScriptPredSet
ScriptPreds == TLCEval(SetToSeq(ScriptPredSet))
ChunkLen == 12
NChunks == (Len(ScriptPreds) + ChunkLen - 1) \div ChunkLen
Chunk(c) == LET lo == (c - 1) * ChunkLen + 1
                hi == IF c * ChunkLen < Len(ScriptPreds) THEN c * ChunkLen ELSE Len(ScriptPreds)
                ps == SubSeq(ScriptPreds, lo, hi)
            IN [i \in 1..(2 * Len(ps)) |-> [m |-> IF i % 2 = 1 THEN M1c ELSE M2c, p |-> ps[(i + 1) \div 2]]]
ScriptNext ==
  LET n == Len(hist)
  IN IF n < ScriptLen
       THEN \E s \in Scripts : (\A j \in 1..n : hist[j].args = s[j]) /\ Create(s[n + 1])
     ELSE IF n = ScriptLen THEN IndexFlush
     ELSE IF n = ScriptLen + 1 THEN \E c \in 1..NChunks : SearchBatch(Chunk(c))
     ELSE FALSE /\ UNCHANGED vars
SpecScript == Init /\ [][ScriptNext]_vars

Export == (Len(hist) = Depth) => PrintT(<<"TRACE", ToJson(hist)>>)
=============================================================================
